"""Shared machinery of /verif/bin/check: builds, suites, diffs, evidence."""
import fcntl, hashlib, json, os, re, shutil, subprocess, sys, time

ROOT = os.path.dirname(os.path.dirname(os.path.abspath(__file__)))
REPO = os.environ.get("VERIF_REPO", "/repo")
BUILD = os.path.join(ROOT, ".build")
COQ = os.path.join(ROOT, "coq")
OUT = os.path.join(ROOT, "out")
NPROC = int(os.environ.get("VERIF_JOBS", "16"))
HOOK_FLAGS = "--cfg rs_tftpd_verif"

class MachineryError(Exception):
    pass

class SourceMoved(Exception):
    """/repo's sources changed while a check was running: the decision is started again."""

def log(msg):
    print(f"[check] {msg}", flush=True)

def sh(cmd, timeout=1200, cwd=None, env=None, check=True, quiet=True):
    e = dict(os.environ)
    e.update({"CARGO_NET_OFFLINE": "true"})
    if env:
        e.update(env)
    p = subprocess.run(cmd, shell=isinstance(cmd, str), cwd=cwd, env=e, timeout=timeout,
                       stdout=subprocess.PIPE, stderr=subprocess.STDOUT, text=True, errors="replace")
    if check and p.returncode != 0:
        raise MachineryError(f"command failed ({p.returncode}): {cmd}\n{p.stdout[-4000:]}")
    return p

def file_hash(paths):
    h = hashlib.sha256()
    for p in sorted(paths):
        h.update(p.encode())
        try:
            with open(p, "rb") as f:
                h.update(f.read())
        except OSError:
            h.update(b"<missing>")
    return h.hexdigest()

def walk(dirpath, exts):
    out = []
    for d, _, fs in os.walk(dirpath):
        if "/target" in d or "/.build" in d:
            continue
        for f in fs:
            if f.endswith(exts):
                out.append(os.path.join(d, f))
    return out

def repo_files():
    return walk(os.path.join(REPO, "src"), (".rs",)) + [os.path.join(REPO, "Cargo.toml")]

def model_files():
    return (walk(os.path.join(COQ, "theories", "Base"), (".v",)) + walk(os.path.join(COQ, "theories", "Model"), (".v",))
            + walk(os.path.join(COQ, "theories", "Extract"), (".v",)) + [os.path.join(ROOT, "ocaml", "driver.ml")])

def harness_files():
    return walk(os.path.join(ROOT, "harness", "src"), (".rs",)) + [os.path.join(ROOT, "harness", "Cargo.toml")]

class Lock:
    def __init__(self, name):
        os.makedirs(BUILD, exist_ok=True)
        self.path = os.path.join(BUILD, name + ".lock")
    def __enter__(self):
        self.f = open(self.path, "w")
        fcntl.flock(self.f, fcntl.LOCK_EX)
        return self
    def __exit__(self, *a):
        fcntl.flock(self.f, fcntl.LOCK_UN)
        self.f.close()

# ---------------------------------------------------------------- builds

def gen_consts():
    """Regenerate Consts.v from the current source. Returns (ok, message)."""
    p = sh([sys.executable, os.path.join(ROOT, "tools", "gen_consts.py")], check=False, env={"VERIF_REPO": REPO})
    return p.returncode == 0, p.stdout.strip()

def coq_makefile():
    mk = os.path.join(COQ, "Makefile")
    cp = os.path.join(COQ, "_CoqProject")
    if not os.path.exists(mk) or os.path.getmtime(mk) < os.path.getmtime(cp):
        sh("coq_makefile -f _CoqProject -o Makefile", cwd=COQ)

def coq_make(targets, timeout=1500):
    """Full .vo build of the given targets. Returns (ok, output)."""
    coq_makefile()
    p = sh(["make", f"-j{NPROC}"] + targets, cwd=COQ, timeout=timeout, check=False)
    return p.returncode == 0, p.stdout

def build_driver():
    """Extract the model and compile the OCaml driver (cached on the model sources)."""
    d = os.path.join(BUILD, "ocaml")
    os.makedirs(d, exist_ok=True)
    key = file_hash(model_files())
    stamp = os.path.join(d, "stamp")
    if os.path.exists(stamp) and open(stamp).read() == key and os.path.exists(os.path.join(d, "driver")):
        return
    targets = sorted("theories/Model/" + f[:-2] + ".vo" for f in os.listdir(os.path.join(COQ, "theories", "Model")) if f.endswith(".v"))
    ok, out = coq_make(targets)
    if not ok:
        raise MachineryError("model does not compile:\n" + out[-3000:])
    sh(["coqc", "-Q", os.path.join(COQ, "theories"), "Tftp", os.path.join(COQ, "theories", "Extract", "Extract.v")],
       cwd=d, timeout=600)
    shutil.copy(os.path.join(ROOT, "ocaml", "driver.ml"), os.path.join(d, "driver.ml"))
    sh("ocamlfind ocamlopt -w -a -O3 -o driver model.mli model.ml driver.ml 2>/dev/null || "
       "ocamlfind ocamlopt -w -a -o driver model.mli model.ml driver.ml", cwd=d, timeout=600)
    with open(stamp, "w") as f:
        f.write(key)

def harness_bin(profile="debug"):
    return os.path.join(BUILD, "target", profile, "verif-harness")

def build_harness(profile="debug"):
    """cargo build of the harness against the current working tree of the repository, hooks on."""
    hdir = os.path.join(ROOT, "harness")
    env = {"RUSTFLAGS": HOOK_FLAGS, "VERIF_REPO": REPO}
    cmd = ["cargo", "build", "--offline", "--target-dir", os.path.join(BUILD, "target")]
    if profile == "release":
        cmd.append("--release")
    h0 = file_hash(repo_files())
    p = sh(cmd, cwd=hdir, env=env, timeout=1200, check=False)
    if file_hash(repo_files()) != h0:
        raise SourceMoved()
    if p.returncode != 0:
        raise MachineryError("harness does not build against the current tree:\n" + p.stdout[-3000:])
    BUILT["harness-" + profile] = h0

BUILT = {}   # what the binaries of this process were built from

def assert_built_from_current(what):
    """The binary about to run was built from the sources as they are now (else the decision starts again)."""
    if what in BUILT and BUILT[what] != file_hash(repo_files()):
        raise SourceMoved()

def build_repo_bins():
    """The real tftpd / tftpc binaries of the current tree (no hooks)."""
    tgt = os.path.join(BUILD, "repo-target")
    h0 = file_hash(repo_files())
    p = sh(["cargo", "build", "--offline", "--features", "client", "--bins", "--target-dir", tgt], cwd=REPO, timeout=1200, check=False)
    if file_hash(repo_files()) != h0:
        raise SourceMoved()
    if p.returncode != 0:
        raise MachineryError("repository binaries do not build:\n" + p.stdout[-3000:])
    return os.path.join(tgt, "debug", "tftpd"), os.path.join(tgt, "debug", "tftpc")

# ---------------------------------------------------------------- suites

def split_lines(path, n, outdir, stem):
    with open(path) as f:
        lines = f.readlines()
    n = max(1, min(n, len(lines)))
    # contiguous blocks keep long cases from piling into one shard less well than round-robin;
    # round-robin, remembering the original index
    shards = [[] for _ in range(n)]
    for i, l in enumerate(lines):
        shards[i % n].append((i, l))
    paths = []
    for k, sh_ in enumerate(shards):
        p = os.path.join(outdir, f"{stem}.{k}.cases")
        with open(p, "w") as f:
            f.writelines(l for _, l in sh_)
        paths.append((p, [i for i, _ in sh_]))
    return paths, len(lines)

def run_parallel(cmds, timeout, width=None):
    """Run the commands, at most [width] at a time (default: all at once); return their exit codes in order."""
    width = width or len(cmds) or 1
    deadline = time.time() + timeout
    rcs = [None] * len(cmds)
    running = {}   # index -> Popen
    nxt = 0
    while nxt < len(cmds) or running:
        while nxt < len(cmds) and len(running) < width:
            cmd, env, so, se = cmds[nxt]
            e = dict(os.environ)
            e.update(env)
            running[nxt] = subprocess.Popen(cmd, env=e, stdout=open(so, "w"), stderr=open(se, "w"))
            nxt += 1
        done = [k for k, p in running.items() if p.poll() is not None]
        for k in done:
            rcs[k] = running.pop(k).returncode
        if time.time() > deadline:
            for k, p in running.items():
                p.kill()
                p.wait()
                rcs[k] = -9
            running = {}
            for k in range(nxt, len(cmds)):
                rcs[k] = -9
            nxt = len(cmds)
        elif not done:
            time.sleep(0.02)
    return rcs

# suites whose cases leave sockets and threads behind in the harness process (in-process servers never end):
# few cases per process, so that the ephemeral port range is never exhausted
SOCKET_SUITES = {"srv": 150, "srv-rt": 1, "conc": 60, "cli": 150, "bin": 100}

def merge(paths_idx, suffix_from, suffix_to, total):
    res = [""] * total
    for p, idx in paths_idx:
        q = p[: -len(suffix_from)] + suffix_to
        try:
            with open(q) as f:
                lines = f.read().split("\n")
        except OSError:
            lines = []
        for j, i in enumerate(idx):
            res[i] = lines[j] if j < len(lines) else "<missing>"
    return res

def suite_cache_key(suite, seed, tier, count):
    return file_hash(repo_files() + harness_files() + model_files())[:24] + f"-{suite}-{seed}-{tier}-{count}"

def run_suite(suite, seed, tier, count, extra_cases=None, timeout=None, profile="debug", use_cache=True):
    """Generate the suite's cases, run implementation and model, return (cases, impl, model) line lists."""
    if timeout is None:
        # an implementation that hangs must not stall the check for long: unfinished cases read "<missing>"
        timeout = 420 if tier == "quick" else 3000
    assert_built_from_current("harness-" + profile)
    key = suite_cache_key(suite, seed, tier, count) + ("-" + profile if profile != "debug" else "")
    cdir = os.path.join(BUILD, "cache", key)
    done = os.path.join(cdir, "done.json")
    if use_cache and os.path.exists(done):
        with open(os.path.join(cdir, "cases.txt")) as f:
            cases = f.read().split("\n")[:-1]
        with open(os.path.join(cdir, "impl.txt")) as f:
            impl = f.read().split("\n")[:-1]
        with open(os.path.join(cdir, "model.txt")) as f:
            model = f.read().split("\n")[:-1]
        return cases, impl, model
    shutil.rmtree(cdir, ignore_errors=True)
    os.makedirs(cdir)
    hb = harness_bin(profile)
    binenv = {}
    if suite == "bin":
        tftpd, tftpc = build_repo_bins()
        binenv = {"VERIF_TFTPD": tftpd, "VERIF_TFTPC": tftpc}
    allcases = os.path.join(cdir, "cases.txt")
    corpus = []
    cpdir = os.path.join(ROOT, "corpus", suite)
    if os.path.isdir(cpdir):
        for fn in sorted(os.listdir(cpdir)):
            with open(os.path.join(cpdir, fn)) as f:
                corpus += [l.rstrip("\n") for l in f if l.strip() and not l.startswith("#")]
    gen = os.path.join(cdir, "gen.txt")
    pg = sh([hb, "gen", suite, str(seed), str(count), tier, gen], timeout=600, check=False)
    if pg.returncode != 0:
        # the generators call no code under test on purpose; if one dies all the same (a panic inside the library while
        # building a case), that is an observation about the tree, reported like a harness process that died
        log(f"case generator of suite {suite} ended abnormally (rc={pg.returncode})")
        return ([f"<generator of suite {suite}>"], ["<generator died: " + pg.stdout[-300:].replace("\n", " | ") + ">"], ["<no model run>"])
    with open(gen) as f:
        generated = [l.rstrip("\n") for l in f]
    with open(allcases, "w") as f:
        for l in corpus + (extra_cases or []) + generated:
            f.write(l + "\n")
    nshards = NPROC
    if suite in SOCKET_SUITES:
        with open(allcases) as f:
            ncases = sum(1 for _ in f)
        nshards = max(NPROC, -(-ncases // SOCKET_SUITES[suite]))
    shards, total = split_lines(allcases, nshards, cdir, "s")
    cmds = []
    for p, _ in shards:
        base = p[: -len(".cases")]
        cmds.append(([hb, "run", p, base + ".impl", base + ".scratch"],
                     dict({"VERIF_STDOUT": base + ".out", "VERIF_STDERR": base + ".err"}, **binenv), base + ".out", base + ".err"))
    rcs = run_parallel(cmds, timeout, width=NPROC)
    if any(rc != 0 for rc in rcs):
        # a harness process that dies (abort, stack overflow, kill) is an observation about the implementation,
        # not a machinery error: its unfinished cases read "<missing>" and show up as disagreements
        log(f"harness processes of suite {suite} ended abnormally: rcs={rcs}")
    drv = os.path.join(BUILD, "ocaml", "driver")
    cmds = []
    for p, _ in shards:
        base = p[: -len(".cases")]
        cmds.append((["bash", "-c", f"ulimit -s unlimited 2>/dev/null || ulimit -s 1000000; exec {drv} {p} {base}.model"],
                     {}, base + ".dout", base + ".derr"))
    rcs = run_parallel(cmds, timeout, width=NPROC)
    if any(rc != 0 for rc in rcs):
        raise MachineryError(f"model driver failed on suite {suite}: rcs={rcs}")
    impl = merge(shards, ".cases", ".impl", total)
    model = merge(shards, ".cases", ".model", total)
    impl, model = tolerant(impl, model)
    with open(allcases) as f:
        cases = f.read().split("\n")[:-1]
    with open(os.path.join(cdir, "impl.txt"), "w") as f:
        f.write("\n".join(impl) + "\n")
    with open(os.path.join(cdir, "model.txt"), "w") as f:
        f.write("\n".join(model) + "\n")
    for p, _ in shards:
        base = p[: -len(".cases")]
        for suf in (".cases", ".impl", ".model", ".out", ".err", ".dout", ".derr"):
            try:
                os.remove(base + suf)
            except OSError:
                pass
        shutil.rmtree(base + ".scratch", ignore_errors=True)
    assert_built_from_current("harness-" + profile)   # nothing is cached under a key the results do not belong to
    with open(done, "w") as f:
        json.dump({"suite": suite, "n": total}, f)
    prune_cache()
    return cases, impl, model

def tolerant(impl, model):
    """The workers' and the client's outcome kinds are read off their log and error texts.  When a text is not one the
    harness knows (a reworded message is no violation of anything), the kind is compared as far as it is still known:
    failed / not failed - everything on the wire is compared as before."""
    out_i, out_m = [], []
    for i, m in zip(impl, model):
        if i != m:
            mi = re.search(r"end=(other\[\S*\]|none)", i)
            mm = re.search(r"end=(\S+)", m)
            if mi and mm and (mi.group(1) == "none" or mm.group(1) != "ok"):
                i = i[:mi.start()] + "end=~" + i[mi.end():]
                m = m[:mm.start()] + "end=~" + m[mm.end():]
            if i.startswith("s=") and m.startswith("s="):
                for f in ("s", "r"):
                    a = re.search(rf"(?:^| ){f}=(\S+)", i)
                    b = re.search(rf"(?:^| ){f}=(\S+)", m)
                    if a and b and a.group(1) in ("other", "none", "unknown") and (a.group(1) in ("none", "unknown") or b.group(1) != "ok"):
                        i = i[:a.start(1)] + "~" + i[a.end(1):]
                        m = m[:b.start(1)] + "~" + m[b.end(1):]
            if "err other" in i and "err " in m:
                # configuration errors: the kind is read off the message; an unknown wording still is an error
                i = re.sub(r"\berr \w+", "err ~", i)
                m = re.sub(r"\berr \w+", "err ~", m)
            if i.startswith("res=err:other[") and m.startswith("res=err:"):
                i = re.sub(r"^res=\S+", "res=err:~", i)
                m = re.sub(r"^res=\S+", "res=err:~", m)
        out_i.append(i)
        out_m.append(m)
    return out_i, out_m

def prune_cache(keep=40):
    cdir = os.path.join(BUILD, "cache")
    try:
        ents = sorted((os.path.getmtime(os.path.join(cdir, d)), d) for d in os.listdir(cdir))
    except OSError:
        return
    for _, d in ents[:-keep]:
        shutil.rmtree(os.path.join(cdir, d), ignore_errors=True)

def run_lines(lines, workdir, profile="debug"):
    """Run a handful of case lines through implementation and model (no cache, single process)."""
    os.makedirs(workdir, exist_ok=True)
    cp = os.path.join(workdir, "cases.txt")
    with open(cp, "w") as f:
        f.write("\n".join(lines) + "\n")
    base = os.path.join(workdir, "x")
    env = {"VERIF_STDOUT": base + ".out", "VERIF_STDERR": base + ".err"}
    if any(l.startswith("bin ") for l in lines):
        tftpd, tftpc = build_repo_bins()
        env.update({"VERIF_TFTPD": tftpd, "VERIF_TFTPC": tftpc})
    rcs = run_parallel([([harness_bin(profile), "run", cp, base + ".impl", base + ".scratch"], env, base + ".out", base + ".err")], 600)
    drv = os.path.join(BUILD, "ocaml", "driver")
    sh(["bash", "-c", f"ulimit -s unlimited 2>/dev/null; exec {drv} {cp} {base}.model"], timeout=600)
    impl = open(base + ".impl").read().split("\n")[:-1] if os.path.exists(base + ".impl") else ["<crash>"] * len(lines)
    model = open(base + ".model").read().split("\n")[:-1]
    while len(impl) < len(lines):
        impl.append("<crash>")
    shutil.rmtree(base + ".scratch", ignore_errors=True)
    impl, model = tolerant(impl, model)
    return impl, model

# ---------------------------------------------------------------- proofs

def theorems_of(prop_file):
    with open(prop_file) as f:
        src = f.read()
    return re.findall(r"^\s*Theorem\s+([A-Za-z0-9_']+)", src, re.M)

FORBIDDEN = re.compile(r"\b(Admitted|admit|Axiom|Axioms|Parameter|Parameters|Conjecture|Unset\s+Guard\s+Checking|bypass_check|"
                       r"Unset\s+Positivity\s+Checking|Unset\s+Universe\s+Checking|Admit\s+Obligations|type-in-type|impredicative-set)\b")

def strip_coq_comments(src):
    out, depth, i = [], 0, 0
    while i < len(src):
        if src.startswith("(*", i):
            depth += 1
            i += 2
        elif src.startswith("*)", i) and depth > 0:
            depth -= 1
            i += 2
        else:
            if depth == 0:
                out.append(src[i])
            i += 1
    return "".join(out)

def scan_forbidden():
    """Admitted / Axiom / disabled checks anywhere in the development (comments stripped);
    Variable / Hypothesis outside a Section."""
    bad = []
    for p in walk(os.path.join(COQ, "theories"), (".v",)) + [os.path.join(COQ, "_CoqProject")]:
        with open(p) as f:
            src = strip_coq_comments(f.read())
        for m in FORBIDDEN.finditer(src):
            bad.append(f"{os.path.relpath(p, ROOT)}: {m.group(0)}")
        depth = 0
        for line in src.split("\n"):
            s = line.strip()
            if re.match(r"Section\s+\w+", s):
                depth += 1
            elif re.match(r"End\s+\w+", s) and depth > 0:
                depth -= 1
            elif depth == 0 and re.match(r"(Variable|Variables|Hypothesis|Hypotheses|Context)\b", s):
                bad.append(f"{os.path.relpath(p, ROOT)}: {s[:40]} outside a section")
    return bad

AXIOM_ALLOWLIST = set()  # DESIGN.md section 7: the development is axiom-free

def print_assumptions(prop_id, names):
    """Ask Coq for the assumptions of each pinned theorem. Returns {name: 'closed' | [axioms] | None}."""
    d = os.path.join(BUILD, "assum")
    os.makedirs(d, exist_ok=True)
    vf = os.path.join(d, f"Assum_{prop_id}.v")
    with open(vf, "w") as f:
        f.write(f"From Tftp Require Import Props.{prop_id}.\n")
        for n in names:
            f.write(f'Goal True. idtac "@@BEGIN {n}". Abort.\nPrint Assumptions {n}.\nGoal True. idtac "@@END {n}". Abort.\n')
    p = sh(["coqc", "-Q", os.path.join(COQ, "theories"), "Tftp", "-o", os.path.join(d, f"Assum_{prop_id}.vo"), vf], timeout=600, check=False)
    res = {}
    for n in names:
        m = re.search(r"@@BEGIN %s\n(.*?)@@END %s" % (re.escape(n), re.escape(n)), p.stdout, re.S)
        if not m:
            res[n] = None
            continue
        body = m.group(1)
        if "Closed under the global context" in body:
            res[n] = "closed"
        else:
            res[n] = [l.strip() for l in body.split("\n") if l.strip() and not l.startswith("Axioms:") and not l.startswith(" " * 4)]
    return res, p.stdout

# ---------------------------------------------------------------- findings / evidence

def known_findings():
    out = []
    p = os.path.join(ROOT, "KNOWN_FINDINGS.txt")
    if os.path.exists(p):
        for l in open(p):
            l = l.strip()
            m = re.match(r"finding:\s+property=(\S+)\s+signature=(\S+)\s+(.*)", l)
            if m:
                out.append({"property": m.group(1), "signature": m.group(2), "text": m.group(3)})
    return out

def write_replay(prop_id, name, obj):
    d = os.path.join(OUT, prop_id)
    os.makedirs(d, exist_ok=True)
    p = os.path.join(d, f"replay-{name}.json")
    with open(p, "w") as f:
        json.dump(obj, f, indent=1)
    return p

def write_evidence(prop_id, ev):
    d = os.path.join(ROOT, "evidence")
    os.makedirs(d, exist_ok=True)
    with open(os.path.join(d, f"{prop_id}.json"), "w") as f:
        json.dump(ev, f, indent=1)
