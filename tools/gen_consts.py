#!/usr/bin/env python3
"""Translator: regenerates coq/theories/Model/Consts.v from the current Rust source.

Only literal constants and tables are translated (control flow is hand-modelled and
tied by the correspondence suites).  Exit status 3 = a table or constant was not found
(the tie between model and source is broken)."""
import os, re, sys

REPO = os.environ.get("VERIF_REPO", "/repo")
OUT = os.path.join(os.path.dirname(os.path.abspath(__file__)), "..", "coq", "theories", "Model", "Consts.v")

class Broken(Exception):
    pass

def read(name):
    with open(os.path.join(REPO, "src", name)) as f:
        return f.read()

def num(lit):
    lit = lit.replace("_", "").strip()
    m = re.fullmatch(r"(0x[0-9a-fA-F]+|\d+)(?:u8|u16|u32|u64|usize)?", lit)
    if not m:
        raise Broken(f"not a numeric literal: {lit!r}")
    return int(m.group(1), 0)

def const(src, name, fname):
    m = re.search(r"const\s+%s\s*:\s*([A-Za-z0-9_]+)\s*=\s*([^;]+);" % re.escape(name), src)
    if not m:
        raise Broken(f"{fname}: const {name} not found")
    ty, rhs = m.group(1), m.group(2).strip()
    if ty == "Duration":
        mm = re.fullmatch(r"Duration::from_(secs|millis|micros|nanos)\((.+)\)", rhs)
        if not mm:
            raise Broken(f"{fname}: const {name}: unsupported Duration expression {rhs!r}")
        scale = {"secs": 10**9, "millis": 10**6, "micros": 10**3, "nanos": 1}[mm.group(1)]
        return num(mm.group(2)) * scale  # nanoseconds
    return num(rhs)

def block_after(src, header_re, fname):
    m = re.search(header_re, src)
    if not m:
        raise Broken(f"{fname}: {header_re!r} not found")
    i = src.index("{", m.end() - 1) if src[m.end() - 1] != "{" else m.end() - 1
    depth, j = 0, i
    while True:
        c = src[j]
        if c == "{":
            depth += 1
        elif c == "}":
            depth -= 1
            if depth == 0:
                return src[i + 1 : j]
        j += 1

OPC = {"Rrq": "OpRrq", "Wrq": "OpWrq", "Data": "OpData", "Ack": "OpAck", "Error": "OpError", "Oack": "OpOack"}
ERC = {"NotDefined": "ENotDefined", "FileNotFound": "EFileNotFound", "AccessViolation": "EAccessViolation",
       "DiskFull": "EDiskFull", "IllegalOperation": "EIllegalOperation", "UnknownId": "EUnknownId",
       "FileExists": "EFileExists", "NoSuchUser": "ENoSuchUser"}
OPT = {"BlockSize": "OBlkSize", "TransferSize": "OTSize", "Timeout": "OTimeout", "Windowsize": "OWindowSize"}

def strip_comments(s):
    return re.sub(r"//[^\n]*", "", s)

def enum_discriminants(src, enum, names, fname):
    body = strip_comments(block_after(src, r"pub\s+enum\s+%s\s*\{" % enum, fname))
    out = []
    for m in re.finditer(r"([A-Za-z]+)\s*=\s*(0x[0-9a-fA-F]+|\d+)\s*,", body):
        if m.group(1) not in names:
            raise Broken(f"{fname}: enum {enum}: unknown variant {m.group(1)}")
        out.append((names[m.group(1)], int(m.group(2), 0)))
    if len(out) != len(names):
        raise Broken(f"{fname}: enum {enum}: expected {len(names)} discriminants, found {len(out)}")
    return out

def from_u16_table(src, enum, names, fname):
    impl = block_after(src, r"impl\s+%s\s*\{" % enum, fname)
    fn = block_after(impl, r"fn\s+from_u16\s*\([^)]*\)[^{]*\{", fname)
    body = strip_comments(block_after(fn, r"match\s+\w+\s*\{", fname))
    out = []
    for m in re.finditer(r"(0x[0-9a-fA-F]+|\d+)\s*=>\s*Ok\(\s*%s::([A-Za-z]+)\s*\)" % enum, body):
        if m.group(2) not in names:
            raise Broken(f"{fname}: {enum}::from_u16: unknown variant {m.group(2)}")
        out.append((int(m.group(1), 0), names[m.group(2)]))
    arms = [a for a in re.findall(r"=>", body)]
    if len(arms) != len(out) + 1 or not re.search(r"_\s*=>\s*Err", body):
        raise Broken(f"{fname}: {enum}::from_u16: unexpected match arms")
    return out

def as_bytes_is_be(src, enum, fname):
    impl = block_after(src, r"impl\s+%s\s*\{" % enum, fname)
    fn = block_after(impl, r"fn\s+as_bytes\s*\([^)]*\)[^{]*\{", fname)
    if not re.fullmatch(r"\s*\(self as u16\)\.to_be_bytes\(\)\s*", fn):
        raise Broken(f"{fname}: {enum}::as_bytes is no longer (self as u16).to_be_bytes()")

def option_tables(src, fname):
    impl = block_after(src, r"impl\s+OptionType\s*\{", fname)
    fn = block_after(impl, r"fn\s+as_str\s*\([^)]*\)[^{]*\{", fname)
    body = strip_comments(block_after(fn, r"match\s+\w+\s*\{", fname))
    as_str = [(OPT[m.group(1)], m.group(2)) for m in re.finditer(r'OptionType::([A-Za-z]+)\s*=>\s*"([^"\\]*)"', body)]
    if len(as_str) != 4:
        raise Broken(f"{fname}: OptionType::as_str: expected 4 arms")
    impl2 = block_after(src, r"impl\s+FromStr\s+for\s+OptionType\s*\{", fname)
    fn2 = block_after(impl2, r"fn\s+from_str\s*\([^)]*\)[^{]*\{", fname)
    body2 = strip_comments(block_after(fn2, r"match\s+\w+\s*\{", fname))
    from_str = [(m.group(1), OPT[m.group(2)]) for m in re.finditer(r'"([^"\\]*)"\s*=>\s*Ok\(\s*OptionType::([A-Za-z]+)\s*\)', body2)]
    if len(re.findall(r"=>", body2)) != len(from_str) + 1:
        raise Broken(f"{fname}: OptionType::from_str: unexpected match arms")
    return as_str, from_str

def coq_bytes(s):
    return "[" + "; ".join(str(b) for b in s.encode()) + "]"

def generate():
    worker, server, socket_, packet = read("worker.rs"), read("server.rs"), read("socket.rs"), read("packet.rs")
    config, ccfg = read("config.rs"), read("client_config.rs")
    L = []
    L.append("(* GENERATED by tools/gen_consts.py from the Rust source on every check - do not edit. *)")
    L.append("From Tftp Require Import Base.Prelude Model.Types.")
    L.append("Local Open Scope N_scope.")
    def d(name, val, comment):
        L.append(f"Definition {name} : N := {val}. (* {comment} *)")
    d("max_retries", const(worker, "MAX_RETRIES", "worker.rs"), "worker.rs MAX_RETRIES")
    d("timeout_buffer_ns", const(worker, "TIMEOUT_BUFFER", "worker.rs"), "worker.rs TIMEOUT_BUFFER, ns")
    d("duplicate_delay_ns", const(worker, "DEFAULT_DUPLICATE_DELAY", "worker.rs"), "worker.rs DEFAULT_DUPLICATE_DELAY, ns")
    d("default_timeout_ns", const(server, "DEFAULT_TIMEOUT", "server.rs"), "server.rs DEFAULT_TIMEOUT, ns")
    d("default_blk", const(server, "DEFAULT_BLOCK_SIZE", "server.rs"), "server.rs DEFAULT_BLOCK_SIZE")
    d("default_ws", const(server, "DEFAULT_WINDOW_SIZE", "server.rs"), "server.rs DEFAULT_WINDOW_SIZE")
    d("min_blk", const(server, "MIN_BLOCK_SIZE", "server.rs"), "server.rs MIN_BLOCK_SIZE")
    d("max_blk", const(server, "MAX_BLOCK_SIZE", "server.rs"), "server.rs MAX_BLOCK_SIZE")
    d("max_timeout_s", const(server, "MAX_TIMEOUT", "server.rs"), "server.rs MAX_TIMEOUT, s")
    d("max_request_packet_size", const(socket_, "MAX_REQUEST_PACKET_SIZE", "socket.rs"), "socket.rs MAX_REQUEST_PACKET_SIZE")
    d("socket_default_timeout_ns", const(socket_, "DEFAULT_TIMEOUT", "socket.rs"), "socket.rs DEFAULT_TIMEOUT, ns")
    d("client_default_timeout_ns", const(ccfg, "DEFAULT_TIMEOUT", "client_config.rs"), "client_config.rs DEFAULT_TIMEOUT, ns")
    d("client_default_blk", const(ccfg, "DEFAULT_BLOCKSIZE", "client_config.rs"), "client_config.rs DEFAULT_BLOCKSIZE")
    d("client_default_ws", const(ccfg, "DEFAULT_WINDOWSIZE", "client_config.rs"), "client_config.rs DEFAULT_WINDOWSIZE")
    # u16 bound used by parse_options for windowsize
    m = re.search(r"\*value\s*==\s*0\s*\|\|\s*\*value\s*>\s*u16::MAX as usize", server)
    if not m:
        raise Broken("server.rs: windowsize range check not found")
    d("max_ws", 65535, "server.rs windowsize bound u16::MAX")
    # enums
    as_bytes_is_be(packet, "Opcode", "packet.rs")
    as_bytes_is_be(packet, "ErrorCode", "packet.rs")
    od = enum_discriminants(packet, "Opcode", OPC, "packet.rs")
    ot = from_u16_table(packet, "Opcode", OPC, "packet.rs")
    ed = enum_discriminants(packet, "ErrorCode", ERC, "packet.rs")
    et = from_u16_table(packet, "ErrorCode", ERC, "packet.rs")
    L.append("Definition opcode_as_u16 : list (opcode * N) := [%s]." % "; ".join(f"({c}, {v})" for c, v in od))
    L.append("Definition opcode_from_u16 : list (N * opcode) := [%s]." % "; ".join(f"({v}, {c})" for v, c in ot))
    L.append("Definition errcode_as_u16 : list (errcode * N) := [%s]." % "; ".join(f"({c}, {v})" for c, v in ed))
    L.append("Definition errcode_from_u16 : list (N * errcode) := [%s]." % "; ".join(f"({v}, {c})" for v, c in et))
    a, f = option_tables(packet, "packet.rs")
    L.append("Definition opt_as_str : list (opt_type * bytes) := [%s]." % "; ".join(f"({c}, {coq_bytes(s)})" for c, s in a))
    L.append("Definition opt_from_str : list (bytes * opt_type) := [%s]." % "; ".join(f"({coq_bytes(s)}, {c})" for s, c in f))
    # server configuration defaults
    dflt = block_after(config, r"impl\s+Default\s+for\s+Config\s*\{", "config.rs")
    m = re.search(r"port:\s*(\d+)\s*,", dflt)
    if not m:
        raise Broken("config.rs: default port not found")
    d("cfg_default_port", int(m.group(1)), "config.rs Default for Config: port")
    if "Ipv4Addr::LOCALHOST" not in dflt:
        raise Broken("config.rs: default ip is no longer Ipv4Addr::LOCALHOST")
    L.append("Definition cfg_default_ip : bytes := [127; 0; 0; 1]. (* Ipv4Addr::LOCALHOST *)")
    m = re.search(r"clean_on_error:\s*(true|false)\s*,", dflt)
    if not m:
        raise Broken("config.rs: default clean_on_error not found")
    L.append(f"Definition cfg_default_clean : bool := {m.group(1)}.")
    for fld in ("single_port", "read_only", "duplicate_packets", "overwrite", "receive_directory", "send_directory"):
        if not re.search(r"%s:\s*Default::default\(\)" % fld, dflt):
            raise Broken(f"config.rs: default of {fld} is no longer Default::default()")
    m = re.search(r"if\s+duplicate_packets\s*==\s*u8::MAX", config)
    if not m:
        raise Broken("config.rs: duplicate-packets rejection bound not found")
    d("dup_reject", 255, "config.rs: duplicate_packets == u8::MAX is rejected")
    cd = block_after(ccfg, r"impl\s+Default\s+for\s+ClientConfig\s*\{", "client_config.rs")
    m = re.search(r"port:\s*(\d+)\s*,", cd)
    if not m:
        raise Broken("client_config.rs: default port not found")
    d("ccfg_default_port", int(m.group(1)), "client_config.rs default port")
    m = re.search(r"clean_on_error:\s*(true|false)\s*,", cd)
    if not m:
        raise Broken("client_config.rs: default clean_on_error not found")
    L.append(f"Definition ccfg_default_clean : bool := {m.group(1)}.")
    return "\n".join(L) + "\n"

def main():
    try:
        text = generate()
    except Broken as e:
        print(f"gen_consts: TIE BROKEN: {e}", file=sys.stderr)
        return 3
    out = os.path.normpath(OUT)
    old = open(out).read() if os.path.exists(out) else None
    if old != text:
        with open(out, "w") as f:
            f.write(text)
        print(f"gen_consts: wrote {out}")
    return 0

if __name__ == "__main__":
    sys.exit(main())
