#!/usr/bin/env python3
"""tools/harmless.py [<patch> ...]: changes of /repo that preserve every property (reworded messages, restructured loops,
equivalent encoders).  Each is applied to /repo, all 18 quick checks are run, the change is undone.  A check that raises an
alarm on one of them is wrong (or demands more than its property states)."""
import json, os, subprocess, sys, time
ROOT = os.path.dirname(os.path.dirname(os.path.abspath(__file__)))
PROPS = ["C%02d" % i for i in range(1, 19)]

def sh(cmd, cwd=None, timeout=3600):
    p = subprocess.run(cmd, shell=True, cwd=cwd, timeout=timeout, stdout=subprocess.PIPE, stderr=subprocess.STDOUT, text=True, errors="replace")
    return p.returncode, p.stdout

def main():
    patches = sys.argv[1:] or sorted(os.path.join(ROOT, "harmless", f) for f in os.listdir(os.path.join(ROOT, "harmless")) if f.endswith(".diff"))
    rc, out = sh("git status --short", cwd="/repo")
    if out.strip():
        print("/repo is not clean:", out)
        return 2
    saved = {}
    for p in PROPS:
        ep = os.path.join(ROOT, "evidence", f"{p}.json")
        saved[ep] = open(ep).read() if os.path.exists(ep) else None
    res = {}
    bad = 0
    for patch in patches:
        name = os.path.basename(patch)
        rc, out = sh(f"git apply {patch}", cwd="/repo")
        if rc != 0:
            print(name, "does not apply:", out[-300:])
            return 2
        try:
            for p in PROPS:
                t = time.time()
                rc, out = sh(f"bin/check {p} --tier quick", cwd=ROOT)
                lines = [l[:200] for l in out.split("\n") if l.startswith("VIOLATION") or l.startswith("MACHINERY")]
                res.setdefault(name, {})[p] = {"exit": rc, "lines": lines}
                if rc != 0:
                    bad += 1
                print(name, p, "exit", rc, lines[:2], f"{time.time() - t:.0f}s", flush=True)
        finally:
            sh("git checkout -q -- .", cwd="/repo")
    for ep, txt in saved.items():
        if txt is not None:
            open(ep, "w").write(txt)
    rp = os.path.join(ROOT, "harmless", "results.json")
    old = json.load(open(rp)) if os.path.exists(rp) else {}
    old.update(res)
    json.dump(old, open(rp, "w"), indent=1)
    print("alarms on harmless changes:", bad)
    return 1 if bad else 0

if __name__ == "__main__":
    sys.exit(main())
