"""Per-property specification of what bin/check runs, and the decision procedure."""
import json, os, re, time
import vlib
from vlib import log

TRUSTED_BASE = [
    "Coq 8.16.1 kernel (coqc full .vo build; vm_compute used for closed finite computations; no native_compute)",
    "axioms: none (every pinned theorem must print 'Closed under the global context')",
    "hand-written Gallina model of the Rust code (Base/*.v, Model/*.v) - modelled, not verified; tied by the correspondence suites",
    "tools/gen_consts.py (regex translator Rust constants/tables -> Model/Consts.v, regenerated on every run)",
    "extraction: Require Extraction + ExtrOcamlBasic only (Extract Inductive bool/option/unit/list/prod/sumbool/sumor, "
    "Extract Inlined Constant andb/orb/fst/snd-style basics); no Extract Constant of our own; N/positive/nat stay inductive",
    "OCaml driver ocaml/driver.ml (parsing, canonical printing), Rust harness /verif/harness (scripted socket, generators), Python orchestration",
    "hook: virtual clock src/verif.rs behind cfg(rs_tftpd_verif)",
    "rustc 1.95.0, OCaml 4.13.1, Python 3",
]

# suite -> (quick count, thorough count)
COUNTS = {
    "codec-dec": (4000, 60000),
    "codec-enc": (4000, 60000),
    "wsend": (6000, 120000),
    "wsend-long": (3, 12),
    "wrecv": (4000, 120000),
    "wrecv-long": (2, 10),
    "win": (6000, 100000),
    "cfg": (3000, 60000),
    "srv": (500, 12000),
    "srv-rt": (1, 1),
    "pair": (800, 40000),
    "conc": (300, 6000),
    "cli": (250, 5000),
    "bin": (1, 1),
}

def nontrivial_rule(suite):
    return {
        "codec-dec": "distinct datagrams whose first two bytes are a valid opcode (they reach an opcode-specific parser)",
        "codec-enc": "distinct cases (packet values, 16-bit conversion inputs, lower-casing slices)",
        "wsend": "distinct scripts in which the worker performed at least one receive and one send",
        "wsend-long": "distinct scripts (each > 65 000 blocks)",
        "wrecv": "distinct scripts in which the worker performed at least one receive and one send",
        "wrecv-long": "distinct scripts (each > 65 000 blocks)",
        "win": "distinct operation sequences with at least two operations",
        "bin": "distinct invocations of the real binaries",
        "cli": "distinct client invocations that ended without a refusal",
        "conc": "distinct (client set, interleaving) pairs with at least two clients that both start",
        "pair": "distinct (configuration, file, fault schedule) triples with at least one fault",
        "srv": "distinct request histories in which the server sent at least one reply",
        "srv-rt": "distinct request histories (each takes seconds of real time) in which the server sent at least one reply",
        "cfg": "distinct argument-vector families (setting groups x 5 key-order-preserving orders) with at least two groups",
    }.get(suite, "distinct cases")

def is_nontrivial(suite, case, impl):
    if suite == "codec-dec":
        m = re.match(r"dec 000[1-6]", case)
        return bool(m)
    if suite in ("wsend", "wrecv"):
        return " r " in (" " + impl + " ") and " s" in (" " + impl)
    if suite == "win":
        return case.count(",") >= 1
    if suite in ("wsend-long", "wrecv-long"):
        return True
    if suite == "cfg":
        return case.count("|") >= 1
    if suite in ("srv", "srv-rt"):
        return "reply=0" in impl
    if suite == "pair":
        return not case.endswith(" - -")
    if suite == "conc":
        return impl.count("=got:") + impl.count("=acked") >= 2
    if suite == "cli":
        return impl.startswith("res=ok")
    return True

W_ASSUME = ["virtual clock hook (cfg rs_tftpd_verif) supplies time inside Worker::send_file; receive results are scripted",
            "regular-file reads are short only at end of file; write_all writes everything or fails (OS contract)"]
REALTIME = {"srv", "srv-rt", "conc", "cli", "bin"}

PROPS = {
    "C01": {"suites": ["wsend", "srv", "conc"], "monitor": True, "title": "download fidelity", "assumptions": W_ASSUME},
    "C02": {"suites": ["wrecv", "srv"], "monitor": True, "title": "upload fidelity", "assumptions": W_ASSUME},
    "C03": {"suites": ["srv", "bin"], "monitor": True, "title": "directory confinement",
            "assumptions": ["no symbolic links inside the served directories; Unix path branch", "loopback UDP delivers the sequential request histories"]},
    "C04": {"suites": ["pair", "wrecv", "wsend", "bin", "srv"], "monitor": True, "title": "loss tolerance",
            "assumptions": W_ASSUME + ["time-outs are delivered at quiescence only (sender first): one fair schedule of the two timers"]},
    "C05": {"suites": ["srv"], "monitor": True, "title": "listener availability",
            "assumptions": ["OS resource exhaustion (threads, descriptors, memory growth) is outside the model", "loopback UDP"]},
    "C06": {"suites": ["srv"], "monitor": True, "title": "access policy", "assumptions": ["Path::exists as modelled by the POSIX tree walk; loopback UDP"]},
    "C07": {"suites": ["wsend", "wrecv", "bin", "srv"], "monitor": True, "title": "termination", "assumptions": W_ASSUME},
    "C08": {"suites": ["wsend", "wrecv", "wsend-long", "srv-rt", "bin"], "monitor": True, "title": "window flow control", "assumptions": W_ASSUME},
    "C09": {"suites": ["srv", "bin", "conc"], "monitor": True, "title": "option negotiation", "assumptions": ["loopback UDP; retransmission intervals measured to the second on the real binary (suite bin)"]},
    "C10": {"suites": ["codec-dec"], "monitor": True,
            "title": "decoder totality"},
    "C11": {"suites": ["codec-enc", "codec-dec"], "monitor": True,
            "title": "codec round trip and wire layout"},
    "C12": {"suites": ["conc", "srv"], "monitor": True, "title": "isolation of concurrent transfers",
            "assumptions": ["kernel threads, mpsc channels and connected UDP sockets behave as the rules of Model/System.v say (sampled by real schedules, not proved)"]},
    "C13": {"suites": ["wrecv", "srv"], "monitor": True, "title": "cleanup of failed uploads",
            "assumptions": W_ASSUME + ["POSIX unlink/truncate semantics as modelled; write errors (disk full) are modelled, not induced"]},
    "C14": {"suites": ["cli", "pair", "bin", "conc"], "monitor": True, "title": "bundled client and server interoperate",
            "assumptions": ["loopback delivers the windows used (window x block size <= 128 KiB); IPv4 loopback, in-process Client::run and Server"]},
    "C15": {"suites": ["wsend-long", "wrecv-long", "srv-rt"], "monitor": True, "title": "block-number wrap-around", "assumptions": W_ASSUME},
    "C16": {"suites": ["wsend", "wrecv", "cfg", "srv", "bin"], "monitor": True, "title": "duplicate-packets mode", "assumptions": W_ASSUME},
    "C17": {"suites": ["cfg", "bin"], "monitor": True, "title": "command-line configuration",
            "assumptions": ["Path::exists and IpAddr::from_str are oracles: evaluated by the harness on every token and handed to the model",
                            "-h / --help exits the process and is not exercised in-process"]},
    "C18": {"suites": ["win"], "monitor": True, "title": "window buffer contract",
            "assumptions": ["files are real temp files opened read-only / created / read+append as in the unit tests"]},
}

def shrink_case(prop, case, still_fails, budget=80):
    """Greedy delta debugging over the comma-separated event list (last token) of a W-suite case."""
    toks = case.split(" ")
    if toks[0] not in ("send", "recv") or toks[-1] == "-":
        return case
    if len(case) > 200000:
        budget = min(budget, 10)
    evs = toks[-1].split(",")
    changed = True
    while changed and budget > 0:
        changed = False
        chunk = max(1, len(evs) // 2)
        while chunk >= 1 and budget > 0:
            i = 0
            while i < len(evs) and budget > 0:
                cand = evs[:i] + evs[i + chunk:]
                line = " ".join(toks[:-1] + [",".join(cand) if cand else "-"])
                budget -= 1
                if still_fails(line):
                    evs = cand
                    changed = True
                else:
                    i += chunk
            chunk //= 2
    return " ".join(toks[:-1] + [",".join(evs) if evs else "-"])

def run_monitor(prop, pairs, workdir):
    """pairs: list of (case, impl). Returns list of verdict strings from the extracted monitors."""
    os.makedirs(workdir, exist_ok=True)
    cp = os.path.join(workdir, "mon.cases")
    with open(cp, "w") as f:
        for c, i in pairs:
            f.write(f"mon\t{prop}\t{c}\t{i}\n")
    shards, total = vlib.split_lines(cp, vlib.NPROC if len(pairs) > 2000 else 1, workdir, "m")
    drv = os.path.join(vlib.BUILD, "ocaml", "driver")
    cmds = []
    for p, _ in shards:
        base = p[: -len(".cases")]
        cmds.append((["bash", "-c", f"ulimit -s unlimited 2>/dev/null; exec {drv} {p} {base}.model"], {}, base + ".dout", base + ".derr"))
    rcs = vlib.run_parallel(cmds, 1500)
    if any(rc != 0 for rc in rcs):
        raise vlib.MachineryError(f"monitor driver failed: {rcs}")
    res = vlib.merge(shards, ".cases", ".model", total)
    for p, _ in shards:
        base = p[: -len(".cases")]
        for suf in (".cases", ".model", ".dout", ".derr"):
            try:
                os.remove(base + suf)
            except OSError:
                pass
    return res

def decide(prop, spec, tier, seed, t0, replay=None):
    os.makedirs(vlib.OUT, exist_ok=True)
    src0 = vlib.file_hash(vlib.repo_files())   # the tree this decision is about
    violations = []      # (kind, replay_path, concrete: bool)
    known_hits = {}
    notes = []
    # 1. translator
    ok_tie, msg = vlib.gen_consts()
    if msg:
        log(msg)
    # 2. proof obligations
    bad = vlib.scan_forbidden()
    if bad:
        raise vlib.MachineryError("forbidden constructs in the Coq development: " + "; ".join(bad[:5]))
    pf = os.path.join(vlib.COQ, "theories", "Props", f"{prop}.v")
    names = vlib.theorems_of(pf)
    obligations = len(names)
    t1 = time.time()
    ok_make, make_out = (False, "translator failed: " + msg) if not ok_tie else vlib.coq_make([f"theories/Props/{prop}.vo"])
    log(f"proof build {'ok' if ok_make else 'FAILED'} in {time.time() - t1:.1f}s ({obligations} pinned theorems)")
    assum, discharged, axioms_seen = {}, 0, []
    if ok_make:
        assum, raw = vlib.print_assumptions(prop, names)
        for n in names:
            a = assum.get(n)
            if a == "closed":
                discharged += 1
            elif isinstance(a, list) and all(x.split(":")[0].strip() in vlib.AXIOM_ALLOWLIST for x in a):
                discharged += 1
                axioms_seen += a
            else:
                notes.append(f"theorem {n}: assumptions not acceptable: {a}")
    # thorough tier: the independent checker re-checks the compiled closure and lists its axioms
    coqchk_report = None
    if ok_make and tier == "thorough":
        t1 = time.time()
        p = vlib.sh(["coqchk", "-silent", "-o", "-Q", os.path.join(vlib.COQ, "theories"), "Tftp", f"Tftp.Props.{prop}"],
                    cwd=vlib.COQ, timeout=3000, check=False)
        m = re.search(r"\* Axioms:(.*?)\n\s*\n", p.stdout, re.S)
        axioms = m.group(1).strip() if m else "?"
        flags = all(re.search(k + r":\s*<none>", p.stdout) for k in ("type-in-type", "unsafe \\(co\\)fixpoints", "positivity is assumed"))
        coqchk_report = {"exit": p.returncode, "axioms": axioms, "no_unsafe_flags": bool(flags), "wall_s": round(time.time() - t1, 1)}
        log(f"coqchk: exit {p.returncode}, axioms {axioms} in {time.time() - t1:.0f}s")
        if p.returncode != 0 or axioms != "<none>" or not flags:
            notes.append(f"coqchk does not accept the closure of Props/{prop}.vo: {p.stdout[-600:]}")
            discharged = 0
    broken_proof = (not ok_make) or discharged != obligations
    # 3. builds for the correspondence
    if replay is None:
        vlib.build_driver()
    else:
        vlib.build_driver()
    vlib.build_harness()
    # replay mode
    if replay:
        return do_replay(prop, spec, replay)
    # 4. suites
    suite_stats, samples = {}, []
    evaluations, nontrivial, mon_evals = 0, 0, 0
    diffs = []
    mon_fails = []
    gen_died = []
    for suite in spec["suites"]:
        count = COUNTS[suite][0 if tier == "quick" else 1]
        t1 = time.time()
        cases, impl, model = vlib.run_suite(suite, seed, tier, count)
        n = len(cases)
        if n == 1 and cases[0].startswith("<generator"):
            # the case generator died inside the library: nothing can be run; reported as a broken correspondence
            gen_died.append((suite, impl[0]))
            suite_stats[suite] = {"cases": 0, "distinct": 0, "distinct_nontrivial": 0, "disagreements": 1,
                                  "rule": nontrivial_rule(suite), "wall_s": round(time.time() - t1, 1), "generator": impl[0][:400]}
            continue
        evaluations += n
        seen = set()
        nt = 0
        for c, i in zip(cases, impl):
            if c not in seen:
                seen.add(c)
                if is_nontrivial(suite, c, i):
                    nt += 1
        nontrivial += nt
        d = [(k, cases[k], impl[k], model[k]) for k in range(n) if impl[k] != model[k]]
        diffs += [(suite,) + x for x in d]
        st = {"cases": n, "distinct": len(seen), "distinct_nontrivial": nt, "disagreements": len(d),
              "rule": nontrivial_rule(suite), "wall_s": round(time.time() - t1, 1)}
        # outcome distribution
        dist = {}
        for i in impl:
            m = re.search(r"end=(\S+)", i)
            k = m.group(1) if m else (i.split(" ")[0] if i else "empty")
            if len(k) > 24:
                k = "other"
            dist[k] = dist.get(k, 0) + 1
        st["distribution"] = dict(sorted(dist.items(), key=lambda kv: -kv[1])[:12])
        if spec.get("monitor"):
            t2 = time.time()
            verdicts = run_monitor(prop, list(zip(cases, impl)), os.path.join(vlib.BUILD, "mon", prop))
            mon_evals += sum(1 for v in verdicts if v != "skip")
            st["monitor"] = {"pass": sum(1 for v in verdicts if v == "pass"), "skip": sum(1 for v in verdicts if v == "skip"),
                             "fail": sum(1 for v in verdicts if v.startswith("fail")),
                             "known": sum(1 for v in verdicts if v.startswith("known")), "wall_s": round(time.time() - t2, 1)}
            for k, v in enumerate(verdicts):
                if v.startswith("fail") or v.startswith("driver-error"):
                    mon_fails.append((suite, k, cases[k], impl[k], v))
                elif v.startswith("known:"):
                    known_hits.setdefault(v[6:], (suite, cases[k]))
        # suites on real sockets and real time: a case that disagrees or fails its monitor is run once more on its own;
        # if the second run agrees and passes, it was load-dependent timing and is logged as flaky, not reported
        if suite in REALTIME:
            suspects = sorted({k for (s_, k, *_r) in diffs if s_ == suite} | {k for (s_, k, *_r) in mon_fails if s_ == suite})
            flaky = []
            # only a handful of isolated cases can be put down to load; a systematic failure is never retried away
            for k in (suspects if len(suspects) <= 3 else []):
                impl2, model2 = vlib.run_lines([cases[k]], os.path.join(vlib.BUILD, "retry"))
                v2 = run_monitor(prop, [(cases[k], impl2[0])], os.path.join(vlib.BUILD, "retry"))[0] if spec.get("monitor") else "pass"
                if impl2[0] == model2[0] and not (v2.startswith("fail") or v2.startswith("driver-error")):
                    flaky.append(k)
            if flaky:
                diffs = [x for x in diffs if not (x[0] == suite and x[1] in flaky)]
                mon_fails = [x for x in mon_fails if not (x[0] == suite and x[1] in flaky)]
                st["flaky_cases_not_reported"] = [cases[k][:300] for k in flaky]
                st["disagreements"] = sum(1 for x in diffs if x[0] == suite)
                log(f"suite {suite}: {len(flaky)} case(s) differed once and agreed when run again on their own (logged as flaky)")
        suite_stats[suite] = st
        for k in (0, n // 2, n - 1):
            if 0 <= k < n:
                samples.append({"suite": suite, "case": cases[k][:600], "implementation": impl[k][:600], "model": model[k][:600]})
        log(f"suite {suite}: {n} cases, {len(d)} disagreements, {st.get('monitor', {})} in {time.time() - t1:.1f}s")
    # the working tree must not have moved under the check: a verdict is about one tree
    if vlib.file_hash(vlib.repo_files()) != src0:
        raise vlib.SourceMoved()
    # 5. verdict
    def still_fails_mon(line):
        impl, _ = vlib.run_lines([line], os.path.join(vlib.BUILD, "shrink"))
        v = run_monitor(prop, [(line, impl[0])], os.path.join(vlib.BUILD, "shrink"))
        return v[0].startswith("fail")
    def still_differs(line):
        impl, model = vlib.run_lines([line], os.path.join(vlib.BUILD, "shrink"))
        return impl[0] != model[0]
    reported = 0
    for suite, k, c, i, v in mon_fails[:3]:
        small = shrink_case(prop, c, still_fails_mon)
        impl1, model1 = vlib.run_lines([small], os.path.join(vlib.BUILD, "shrink"))
        v1 = run_monitor(prop, [(small, impl1[0])], os.path.join(vlib.BUILD, "shrink"))[0]
        rp = vlib.write_replay(prop, f"monitor-{suite}-{reported}", {
            "property": prop, "kind": "monitor-failed-on-implementation", "suite": suite, "case": small, "original_case": c,
            "implementation": impl1[0], "model": model1[0], "monitor": v1,
            "replay_cmd": f"bin/check {prop} --replay <this file>"})
        violations.append(("monitor", rp, True))
        reported += 1
    for suite, msg in gen_died:
        rp = vlib.write_replay(prop, f"generator-{suite}", {
            "property": prop, "kind": "correspondence-broken", "suite": suite,
            "note": "the case generator of this suite died inside the library under test, no case could be run", "output": msg})
        violations.append(("correspondence", rp, False))
    if not mon_fails and (diffs or broken_proof):
        # a proof obligation or the correspondence is broken but no monitor failed: the replay names what no longer checks
        if diffs:
            suite, k, c, i, m = diffs[0]
            small = shrink_case(prop, c, still_differs)
            impl1, model1 = vlib.run_lines([small], os.path.join(vlib.BUILD, "shrink"))
            rp = vlib.write_replay(prop, f"correspondence-{suite}", {
                "property": prop, "kind": "correspondence-broken", "suite": suite, "case": small, "original_case": c,
                "implementation": impl1[0], "model": model1[0], "disagreements_in_suite": sum(1 for x in diffs if x[0] == suite),
                "note": "model and implementation differ on this case; no monitor of the property failed on any explored case"})
            violations.append(("correspondence", rp, False))
        if broken_proof:
            rp = vlib.write_replay(prop, "proof", {
                "property": prop, "kind": "proof-obligation-broken",
                "theorems": names, "assumptions": {k: v for k, v in assum.items()},
                "build_output_tail": make_out[-3000:] if not ok_make else "", "notes": notes})
            violations.append(("proof", rp, False))
    elif mon_fails and broken_proof:
        notes.append("proof build broken as well")
    # known findings
    for kf in vlib.known_findings():
        if kf["property"] == prop and kf["signature"] in known_hits:
            print(f"KNOWN-FINDING: property={prop} {kf['signature']} {kf['text']}", flush=True)
    for sig in known_hits:
        if not any(kf["property"] == prop and kf["signature"] == sig for kf in vlib.known_findings()):
            suite, c = known_hits[sig]
            rp = vlib.write_replay(prop, f"unlisted-{sig}", {"property": prop, "kind": "unlisted-finding", "signature": sig, "suite": suite, "case": c})
            violations.append(("unlisted", rp, True))
    ev = {
        "property_id": prop, "tier": tier, "seed": seed, "level": "proof",
        "coverage": {
            "obligations": obligations, "discharged": discharged if ok_make else 0,
            "checker_cmd": f"make -C /verif/coq theories/Props/{prop}.vo (coqc 8.16.1, full .vo) + Print Assumptions on every pinned theorem",
            "trusted_base": TRUSTED_BASE,
            "theorems": names, "assumptions": {k: (v if v == "closed" else v) for k, v in assum.items()},
            "translator": msg or "Consts.v up to date with the source",
            "coqchk": coqchk_report if coqchk_report is not None else "thorough tier only",
            "evaluations": evaluations, "distinct_nontrivial": nontrivial,
            "rule": "; ".join(f"{s}: {nontrivial_rule(s)}" for s in spec["suites"]),
            "monitor_evaluations_on_implementation_traces": mon_evals,
            "disagreements_checked": len(diffs),
            "suites": suite_stats, "samples": samples[:8],
            "explanation": "theorems are about the Coq model; the suites compare model and implementation on the same generated cases "
                           "(differential) and run the Coq-extracted monitors on the implementation's own traces",
        },
        "assumptions": spec.get("assumptions", []) + ["see DESIGN.md section 7 (trusted base) and section 8 (runtime residue)"],
        "wall_s": round(time.time() - t0, 1),
        "violations": len(violations),
    }
    if notes:
        ev["coverage"]["notes"] = notes
    if vlib.file_hash(vlib.repo_files()) != src0:
        raise vlib.SourceMoved()
    vlib.write_evidence(prop, ev)
    if violations:
        for kind, rp, concrete in violations:
            print(f"VIOLATION property={prop} replay={rp}" + ("" if concrete else " no-failing-input-found"), flush=True)
        return 1
    log(f"{prop}: {discharged}/{obligations} obligations discharged, {evaluations} cases, 0 violations, {time.time() - t0:.1f}s")
    return 0

def do_replay(prop, spec, path):
    with open(path) as f:
        r = json.load(f)
    if "case" not in r:
        print(json.dumps(r, indent=1)[:3000])
        print("this replay names a proof obligation; re-run the check to rebuild it")
        return 1
    impl, model = vlib.run_lines([r["case"]], os.path.join(vlib.BUILD, "replay"))
    print("case:           ", r["case"][:2000])
    print("implementation: ", impl[0][:2000])
    print("model:          ", model[0][:2000])
    v = "n/a"
    if spec.get("monitor"):
        v = run_monitor(prop, [(r["case"], impl[0])], os.path.join(vlib.BUILD, "replay"))[0]
        print("monitor:        ", v)
    bad = v.startswith("fail") or impl[0] != model[0]
    if bad:
        print(f"VIOLATION property={prop} replay={path}" + ("" if v.startswith("fail") else " no-failing-input-found"))
    return 1 if bad else 0
