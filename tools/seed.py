#!/usr/bin/env python3
"""Seeded-change bookkeeping (sensitivity audit; not a registered check).

  seed.py confirm <worktree> <mutant-dir> <seed-id> <property> : in the scratch worktree confirm that the patch compiles,
        passes the 42 baseline tests, that the demonstration fails with it and passes without it; on success store it as
        /verif/seeded/<seed-id>/{patch.diff,demo.rs,meta.json,notes.md}
  seed.py run <seed-id> <Cxx> [<Cxx> ...] : apply the stored patch to /repo, run the quick checks, undo the patch, print and
        record what each check reported (seeded/<seed-id>/detect.json)
"""
import json, os, re, shutil, subprocess, sys, time

ROOT = os.path.dirname(os.path.dirname(os.path.abspath(__file__)))
SEEDED = os.path.join(ROOT, "seeded")
ENV = dict(os.environ, CARGO_NET_OFFLINE="true")

def sh(cmd, cwd=None, timeout=1800, env=None):
    p = subprocess.run(cmd, shell=True, cwd=cwd, env=env or ENV, timeout=timeout, stdout=subprocess.PIPE, stderr=subprocess.STDOUT, text=True, errors="replace")
    return p.returncode, p.stdout

def confirm(wt, mdir, sid, prop):
    patch = os.path.join(mdir, "patch.diff")
    demo = os.path.join(mdir, "demo.rs")
    log = {}
    rc, out = sh("git checkout -q -- . && git status --short", cwd=wt)
    rc, out = sh(f"git apply --check {patch}", cwd=wt)
    if rc != 0:
        return False, "patch does not apply: " + out[-400:]
    sh(f"git apply {patch}", cwd=wt)
    try:
        rc, out = sh("cargo build --offline --features client 2>&1 | tail -3", cwd=wt)
        log["build"] = out.strip()[-300:]
        rc, out = sh("cargo test --workspace --no-fail-fast --offline 2>&1 | grep -E '^test result|FAILED|failed' | head -8", cwd=wt)
        log["baseline_with_patch"] = out.strip()
        m = re.search(r"test result: ok\. (\d+) passed; 0 failed", out)
        if not m or int(m.group(1)) != 42:
            return False, "baseline does not pass with the patch: " + out[-500:]
        os.makedirs(os.path.join(wt, "tests"), exist_ok=True)
        shutil.copy(demo, os.path.join(wt, "tests", "demo_mut.rs"))
        flags = "--cfg rs_tftpd_verif" if "rs_tftpd_verif" in open(os.path.join(mdir, "notes.md")).read() and "RUSTFLAGS" in open(os.path.join(mdir, "notes.md")).read() else ""
        env = dict(ENV)
        rc1, out1 = sh("cargo test --offline --features client --test demo_mut 2>&1 | tail -15", cwd=wt, env=env, timeout=900)
        log["demo_with_patch"] = out1.strip()[-600:]
        failed_with = ("test result: FAILED" in out1) or ("panicked" in out1 and "test result: ok" not in out1)
        sh(f"git apply -R {patch}", cwd=wt)
        rc2, out2 = sh("cargo test --offline --features client --test demo_mut 2>&1 | tail -8", cwd=wt, env=env, timeout=900)
        log["demo_without_patch"] = out2.strip()[-400:]
        passes_without = "test result: ok" in out2 and "FAILED" not in out2
        if not failed_with:
            return False, "demonstration does not fail with the patch: " + out1[-400:]
        if not passes_without:
            return False, "demonstration does not pass without the patch: " + out2[-400:]
    finally:
        sh("git checkout -q -- . ; rm -f tests/demo_mut.rs", cwd=wt)
    d = os.path.join(SEEDED, sid)
    os.makedirs(d, exist_ok=True)
    shutil.copy(patch, os.path.join(d, "patch.diff"))
    shutil.copy(demo, os.path.join(d, "demo.rs"))
    notes = open(os.path.join(mdir, "notes.md")).read()
    open(os.path.join(d, "notes.md"), "w").write(notes)
    first = [l for l in notes.split("\n") if l.strip() and not l.startswith("#")]
    meta = {"id": sid, "breaks_property": prop,
            "needs_to_manifest": "see notes.md (written by the independent sub-agent that produced the change)",
            "summary": " ".join(first[:3])[:600],
            "confirmed": {"how": "tools/seed.py confirm in a scratch worktree of /repo (removed afterwards): git apply; cargo build --offline --features client; "
                                 "cargo test --workspace --no-fail-fast --offline (42 passed); demo as tests/demo_mut.rs fails with the patch and passes without it",
                          "log": log}}
    json.dump(meta, open(os.path.join(d, "meta.json"), "w"), indent=1)
    return True, "confirmed and stored in " + d

def run(sid, props):
    d = os.path.join(SEEDED, sid)
    patch = os.path.join(d, "patch.diff")
    rc, out = sh("git status --short", cwd="/repo")
    if out.strip():
        print("/repo is not clean:", out)
        return 2
    rc, out = sh(f"git apply {patch}", cwd="/repo")
    if rc != 0:
        print("cannot apply:", out)
        return 2
    res = {}
    # evidence files describe the unchanged tree: what a run on a changed tree writes is put back afterwards
    saved = {}
    for p in props:
        ep = os.path.join(ROOT, "evidence", f"{p}.json")
        saved[ep] = open(ep).read() if os.path.exists(ep) else None
    try:
        for p in props:
            t = time.time()
            rc, out = sh(f"bin/check {p} --tier quick", cwd=ROOT, timeout=3000)
            lines = [l for l in out.split("\n") if l.startswith("VIOLATION") or l.startswith("MACHINERY") or l.startswith("KNOWN")]
            res[p] = {"exit": rc, "lines": lines, "wall_s": round(time.time() - t, 1)}
            print(sid, p, "exit", rc, lines[:3], f"{time.time() - t:.0f}s", flush=True)
    finally:
        sh("git checkout -q -- .", cwd="/repo")
        for ep, txt in saved.items():
            if txt is not None:
                open(ep, "w").write(txt)
    pth = os.path.join(d, "detect.json")
    old = json.load(open(pth)) if os.path.exists(pth) else {}
    old.update(res)
    json.dump(old, open(pth, "w"), indent=1)
    return 0

if __name__ == "__main__":
    if sys.argv[1] == "confirm":
        ok, msg = confirm(*sys.argv[2:6])
        print(("OK " if ok else "REJECTED ") + msg)
        sys.exit(0 if ok else 1)
    elif sys.argv[1] == "run":
        sys.exit(run(sys.argv[2], sys.argv[3:]))
