#!/usr/bin/env python3
"""coqgoal.py <file.v> <line> [<char>]: show the proof state just before the sentence at <line>:<char> (debug aid)."""
import sys, subprocess, os, re
f, line = sys.argv[1], int(sys.argv[2])
ch = int(sys.argv[3]) if len(sys.argv) > 3 else 0
src = open(f).read().split("\n")
head = "\n".join(src[: line - 1]) + "\n" + src[line - 1][:ch]
tmp = "/verif/.build/goal/Goal_tmp.v"
os.makedirs(os.path.dirname(tmp), exist_ok=True)
open(tmp, "w").write(head + "\nShow.\nAdmitted.\n")
p = subprocess.run(["coqc", "-Q", "/verif/coq/theories", "Tftp", "-w", "-all", tmp], capture_output=True, text=True, timeout=300)
out = p.stdout + p.stderr
print(out[-6000:])
