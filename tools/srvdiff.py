import sys,time
sys.path.insert(0,'/verif/tools')
import vlib
vlib.build_driver(); vlib.build_harness()
t=time.time()
n=int(sys.argv[1]) if len(sys.argv)>1 else 300
cases,impl,model=vlib.run_suite('srv',int(sys.argv[2]) if len(sys.argv)>2 else 1,'quick',n,use_cache=False)
d=[(c,i,m) for c,i,m in zip(cases,impl,model) if i!=m]
print('srv',len(cases),'diffs',len(d),round(time.time()-t,1))
def show(c,i,m):
    cs=c.split(' ')
    it=i.split(' '); mt=m.split(' ')
    for k in range(max(len(it),len(mt))):
        a=it[k] if k<len(it) else '<none>'; b=mt[k] if k<len(mt) else '<none>'
        if a!=b:
            print(' C',cs[1],cs[2],cs[4][:700]); print('   tok',k,'I',a[:400]); print('         M',b[:400]); break
seen=set()
for c,i,m in d:
    it=i.split(' '); mt=m.split(' ')
    key=None
    for k in range(max(len(it),len(mt))):
        a=it[k] if k<len(it) else '<none>'; b=mt[k] if k<len(mt) else '<none>'
        if a!=b: key=(a[:12],b[:12]); break
    if key in seen: continue
    seen.add(key); show(c,i,m)
    if len(seen)>14: break
