#!/usr/bin/env python3
"""Validate MANIFEST.json and evidence files against the schemas (needs jsonschema: run with python3-vt)."""
import json, sys, glob
import jsonschema
s = json.load(open('/root/.vp/EVIDENCE.schema.json'))
for p in sorted(glob.glob('/verif/evidence/*.json')):
    jsonschema.validate(json.load(open(p)), s)
    print(p, 'valid')
jsonschema.validate(json.load(open('/verif/MANIFEST.json')), json.load(open('/root/.vp/MANIFEST.schema.json')))
print('manifest valid')
