//! Seeded case generators (one splitmix64 state per suite; every choice derives from it).

use crate::util::*;
use tftpd::{ErrorCode, OptionType, Packet, TransferOption};

const SEC: u64 = 1_000_000_000;

fn ack(n: u64) -> Vec<u8> {
    raw_ack((n % 65536) as u16)
}

fn data(n: u64, payload: Vec<u8>) -> Vec<u8> {
    raw_data((n % 65536) as u16, &payload)
}

fn stray(rng: &mut Rng) -> Vec<u8> {
    match rng.below(7) {
        0 => raw_oack(&[("blksize", "512")]),
        1 => vec![0, 1, b'x', 0, b'o', b'c', b't', b'e', b't', 0],
        2 => vec![0, 9, 1, 2],
        3 => vec![0],
        4 => {
            // short, or under an opcode whose high byte is not zero (no TFTP packet, whatever the low byte says)
            let v: &[&[u8]] = &[&[0, 4, 7], &[1, 4, 0, 1], &[2, 4, 0, 0], &[255, 3, 0, 1, 9, 9], &[1, 5, 0, 0, 0], &[1, 4, 0, 2], &[1, 4, 0, 3]];
            v[rng.below(v.len() as u64) as usize].to_vec()
        }
        5 => {
            let n = rng.range(0, 40) as usize;
            rng.bytes(n)
        }
        _ => vec![0, 1, b'a', 0xff, 0, b'o', 0],
    }
}

fn ev_d(delay: u64, raw: &[u8]) -> String {
    format!("d{}:{}", delay, hex(raw))
}

fn pick_delay(rng: &mut Rng, tmo: u64) -> u64 {
    match rng.below(12) {
        0 => tmo - 1,
        1 => tmo,
        2 => tmo + 1,
        3 => tmo / 2,
        4 => rng.below(tmo),
        5 => 2 * tmo,
        _ => 0,
    }
}

fn pick_blk(rng: &mut Rng) -> u64 {
    *rng.pick(&[8u64, 8, 8, 9, 16, 16, 100, 512, 512, 1468])
}

fn pick_ws(rng: &mut Rng) -> u64 {
    match rng.below(20) {
        0 => 65535,
        1 => 65534,
        2 => 16,
        3 => 64,
        _ => rng.range(1, 8),
    }
}

fn pick_size(rng: &mut Rng, blk: u64, ws: u64) -> u64 {
    let k = match rng.below(6) {
        0 => 0,
        1 => 1,
        2 => ws.min(64),
        3 => ws.min(64) + 1,
        4 => 2 * ws.min(32),
        _ => rng.range(0, 12),
    };
    match rng.below(5) {
        0 => k * blk,
        1 => (k * blk).saturating_sub(1),
        2 => k * blk + 1,
        3 => k * blk + rng.below(blk),
        _ => k * blk + blk / 2,
    }
}

fn pick_fails(rng: &mut Rng, horizon: u64) -> String {
    if !rng.chance(1, 6) {
        return "-".into();
    }
    let n = rng.range(1, 3);
    let mut v: Vec<u64> = (0..n).map(|_| rng.below(horizon.max(1))).collect();
    v.sort();
    v.dedup();
    v.iter().map(|x| x.to_string()).collect::<Vec<_>>().join(",")
}

fn join(evs: &[String]) -> String {
    if evs.is_empty() {
        "-".into()
    } else {
        evs.join(",")
    }
}

/// One W-SEND case: a mostly conformant peer for the case's file, with injected faults.
pub fn gen_send(rng: &mut Rng) -> String {
    let blk = pick_blk(rng);
    let ws = pick_ws(rng);
    let tmo = *rng.pick(&[SEC, SEC, SEC, 2 * SEC, 255 * SEC]);
    let rep = *rng.pick(&[1u64, 1, 1, 1, 1, 1, 2, 2, 3, 4, 7, 9]);
    // every copy after the first costs a real 1 ms sleep in the implementation: keep duplicate-mode cases small
    let ws = if rep > 1 { ws.min(if rep > 3 { 2 } else { 4 }) } else { ws };
    let check = rng.chance(1, 4);
    let size = if rep > 1 { pick_size(rng, blk, ws).min(blk * if rep > 3 { 3 } else { 8 }) } else { pick_size(rng, blk, ws) };
    let seed = rng.below(256);
    let nblk = size / blk + 1;
    let fault_rate = *rng.pick(&[0u64, 0, 5, 15, 40]);
    // a peer that acknowledges every copy it receives (duplicate-packets mode on the other side too)
    let ack_copies = if rep > 1 && rng.chance(1, 2) { rep } else { 1 };
    let mut evs: Vec<String> = vec![];
    if check {
        match rng.below(12) {
            0 => evs.push(ev_d(0, &raw_error_variant(0, rng.below(6)))),
            1 => evs.push(ev_d(0, &ack(rng.range(1, 3)))),
            2 => evs.push(format!("e{}", tmo)),
            3 => evs.push(ev_d(0, &stray(rng))),
            _ => evs.push(ev_d(pick_delay(rng, tmo), &ack(0))),
        }
    }
    let mut acked: u64 = 0; // absolute number of the last block the peer has acknowledged
    let mut budget = 60;
    while acked < nblk && budget > 0 {
        budget -= 1;
        let hi = (acked + ws).min(nblk);
        if rng.below(100) < fault_rate {
            let d = pick_delay(rng, tmo);
            match rng.below(12) {
                0 => evs.push(format!("e{}", tmo)),
                1 => evs.push(format!("e{}", d)),
                2 => evs.push(ev_d(d, &ack(acked))),                                  // duplicate
                3 => evs.push(ev_d(d, &ack(acked + 65536 - rng.range(1, 3)))),        // stale
                4 => evs.push(ev_d(d, &ack(hi + rng.range(1, 3)))),                   // beyond the window
                5 => evs.push(ev_d(d, &ack(rng.below(65536)))),                       // bogus
                6 => evs.push(ev_d(d, &stray(rng))),
                7 => {
                    let mut a = ack(hi);
                    a.extend(std::iter::repeat(0xaa).take(rng.range(1, 600) as usize)); // trailing bytes / oversize
                    evs.push(ev_d(d, &a));
                    acked = hi;
                }
                8 => {
                    evs.push(ev_d(d, &raw_error_variant(3, rng.below(6))));
                    break;
                }
                9 => evs.push(ev_d(d, &data(acked + 1, vec![1, 2, 3]))),
                _ => {
                    let k = rng.range(acked + 1, hi); // partial (or full) acknowledgement
                    evs.push(ev_d(d, &ack(k)));
                    acked = k;
                }
            }
        } else {
            let d = if rng.chance(1, 10) { pick_delay(rng, tmo) } else { 0 };
            if ack_copies > 1 {
                // one ACK per copy of every block of the window: all but the last are stale or partial
                for b in acked + 1..=hi {
                    for c in 0..ack_copies {
                        if !(b == hi && c == ack_copies - 1) {
                            evs.push(ev_d(0, &ack(b)));
                        }
                    }
                }
            }
            evs.push(ev_d(d, &ack(hi)));
            acked = hi;
        }
    }
    if rng.chance(1, 8) {
        evs.push(ev_d(0, &ack(acked))); // something after the end
    }
    let fails = pick_fails(rng, (nblk * rep).min(40));
    format!("send {blk} {ws} {tmo} {rep} {} P{size}:{seed} {fails} {}", check as u8, join(&evs))
}

/// A long W-SEND run across block-number wrap-around, with a few faults near the wrap.
pub fn gen_send_long(rng: &mut Rng, nblocks: u64) -> String {
    let blk = 8u64;
    let ws = *rng.pick(&[1u64, 3, 7, 64, 1000, 65534, 65535]);
    let tmo = SEC;
    let size = (nblocks - 1) * blk + rng.below(blk);
    let seed = rng.below(256);
    let nblk = size / blk + 1;
    let mut evs: Vec<String> = vec![];
    let mut acked = 0u64;
    while acked < nblk {
        let hi = (acked + ws).min(nblk);
        let near_wrap = (acked % 65536) + 2 * ws + 4 >= 65536 || (acked % 65536) < 4;
        if near_wrap && rng.chance(1, 3) {
            match rng.below(5) {
                0 => evs.push(format!("e{}", tmo)),
                1 => evs.push(ev_d(0, &ack(acked))),
                2 => evs.push(ev_d(0, &ack(acked + 65536 - 1))),
                3 => evs.push(ev_d(0, &ack(hi + 1))),
                _ => {
                    let k = rng.range(acked + 1, hi);
                    evs.push(ev_d(0, &ack(k)));
                    acked = k;
                }
            }
        } else {
            evs.push(ev_d(0, &ack(hi)));
            let crossed = acked < 65536 && hi >= 65536 || acked < 131072 && hi >= 131072;
            acked = hi;
            if crossed {
                evs.push(ev_d(0, &ack(hi)));                 // duplicate of the ACK that crossed the wrap
                evs.push(ev_d(0, &ack(hi + 65536 - 1)));     // stale: one behind the window front
                evs.push(ev_d(0, &ack(65535)));
            }
        }
    }
    format!("send {blk} {ws} {tmo} 1 0 P{size}:{seed} - {}", join(&evs))
}

/// One W-RECV case: a conformant sender's DATA stream for a pattern file, with faults.
pub fn gen_recv(rng: &mut Rng) -> String {
    let blk = pick_blk(rng);
    let ws = pick_ws(rng);
    let tmo = SEC;
    let rep = *rng.pick(&[1u64, 1, 1, 1, 1, 1, 2, 2, 3, 4, 7]);
    let ws = if rep > 1 { ws.min(4) } else { ws };
    let dup_sender = if rng.chance(1, 4) { rng.range(2, 4) } else { 1 }; // the sender repeats every DATA
    let clean = !rng.chance(1, 4);
    let size = pick_size(rng, blk, ws);
    let seed = rng.below(256);
    // one case in eight: a file of one repeated byte (adjacent blocks, also across window boundaries, are identical)
    let content = if rng.chance(1, 8) { vec![*rng.pick(&[0u8, 0xff, 0x41]); size as usize] } else { pattern(seed, size) };
    let nblk = size / blk + 1;
    let fault_rate = *rng.pick(&[0u64, 0, 5, 15, 40]);
    let chunk = |k: u64| -> Vec<u8> {
        let lo = ((k - 1) * blk).min(size) as usize;
        let hi = (k * blk).min(size) as usize;
        content[lo..hi].to_vec()
    };
    let mut evs: Vec<String> = vec![];
    let mut k = 1u64;
    let mut budget = 80;
    let mut aborted = false;
    while k <= nblk && budget > 0 {
        budget -= 1;
        if rng.below(100) < fault_rate {
            match rng.below(14) {
                0 => evs.push(format!("e{}", tmo)),
                1 => {
                    k += 1; // a dropped block
                }
                2 => {
                    evs.push(ev_d(0, &data(k, chunk(k)))); // duplicate
                    evs.push(ev_d(0, &data(k, chunk(k))));
                    k += 1;
                }
                3 => {
                    if k > 1 {
                        let j = rng.range(1, k - 1);
                        evs.push(ev_d(0, &data(j, chunk(j)))); // an old block again
                    }
                }
                4 => {
                    if k < nblk {
                        evs.push(ev_d(0, &data(k + 1, chunk(k + 1)))); // swapped pair
                        evs.push(ev_d(0, &data(k, chunk(k))));
                        k += 2;
                    }
                }
                5 => evs.push(ev_d(0, &ack(rng.below(5)))),
                6 => evs.push(ev_d(0, &stray(rng))),
                7 => {
                    let mut p = chunk(k); // payload longer than blksize: the buffer truncates it
                    p.extend(std::iter::repeat(0x5a).take((blk + rng.range(1, 9)) as usize));
                    evs.push(ev_d(0, &data(k, p)));
                    k += 1;
                }
                8 => {
                    evs.push(ev_d(0, &raw_error_variant(0, rng.below(6))));
                    aborted = true;
                    break;
                }
                9 => {
                    if k > ws {
                        k -= rng.range(1, ws.min(k - 1)); // go back, as a sender does after a timeout
                    }
                }
                10 => {
                    aborted = true; // the peer falls silent here
                    break;
                }
                11 => evs.push(ev_d(0, &data(rng.below(65536), vec![9; 3]))),
                12 => {
                    // the expected block number under an opcode that is not DATA (high byte not zero): not a TFTP packet
                    let mut d = data(k, vec![0xee; blk as usize]);
                    d[0] = *rng.pick(&[1u8, 2, 0x80, 0xff]);
                    evs.push(ev_d(0, &d));
                }
                _ => {
                    let mut d = data(k, chunk(k));
                    d.truncate(rng.range(0, 4) as usize); // truncated header
                    evs.push(ev_d(0, &d));
                }
            }
        } else {
            for _ in 0..dup_sender {
                evs.push(ev_d(0, &data(k, chunk(k))));
            }
            k += 1;
        }
    }
    if !aborted && rng.chance(1, 6) {
        evs.push(ev_d(0, &data(nblk, chunk(nblk)))); // the final block retransmitted after the end
    }
    let fails = pick_fails(rng, ((nblk / ws.max(1) + 2) * rep).min(30));
    format!("recv {blk} {ws} {tmo} {rep} {}{} {fails} {}", clean as u8, if rng.chance(1, 4) { "p" } else { "" }, join(&evs))
}

/// A long W-RECV run across wrap-around with duplicates / drops near the wrap.
pub fn gen_recv_long(rng: &mut Rng, nblocks: u64) -> String {
    let blk = 8u64;
    let ws = *rng.pick(&[1u64, 4, 64, 1000, 4096]);
    let size = (nblocks - 1) * blk + rng.below(blk);
    let seed = rng.below(256);
    let mut evs: Vec<String> = Vec::with_capacity(nblocks as usize + 16);
    let nblk = size / blk + 1;
    let chunk = |k: u64| -> Vec<u8> {
        let lo = ((k - 1) * blk).min(size);
        let hi = (k * blk).min(size);
        (lo..hi).map(|i| pat_byte(seed, i)).collect()
    };
    let mut k = 1u64;
    let mut budget = 12;
    while k <= nblk {
        let near = (k % 65536) < 6 || (k % 65536) > 65530;
        if near && budget > 0 && rng.chance(1, 3) {
            budget -= 1;
            match rng.below(4) {
                0 => evs.push(ev_d(0, &data(k, chunk(k)))),                  // will be followed by the same again
                1 => {
                    if k > 2 {
                        evs.push(ev_d(0, &data(k - 1, chunk(k - 1))));
                    }
                }
                2 => evs.push(ev_d(0, &data(k + 1, chunk(k + 1)))),          // ahead of sequence
                _ => evs.push(format!("e{}", SEC)),
            }
        }
        evs.push(ev_d(0, &data(k, chunk(k))));
        // the sender did not get the ACK of the window that ends here: it sends that window again
        if (k == 65535 || k == 65536 || k == 65537 || k == 131072) && k % ws == 0 && k < nblk {
            let lo = k + 1 - ws.min(k);
            for j in lo..=k {
                evs.push(ev_d(0, &data(j, chunk(j))));
            }
        }
        k += 1;
    }
    format!("recv {blk} {ws} {} 1 1 - {}", SEC, join(&evs))
}

pub fn generate(suite: &str, seed: u64, count: u64, tier: &str) -> Vec<String> {
    let mut rng = Rng::new(seed ^ fnv_extend(FNV_INIT, suite.as_bytes()));
    let mut out = vec![];
    match suite {
        "wsend" => {
            // retry-budget boundary: k time-outs and 6 - k (and 7 - k) stale ACKs in every order position of the last one, then silence
            for ws in [1u64, 3] {
                for k in 0..=6u64 {
                    for extra in [0u64, 1] {
                        for stale_last in [true, false] {
                            let stale = 6 + extra - k.min(6);
                            let mut evs: Vec<String> = vec![];
                            if stale_last {
                                for _ in 0..k { evs.push(format!("e{}", SEC)); }
                                for _ in 0..stale { evs.push(ev_d(0, &ack(0))); }
                            } else {
                                for _ in 0..stale { evs.push(ev_d(0, &ack(0))); }
                                for _ in 0..k { evs.push(format!("e{}", SEC)); }
                            }
                            out.push(format!("send 8 {ws} {SEC} 1 0 P40:3 - {}", join(&evs)));
                        }
                    }
                }
            }
            for _ in 0..count {
                out.push(gen_send(&mut rng));
            }
        }
        "wsend-long" => {
            let lens: &[u64] = if tier == "thorough" {
                &[65534, 65535, 65536, 65537, 65538, 131071, 131072, 131073, 131074, 65536, 65537, 70000]
            } else {
                &[65536, 65538, 131073]
            };
            for &n in lens.iter().take(count as usize) {
                out.push(gen_send_long(&mut rng, n));
            }
        }
        "wrecv" => {
            // windows wider than 1024 blocks (one flush = more than IOV_MAX buffers), loss-free and with one repeated window
            for (ws, nb) in [(1500u64, 1501u64), (4096, 4100), (1025, 2050)] {
                let blk = 8u64;
                let size = (nb - 1) * blk + 3;
                let chunk = |k: u64| -> Vec<u8> { ((k - 1) * blk..(k * blk).min(size)).map(|i| pat_byte(7, i)).collect() };
                let mut evs: Vec<String> = vec![];
                for k in 1..=nb {
                    evs.push(ev_d(0, &data(k, chunk(k))));
                    if k == ws {
                        evs.push(ev_d(0, &data(k, chunk(k)))); // the last block of the first window again
                    }
                }
                out.push(format!("recv {blk} {ws} {} 1 1 - {}", SEC, join(&evs)));
            }
            // retry-budget boundary at the edge of a window (nothing buffered): k time-outs and 6 - k (7 - k) repeated old blocks
            // in either order, then silence - the upload is given up exactly when six receives in a row have failed,
            // and then cleaned up (or kept)
            for ws in [1u64, 2] {
                for clean in [1u8, 0] {
                    for k in 0..=6u64 {
                        for extra in [0u64, 1] {
                            for old_last in [true, false] {
                                let blk = 8u64;
                                let size = 5 * blk + 3;
                                let chunk = |j: u64| -> Vec<u8> { ((j - 1) * blk..(j * blk).min(size)).map(|i| pat_byte(9, i)).collect() };
                                let mut evs: Vec<String> = (1..=2 * ws).map(|j| ev_d(0, &data(j, chunk(j)))).collect();
                                let olds = 6 + extra - k.min(6);
                                let old = ev_d(0, &data(2 * ws, chunk(2 * ws)));
                                if old_last {
                                    for _ in 0..k { evs.push(format!("e{}", SEC)); }
                                    for _ in 0..olds { evs.push(old.clone()); }
                                } else {
                                    for _ in 0..olds { evs.push(old.clone()); }
                                    for _ in 0..k { evs.push(format!("e{}", SEC)); }
                                }
                                out.push(format!("recv {blk} {ws} {SEC} 1 {clean} - {}", join(&evs)));
                            }
                        }
                    }
                }
            }
            // duplicate-packets mode: the send of a LATER copy of an ACK fails (the peer's port is gone) - only the first copy counts
            for rep in [2u64, 3, 4] {
                for ws in [1u64, 2] {
                    let blk = 8u64;
                    let size = 2 * ws * blk + 3;
                    let nb = size / blk + 1;
                    let chunk = |j: u64| -> Vec<u8> { ((j - 1) * blk..(j * blk).min(size)).map(|i| pat_byte(11, i)).collect() };
                    let evs: Vec<String> = (1..=nb).map(|j| ev_d(0, &data(j, chunk(j)))).collect();
                    let nacks = (nb + ws - 1) / ws;
                    // send calls are numbered from 0; ACK number a (0-based) occupies calls a*rep .. a*rep + rep - 1
                    for a in [0, nacks - 1] {
                        for copy in 1..rep {
                            out.push(format!("recv {blk} {ws} {SEC} {rep} 1 {} {}", a * rep + copy, join(&evs)));
                            out.push(format!("recv {blk} {ws} {SEC} {rep} 0 {},{} {}", a * rep + copy, a * rep + rep - 1, join(&evs)));
                        }
                    }
                }
            }
            for _ in 0..count {
                out.push(gen_recv(&mut rng));
            }
        }
        "wrecv-long" => {
            let lens: &[u64] = if tier == "thorough" {
                &[65534, 65535, 65536, 65537, 65538, 131071, 131072, 131073, 131074, 70000]
            } else {
                &[65537, 131072]
            };
            for &n in lens.iter().take(count as usize) {
                out.push(gen_recv_long(&mut rng, n));
            }
        }
        "win" => out = crate::winsuite::gen_win(&mut rng, count, tier),
        "cfg" => out = crate::cfgsuite::gen_cfg(&mut rng, count, tier),
        "srv" => out = crate::srvsuite::gen_srv(&mut rng, count, tier),
        "srv-rt" => out = crate::srvsuite::gen_srv_rt(&mut rng, count, tier),
        "pair" => out = crate::pairsuite::gen_pair(&mut rng, count, tier),
        "conc" => out = crate::concsuite::gen_conc(&mut rng, count, tier),
        "cli" => out = crate::clisuite::gen_cli(&mut rng, count, tier),
        "bin" => out = crate::binsuite::gen_bin(&mut rng, count, tier),
        "codec-dec" => out = crate::gen_codec::gen_dec(&mut rng, count, tier),
        "codec-enc" => out = crate::gen_codec::gen_enc(&mut rng, count, tier),
        other => panic!("unknown suite {other}"),
    }
    out
}
