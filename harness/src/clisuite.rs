//! CLI: the bundled client (`ClientConfig` / `Client::run`, which reuses `Worker`) against the real
//! server, both in-process on loopback (property C14).
//! `cli <flags> <dup> <tree> d <blk> <ws> <tmo> <hex requested path>`
//! `cli <flags> <dup> <tree> u <blk> <ws> <tmo> <hex local relative path> <contentspec>`

use crate::srvsuite::*;
use crate::util::*;
use std::path::{Path, PathBuf};
use std::time::Duration;
use tftpd::{Client, ClientConfig, Mode};

fn classify(e: &str) -> String {
    if e.contains("Client received error from server") {
        let k = if e.contains("File Not Found") {
            "1"
        } else if e.contains("Access Violation") {
            "2"
        } else if e.contains("File Exists") {
            "6"
        } else if e.contains("Illegal Operation") {
            "4"
        } else {
            "x"
        };
        format!("err:server:{k}")
    } else if e.contains("Invalid filename") {
        "err:invalid-filename".into()
    } else if e.contains("No such file") {
        "err:local-file".into()
    } else {
        format!("err:other[{}]", e.replace(' ', "_"))
    }
}

pub fn run_cli(toks: &[&str], dir: &Path) -> String {
    let flags = toks[1];
    let dup: u8 = toks[2].parse().unwrap();
    let root: PathBuf = fresh_sandbox(dir);
    build_tree_pub(&root, toks[3]);
    let clidir = root.join("cli");
    std::fs::create_dir_all(&clidir).unwrap();
    let listener = start_server_pub(&root, flags, dup);
    let blk: usize = toks[5].parse().unwrap();
    let ws: u16 = toks[6].parse().unwrap();
    let tmo: u64 = toks[7].parse().unwrap();
    let res = if toks[4] == "d" {
        let name = String::from_utf8(unhex(toks[8])).unwrap();
        let args: Vec<String> = vec![
            name, "-i".into(), "127.0.0.1".into(), "-p".into(), listener.port().to_string(), "-b".into(), blk.to_string(), "-w".into(), ws.to_string(),
            "-t".into(), tmo.to_string(), "-rd".into(), clidir.to_str().unwrap().to_string(),
        ];
        match ClientConfig::new(args.into_iter()) {
            Ok(cfg) => match Client::new(&cfg).and_then(|mut c| c.run()) {
                Ok(()) => "ok".to_string(),
                Err(e) => classify(&e.to_string()),
            },
            Err(e) => format!("err:config[{}]", e.to_string().replace(' ', "_")),
        }
    } else {
        let rel = String::from_utf8(unhex(toks[8])).unwrap();
        let local = clidir.join(&rel);
        if let Some(p) = local.parent() {
            std::fs::create_dir_all(p).unwrap();
        }
        std::fs::write(&local, file_of_spec(&toks[9].replace('_', ":"))).unwrap();
        let cfg = ClientConfig {
            remote_ip_address: "127.0.0.1".parse().unwrap(),
            port: listener.port(),
            blocksize: blk,
            windowsize: ws,
            timeout: Duration::from_secs(tmo),
            mode: Mode::Upload,
            receive_directory: clidir.clone(),
            file_path: local.clone(),
            clean_on_error: true,
        };
        let r = match Client::new(&cfg).and_then(|mut c| c.run()) {
            Ok(()) => "ok".to_string(),
            Err(e) => classify(&e.to_string()),
        };
        // the local source tree is scaffolding of the case, not an effect of the client
        let _ = std::fs::remove_dir_all(&clidir);
        std::fs::create_dir_all(&clidir).unwrap();
        r
    };
    std::thread::sleep(Duration::from_millis(15));
    let cli = snapshot_pub(&clidir);
    let _ = std::fs::remove_dir_all(&clidir);
    let srv = snapshot_pub(&root);
    let _ = std::fs::remove_dir_all(&root);
    format!("res={res} cli={cli} srv={srv}")
}

pub fn gen_cli(rng: &mut Rng, count: u64, tier: &str) -> Vec<String> {
    let tree = tree_token_pub();
    let mut out = vec![];
    let names = ["a.txt", "sub/b.bin", "big", "empty", "probe.txt", "/a.txt", "\\sub\\b.bin", "sub\\b.bin", "//big", "./a.txt", "nope.bin", "sub/nope", "s.txt", "../out/canary"];
    let grid_blk = [8u64, 9, 512, 1024, 1468, 65464];
    let grid_ws = [1u64, 2, 3, 8, 64];
    let sizes = |blk: u64, ws: u64| vec![0, 1, blk - 1, blk, blk + 1, ws * blk - 1, ws * blk, ws * blk + 1, 3 * ws * blk + 5];
    let mut grid = vec![];
    for &blk in &grid_blk {
        for &ws in &grid_ws {
            if ws * blk > 131072 {
                continue;
            }
            for (fi, flags) in ["-", "s", "d", "sd", "o"].iter().enumerate() {
                let tmo = [1u64, 5, 255][(fi + ws as usize) % 3];
                for n in ["a.txt", "sub/b.bin", "big", "empty", "\\sub\\b.bin"] {
                    grid.push(format!("cli {flags} {} {tree} d {blk} {ws} {tmo} {}", (fi + 1) % 2 * ((blk as usize / 8) % 2), hex(n.as_bytes())));
                }
                for sz in sizes(blk, ws) {
                    if sz > 300000 {
                        continue;
                    }
                    grid.push(format!("cli {flags} {} {tree} u {blk} {ws} {tmo} {} P{}_{}", fi % 2, hex(if sz % 2 == 0 { b"up.bin" } else { b"nested/dir/up2.bin" }), sz, sz % 199));
                }
            }
        }
    }
    let stride = if tier == "thorough" { 1 } else { 23 };
    for (i, g) in grid.into_iter().enumerate() {
        if i % stride == (count as usize) % stride {
            out.push(g);
        }
    }
    for _ in 0..count {
        let mut flags = String::new();
        for (f, num, den) in [('s', 1, 2), ('r', 1, 8), ('o', 1, 3), ('d', 1, 2)] {
            if rng.chance(num, den) {
                flags.push(f);
            }
        }
        if flags.is_empty() {
            flags.push('-');
        }
        let dup = *rng.pick(&[0u8, 0, 0, 1]);
        let blk = *rng.pick(&[8u64, 16, 100, 512, 1000, 1468, 4096]);
        let ws = *rng.pick(&[1u64, 1, 2, 4, 16]);
        let tmo = *rng.pick(&[1u64, 3, 5, 255]);
        if rng.chance(1, 2) {
            let n = *rng.pick(&names);
            out.push(format!("cli {flags} {dup} {tree} d {blk} {ws} {tmo} {}", hex(n.as_bytes())));
        } else {
            let local = *rng.pick(&["up.bin", "x/y/z.dat", "old.bin", "a.txt", "tiny"]);
            let sz = *rng.pick(&[0u64, 5, 511, 512, 513, 2048, 5000]);
            out.push(format!("cli {flags} {dup} {tree} u {blk} {ws} {tmo} {} P{}_{}", hex(local.as_bytes()), sz, rng.below(200)));
        }
    }
    out
}
