//! SRV: the real `Server` (in-process listener thread + its worker threads) on loopback UDP.
//! `srv <flags> <dup> <tree> <steps>`; see DESIGN.md 4.2.  Flags: s single-port, r read-only,
//! o overwrite, k keep-on-error, d distinct send/receive directories.

use crate::util::*;
use std::net::{IpAddr, Ipv4Addr, SocketAddr, UdpSocket};
use std::path::{Path, PathBuf};
use std::time::{Duration, Instant};
use tftpd::{Config, Packet, Server};

pub const ROOT_TOKEN: &str = "/R";

fn build_tree(root: &Path, tree: &str) {
    let _ = std::fs::remove_dir_all(root);
    std::fs::create_dir_all(root).unwrap();
    if tree == "-" {
        return;
    }
    for ent in tree.split(',') {
        let parts: Vec<&str> = ent.split(':').collect();
        let rel = String::from_utf8(unhex(parts[1])).unwrap();
        let p = root.join(rel);
        match parts[0] {
            "d" => std::fs::create_dir_all(&p).unwrap(),
            "f" => {
                if let Some(par) = p.parent() {
                    std::fs::create_dir_all(par).unwrap();
                }
                let content = if parts[2] == "-" { vec![] } else if let Some(r) = parts[2].strip_prefix('P') { file_of_spec(&format!("P{}", r.replace('_', ":"))) } else { unhex(parts[2]) };
                std::fs::write(&p, content).unwrap();
            }
            "l" => {
                // a symbolic link to a file next to it (the model treats it as a file with the target's content)
                if let Some(par) = p.parent() {
                    std::fs::create_dir_all(par).unwrap();
                }
                let target = String::from_utf8(unhex(parts[2])).unwrap();
                std::os::unix::fs::symlink(target, &p).unwrap();
            }
            _ => panic!("bad tree entry"),
        }
    }
}

fn snapshot(root: &Path) -> String {
    fn walk(base: &Path, dir: &Path, out: &mut Vec<String>) {
        let mut ents: Vec<_> = std::fs::read_dir(dir).map(|r| r.filter_map(|e| e.ok()).collect()).unwrap_or_default();
        ents.sort_by_key(|e: &std::fs::DirEntry| e.file_name());
        for e in ents {
            let p = e.path();
            let rel = p.strip_prefix(base).unwrap().to_str().unwrap().to_string();
            if std::fs::symlink_metadata(&p).map(|m| m.file_type().is_symlink()).unwrap_or(false) {
                out.push(format!("{}=link", hex(rel.as_bytes())));
            } else if p.is_dir() {
                out.push(format!("{}/", hex(rel.as_bytes())));
                walk(base, &p, out);
            } else {
                let c = std::fs::read(&p).unwrap_or_default();
                out.push(format!("{}={}", hex(rel.as_bytes()), fp(&c)));
            }
        }
    }
    let mut out = vec![];
    walk(root, root, &mut out);
    if out.is_empty() {
        "-".into()
    } else {
        out.join(",")
    }
}

fn free_port() -> u16 {
    UdpSocket::bind("127.0.0.1:0").unwrap().local_addr().unwrap().port()
}

fn start_server(root: &Path, flags: &str, dup: u8) -> SocketAddr {
    let distinct = flags.contains('d');
    let (sd, rd) = if distinct { (root.join("snd"), root.join("rcv")) } else { (root.join("srv"), root.join("srv")) };
    for _ in 0..50 {
        let port = free_port();
        let config = Config {
            ip_address: IpAddr::V4(Ipv4Addr::LOCALHOST),
            port,
            directory: sd.clone(),
            receive_directory: rd.clone(),
            send_directory: sd.clone(),
            single_port: flags.contains('s'),
            read_only: flags.contains('r'),
            duplicate_packets: dup,
            overwrite: flags.contains('o'),
            clean_on_error: !flags.contains('k'),
        };
        if let Ok(mut server) = Server::new(&config) {
            std::thread::spawn(move || server.listen());
            return SocketAddr::from((Ipv4Addr::LOCALHOST, port));
        }
    }
    panic!("cannot start a server");
}

struct Peer {
    sock: UdpSocket,
}

impl Peer {
    fn new() -> Peer {
        Peer { sock: UdpSocket::bind("127.0.0.1:0").unwrap() }
    }
    fn recv(&self, ms: u64) -> Option<(Vec<u8>, SocketAddr)> {
        self.sock.set_read_timeout(Some(Duration::from_millis(ms.max(1)))).unwrap();
        let mut buf = vec![0u8; 70000];
        match self.sock.recv_from(&mut buf) {
            Ok((n, from)) => Some((buf[..n].to_vec(), from)),
            Err(_) => None,
        }
    }
}

fn show_reply(r: &Option<(Vec<u8>, SocketAddr)>, listener: SocketAddr, root: &Path) -> String {
    match r {
        None => "none".into(),
        Some((b, from)) if b.len() >= 4 && b[0] == 0 && b[1] == 5 => {
            // of an ERROR only opcode and code are compared: the wording of the message is no property's subject
            format!("{}~@{}", hex(&b[..4]), if *from == listener { "L" } else { "E" })
        }
        Some((b, from)) => {
            // (other replies may quote absolute paths: replace the sandbox root by a fixed token)
            let rootb = root.to_str().unwrap().as_bytes();
            let mut v: Vec<u8> = vec![];
            let mut i = 0;
            while i < b.len() {
                if b[i..].starts_with(rootb) {
                    v.extend_from_slice(ROOT_TOKEN.as_bytes());
                    i += rootb.len();
                } else {
                    v.push(b[i]);
                    i += 1;
                }
            }
            format!("{}@{}", hex(&v), if *from == listener { "L" } else { "E" })
        }
    }
}

struct Negotiated {
    blk: usize,
    ws: u64,
}

fn negotiated(reply: &[u8]) -> Negotiated {
    let mut n = Negotiated { blk: 512, ws: 1 };
    if let Ok(Packet::Oack(opts)) = Packet::deserialize(reply) {
        for o in opts {
            match o.option {
                tftpd::OptionType::BlockSize => n.blk = o.value,
                tftpd::OptionType::Windowsize => n.ws = o.value as u64,
                _ => {}
            }
        }
    }
    n
}

/// Lock-step conformant download client. Returns the summary token.
fn download(peer: &Peer, first: &(Vec<u8>, SocketAddr), listener: SocketAddr, single: bool, rep: u64) -> String {
    let (first_bytes, tid) = (first.0.clone(), if single { listener } else { first.1 });
    let neg = negotiated(&first_bytes);
    let mut pending: Option<Vec<u8>> = None;
    if first_bytes.len() >= 2 && first_bytes[1] == 6 {
        peer.sock.send_to(&Packet::Ack(0).serialize().unwrap(), tid).unwrap();
    } else if first_bytes.len() >= 2 && first_bytes[1] == 3 {
        pending = Some(first_bytes.clone());
    } else {
        return "dl=-".into();
    }
    let mut expect: u64 = 1;
    let mut got: Vec<u8> = vec![];
    let mut ndata = 0u64;
    let mut maxpay = 0usize;
    let mut first_burst = 0u64;
    let mut acks_sent = 0u64;
    let mut in_window = 0u64;
    let mut done = false;
    let mut copies: std::collections::BTreeMap<u64, u64> = Default::default();
    let mut strays = 0u64;
    let mut final_n: Option<u64> = None;
    let deadline = Instant::now() + Duration::from_secs(20);
    loop {
        let dg = match pending.take() {
            Some(d) => Some(d),
            // after the final block the remaining copies (duplicate mode) follow within milliseconds; leave room for a loaded machine
            None => {
                let all_copies_in = final_n.map(|_| copies.get(&(expect - 1)) == Some(&rep)).unwrap_or(false);
                peer.recv(if !done { 1500 } else if all_copies_in { 60 } else { 400 }).map(|x| x.0)
            }
        };
        let dg = match dg {
            Some(d) => d,
            None => break,
        };
        if Instant::now() > deadline {
            break;
        }
        if dg.len() < 4 || dg[1] != 3 {
            if dg.len() >= 2 && dg[1] == 5 {
                return format!("dl=error:{}", hex(&dg[..4.min(dg.len())]));
            }
            strays += 1;
            continue;
        }
        ndata += 1;
        if acks_sent == 0 {
            first_burst += 1;
        }
        let n = ((dg[2] as u64) << 8) | dg[3] as u64;
        // copies are counted per block, not per 16-bit number: the block meant is the one nearest to the expected one
        let base = expect - expect % 65536;
        let abs = [base + n, (base + n).saturating_sub(65536), base + n + 65536].into_iter().min_by_key(|a| a.abs_diff(expect)).unwrap();
        *copies.entry(abs).or_insert(0) += 1;
        let payload = &dg[4..];
        maxpay = maxpay.max(payload.len());
        if !done && n == expect % 65536 {
            got.extend_from_slice(payload);
            expect += 1;
            in_window += 1;
            let fin = payload.len() < neg.blk;
            if fin || in_window == neg.ws {
                peer.sock.send_to(&Packet::Ack(n as u16).serialize().unwrap(), tid).unwrap();
                acks_sent += 1;
                in_window = 0;
            }
            if fin {
                done = true;
                final_n = Some(n);
                if rep <= 1 {
                    break;
                }
            }
        }
    }
    let mults: std::collections::BTreeSet<u64> = copies.values().cloned().collect();
    let mult = if mults.len() == 1 { mults.iter().next().unwrap().to_string() } else if mults.is_empty() { "0".into() } else { "var".into() };
    format!("dl={}/{}/{}/{}/{}/x{}/{}", fp(&got), ndata, maxpay, first_burst, mult, strays, if done { "done" } else { "incomplete" })
}

/// A conformant download client whose ACKs arrive in disorder: after every window it sends the ACK of the window and,
/// straight behind it, the ACK of an earlier block once more (an ACK overtaken on the way).  Reports the file, the number
/// of DATA datagrams that carried a block number below one already seen (a cumulative-ACK sender never goes back), and
/// whether the transfer completed.
fn download_reordered(peer: &Peer, first: &(Vec<u8>, SocketAddr), listener: SocketAddr, single: bool) -> String {
    let (first_bytes, tid) = (first.0.clone(), if single { listener } else { first.1 });
    let neg = negotiated(&first_bytes);
    let mut pending: Option<Vec<u8>> = None;
    if first_bytes.len() >= 2 && first_bytes[1] == 6 {
        peer.sock.send_to(&raw_ack(0), tid).unwrap();
    } else if first_bytes.len() >= 2 && first_bytes[1] == 3 {
        pending = Some(first_bytes.clone());
    } else {
        return "ra=-".into();
    }
    let mut expect: u64 = 1;
    let mut got: Vec<u8> = vec![];
    let mut in_window = 0u64;
    let mut maxseen = 0u64;
    let mut regress = 0u64;
    let mut done = false;
    let deadline = Instant::now() + Duration::from_secs(8);
    loop {
        let dg = match pending.take() {
            Some(d) => Some(d),
            None => peer.recv(if done { 150 } else { 1500 }).map(|x| x.0),
        };
        let dg = match dg {
            Some(d) => d,
            None => break,
        };
        if Instant::now() > deadline {
            break;
        }
        if dg.len() < 4 || dg[1] != 3 {
            continue;
        }
        let n = ((dg[2] as u64) << 8) | dg[3] as u64;
        if n < maxseen {
            regress += 1;
        }
        maxseen = maxseen.max(n);
        let payload = &dg[4..];
        if !done && n == expect % 65536 {
            got.extend_from_slice(payload);
            expect += 1;
            in_window += 1;
            let fin = payload.len() < neg.blk;
            if fin || in_window == neg.ws {
                peer.sock.send_to(&raw_ack(n as u16), tid).unwrap();
                if n >= 2 {
                    peer.sock.send_to(&raw_ack((n - 2) as u16), tid).unwrap();
                }
                in_window = 0;
            }
            if fin {
                done = true;
            }
        }
    }
    format!("ra={}/{}/{}", fp(&got), regress, if done { "done" } else { "incomplete" })
}

/// Lock-step conformant upload client.
fn upload(peer: &Peer, first: &(Vec<u8>, SocketAddr), listener: SocketAddr, single: bool, content: &[u8]) -> String {
    let (first_bytes, tid) = (first.0.clone(), if single { listener } else { first.1 });
    if !(first_bytes.len() >= 2 && (first_bytes[1] == 6 || (first_bytes[1] == 4 && first_bytes.len() >= 4 && first_bytes[2] == 0 && first_bytes[3] == 0))) {
        return "ul=-".into();
    }
    let neg = negotiated(&first_bytes);
    let nblk = content.len() / neg.blk + 1;
    let mut k = 1usize;
    let mut nacks = 0u64;
    let mut retried = false;
    while k <= nblk {
        let hi = (k + neg.ws as usize - 1).min(nblk);
        for j in k..=hi {
            let lo = ((j - 1) * neg.blk).min(content.len());
            let up = (j * neg.blk).min(content.len());
            let d = Packet::Data { block_num: (j % 65536) as u16, data: content[lo..up].to_vec() };
            let _ = peer.sock.send_to(&d.serialize().unwrap(), tid);
            if (j - k) % 32 == 31 {
                // a conformant client does not outrun the receiver's socket buffer (a burst of hundreds of small
                // datagrams overflows it whatever their size): pace long windows
                std::thread::sleep(Duration::from_millis(1));
            }
        }
        // wait for the ACK of block hi
        let mut ok = false;
        let until = Instant::now() + Duration::from_millis(400);
        while Instant::now() < until {
            if let Some((dg, _)) = peer.recv(100) {
                if dg.len() >= 4 && dg[1] == 4 {
                    nacks += 1;
                    let n = ((dg[2] as usize) << 8) | dg[3] as usize;
                    if n == hi % 65536 {
                        ok = true;
                        break;
                    }
                } else if dg.len() >= 2 && dg[1] == 5 {
                    return format!("ul=error:{}", hex(&dg[..4.min(dg.len())]));
                }
            }
        }
        if !ok && single && k == 1 && !retried {
            // single-port mode: a worker that could not create its file may still have been alive when the window
            // arrived (the listener then queued it for the dying worker); by now it is gone, and the same window is
            // answered by the listener.  A live worker would have acknowledged the first attempt.
            retried = true;
            continue;
        }
        if !ok {
            return format!("ul=noack:{}", hi);
        }
        k = hi + 1;
    }
    let _ = nacks;
    "ul=acked".into()
}

/// Requests may name the sandbox by the token `/R/`: put the real root there.
fn subst_root(dg: &[u8], root: &Path) -> Vec<u8> {
    let rootb = root.to_str().unwrap().as_bytes();
    let mut v = vec![];
    let mut i = 0;
    while i < dg.len() {
        if dg[i..].starts_with(b"/R/") {
            v.extend_from_slice(rootb);
            v.push(b'/');
            i += 3;
        } else {
            v.push(dg[i]);
            i += 1;
        }
    }
    v
}

fn settle(ms: u64) {
    std::thread::sleep(Duration::from_millis(ms));
}

pub fn run_srv(toks: &[&str], dir: &Path) -> String {
    let flags = toks[1];
    let dup: u8 = toks[2].parse().unwrap();
    let root: PathBuf = fresh_sandbox(dir);
    build_tree(&root, toks[3]);
    let listener = start_server(&root, flags, dup);
    let single = flags.contains('s');
    let rep = dup as u64 + 1;
    let mut peers: Vec<Option<Peer>> = (0..10).map(|_| None).collect();
    let probe = Peer::new();
    let mut out: Vec<String> = vec![];
    let probe_dg = Packet::Ack(7).serialize().unwrap();
    let mut held: Vec<Option<(Vec<u8>, SocketAddr)>> = (0..10).map(|_| None).collect();
    for step in toks[4].split(';') {
        if step == "-" {
            continue;
        }
        let kind = &step[0..1];
        if kind == "w" {
            settle(step[1..].parse().unwrap());
            continue;
        }
        if kind == "x" {
            continue; // model-side marker: the abandoned worker of this client has given up by now
        }
        if kind == "c" {
            // the client whose download was left waiting after its first reply takes it up now
            let c: usize = step[1..2].parse().unwrap();
            match (&peers[c], held[c].take()) {
                (Some(peer), Some(r)) => out.push(download(peer, &r, listener, single, rep)),
                _ => out.push("dl=-".into()),
            }
            continue;
        }
        let c: usize = step[1..2].parse().unwrap();
        if peers[c].is_none() {
            peers[c] = Some(Peer::new());
        }
        let fields: Vec<&str> = step[3..].split(':').collect();
        let dg = if fields[0] == "-" { vec![] } else { subst_root(&unhex(fields[0]), &root) };
        let peer = peers[c].as_ref().unwrap();
        // drain anything stale
        while peer.recv(1).is_some() {}
        peer.sock.send_to(&dg, listener).unwrap();
        // the listener handles datagrams in order: once the probe is answered, a synchronous reply to `dg` is out
        probe.sock.send_to(&probe_dg, listener).unwrap();
        let _ = probe.recv(2000);
        let is_plain_rrq = dg.len() > 2 && dg[0] == 0 && dg[1] == 1 && dg.iter().filter(|&&b| b == 0).count() <= 3;
        let reply = peer.recv(if is_plain_rrq { 300 } else { 40 });
        out.push(format!("reply={}", show_reply(&reply, listener, &root)));
        if kind == "q" {
            let cont = if fields.len() > 1 { fields[1] } else { "-" };
            if cont == "H" {
                held[c] = reply.clone();
            }
            if let Some(r) = &reply {
                if cont == "D" {
                    out.push(download(peer, r, listener, single, rep));
                    settle(3);
                } else if let Some(spec) = cont.strip_prefix('U') {
                    let content = file_of_spec(&spec.replace('_', ":"));
                    if single {
                        settle(8); // a worker that could not create its file has ended by now (routing is then deterministic)
                    }
                    out.push(upload(peer, r, listener, single, &content));
                    settle(3);
                } else if cont == "M" {
                    // measure the retransmission interval: take the first window, then stay silent until it comes again
                    let tid = if single { listener } else { r.1 };
                    if r.0.len() >= 2 && r.0[1] == 6 {
                        peer.sock.send_to(&Packet::Ack(0).serialize().unwrap(), tid).unwrap();
                        let _ = peer.recv(500); // DATA 1
                    }
                    let t0 = Instant::now();
                    let again = peer.recv(6000);
                    let secs = (t0.elapsed().as_millis() as f64 / 1000.0).round() as u64;
                    out.push(match again {
                        Some((d, _)) if d.len() >= 4 && d[1] == 3 => format!("rt={secs}"),
                        _ => "rt=none".to_string(),
                    });
                    // end the transfer
                    let e = Packet::Error { code: tftpd::ErrorCode::NotDefined, msg: "done".into() };
                    let _ = peer.sock.send_to(&e.serialize().unwrap(), tid);
                    settle(30);
                } else if cont == "K" {
                    // a repeated ACK 1.5 s before the acknowledged timeout has elapsed must not bring the retransmission forward
                    let tid = if single { listener } else { r.1 };
                    let mut tmo = 5u64;
                    if let Ok(Packet::Oack(opts)) = Packet::deserialize(&r.0) {
                        for o in opts {
                            if let tftpd::OptionType::Timeout = o.option {
                                tmo = o.value as u64;
                            }
                        }
                    }
                    let oack = r.0.len() >= 2 && r.0[1] == 6;
                    if oack {
                        peer.sock.send_to(&raw_ack(0), tid).unwrap();
                        let _ = peer.recv(500); // DATA 1
                    }
                    // silence until 1.5 s before the timeout, then the repeated ACK, then listen for 1.2 s
                    let before = peer.recv(tmo * 1000 - 1500);
                    let early = if before.is_some() {
                        true
                    } else {
                        peer.sock.send_to(&raw_ack(0), tid).unwrap();
                        matches!(peer.recv(1200), Some((d, _)) if d.len() >= 4 && d[1] == 3)
                    };
                    out.push(format!("early={}", if early { 1 } else { 0 }));
                    let _ = peer.sock.send_to(&raw_error(0, "done"), tid);
                    settle(30);
                } else if cont == "R" {
                    out.push(download_reordered(peer, r, listener, single));
                    settle(3);
                } else if cont == "E" || cont == "F" {
                    let tid = if single { listener } else { r.1 };
                    if r.0.len() >= 2 && r.0[1] != 5 {
                        // F: a long message with a two-byte character across byte 128
                        let e = if cont == "E" { raw_error(0, "abort") } else { raw_error_variant(0, 4) };
                        let _ = peer.sock.send_to(&e, tid);
                        settle(60);
                    }
                }
            }
        }
    }
    settle(15);
    for p in peers.into_iter().flatten() {
        retire_socket(p.sock);
    }
    retire_socket(probe.sock);
    out.push(format!("tree={}", snapshot(&root)));
    let _ = std::fs::remove_dir_all(&root);
    out.join(" ")
}

// ---------------------------------------------------------------- generator

pub const TREE: &str = "d:srv,d:srv/sub,f:srv/a.txt:P100_1,f:srv/sub/b.bin:P1300_2,f:srv/empty:-,f:srv/big:P5000_3,f:srv/probe.txt:P600_7,f:srv/huge:P70000_5,\
d:snd,f:snd/s.txt:P700_4,d:snd/sub,f:snd/sub/b.bin:P1300_2,f:snd/probe.txt:P600_7,f:snd/a.txt:P100_1,f:snd/huge:P70000_5,\
d:rcv,f:rcv/old.bin:P2000_5,d:rcv/sub,f:rcv/tiny:P3_6,d:out,f:out/canary:P64_9,d:srv-x,f:srv-x/secret:P33_8";

fn tree_token() -> String {
    TREE.split(',')
        .map(|e| {
            let p: Vec<&str> = e.split(':').collect();
            if p[0] == "d" {
                format!("d:{}", hex(p[1].as_bytes()))
            } else {
                format!("f:{}:{}", hex(p[1].as_bytes()), p[2])
            }
        })
        .collect::<Vec<_>>()
        .join(",")
}

fn req(op: u8, name: &[u8], opts: &[(String, String)]) -> Vec<u8> {
    let mut v = vec![0, op];
    v.extend_from_slice(name);
    v.push(0);
    v.extend_from_slice(b"octet");
    v.push(0);
    for (k, val) in opts {
        v.extend_from_slice(k.as_bytes());
        v.push(0);
        v.extend_from_slice(val.as_bytes());
        v.push(0);
    }
    v
}

fn pick_name(rng: &mut Rng, write: bool) -> Vec<u8> {
    let s = |x: &str| x.as_bytes().to_vec();
    match rng.below(12) {
        0 | 1 | 2 => {
            let base: &[&str] = if write {
                &["new.bin", "sub/new.bin", "old.bin", "a.txt", "tiny", "sub/n2", "up.dat", "empty"]
            } else {
                &["a.txt", "sub/b.bin", "empty", "big", "s.txt", "probe.txt", "a.txt"]
            };
            let n = rng.pick(base).to_string();
            let n = match rng.below(8) {
                0 => format!("/{n}"),
                1 => format!("\\{n}"),
                2 => format!("//{n}"),
                3 => n.replace('/', "\\"),
                4 => format!("./{n}"),
                5 => n.replace('/', "//"),
                6 => n.replace('/', "/./"),
                _ => n,
            };
            s(&n)
        }
        3 => s(*rng.pick(&["nope", "sub/nope", "a.txt/", "a.txt/.", "a.txt/x", "nosuchdir/x", "sub/new/", "old.bin/"])),
        4 => s(*rng.pick(&["", ".", "sub", "sub/", "/", "./", "sub/.", "\\"])),
        5 | 6 => s(*rng.pick(&[
            "../out/canary", "..\\out\\canary", "sub/../../out/canary", "/../out/canary", "a..b", "...", "..", "sub/..", "../srv-x/secret",
            "..\\srv-x\\secret", "/R/out/canary", "//R/srv-x/secret", "/R/srv-x/secret", "\\/R/srv-x/secret", "/R/srv/a.txt", "../srv/a.txt",
            "../rcv/old.bin", "../snd/s.txt", "../out/new", "..", "../", "sub/../a.txt", ".../a.txt", "a.txt/../a.txt", "~/x", "c:\\x",
            "../rcv/planted", "sub\\..\\..\\out\\planted", "/../srv-x/planted",
        ])),
        7 | 8 => {
            // short names over a path alphabet
            let alpha = [b'/', b'\\', b'.', b'a', b'~', b':'];
            let n = rng.range(0, 4) as usize;
            (0..n).map(|_| alpha[rng.below(6) as usize]).collect()
        }
        9 => {
            let n = rng.range(1, 40) as usize;
            (0..n).map(|_| *rng.pick(&[b'a', b'b', b'/', b'.', b'-', b'_', b' ', b'\\', b'Z', b'0'])).collect()
        }
        10 => {
            let n = *rng.pick(&[200usize, 480, 500, 506, 520, 900]);
            vec![b'x'; n]
        }
        _ => s(*rng.pick(&["\u{212a}", "d\u{e9}j\u{e0}", "a.txt\u{0301}", "sub/\u{1f600}"])),
    }
}

fn pick_opts(rng: &mut Rng, with_tsize: bool) -> Vec<(String, String)> {
    let mut v = vec![];
    if rng.chance(2, 5) {
        return v;
    }
    let n = rng.range(1, 4);
    for _ in 0..n {
        let nameidx = rng.below(if with_tsize { 6 } else { 5 });
        let (name, val): (&str, String) = match nameidx {
            0 => ("blksize", rng.pick(&["8", "9", "512", "1024", "1468", "65464", "7", "0", "65465", "65536", "+16", "0512", "4294967296", "9223372036854775808", "18446744073709551615", "18446744073709551616", "-1", "x", ""]).to_string()),
            1 => ("timeout", rng.pick(&["1", "2", "5", "255", "0", "256", "1099511627776", "18446744073709551615", "-1", "1s"]).to_string()),
            2 => ("windowsize", rng.pick(&["1", "2", "3", "4", "8", "64", "65535", "0", "65536", "65537", "131073", "-3"]).to_string()),
            3 => (*rng.pick(&["Blksize", "BLKSIZE", "bl\u{212a}size", "TimeOut", "WINDOWSIZE"]), rng.pick(&["16", "2", "600"]).to_string()),
            4 => (*rng.pick(&["unknown", "x-checksum", "multicast", "blksize2", ""]), rng.pick(&["1", "sha256", "", "0"]).to_string()),
            _ => (*rng.pick(&["tsize", "TSIZE"]), rng.pick(&["0", "100", "123456789", "18446744073709551615"]).to_string()),
        };
        v.push((name.to_string(), val));
    }
    v
}

fn garbage(rng: &mut Rng) -> Vec<u8> {
    match rng.below(12) {
        0 => raw_ack(rng.below(4) as u16),
        1 => raw_data(1, &[1, 2, 3]),
        2 => raw_error(3, "x"),
        3 => raw_oack(&[]),
        4 => vec![0, rng.range(7, 255) as u8, 1, 2],
        5 => vec![rng.next() as u8],
        6 => vec![],
        7 => {
            let n = rng.range(0, 60) as usize;
            rng.bytes(n)
        }
        8 => {
            let mut v = vec![0, 1];
            v.extend_from_slice(b"a.txt");
            v
        }
        9 => {
            let mut v = req(1, b"a.txt", &[]);
            v.extend(std::iter::repeat(b'z').take(rng.range(500, 1500) as usize));
            v
        }
        10 => vec![0, 5, 0, 9, 0],
        _ => {
            let mut v = req(rng.range(1, 2) as u8, b"a.txt", &[("blksize".into(), "512".into())]);
            let n = v.len();
            v.truncate(rng.range(2, n as u64 - 1) as usize);
            v
        }
    }
}

pub fn gen_srv(rng: &mut Rng, count: u64, tier: &str) -> Vec<String> {
    let tree = tree_token();
    let mut out = vec![];
    let probe = format!("q9:{}:D", hex(&req(1, b"probe.txt", &[])));
    // every short name over the path alphabet, as RRQ and WRQ, shared and distinct directories
    let alpha = [b'/', b'\\', b'.', b'a', b'~', b':'];
    let maxlen = if tier == "thorough" { 4 } else { 3 };
    let mut names: Vec<Vec<u8>> = vec![vec![]];
    let mut frontier: Vec<Vec<u8>> = vec![vec![]];
    for _ in 0..maxlen {
        let mut next = vec![];
        for n in &frontier {
            for &c in &alpha {
                let mut m = n.clone();
                m.push(c);
                next.push(m);
            }
        }
        names.extend(next.iter().cloned());
        frontier = next;
    }
    for (i, chunk) in names.chunks(6).enumerate() {
        let flags = ["o", "do", "so", "-"][i % 4];
        let mut steps = vec![];
        for (j, n) in chunk.iter().enumerate() {
            steps.push(format!("q{}:{}:{}", j, hex(&req(if (i + j) % 2 == 0 { 1 } else { 2 }, n, &[])), if (i + j) % 2 == 0 { "D".to_string() } else { "UP5_1".to_string() }));
        }
        steps.push(probe.clone());
        out.push(format!("srv {flags} 0 {tree} {}", steps.join(";")));
    }
    // option boundary sweep: every boundary value of every option, read and write, both port modes
    let sweeps: &[(&str, &[&str])] = &[
        ("blksize", &["0", "1", "7", "8", "9", "10", "14", "512", "1024", "1468", "65464", "65465", "65536", "4294967296", "9223372036854775808", "18446744073709551615", "18446744073709551616", "-1", "x"]),
        ("timeout", &["0", "1", "2", "255", "256", "1099511627776", "18446744073709551615"]),
        ("windowsize", &["0", "1", "2", "8", "65535", "65536", "65537", "131073"]),
        ("tsize", &["0", "77", "18446744073709551615"]),
        ("BlkSize", &["16"]),
        ("x-unknown", &["sha256", "12", ""]),
    ];
    let mut k = 0usize;
    for (name, vals) in sweeps {
        for v in vals.iter() {
            for flags in ["-", "s"] {
                k += 1;
                if tier != "thorough" && count < 2000 && k % 2 == 1 && !(*name == "blksize") {
                    continue;
                }
                let opts = vec![(name.to_string(), v.to_string())];
                let mixed = vec![("blksize".to_string(), "600".to_string()), (name.to_string(), v.to_string())];
                out.push(format!("srv {flags} 0 {tree} q0:{}:D;{probe}", hex(&req(1, b"a.txt", &opts))));
                out.push(format!("srv {flags} 0 {tree} q0:{}:UP700_3;{probe}", hex(&req(2, b"new.bin", &opts))));
                out.push(format!("srv {flags} 0 {tree} q0:{}:D;q1:{}:UP1300_4;{probe}", hex(&req(1, b"big", &mixed)), hex(&req(2, b"sub/new.bin", &mixed))));
            }
        }
    }
    // transfer grid: block size x window size x length, both directions, port modes, duplicates
    let mut grid = vec![];
    for blk in [8u64, 9, 512, 1024, 1468] {
        for ws in [1u64, 2, 3, 8] {
            let o = vec![("blksize".to_string(), blk.to_string()), ("windowsize".to_string(), ws.to_string())];
            for (fi, flags) in ["-", "s", "so", "d", "sd"].iter().enumerate() {
                for file in ["a.txt", "empty", "sub/b.bin", "big"] {
                    grid.push(format!("srv {flags} {} {tree} q0:{}:D;{probe}", (fi + blk as usize) % 2, hex(&req(1, file.as_bytes(), &o))));
                }
                for size in [0, blk - 1, blk, blk + 1, ws * blk - 1, ws * blk, ws * blk + 1, 3000] {
                    grid.push(format!("srv {flags} {} {tree} q0:{}:UP{}_{};{probe}", (fi + ws as usize) % 2, hex(&req(2, b"up.dat", &o)), size, size % 200));
                }
            }
        }
    }
    let stride = if tier == "thorough" { 1 } else { 7 };
    for (i, g) in grid.into_iter().enumerate() {
        if i % stride == (count as usize) % stride {
            out.push(g);
        }
    }
    // every opcode, cut to 2..5 bytes (no field of any packet kind may be read past the end), then the probe
    for flags in ["-", "s"] {
        for op in 0u8..=7 {
            let mut steps = vec![];
            for len in 2usize..=5 {
                let mut v = vec![0u8, op, 0, 1, 0];
                v.truncate(len);
                steps.push(format!("g{}:{}", len - 2, hex(&v)));
            }
            steps.push(probe.clone());
            out.push(format!("srv {flags} 0 {tree} {}", steps.join(";")));
        }
    }
    // a file longer than the largest block: block sizes at and beyond the upper bound (the block length used must be the
    // acknowledged one, and values beyond the bound must not be acknowledged at all)
    for flags in ["-", "s"] {
        for b in ["65464", "65465", "65500", "65503", "32768"] {
            let o = vec![("blksize".to_string(), b.to_string())];
            out.push(format!("srv {flags} 0 {tree} q0:{}:D;{probe}", hex(&req(1, b"huge", &o))));
        }
    }
    // names that do not exist, with tsize (and other options): the refusal must come
    for flags in ["-", "s"] {
        let t = vec![("tsize".to_string(), "0".to_string())];
        let tb = vec![("blksize".to_string(), "1024".to_string()), ("tsize".to_string(), "0".to_string())];
        out.push(format!("srv {flags} 0 {tree} q0:{}:D;q1:{}:D;q2:{}:D;{probe}", hex(&req(1, b"nope", &t)), hex(&req(1, b"sub/nope.bin", &tb)), hex(&req(1, b"a.txt", &t))));
    }
    // one endpoint, several transfers one after the other (the routing entry of a finished transfer must not linger)
    for flags in ["s", "so", "-", "sd"] {
        let d1 = hex(&req(1, b"a.txt", &[]));
        let d2 = hex(&req(1, b"probe.txt", &[("blksize".to_string(), "64".to_string())]));
        let u1 = hex(&req(2, b"again.bin", &[("windowsize".to_string(), "2".to_string())]));
        out.push(format!("srv {flags} 0 {tree} q0:{d1}:D;q0:{d2}:D;q0:{u1}:UP1300_9;g0:00040001;{probe}"));
        out.push(format!("srv {flags} 0 {tree} q0:{u1}:UP700_2;q0:{d1}:D;q1:{d2}:D;q0:{d2}:D;{probe}"));
    }
    // retransmitted / duplicate write requests for one name (overlapping uploads): timeout 1 s, the first worker is
    // abandoned and gives up after six seconds
    {
        let t1 = vec![("timeout".to_string(), "1".to_string())];
        let w = hex(&req(2, b"dup.bin", &t1));
        // overwrite mode: the second request is accepted as well; the later failure of the first removes the completed upload
        out.push(format!("srv o 0 {tree} q0:{w}:-;q1:{w}:UP900_5;w7300;x0;{probe}"));
        // no-overwrite mode: the duplicate is refused, the first transfer is the only owner
        out.push(format!("srv - 0 {tree} q0:{w}:-;q1:{w}:UP900_5;w7300;x0;{probe}"));
        // ... also when the server reads from and writes to different directories
        out.push(format!("srv d 0 {tree} q0:{w}:-;q1:{w}:UP900_5;w7300;x0;{probe}"));
        if tier == "thorough" {
            out.push(format!("srv ds 0 {tree} q0:{w}:-;q1:{w}:UP900_5;w7300;x0;{probe}"));
            out.push(format!("srv dk 0 {tree} q0:{w}:-;q1:{w}:UP900_5;w7300;x0;{probe}"));
            out.push(format!("srv ok 0 {tree} q0:{w}:-;q1:{w}:UP900_5;w7300;x0;{probe}"));
            out.push(format!("srv os 0 {tree} q0:{w}:-;q1:{w}:UP900_5;w7300;x0;{probe}"));
        }
    }
    // uploads longer than the largest block, block sizes at and beyond the upper bound: the block length the server
    // stores must be the one it acknowledged
    for flags in ["-", "s"] {
        for b in ["65464", "65465", "65500", "65503"] {
            let o = vec![("blksize".to_string(), b.to_string())];
            out.push(format!("srv {flags} 0 {tree} q0:{}:UP70000_5;{probe}", hex(&req(2, b"hugeup.bin", &o))));
        }
    }
    // a file longer than any read-ahead buffer, block sizes that divide no power of two: every block but the last is full
    for flags in ["-", "s"] {
        for (b, w) in [("1468", "4"), ("1000", "1"), ("1428", "3"), ("9", "64"), ("8191", "2"), ("100", "16")] {
            let o = vec![("blksize".to_string(), b.to_string()), ("windowsize".to_string(), w.to_string())];
            out.push(format!("srv {flags} 0 {tree} q0:{}:D;{probe}", hex(&req(1, b"huge", &o))));
        }
    }
    // files of one repeated byte: adjacent blocks are identical, inside a window and across windows
    for flags in ["-", "s", "o"] {
        for (b, w, len) in [("8", "2", 16u64), ("8", "2", 51), ("8", "4", 64), ("512", "3", 4096), ("16", "8", 1000), ("512", "1", 2048)] {
            let o = vec![("blksize".to_string(), b.to_string()), ("windowsize".to_string(), w.to_string())];
            out.push(format!("srv {flags} 0 {tree} q0:{}:UZ{len}_0;q1:{}:D;{probe}", hex(&req(2, b"same.bin", &o)), hex(&req(1, b"a.txt", &[]))));
        }
    }
    // a completed upload survives a later download of it that fails; an upload aborted with a long message is cleaned up
    for flags in ["-", "o", "s", "k", "so"] {
        let u = hex(&req(2, b"fresh.bin", &[]));
        let d = hex(&req(1, b"fresh.bin", &[]));
        let dw = hex(&req(1, b"fresh.bin", &[("windowsize".to_string(), "2".to_string())]));
        out.push(format!("srv {flags} 0 {tree} q0:{u}:UP700_2;q1:{d}:E;{probe}"));
        out.push(format!("srv {flags} 0 {tree} q0:{u}:UP1300_3;q1:{dw}:E;q2:{d}:D;{probe}"));
        out.push(format!("srv {flags} 0 {tree} q0:{u}:F;{probe}"));
        out.push(format!("srv {flags} 0 {tree} q0:{}:F;q1:{u}:UP600_1;{probe}", hex(&req(2, b"sub/part.bin", &[("blksize".to_string(), "1024".to_string())]))));
    }
    // the existing file of length zero is a file: read as one empty block, not overwritten without --overwrite
    for flags in ["-", "s", "o", "r"] {
        out.push(format!("srv {flags} 0 {tree} q0:{}:UP300_1;q1:{}:D;{probe}", hex(&req(2, b"empty", &[])), hex(&req(1, b"empty", &[]))));
        out.push(format!("srv {flags} 0 {tree} q0:{}:D;q1:{}:UP0_0;{probe}", hex(&req(1, b"empty", &[("tsize".to_string(), "0".to_string())])), hex(&req(2, b"sub/../empty", &[]))));
    }
    // --overwrite: a completed upload replaces the old content entirely (shorter than what was there, also empty)
    for flags in ["o", "so", "do", "ok"] {
        for (name, len) in [("a.txt", 7u64), ("a.txt", 0), ("sub/b.bin", 512), ("old.bin", 1000), ("tiny", 1)] {
            let o = vec![("blksize".to_string(), "512".to_string())];
            out.push(format!("srv {flags} 0 {tree} q0:{}:UP{len}_2;q1:{}:D;{probe}", hex(&req(2, name.as_bytes(), &o)), hex(&req(1, name.as_bytes(), &[]))));
        }
    }
    // single-port mode: a transfer with a small block size does not shrink what the listener can take afterwards
    for (flags, w) in [("sr", "new.bin"), ("s", "a.txt"), ("so", "a.txt")] {
        let small = hex(&req(1, b"a.txt", &[("blksize".to_string(), "8".to_string())]));
        let smallw = hex(&req(2, b"small.bin", &[("blksize".to_string(), "9".to_string())]));
        out.push(format!("srv {flags} 0 {tree} q0:{small}:D;q1:{}:UP200_1;q2:{}:D;{probe}", hex(&req(2, w.as_bytes(), &[])), hex(&req(1, b"sub/nope.bin", &[]))));
        out.push(format!("srv {flags} 0 {tree} q0:{smallw}:UP100_2;q1:{}:UP200_1;q2:{}:D;{probe}", hex(&req(2, w.as_bytes(), &[])), hex(&req(1, b"nosuchfile-with-a-long-name.bin", &[]))));
    }
    // long names that are not ASCII (the refusal quotes the name): every alignment of the multi-byte characters
    for flags in ["-", "s", "r"] {
        for ch in ["\u{e9}", "\u{20ac}", "\u{1d11e}"] {
            let mut steps = vec![];
            for pad in 0..4usize {
                let mut name = "a".repeat(pad);
                while name.len() + ch.len() <= 470 + pad * 9 {
                    name.push_str(ch);
                }
                steps.push(format!("q{}:{}:D", pad, hex(&req(1, name.as_bytes(), &[]))));
                steps.push(format!("q{}:{}:D", pad + 4, hex(&req(1, format!("../{name}").as_bytes(), &[]))));
            }
            steps.push(probe.clone());
            out.push(format!("srv {flags} 0 {tree} {}", steps.join(";")));
        }
    }
    // an upload into an empty receive directory that its client aborts: the directory itself stays
    {
        let bare: String = tree.split(',').filter(|e| { let p: Vec<&str> = e.split(':').collect(); !String::from_utf8(unhex(p[1])).unwrap().starts_with("rcv/") }).collect::<Vec<_>>().join(",");
        for flags in ["d", "ds", "dk"] {
            out.push(format!("srv {flags} 0 {bare} q0:{}:E;{probe}", hex(&req(2, b"fw.bin", &[]))));
            out.push(format!("srv {flags} 0 {bare} q0:{}:F;q1:{}:UP100_3;{probe}", hex(&req(2, b"fw.bin", &[("blksize".to_string(), "1024".to_string())])), hex(&req(2, b"second.bin", &[]))));
        }
    }
    // an upload that announced its size (tsize) and is aborted by its client: removed, or kept as the (empty) prefix -
    // never as a file of the announced length
    for flags in ["-", "k", "sk", "dk", "ok"] {
        for ts in ["700", "70000"] {
            let t = vec![("tsize".to_string(), ts.to_string())];
            let tb = vec![("blksize".to_string(), "1024".to_string()), ("tsize".to_string(), ts.to_string())];
            out.push(format!("srv {flags} 0 {tree} q0:{}:E;q1:{}:F;{probe}", hex(&req(2, b"sized.bin", &t)), hex(&req(2, b"sub/sized2.bin", &tb))));
        }
    }
    // windows of more than 64 KiB of payload on a file long enough to fill them: the first burst is the acknowledged window
    for flags in ["-", "s"] {
        for (b, w) in [("1024", "80"), ("1428", "64"), ("512", "200"), ("8192", "9")] {
            let o = vec![("blksize".to_string(), b.to_string()), ("windowsize".to_string(), w.to_string())];
            out.push(format!("srv {flags} 0 {tree} q0:{}:D;{probe}", hex(&req(1, b"huge", &o))));
        }
    }
    // a symbolic link to a served file: its size is the file's
    {
        let linked = format!("{tree},l:{}:{}", hex(b"srv/link.txt"), hex(b"a.txt"));
        for flags in ["-", "s"] {
            let t = vec![("tsize".to_string(), "0".to_string())];
            out.push(format!("srv {flags} 0 {linked} q0:{}:D;q1:{}:D;{probe}", hex(&req(1, b"link.txt", &t)), hex(&req(1, b"link.txt", &[]))));
        }
    }
    // an upload whose every write fails (the target is a link to /dev/full, replaced with --overwrite): never acknowledged,
    // cleaned up like any failed upload
    {
        let full = format!("{tree},l:{}:{}", hex(b"srv/full.bin"), hex(b"/dev/full"));
        for flags in ["o", "os", "ok"] {
            for (b, w, len) in [("512", "1", 700u64), ("8", "4", 100), ("1024", "2", 5000)] {
                let o = vec![("blksize".to_string(), b.to_string()), ("windowsize".to_string(), w.to_string())];
                out.push(format!("srv {flags} 0 {full} q0:{}:UP{len}_3;{probe}", hex(&req(2, b"full.bin", &o))));
            }
        }
    }
    // single-port mode: a download is left waiting while sixty-seven other requests are served, then taken up again
    for flags in ["s", "so"] {
        let hold = hex(&req(1, b"big", &[]));
        let other = hex(&req(1, b"a.txt", &[]));
        let mut steps = vec![format!("q0:{hold}:H")];
        for k in 0..67 {
            steps.push(format!("q{}:{other}:D", 1 + k % 8));
        }
        steps.push("c0".to_string());
        steps.push(probe.clone());
        out.push(format!("srv {flags} 0 {tree} {}", steps.join(";")));
    }
    // single-port mode, an endpoint whose download is still running asks again: the refusals come all the same
    for (flags, w) in [("sr", "new.bin"), ("s", "a.txt"), ("sr", "a.txt"), ("sk", "old.bin")] {
        let hold = hex(&req(1, b"big", &[]));
        out.push(format!("srv {flags} 0 {tree} q0:{hold}:-;q0:{}:-;q0:{}:-;{probe}", hex(&req(2, w.as_bytes(), &[])), hex(&req(1, b"nope", &[]))));
        out.push(format!("srv {flags} 0 {tree} q0:{hold}:-;q0:{}:-;q0:{}:-;{probe}", hex(&req(1, b"sub/nope", &[])), hex(&req(2, w.as_bytes(), &[("blksize".to_string(), "64".to_string())]))));
    }
    for _ in 0..count {
        let mut flags = String::new();
        for (f, num, den) in [('s', 1, 2), ('r', 1, 6), ('o', 1, 2), ('k', 1, 4), ('d', 1, 2)] {
            if rng.chance(num, den) {
                flags.push(f);
            }
        }
        if flags.is_empty() {
            flags.push('-');
        }
        let dup = *rng.pick(&[0u8, 0, 0, 0, 1, 2]);
        let nsteps = rng.range(1, 4);
        let mut steps = vec![];
        for k in 0..nsteps {
            let c = if rng.chance(1, 5) && k > 0 { 0 } else { k };
            match rng.below(10) {
                0 | 1 => steps.push(format!("g{}:{}", c, { let g = garbage(rng); if g.is_empty() { "-".to_string() } else { hex(&g) } })),
                2 | 3 | 4 | 5 => {
                    let name = pick_name(rng, false);
                    // tsize also with names that do not exist (the size must not be looked up before the refusal); not with names that
                    // resolve to a directory: the size of a directory depends on the file system
                    let known = name.ends_with(b"txt") || name.ends_with(b"bin") || name.ends_with(b"big") || name.ends_with(b"empty") || name.ends_with(b"nope") || name.ends_with(b"/x");
                    let opts = pick_opts(rng, known);
                    let cont = if rng.chance(1, 12) { "E" } else { "D" };
                    steps.push(format!("q{}:{}:{}", c, hex(&req(1, &name, &opts)), cont));
                }
                _ => {
                    let name = pick_name(rng, true);
                    let opts = pick_opts(rng, true);
                    let size = *rng.pick(&[0u64, 1, 7, 8, 511, 512, 513, 1024, 1467, 1468, 3000, 2048]);
                    let cont = if rng.chance(1, 10) { "E".to_string() } else { format!("UP{}_{}", size, rng.below(200)) };
                    steps.push(format!("q{}:{}:{}", c, hex(&req(2, &name, &opts)), cont));
                }
            }
        }
        steps.push(probe.clone());
        out.push(format!("srv {flags} {dup} {tree} {}", steps.join(";")));
    }
    out
}

/// SRV-RT: the few histories that take real seconds (one per harness process): ACKs that arrive in disorder while the
/// worker is busy sending copies, downloads across the block-number wrap through the real listener.  (Retransmission
/// timing is measured on the real binaries, suite bin: in this process the workers run on the simulated clock.)
pub fn gen_srv_rt(_rng: &mut Rng, _count: u64, tier: &str) -> Vec<String> {
    let tree = tree_token();
    let mut out = vec![];
    let probe = format!("q9:{}:D", hex(&req(1, b"probe.txt", &[])));
    // single-port mode, duplicate-packets mode (the worker is busy sending copies while the ACKs come in):
    // ACK of the window and a stale ACK straight behind it
    for (dup, ws) in [(3u8, "4"), (5, "4"), (2, "8"), (0, "4")] {
        let o = vec![("blksize".to_string(), "8".to_string()), ("windowsize".to_string(), ws.to_string())];
        out.push(format!("srv s {dup} {tree} q0:{}:R;{probe}", hex(&req(1, b"a.txt", &o))));
        out.push(format!("srv - {dup} {tree} q0:{}:R;{probe}", hex(&req(1, b"a.txt", &o))));
    }
    // more than 65536 blocks through the real listener (the handshake code sees the file's length)
    let wrap_tree = format!("{tree},f:{}:P524290_11,f:{}:P524288_12", hex(b"srv/wrap"), hex(b"srv/wrap0"));
    let o8 = |ws: &str| vec![("blksize".to_string(), "8".to_string()), ("windowsize".to_string(), ws.to_string())];
    out.push(format!("srv - 0 {wrap_tree} q0:{}:D;{probe}", hex(&req(1, b"wrap", &o8("4")))));
    out.push(format!("srv s 0 {wrap_tree} q0:{}:D;{probe}", hex(&req(1, b"wrap0", &o8("64")))));
    out.push(format!("srv s 0 {wrap_tree} q0:{}:D;{probe}", hex(&req(1, b"wrap", &o8("1")))));
    if tier == "thorough" {
        out.push(format!("srv - 0 {wrap_tree} q0:{}:D;{probe}", hex(&req(1, b"wrap0", &o8("1")))));
        out.push(format!("srv s 0 {wrap_tree} q0:{}:D;{probe}", hex(&req(1, b"wrap", &o8("7")))));
    }
    out
}

// entry points shared with the concurrent suite
pub fn build_tree_pub(root: &Path, tree: &str) {
    build_tree(root, tree)
}
pub fn snapshot_pub(root: &Path) -> String {
    snapshot(root)
}
pub fn start_server_pub(root: &Path, flags: &str, dup: u8) -> SocketAddr {
    start_server(root, flags, dup)
}
pub fn subst_root_pub(dg: &[u8], root: &Path) -> Vec<u8> {
    subst_root(dg, root)
}
pub fn tree_token_pub() -> String {
    tree_token()
}
pub fn req_pub(op: u8, name: &[u8], opts: &[(String, String)]) -> Vec<u8> {
    req(op, name, opts)
}
