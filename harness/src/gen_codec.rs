//! Generators for the codec suites.

use crate::codec::packet_text;
use crate::util::*;
use tftpd::{ErrorCode, OptionType, Packet, TransferOption};

const BOUNDARY: &[&str] = &[
    "0", "1", "7", "8", "512", "1468", "65464", "65465", "65535", "65536", "2147483648", "4294967296",
    "9223372036854775808", "18446744073709551615", "18446744073709551616", "99999999999999999999999",
    "-1", "+5", "++5", "+", "-", "007", "", "abc", "1 2", "12a", "0x10", " 5", "5 ", "1e3",
];

fn some_string(rng: &mut Rng) -> String {
    match rng.below(10) {
        0 => String::new(),
        1 => "é".into(),
        2 => "日本語.txt".into(),
        3 => "a".repeat(rng.range(500, 700) as usize),
        4 => "dir/sub\\file name.bin".into(),
        5 => "\u{212a}elvin\u{10348}".into(),
        6 => "octet".into(),
        7 => "netascii".into(),
        _ => {
            let n = rng.range(1, 12);
            (0..n).map(|_| (b'a' + rng.below(26) as u8) as char).collect()
        }
    }
}

fn some_value(rng: &mut Rng) -> usize {
    *rng.pick(&[0usize, 1, 7, 8, 9, 512, 65464, 65465, 65535, 65536, 1 << 31, 1 << 32, 1 << 63, usize::MAX, 12345678901234])
}

fn some_opts(rng: &mut Rng) -> Vec<TransferOption> {
    let n = *rng.pick(&[0u64, 0, 1, 2, 3, 4, 6]);
    (0..n)
        .map(|_| TransferOption {
            option: *rng.pick(&[OptionType::BlockSize, OptionType::TransferSize, OptionType::Timeout, OptionType::Windowsize]),
            value: some_value(rng),
        })
        .collect()
}

fn some_u16(rng: &mut Rng) -> u16 {
    *rng.pick(&[0u16, 1, 2, 255, 256, 257, 32767, 32768, 65534, 65535, 0x0102, 0xff00])
}

pub fn some_packet(rng: &mut Rng) -> Packet {
    match rng.below(6) {
        0 => Packet::Rrq { filename: some_string(rng), mode: some_string(rng), options: some_opts(rng) },
        1 => Packet::Wrq { filename: some_string(rng), mode: some_string(rng), options: some_opts(rng) },
        2 => {
            let n = *rng.pick(&[0u64, 1, 7, 8, 511, 512, 513, 1468, 65464]);
            let n = if n == 65464 && !rng.chance(1, 8) { 100 } else { n };
            Packet::Data { block_num: some_u16(rng), data: rng.bytes(n as usize) }
        }
        3 => Packet::Ack(some_u16(rng)),
        4 => Packet::Error { code: error_code(rng.below(8) as u16), msg: some_string(rng) },
        _ => Packet::Oack(some_opts(rng)),
    }
}

fn mutate(rng: &mut Rng, mut b: Vec<u8>) -> Vec<u8> {
    let n = rng.range(0, 3);
    for _ in 0..n {
        if b.is_empty() {
            b.push(rng.next() as u8);
            continue;
        }
        let i = rng.below(b.len() as u64) as usize;
        match rng.below(8) {
            0 => b[i] = rng.next() as u8,
            1 => b.truncate(i),
            2 => b.insert(i, *rng.pick(&[0u8, 0x30, 0x2b, 0xff, 0xc3, 0x80])),
            3 => {
                b.remove(i);
            }
            4 => {
                if let Some(p) = b.iter().rposition(|&x| x == 0) {
                    b.remove(p); // drop a terminator
                }
            }
            5 => b.push(*rng.pick(&[0u8, 0x61, 0xff])),
            6 => b[i] ^= 0x20, // flips ASCII case
            _ => b[i] = 0,
        }
    }
    b
}

fn rq_with_raw_options(rng: &mut Rng) -> Vec<u8> {
    let names: &[&[u8]] = &[
        b"blksize", b"BLKSIZE", b"BlkSize", b"bl\xe2\x84\xaasize", b"tsize", b"TSIZE", b"timeout", b"Timeout",
        b"windowsize", b"WINDOWSIZE", b"WindowSize", b"blksize2", b"blksiz", b"multicast", b"", b"x", b"t\xc4\xb0meout",
        b"blks\xc4\xb1ze", b"\xff", b"tsize ",
    ];
    let mut b = vec![0u8, if rng.chance(1, 2) { 1 } else { 2 }];
    b.extend_from_slice(b"file.bin\0octet\0");
    if rng.chance(1, 5) {
        b = vec![0u8, 6];
    }
    let n = rng.range(0, 5);
    for _ in 0..n {
        let nm: &[u8] = names[rng.below(names.len() as u64) as usize];
        b.extend_from_slice(nm);
        b.push(0);
        b.extend_from_slice(rng.pick(BOUNDARY).as_bytes());
        b.push(0);
    }
    if rng.chance(1, 6) {
        b.pop();
    }
    b
}

fn push(out: &mut Vec<String>, b: &[u8]) {
    out.push(format!("dec {}", if b.is_empty() { "-".to_string() } else { hex(b) }));
}

pub fn gen_dec(rng: &mut Rng, count: u64, tier: &str) -> Vec<String> {
    let mut out = vec![];
    // (a) exhaustive tails over a reduced alphabet behind every opcode prefix 0..7
    let alpha: &[u8] = &[0x00, 0x01, 0x30, 0x39, 0x2b, 0x62, 0xc3, 0xa9, 0x80, 0xff];
    let maxlen = if tier == "thorough" { 5 } else { 4 };
    for op in 0u8..8 {
        let mut stack: Vec<Vec<u8>> = vec![vec![]];
        while let Some(t) = stack.pop() {
            let mut b = vec![0u8, op];
            b.extend_from_slice(&t);
            push(&mut out, &b);
            if t.len() < maxlen {
                for &a in alpha {
                    let mut t2 = t.clone();
                    t2.push(a);
                    stack.push(t2);
                }
            }
        }
    }
    // (b) all 65536 two-byte prefixes x short tails
    let tails: &[&[u8]] = &[b"", b"\0", b"\0\x01", b"\0\x01a\0", b"a\0b\0", b"a\0b\0tsize\x005\0"];
    let ntails = if tier == "thorough" { tails.len() } else { 3 };
    for p in 0u32..65536 {
        for t in tails.iter().take(ntails) {
            let mut b = vec![(p >> 8) as u8, p as u8];
            b.extend_from_slice(t);
            push(&mut out, &b);
        }
    }
    // (b') every ERROR code, 16 bits, with and without message / terminator (the code is looked up in a table of eight)
    for code in 0u32..65536 {
        if code > 600 && code % 251 != 0 && code < 65500 {
            continue;
        }
        for t in [&b""[..], b"\0", b"x\0", b"no terminator", b"caf\xe9\0"] {
            let mut b = vec![0u8, 5, (code >> 8) as u8, code as u8];
            b.extend_from_slice(t);
            push(&mut out, &b);
        }
    }
    // (b'') file names that begin with separators (whatever a decoder normalises must stay normalised), every request kind
    for op in [1u8, 2] {
        for name in [&b"//a"[..], b"\\\\a", b"/a", b"\\a", b"///x/y", b"/\\/a", b"//", b"/", b"a//b", b"./a", b"/./a"] {
            for tail in [&b"octet\0"[..], b"octet\0blksize\0512\0", b"\0"] {
                let mut b = vec![0u8, op];
                b.extend_from_slice(name);
                b.push(0);
                b.extend_from_slice(tail);
                push(&mut out, &b);
            }
        }
    }
    // (c) short buffers
    push(&mut out, &[]);
    for x in 0u16..256 {
        push(&mut out, &[x as u8]);
    }
    // (d) structured: valid packets with 0..3 mutations; raw option text at the boundaries
    for _ in 0..count {
        let p = some_packet(rng);
        let b = mutate(rng, p.serialize().unwrap());
        push(&mut out, &b);
        let b = rq_with_raw_options(rng);
        let b = if rng.chance(1, 4) { mutate(rng, b) } else { b };
        push(&mut out, &b);
    }
    // (e) random blobs up to 64 KiB
    let blobs = if tier == "thorough" { 200 } else { 30 };
    for i in 0..blobs {
        let n = if i % 10 == 0 { rng.range(60000, 65536) } else { rng.range(0, 2000) };
        let mut b = rng.bytes(n as usize);
        if !b.is_empty() && rng.chance(3, 4) {
            b[0] = 0;
            if b.len() > 1 {
                b[1] = rng.range(1, 6) as u8;
            }
        }
        push(&mut out, &b);
    }
    out
}

pub fn gen_enc(rng: &mut Rng, count: u64, _tier: &str) -> Vec<String> {
    let mut out = vec![];
    for _ in 0..count {
        out.push(format!("enc {}", packet_text(&some_packet(rng))));
    }
    // the packets without any variable part
    out.push("enc oack -".to_string());
    out.push("enc ack 0".to_string());
    out.push("enc data 0 -".to_string());
    out.push("enc rrq - - -".to_string());
    out.push("enc wrq - - -".to_string());
    // exhaustive 16-bit sweeps of the enum conversions
    for v in 0u32..65536 {
        out.push(format!("opc {v}"));
        out.push(format!("erc {v}"));
    }
    for s in ["blksize", "tsize", "timeout", "windowsize", "BLKSIZE", "blksize ", "", "tsiz", "windowsizes"] {
        out.push(format!("optname {}", if s.is_empty() { "-".to_string() } else { hex(s.as_bytes()) }));
    }
    // block numbers: every value in Data and Ack
    for v in (0u32..65536).step_by(257) {
        out.push(format!("enc ack {v}"));
        out.push(format!("enc data {v} 0102"));
    }
    // lower-casing projection, swept over all scalar values in slices
    let mut lo = 0u32;
    while lo < 0x110000 {
        out.push(format!("lowersweep {} {}", lo, lo + 0xffff));
        lo += 0x10000;
    }
    out
}
