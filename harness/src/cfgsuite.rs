//! CFG: `Config::new` / `ClientConfig::new` on generated argument vectors.
//! `cfg <cwd-hex> <E: existing tokens> <I: tok=canonical;..> <args>` and `ccfg ...` (same layout).
//! Tokens are hex, `_` is the empty string, lists are comma separated, `-` is the empty list.

use crate::util::*;
use std::net::IpAddr;
use std::path::Path;
use tftpd::{ClientConfig, Config, Mode};

fn tok(s: &str) -> String {
    if s.is_empty() {
        "_".into()
    } else {
        hex(s.as_bytes())
    }
}

fn untok(t: &str) -> String {
    if t == "_" {
        String::new()
    } else {
        String::from_utf8(unhex(t)).unwrap()
    }
}

fn parse_args(list: &str) -> Vec<String> {
    if list == "-" {
        vec![]
    } else {
        list.split(',').map(untok).collect()
    }
}

fn classify(msg: &str) -> &'static str {
    if msg.starts_with("Missing") {
        "missing"
    } else if msg.contains("invalid IP address") {
        "badip"
    } else if msg.contains("does not exist") {
        "nodir"
    } else if msg.starts_with("Duplicate packets should be less") {
        "dupmax"
    } else if msg.starts_with("Invalid flag") {
        "invalidflag"
    } else if msg.contains("invalid digit") || msg.contains("number too large") || msg.contains("number too small") || msg.contains("cannot parse integer") {
        "badnum"
    } else {
        "other"
    }
}

fn show_dir(p: &Path, cwd: &Path) -> String {
    if p == cwd && !p.as_os_str().is_empty() {
        "CWD".into()
    } else {
        tok(p.to_str().unwrap_or("?"))
    }
}

pub fn sandbox_dirs() -> Vec<String> {
    let base = std::env::current_dir().unwrap().join(".build").join("sandbox").join("cfg");
    let mut v = vec![];
    for d in ["a", "b", "c c", "d/e"] {
        let p = base.join(d);
        let _ = std::fs::create_dir_all(&p);
        v.push(p.to_str().unwrap().to_string());
    }
    v
}

pub fn run_cfg(toks: &[&str]) -> String {
    sandbox_dirs();
    let args = parse_args(toks[4]);
    let cwd = std::env::current_dir().unwrap();
    match Config::new(args.into_iter()) {
        Ok(c) => format!(
            "ok ip={} port={} dir={} rdir={} sdir={} single={} ro={} dup={} over={} clean={}",
            tok(&c.ip_address.to_string()),
            c.port,
            show_dir(&c.directory, &cwd),
            show_dir(&c.receive_directory, &cwd),
            show_dir(&c.send_directory, &cwd),
            c.single_port as u8,
            c.read_only as u8,
            c.duplicate_packets,
            c.overwrite as u8,
            c.clean_on_error as u8
        ),
        Err(e) => format!("err {}", classify(&e.to_string())),
    }
}

pub fn run_ccfg(toks: &[&str]) -> String {
    sandbox_dirs();
    let args = parse_args(toks[4]);
    match ClientConfig::new(args.into_iter()) {
        Ok(c) => format!(
            "ok ip={} port={} blk={} ws={} tmo={} up={} rdir={} file={} clean={}",
            tok(&c.remote_ip_address.to_string()),
            c.port,
            c.blocksize,
            c.windowsize,
            c.timeout.as_secs(),
            (c.mode == Mode::Upload) as u8,
            tok(c.receive_directory.to_str().unwrap_or("?")),
            tok(c.file_path.to_str().unwrap_or("?")),
            c.clean_on_error as u8
        ),
        Err(e) => format!("err {}", classify(&e.to_string())),
    }
}

struct Group {
    toks: Vec<String>,
}

/// `cfgperm <cwd> <E> <I> <groups g1|g2|..> <perms 0.1.2;2.0.1;..>`: the same setting groups in several orders
/// (each order keeps the relative order of groups of the same setting).
pub fn run_cfgperm(toks: &[&str]) -> String {
    sandbox_dirs();
    let groups: Vec<Vec<String>> = if toks[4] == "-" { vec![] } else { toks[4].split('|').map(parse_args).collect() };
    let cwd_tok = toks[1];
    let mut res = vec![];
    for perm in toks[5].split(';') {
        let mut args: Vec<String> = vec!["tftpd".to_string()];
        if perm != "-" {
            for i in perm.split('.') {
                args.extend(groups[i.parse::<usize>().unwrap()].iter().cloned());
            }
        }
        let a = if args.is_empty() { "-".to_string() } else { args.iter().map(|s| tok(s)).collect::<Vec<_>>().join(",") };
        res.push(run_cfg(&["cfg", cwd_tok, toks[2], toks[3], &a]));
    }
    res.join(" | ")
}

pub fn run_ccfgperm(toks: &[&str]) -> String {
    sandbox_dirs();
    let groups: Vec<Vec<String>> = if toks[4] == "-" { vec![] } else { toks[4].split('|').map(parse_args).collect() };
    let mut res = vec![];
    for perm in toks[5].split(';') {
        let mut args: Vec<String> = vec![];
        if perm != "-" {
            for i in perm.split('.') {
                args.extend(groups[i.parse::<usize>().unwrap()].iter().cloned());
            }
        }
        let a = if args.is_empty() { "-".to_string() } else { args.iter().map(|s| tok(s)).collect::<Vec<_>>().join(",") };
        res.push(run_ccfg(&["ccfg", toks[1], toks[2], toks[3], &a]));
    }
    res.join(" | ")
}

fn client_key_of(flag: &str) -> u32 {
    match flag {
        "-i" | "--ip-address" => 1,
        "-p" | "--port" => 2,
        "-b" | "--blocksize" => 3,
        "-w" | "--windowsize" => 4,
        "-t" | "--timeout" => 5,
        "-rd" | "--receive-directory" => 6,
        "-u" | "--upload" | "-d" | "--download" => 7,
        "--keep-on-error" => 8,
        _ => 9, // the file name
    }
}

fn key_of(flag: &str) -> u32 {
    match flag {
        "-i" | "--ip-address" => 1,
        "-p" | "--port" => 2,
        "-d" | "--directory" => 3,
        "-rd" | "--receive-directory" => 4,
        "-sd" | "--send-directory" => 5,
        "-s" | "--single-port" => 6,
        "-r" | "--read-only" => 7,
        "--duplicate-packets" => 8,
        "--overwrite" => 9,
        "--keep-on-error" => 10,
        _ => 0,
    }
}

/// A random interleaving that keeps the relative order of groups with the same key.
fn key_preserving_perm(rng: &mut Rng, keys: &[u32]) -> Vec<usize> {
    let n = keys.len();
    let shuffled = permute(rng, n);
    // positions are reassigned, but within one key the original order of indices is restored
    let mut by_key: std::collections::BTreeMap<u32, Vec<usize>> = Default::default();
    for &i in &shuffled {
        by_key.entry(keys[i]).or_default().push(i);
    }
    for v in by_key.values_mut() {
        v.sort();
    }
    let mut next: std::collections::BTreeMap<u32, usize> = Default::default();
    shuffled
        .iter()
        .map(|&i| {
            let k = keys[i];
            let c = next.entry(k).or_insert(0);
            let r = by_key[&k][*c];
            *c += 1;
            r
        })
        .collect()
}

fn oracle_fields(args: &[String]) -> (String, String) {
    // E: tokens for which Path::exists holds; I: tokens that parse as an IP address, with their canonical form
    let mut e: Vec<String> = vec![];
    let mut i: Vec<String> = vec![];
    for a in args {
        if Path::new(a).exists() && !e.contains(&tok(a)) {
            e.push(tok(a));
        }
        if let Ok(ip) = a.parse::<IpAddr>() {
            let item = format!("{}={}", tok(a), tok(&ip.to_string()));
            if !i.contains(&item) {
                i.push(item);
            }
        }
    }
    (if e.is_empty() { "-".into() } else { e.join(",") }, if i.is_empty() { "-".into() } else { i.join(";") })
}

fn line(kind: &str, args: &[String]) -> String {
    let cwd = std::env::current_dir().unwrap();
    let (e, i) = oracle_fields(args);
    let a = if args.is_empty() { "-".to_string() } else { args.iter().map(|s| tok(s)).collect::<Vec<_>>().join(",") };
    format!("{kind} {} {e} {i} {a}", tok(cwd.to_str().unwrap()))
}

fn server_groups(rng: &mut Rng, dirs: &[String]) -> Vec<Group> {
    let pick = |rng: &mut Rng, xs: &[&str]| xs[rng.below(xs.len() as u64) as usize].to_string();
    let dirv = |rng: &mut Rng| -> String {
        match rng.below(8) {
            0 => "/nonexistent/dir".into(),
            1 => "".into(),
            2 => "/".into(),
            3 => ".".into(),
            _ => dirs[rng.below(dirs.len() as u64) as usize].clone(),
        }
    };
    let mut gs = vec![];
    let n = rng.range(0, 7);
    for _ in 0..n {
        let g = match rng.below(13) {
            0 => vec![pick(rng, &["-i", "--ip-address"]), pick(rng, &["0.0.0.0", "127.0.0.1", "::1", "1234.5.6.7", "10.0.0.256", "0:0:0:0:0:0:0:0", "::ffff:1.2.3.4", "localhost", "", "+1.2.3.4", "01.2.3.4", "10.0.0.1:6969", "[::1]:69", "127.0.0.1:69", "[::1]", "1.2.3.4/8"])],
            1 => vec![pick(rng, &["-p", "--port"]), pick(rng, &["0", "69", "1234", "65535", "65536", "+80", "0080", "-1", "", "8o", "99999999999999999999"])],
            2 => vec![pick(rng, &["-d", "--directory"]), dirv(rng)],
            3 => vec![pick(rng, &["-rd", "--receive-directory"]), dirv(rng)],
            4 => vec![pick(rng, &["-sd", "--send-directory"]), dirv(rng)],
            5 => vec![pick(rng, &["-s", "--single-port"])],
            6 => vec![pick(rng, &["-r", "--read-only"])],
            7 => vec!["--duplicate-packets".to_string(), pick(rng, &["0", "1", "2", "3", "254", "255", "256", "+7", "007", "-1", "", "x", "300"])],
            8 => vec!["--overwrite".to_string()],
            9 => vec!["--keep-on-error".to_string()],
            10 => vec![pick(rng, &["-x", "--port=1", "file.txt", "-P", "--Overwrite", "", "-rd ", "--duplicate-packet"])],
            11 => vec![pick(rng, &["-i", "-p", "-d", "-rd", "-sd", "--duplicate-packets"])], // value taken from whatever follows
            _ => vec![pick(rng, &["-p", "--port"]), pick(rng, &["1", "2", "3"])],
        };
        gs.push(Group { toks: g });
    }
    gs
}

fn client_groups(rng: &mut Rng, dirs: &[String]) -> Vec<Group> {
    let pick = |rng: &mut Rng, xs: &[&str]| xs[rng.below(xs.len() as u64) as usize].to_string();
    let mut gs = vec![];
    let n = rng.range(0, 7);
    for _ in 0..n {
        let g = match rng.below(13) {
            0 => vec![pick(rng, &["-i", "--ip-address"]), pick(rng, &["0.0.0.0", "::1", "1.2.3", "x", ""])],
            1 => vec![pick(rng, &["-p", "--port"]), pick(rng, &["0", "69", "65535", "65536", "+80", "-1", ""])],
            2 => vec![pick(rng, &["-b", "--blocksize"]), pick(rng, &["8", "512", "65464", "0", "18446744073709551615", "18446744073709551616", "+9", "x", ""])],
            3 => vec![pick(rng, &["-w", "--windowsize"]), pick(rng, &["1", "4", "65535", "65536", "0", "-2", ""])],
            4 => vec![pick(rng, &["-t", "--timeout"]), pick(rng, &["1", "5", "255", "0", "18446744073709551615", "18446744073709551616", "1.5", ""])],
            5 => vec![pick(rng, &["-rd", "--receive-directory"]), if rng.chance(1, 4) { "/nonexistent/x".to_string() } else { dirs[rng.below(dirs.len() as u64) as usize].clone() }],
            6 => vec![pick(rng, &["-u", "--upload"])],
            7 => vec![pick(rng, &["-d", "--download"])],
            8 => vec!["--keep-on-error".to_string()],
            9 | 10 => vec![pick(rng, &["file.bin", "/abs/file", "\\\\win\\path\\f.txt", "a/b\\c", "//x", "client", "", "-x", "--overwrite", "/", "\\", "a\\..\\b"])],
            _ => vec![pick(rng, &["-i", "-p", "-b", "-w", "-t", "-rd"])],
        };
        gs.push(Group { toks: g });
    }
    gs
}

fn permute(rng: &mut Rng, n: usize) -> Vec<usize> {
    let mut idx: Vec<usize> = (0..n).collect();
    for i in (1..n).rev() {
        let j = rng.below(i as u64 + 1) as usize;
        idx.swap(i, j);
    }
    idx
}

fn valid_server_groups(rng: &mut Rng, dirs: &[String]) -> Vec<Group> {
    let pick = |rng: &mut Rng, xs: &[&str]| xs[rng.below(xs.len() as u64) as usize].to_string();
    let mut gs = vec![];
    let n = rng.range(0, 8);
    for _ in 0..n {
        let d = dirs[rng.below(dirs.len() as u64) as usize].clone();
        let g = match rng.below(11) {
            0 => vec![pick(rng, &["-i", "--ip-address"]), pick(rng, &["0.0.0.0", "127.0.0.1", "::1", "::ffff:1.2.3.4", "10.1.2.3"])],
            1 => vec![pick(rng, &["-p", "--port"]), pick(rng, &["0", "69", "1234", "65535", "+80", "0080"])],
            2 => vec![pick(rng, &["-d", "--directory"]), d],
            3 => vec![pick(rng, &["-rd", "--receive-directory"]), d],
            4 => vec![pick(rng, &["-sd", "--send-directory"]), d],
            5 => vec![pick(rng, &["-s", "--single-port"])],
            6 => vec![pick(rng, &["-r", "--read-only"])],
            7 => vec!["--duplicate-packets".to_string(), pick(rng, &["0", "1", "2", "3", "254", "+7", "007"])],
            8 => vec!["--overwrite".to_string()],
            9 => vec!["--keep-on-error".to_string()],
            _ => vec![pick(rng, &["-d", "--directory"]), pick(rng, &["/", "."])],
        };
        gs.push(Group { toks: g });
    }
    gs
}

fn perm_line(rng: &mut Rng, gs: &[Group]) -> String {
    let keys: Vec<u32> = gs.iter().map(|g| key_of(&g.toks[0])).collect();
    let mut perms: Vec<String> = vec![];
    let ident: Vec<usize> = (0..gs.len()).collect();
    let show = |p: &[usize]| if p.is_empty() { "-".to_string() } else { p.iter().map(|i| i.to_string()).collect::<Vec<_>>().join(".") };
    perms.push(show(&ident));
    for _ in 0..4 {
        perms.push(show(&key_preserving_perm(rng, &keys)));
    }
    let mut all: Vec<String> = vec!["tftpd".to_string()];
    for g in gs {
        all.extend(g.toks.iter().cloned());
    }
    let cwd = std::env::current_dir().unwrap();
    let (e, i) = oracle_fields(&all);
    let groups = if gs.is_empty() {
        "-".to_string()
    } else {
        gs.iter().map(|g| g.toks.iter().map(|t| tok(t)).collect::<Vec<_>>().join(",")).collect::<Vec<_>>().join("|")
    };
    format!("cfgperm {} {e} {i} {groups} {}", tok(cwd.to_str().unwrap()), perms.join(";"))
}

fn valid_client_groups(rng: &mut Rng, dirs: &[String]) -> Vec<Group> {
    let pick = |rng: &mut Rng, xs: &[&str]| xs[rng.below(xs.len() as u64) as usize].to_string();
    let mut gs = vec![];
    let n = rng.range(1, 7);
    for _ in 0..n {
        let d = dirs[rng.below(dirs.len() as u64) as usize].clone();
        let g = match rng.below(10) {
            0 => vec![pick(rng, &["-i", "--ip-address"]), pick(rng, &["0.0.0.0", "::1", "10.0.0.9"])],
            1 => vec![pick(rng, &["-p", "--port"]), pick(rng, &["69", "1069", "+80"])],
            2 => vec![pick(rng, &["-b", "--blocksize"]), pick(rng, &["8", "1468", "65464"])],
            3 => vec![pick(rng, &["-w", "--windowsize"]), pick(rng, &["1", "4", "65535"])],
            4 => vec![pick(rng, &["-t", "--timeout"]), pick(rng, &["1", "5", "255"])],
            5 => vec![pick(rng, &["-rd", "--receive-directory"]), d],
            6 => vec![pick(rng, &["-u", "--upload"])],
            7 => vec![pick(rng, &["-d", "--download"])],
            8 => vec!["--keep-on-error".to_string()],
            _ => vec![pick(rng, &["file.bin", "sub/x.dat", "\\a\\b"])],
        };
        gs.push(Group { toks: g });
    }
    gs
}

fn client_perm_line(rng: &mut Rng, gs: &[Group]) -> String {
    let keys: Vec<u32> = gs.iter().map(|g| client_key_of(&g.toks[0])).collect();
    let show = |p: &[usize]| if p.is_empty() { "-".to_string() } else { p.iter().map(|i| i.to_string()).collect::<Vec<_>>().join(".") };
    let ident: Vec<usize> = (0..gs.len()).collect();
    let mut perms = vec![show(&ident)];
    for _ in 0..4 {
        perms.push(show(&key_preserving_perm(rng, &keys)));
    }
    let mut all: Vec<String> = vec![];
    for g in gs {
        all.extend(g.toks.iter().cloned());
    }
    let cwd = std::env::current_dir().unwrap();
    let (e, i) = oracle_fields(&all);
    let groups = gs.iter().map(|g| g.toks.iter().map(|t| tok(t)).collect::<Vec<_>>().join(",")).collect::<Vec<_>>().join("|");
    format!("ccfgperm {} {e} {i} {groups} {}", tok(cwd.to_str().unwrap()), perms.join(";"))
}

pub fn gen_cfg(rng: &mut Rng, count: u64, _tier: &str) -> Vec<String> {
    let dirs = sandbox_dirs();
    let mut out = vec![];
    for k in 0..count {
        let gs = if k % 3 == 0 { server_groups(rng, &dirs) } else { valid_server_groups(rng, &dirs) };
        out.push(perm_line(rng, &gs));
        if k % 4 == 0 {
            let cg = valid_client_groups(rng, &dirs);
            out.push(client_perm_line(rng, &cg));
        }
    }
    out.push(line("cfg", &["tftpd".to_string()]));
    out.push(line("cfg", &[]));
    out.push(line("ccfg", &[]));
    // a receive / send directory given explicitly is kept - also when it happens to be the working directory (the default of -d)
    {
        let cwd = std::env::current_dir().unwrap().to_str().unwrap().to_string();
        let a = dirs[0].clone();
        let v = |xs: &[&str]| -> Vec<String> { xs.iter().map(|x| x.to_string()).collect() };
        for args in [
            v(&["tftpd", "-d", &a, "-rd", &cwd]),
            v(&["tftpd", "-rd", &cwd, "-d", &a]),
            v(&["tftpd", "-d", &a, "-sd", &cwd]),
            v(&["tftpd", "-sd", &cwd, "-d", &a]),
            v(&["tftpd", "-d", &a, "-sd", &cwd, "-rd", &cwd]),
            v(&["tftpd", "-rd", &a, "-sd", &a]),
            v(&["tftpd", "-d", &cwd, "-rd", &a]),
        ] {
            out.push(line("cfg", &args));
        }
        // a numeric value that is no number is an error, whatever else is given
        for bad in ["1.5", "abc", "", "-1", "1e3", " 5", "0x10"] {
            out.push(line("cfg", &v(&["tftpd", "-d", &a, "-p", bad])));
            out.push(line("cfg", &v(&["tftpd", "--duplicate-packets", bad, "-d", &a])));
            for flag in ["-p", "-b", "-w", "-t"] {
                out.push(line("ccfg", &v(&["f.bin", "-d", "-rd", &a, flag, bad])));
                out.push(line("ccfg", &v(&[flag, bad, "f.bin", "-u"])));
            }
        }
    }
    // the client's direction is that of the last -u / -d, in every spelling and position
    {
        let v = |xs: &[&str]| -> Vec<String> { xs.iter().map(|x| x.to_string()).collect() };
        for up in ["-u", "--upload"] {
            for down in ["-d", "--download"] {
                out.push(line("ccfg", &v(&["f.bin", up, down])));
                out.push(line("ccfg", &v(&["f.bin", down, up])));
                out.push(line("ccfg", &v(&[up, "f.bin", "-p", "6969", down])));
                out.push(line("ccfg", &v(&[up, down, up, "f.bin"])));
                out.push(line("ccfg", &v(&[down, up, "-b", "1024", down, "f.bin"])));
            }
        }
        // a relative directory is relative to the working directory, wherever -d points (here: <base>/d has a sub-directory e,
        // the working directory has none)
        {
            let with_e = std::path::Path::new(&dirs[3]).parent().unwrap().to_str().unwrap().to_string();
            for flag in ["-rd", "-sd", "--receive-directory", "--send-directory"] {
                out.push(line("cfg", &v(&["tftpd", "-d", &with_e, flag, "e"])));
                out.push(line("cfg", &v(&["tftpd", flag, "e", "-d", &with_e])));
                out.push(line("cfg", &v(&["tftpd", "-d", &with_e, flag, "e", "-d", &dirs[0]])));
            }
            out.push(line("ccfg", &v(&["f.bin", "-rd", "e"])));
        }
        // 16-bit settings: nothing beyond 65535, however it is written
        for big in ["65536", "65605", "101345", "4294967296", "18446744073709551615", "+65536", "0065536"] {
            out.push(line("cfg", &v(&["tftpd", "-p", big])));
            out.push(line("ccfg", &v(&["f.bin", "-p", big])));
            out.push(line("ccfg", &v(&["f.bin", "-w", big])));
            out.push(line("ccfg", &v(&["-p", "1234", "f.bin", "-p", big])));
        }
        // an address in socket-address syntax is no address
        for ip in ["10.0.0.1:6969", "[::1]:6969", "127.0.0.1:69", "[::1]"] {
            out.push(line("cfg", &v(&["tftpd", "-i", ip])));
            out.push(line("cfg", &v(&["tftpd", "-p", "1234", "--ip-address", ip])));
            out.push(line("cfg", &v(&["tftpd", "-i", ip, "-p", "1234"])));
            out.push(line("ccfg", &v(&["f.bin", "-i", ip])));
        }
        // ... and both address families are
        for ip in ["::1", "127.0.0.1", "::ffff:10.1.2.3", "fe80::1", "0.0.0.0"] {
            out.push(line("cfg", &v(&["tftpd", "-i", ip])));
            out.push(line("ccfg", &v(&["f.bin", "-i", ip])));
            out.push(line("ccfg", &v(&["--ip-address", ip, "-u", "f.bin"])));
        }
    }
    for k in 0..count {
        let client = k % 3 == 2;
        let gs = if client { client_groups(rng, &dirs) } else { server_groups(rng, &dirs) };
        // the vector as generated, and two random permutations of its groups
        for round in 0..3 {
            let order: Vec<usize> = if round == 0 { (0..gs.len()).collect() } else { permute(rng, gs.len()) };
            let mut args: Vec<String> = if client { vec![] } else { vec!["tftpd".to_string()] };
            for &i in &order {
                args.extend(gs[i].toks.iter().cloned());
            }
            out.push(line(if client { "ccfg" } else { "cfg" }, &args));
        }
    }
    out
}
