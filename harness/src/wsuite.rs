//! W-SEND / W-RECV: drive the real `Worker::send` / `Worker::receive` with a scripted socket.

use crate::capture::{classify, Capture};
use crate::simsock::{Ev, SimSocket, Snap};
use crate::util::*;
use std::collections::HashSet;
use std::path::{Path, PathBuf};
use std::time::Duration;
use tftpd::Worker;

pub fn parse_events(s: &str) -> Vec<Ev> {
    if s == "-" {
        return vec![];
    }
    s.split(',')
        .map(|t| {
            if let Some(r) = t.strip_prefix('e') {
                Ev::Fail { delay: r.parse().unwrap() }
            } else if let Some(r) = t.strip_prefix('d') {
                let (d, h) = r.split_once(':').unwrap();
                Ev::Dgram { delay: d.parse().unwrap(), raw: unhex(h) }
            } else {
                panic!("bad event {t}")
            }
        })
        .collect()
}

pub fn parse_fails(s: &str) -> HashSet<usize> {
    if s == "-" {
        return HashSet::new();
    }
    s.split(',').map(|t| t.parse().unwrap()).collect()
}

fn wait(handle: std::thread::JoinHandle<()>, sh: &std::sync::Arc<std::sync::Mutex<crate::simsock::Shared>>) -> Option<bool> {
    // Some(panicked) when the thread ended, None on runaway
    loop {
        if handle.is_finished() {
            return Some(handle.join().is_err());
        }
        if sh.lock().unwrap().runaway {
            return None;
        }
        std::thread::yield_now();
    }
}

/// `send <blk> <ws> <tmo_ns> <rep> <check> <filespec> <fails> <events>`
pub fn run_send(toks: &[&str], dir: &Path, cap: &mut Capture) -> String {
    let blk: usize = toks[1].parse().unwrap();
    let ws: u16 = toks[2].parse().unwrap();
    let tmo: u64 = toks[3].parse().unwrap();
    let rep: u8 = toks[4].parse().unwrap();
    let check = toks[5] == "1";
    let content = file_of_spec(toks[6]);
    let fails = parse_fails(toks[7]);
    let events = parse_events(toks[8]);
    let path: PathBuf = dir.join("src.bin");
    std::fs::write(&path, &content).unwrap();
    let (sock, sh) = SimSocket::new(events, fails, tmo, None);
    cap.take();
    let worker = Worker::new(Box::new(sock), path.clone(), true, blk, Duration::from_nanos(tmo), ws, rep);
    let handle = worker.send(check).unwrap();
    let ended = wait(handle, &sh);
    let (o, e) = cap.take();
    let sh = sh.lock().unwrap();
    let mut line = sh.log.join(" ");
    let kind = match ended {
        None => "runaway".to_string(),
        Some(true) => "panic".to_string(),
        Some(false) => classify(&o, &e),
    };
    if !line.is_empty() {
        line.push(' ');
    }
    line.push_str(&format!("end={kind}"));
    let _ = std::fs::remove_file(&path);
    line
}

/// `recv <blk> <ws> <tmo_ns> <rep> <clean> <fails> <events>`
pub fn run_recv(toks: &[&str], dir: &Path, cap: &mut Capture) -> String {
    let blk: usize = toks[1].parse().unwrap();
    let ws: u16 = toks[2].parse().unwrap();
    let tmo: u64 = toks[3].parse().unwrap();
    let rep: u8 = toks[4].parse().unwrap();
    let clean = toks[5].starts_with('1');
    let fails = parse_fails(toks[6]);
    let events = parse_events(toks[7]);
    let path: PathBuf = dir.join("dst.bin");
    let _ = std::fs::remove_file(&path);
    if toks[5].ends_with('p') {
        // an upload over an existing, longer file (overwrite mode): File::create must truncate it, a failure must still clean it
        std::fs::write(&path, vec![0xEEu8; 5000]).unwrap();
    }
    let (sock, sh) = SimSocket::new(events, fails, tmo, Some(Snap::new(path.clone())));
    cap.take();
    let worker = Worker::new(Box::new(sock), path.clone(), clean, blk, Duration::from_nanos(tmo), ws, rep);
    let handle = worker.receive().unwrap();
    let ended = wait(handle, &sh);
    let (o, e) = cap.take();
    let sh = sh.lock().unwrap();
    let mut line = sh.log.join(" ");
    let kind = match ended {
        None => "runaway".to_string(),
        Some(true) => "panic".to_string(),
        Some(false) => classify(&o, &e),
    };
    let file = match std::fs::read(&path) {
        Ok(v) => fp(&v),
        Err(_) => "absent".to_string(),
    };
    if !line.is_empty() {
        line.push(' ');
    }
    line.push_str(&format!("file={file} end={kind}"));
    let _ = std::fs::remove_file(&path);
    line
}
