//! WIN: the public `Window` API on real files, one operation sequence per case.
//! `win <mode R|W|A> <size> <chunk> <contenthex|-> <ops>` with ops `f` fill, `e` empty, `r<k>` remove, `a<hex|->` add.

use crate::util::*;
use std::fs::{File, OpenOptions};
use std::path::Path;
use tftpd::Window;

fn pieces(w: &Window) -> String {
    let v: Vec<String> = w.get_elements().iter().map(|p| if p.is_empty() { "_".to_string() } else { hex(p) }).collect();
    if v.is_empty() {
        "-".into()
    } else {
        v.join(".")
    }
}

pub fn run_win(toks: &[&str], dir: &Path) -> String {
    let mode = toks[1];
    let size: u16 = toks[2].parse().unwrap();
    let chunk: usize = toks[3].parse().unwrap();
    let content = if toks[4] == "-" { vec![] } else { unhex(toks[4]) };
    let path = dir.join("win.bin");
    let _ = std::fs::remove_file(&path);
    let file = match mode {
        "R" => {
            std::fs::write(&path, &content).unwrap();
            File::open(&path).unwrap()
        }
        "W" => {
            std::fs::write(&path, &content).unwrap();
            File::create(&path).unwrap()
        }
        "A" => {
            std::fs::write(&path, &content).unwrap();
            OpenOptions::new().read(true).append(true).create(true).open(&path).unwrap()
        }
        _ => panic!("bad mode"),
    };
    let mut w = Window::new(size, chunk, file);
    let mut out: Vec<String> = vec![];
    if toks[5] != "-" {
        for op in toks[5].split(',') {
            let res = std::panic::catch_unwind(std::panic::AssertUnwindSafe(|| {
                let (kind, rest) = op.split_at(1);
                match kind {
                    "f" => match w.fill() {
                        Ok(true) => "t".to_string(),
                        Ok(false) => "f".to_string(),
                        Err(_) => "Eio".to_string(),
                    },
                    "e" => match w.empty() {
                        Ok(()) => "ok".to_string(),
                        Err(_) => "Eio".to_string(),
                    },
                    "r" => match w.remove(rest.parse().unwrap()) {
                        Ok(()) => "ok".to_string(),
                        Err(_) => "Erm".to_string(),
                    },
                    "a" => match w.add(if rest == "-" { vec![] } else { unhex(rest) }) {
                        Ok(()) => "ok".to_string(),
                        Err(_) => "Eadd".to_string(),
                    },
                    _ => panic!("bad op"),
                }
            }));
            let res = res.unwrap_or_else(|_| "PANIC".to_string());
            out.push(format!("{}:{}:{}{}:{}", res, w.len(), w.is_empty() as u8, w.is_full() as u8, pieces(&w)));
        }
    }
    drop(w);
    let fin = std::fs::read(&path).unwrap_or_default();
    out.push(format!("file={}", if fin.is_empty() { "-".to_string() } else { hex(&fin) }));
    let _ = std::fs::remove_file(&path);
    out.join(" ")
}

pub fn gen_win(rng: &mut Rng, count: u64, tier: &str) -> Vec<String> {
    let mut out = vec![];
    let hexs = |v: &[u8]| if v.is_empty() { "-".to_string() } else { hex(v) };
    // bounded-exhaustive: every sequence up to length L over a small alphabet, a few configurations
    let max_len = if tier == "thorough" { 5 } else { 4 };
    let configs: &[(&str, u16, usize, usize)] = &[("R", 2, 3, 7), ("R", 2, 3, 6), ("A", 2, 2, 3), ("W", 2, 2, 0), ("R", 1, 2, 1), ("R", 3, 1, 2)];
    for &(mode, size, chunk, clen) in configs {
        let content: Vec<u8> = (0..clen).map(|i| (i + 1) as u8).collect();
        let full: Vec<u8> = (0..chunk).map(|i| 0xa0 + i as u8).collect();
        let alpha: Vec<String> = vec![
            "f".into(),
            "e".into(),
            "r0".into(),
            "r1".into(),
            "r2".into(),
            "r3".into(),
            format!("a{}", hexs(&full)),
            "aee".into(),
            "a-".into(),
        ];
        let n = alpha.len();
        for len in 0..=max_len {
            let total = (n as u64).pow(len as u32);
            for code in 0..total {
                let mut c = code;
                let mut ops = vec![];
                for _ in 0..len {
                    ops.push(alpha[(c % n as u64) as usize].clone());
                    c /= n as u64;
                }
                out.push(format!("win {mode} {size} {chunk} {} {}", hexs(&content), if ops.is_empty() { "-".to_string() } else { ops.join(",") }));
            }
        }
    }
    // more pieces in one flush than a gathered write takes in one call (IOV_MAX = 1024)
    for (size, n) in [(2000u16, 1025usize), (3000, 3000), (1600, 1500)] {
        let mut ops: Vec<String> = (0..n).map(|i| format!("a{:02x}{:02x}", (i % 251) as u8, (i / 251) as u8)).collect();
        ops.push("e".into());
        if n == 1500 {
            ops.extend((0..1500).map(|i| format!("a{:02x}{:02x}", (i % 241) as u8, 0x80 + (i / 241) as u8)));
            ops.push("e".into());
        }
        out.push(format!("win W {size} 2 - {}", ops.join(",")));
        out.push(format!("win A {size} 2 0102 {}", ops.join(",")));
    }
    // random, longer
    for _ in 0..count {
        let mode = *rng.pick(&["R", "R", "R", "A", "A", "W"]);
        let size = *rng.pick(&[0u16, 1, 2, 3, 5, 8]);
        let chunk = *rng.pick(&[0usize, 1, 2, 3, 5, 8]);
        let k = rng.range(0, size as u64 + 3);
        let clen = match rng.below(4) {
            0 => k * chunk as u64,
            1 => (k * chunk as u64).saturating_sub(1),
            2 => k * chunk as u64 + 1,
            _ => rng.range(0, 40),
        };
        let content = rng.bytes(clen as usize);
        let nops = rng.range(1, if tier == "thorough" { 60 } else { 25 });
        let mut ops = vec![];
        for _ in 0..nops {
            ops.push(match rng.below(10) {
                0..=3 => "f".to_string(),
                4 => "e".to_string(),
                5 | 6 => format!("r{}", rng.range(0, size as u64 + 2)),
                7 => format!("a{}", hexs(&rng.bytes(chunk))),
                8 => {
                    let n = rng.below(chunk as u64 + 2) as usize;
                    format!("a{}", hexs(&rng.bytes(n)))
                }
                _ => "a-".to_string(),
            });
        }
        out.push(format!("win {mode} {size} {chunk} {} {}", hexs(&content), ops.join(",")));
    }
    out
}
