//! CONC: K scripted conformant clients against one real server, driven round by round in a
//! prescribed interleaving, plus intruder datagrams from foreign endpoints (property C12).
//! `conc <flags> <dup> <tree> <clients> <schedule>`
//!   clients:  `D:<hexrequest>` | `U:<hexrequest>:<contentspec>`   separated by `;`
//!   schedule: `c<i>` (one round of client i) | `iL:<hex>` (intruder -> listener) | `iT<i>:<hex>` (intruder -> transfer endpoint of client i)

use crate::srvsuite::*;
use crate::util::*;
use std::net::{SocketAddr, UdpSocket};
use std::path::{Path, PathBuf};
use std::time::Duration;
use tftpd::Packet;

struct Client {
    sock: UdpSocket,
    upload: bool,
    req: Vec<u8>,
    content: Vec<u8>,
    started: bool,
    done: bool,
    tid: Option<SocketAddr>,
    blk: usize,
    ws: u64,
    expect: u64,
    got: Vec<u8>,
    next: usize,
    origin_ok: bool,
    pending: Option<Vec<u8>>,
    result: String,
}

fn recv(sock: &UdpSocket, ms: u64) -> Option<(Vec<u8>, SocketAddr)> {
    sock.set_read_timeout(Some(Duration::from_millis(ms.max(1)))).unwrap();
    let mut buf = vec![0u8; 70000];
    match sock.recv_from(&mut buf) {
        Ok((n, from)) => Some((buf[..n].to_vec(), from)),
        Err(_) => None,
    }
}

impl Client {
    fn finish(&mut self, r: String) {
        self.done = true;
        self.result = r;
    }

    /// One round: send what is due, then take in the server's answer to it.
    fn round(&mut self, listener: SocketAddr, single: bool, root: &Path) {
        if self.done {
            return;
        }
        if !self.started {
            self.started = true;
            self.sock.send_to(&subst_root_pub(&self.req, root), listener).unwrap();
            let first = match recv(&self.sock, 400) {
                Some(x) => x,
                None => return self.finish("none".into()),
            };
            let (b, from) = first;
            self.tid = Some(if single { listener } else { from });
            if (single && from != listener) || (!single && from == listener && !(b.len() >= 2 && b[1] == 5)) {
                self.origin_ok = false;
            }
            if b.len() >= 2 && b[1] == 5 {
                return self.finish(format!("error:{}", hex(&b[..4.min(b.len())])));
            }
            if let Ok(Packet::Oack(opts)) = Packet::deserialize(&b) {
                for o in opts {
                    match o.option {
                        tftpd::OptionType::BlockSize => self.blk = o.value,
                        tftpd::OptionType::Windowsize => self.ws = o.value as u64,
                        _ => {}
                    }
                }
                if !self.upload {
                    self.sock.send_to(&Packet::Ack(0).serialize().unwrap(), self.tid.unwrap()).unwrap();
                }
            } else if b.len() >= 4 && b[1] == 3 && !self.upload {
                self.pending = Some(b);
            } else if !(b.len() >= 4 && b[1] == 4 && self.upload) {
                return self.finish(format!("unexpected:{}", hex(&b[..4.min(b.len())])));
            }
            return;
        }
        let tid = self.tid.unwrap();
        if self.upload {
            let nblk = self.content.len() / self.blk + 1;
            let lo = self.next;
            let hi = (lo + self.ws as usize - 1).min(nblk);
            for j in lo..=hi {
                let a = ((j - 1) * self.blk).min(self.content.len());
                let z = (j * self.blk).min(self.content.len());
                let d = Packet::Data { block_num: (j % 65536) as u16, data: self.content[a..z].to_vec() };
                let _ = self.sock.send_to(&d.serialize().unwrap(), tid);
                if (j - lo) % 32 == 31 {
                    std::thread::sleep(Duration::from_millis(1));
                }
            }
            let until = std::time::Instant::now() + Duration::from_millis(500);
            loop {
                if std::time::Instant::now() > until {
                    return self.finish(format!("noack:{hi}"));
                }
                if let Some((dg, from)) = recv(&self.sock, 100) {
                    if from != tid {
                        self.origin_ok = false;
                    }
                    if dg.len() >= 4 && dg[1] == 4 && (((dg[2] as usize) << 8) | dg[3] as usize) == hi % 65536 {
                        break;
                    }
                    if dg.len() >= 2 && dg[1] == 5 {
                        return self.finish(format!("error:{}", hex(&dg[..4.min(dg.len())])));
                    }
                }
            }
            self.next = hi + 1;
            if hi == nblk {
                self.finish("acked".into());
            }
        } else {
            let mut in_window = 0u64;
            loop {
                let dg = match self.pending.take() {
                    Some(d) => Some((d, tid)),
                    None => recv(&self.sock, 600),
                };
                let (dg, from) = match dg {
                    Some(x) => x,
                    None => return self.finish(format!("stalled:{}", fp(&self.got))),
                };
                if from != tid {
                    self.origin_ok = false;
                }
                if dg.len() >= 2 && dg[1] == 5 {
                    return self.finish(format!("error:{}", hex(&dg[..4.min(dg.len())])));
                }
                if dg.len() < 4 || dg[1] != 3 {
                    continue;
                }
                let n = ((dg[2] as u64) << 8) | dg[3] as u64;
                if n != self.expect % 65536 {
                    continue;
                }
                self.got.extend_from_slice(&dg[4..]);
                self.expect += 1;
                in_window += 1;
                let fin = dg.len() - 4 < self.blk;
                if fin || in_window == self.ws {
                    self.sock.send_to(&Packet::Ack(n as u16).serialize().unwrap(), tid).unwrap();
                    if fin {
                        let r = format!("got:{}", fp(&self.got));
                        self.finish(r);
                    }
                    return;
                }
            }
        }
    }
}

pub fn run_conc(toks: &[&str], dir: &Path) -> String {
    let flags = toks[1];
    let dup: u8 = toks[2].parse().unwrap();
    let root: PathBuf = fresh_sandbox(dir);
    build_tree_pub(&root, toks[3]);
    let listener = start_server_pub(&root, flags, dup);
    let single = flags.contains('s');
    let mut clients: Vec<Client> = toks[4]
        .split(';')
        .map(|c| {
            let f: Vec<&str> = c.split(':').collect();
            Client {
                sock: UdpSocket::bind("127.0.0.1:0").unwrap(),
                upload: f[0] == "U",
                req: unhex(f[1]),
                content: if f.len() > 2 { file_of_spec(&f[2].replace('_', ":")) } else { vec![] },
                started: false,
                done: false,
                tid: None,
                blk: 512,
                ws: 1,
                expect: 1,
                got: vec![],
                next: 1,
                origin_ok: true,
                pending: None,
                result: "unfinished".into(),
            }
        })
        .collect();
    let intruder = UdpSocket::bind("127.0.0.1:0").unwrap();
    let mut out: Vec<String> = vec![];
    if toks[5] != "-" {
        for t in toks[5].split(',') {
            if let Some(i) = t.strip_prefix('c') {
                let i: usize = i.parse().unwrap();
                clients[i].round(listener, single, &root);
            } else if let Some(rest) = t.strip_prefix("iL:") {
                intruder.send_to(&unhex(rest), listener).unwrap();
                let r = recv(&intruder, 400); // the listener always answers: waiting longer costs nothing unless it does not
                out.push(format!("iL={}", match r { Some((b, f)) => format!("{}@{}", hex(&b[..4.min(b.len())]), if f == listener { "L" } else { "E" }), None => "none".into() }));
            } else if let Some(rest) = t.strip_prefix("iT") {
                let (i, h) = rest.split_once(':').unwrap();
                let i: usize = i.parse().unwrap();
                // a refused request has no transfer endpoint; the endpoint of a finished multi-port transfer is closed and
                // its port may belong to anybody by now: nothing is sent there
                let refused = clients[i].done && (!single || clients[i].result.starts_with("error") || clients[i].result == "none");
                if let (Some(tid), false) = (clients[i].tid, refused) {
                    let target = if single { listener } else { tid };
                    intruder.send_to(&unhex(h), target).unwrap();
                    let r = recv(&intruder, if single { 400 } else { 60 });
                    out.push(format!("iT={}", match r { Some((b, f)) => format!("{}@{}", hex(&b[..4.min(b.len())]), if f == listener { "L" } else { "E" }), None => "none".into() }));
                } else {
                    out.push("iT=skipped".into());
                }
            }
        }
    }
    // drive everybody to the end, round robin
    for _ in 0..100000 {
        let mut any = false;
        for c in clients.iter_mut() {
            if !c.done {
                c.round(listener, single, &root);
                any = true;
            }
        }
        if !any {
            break;
        }
    }
    std::thread::sleep(Duration::from_millis(15));
    for (i, c) in clients.iter().enumerate() {
        out.push(format!("c{}={}{}", i, c.result, if c.origin_ok { "" } else { "!origin" }));
    }
    out.push(format!("tree={}", snapshot_pub(&root)));
    for c in clients {
        retire_socket(c.sock);
    }
    retire_socket(intruder);
    let _ = std::fs::remove_dir_all(&root);
    out.join(" ")
}

pub fn gen_conc(rng: &mut Rng, count: u64, tier: &str) -> Vec<String> {
    let tree = tree_token_pub();
    let mut out = vec![];
    let files = ["a.txt", "sub/b.bin", "big", "probe.txt", "empty"];
    // several clients read the same file at the same time, round by round (each has its own position in it)
    for flags in ["-", "s", "d", "sd"] {
        for (b0, b1, b2) in [("512", "64", "1024"), ("8", "8", "9"), ("1024", "1024", "1024")] {
            let name: &[u8] = if b0 == "8" { b"sub/b.bin" } else { b"big" };
            let cl: Vec<String> = [b0, b1, b2].iter().map(|b| format!("D:{}", hex(&req_pub(1, name, &[("blksize".to_string(), b.to_string()), ("windowsize".to_string(), "2".to_string())])))).collect();
            let mut sched = vec![];
            for r in 0..40 {
                sched.push(format!("c{}", r % 3));
                if r % 7 == 3 {
                    sched.push(format!("c{}", (r + 1) % 3));
                }
            }
            out.push(format!("conc {flags} 0 {tree} {} {}", cl.join(";"), sched.join(",")));
        }
    }
    for n in 0..count {
        let k = if tier == "thorough" { rng.range(2, 10) } else { rng.range(2, 5) } as usize;
        let mut flags = String::new();
        if rng.chance(1, 2) {
            flags.push('s');
        }
        if rng.chance(1, 3) {
            flags.push('d');
        }
        if flags.is_empty() {
            flags.push('-');
        }
        let dup = *rng.pick(&[0u8, 0, 0, 1]);
        let mut cl = vec![];
        let mut rounds: Vec<usize> = vec![];
        for i in 0..k {
            let blk = *rng.pick(&[8u64, 64, 512, 1024, 1468]);
            let ws = *rng.pick(&[1u64, 1, 2, 4]);
            let mut opts = vec![];
            if rng.chance(3, 4) {
                opts.push(("blksize".to_string(), blk.to_string()));
            }
            if rng.chance(1, 2) {
                opts.push(("windowsize".to_string(), ws.to_string()));
            }
            if rng.chance(1, 2) {
                let f = *rng.pick(&files);
                cl.push(format!("D:{}", hex(&req_pub(1, f.as_bytes(), &opts))));
            } else {
                let size = *rng.pick(&[0u64, 100, 600, 1300, 2500, 4000]);
                cl.push(format!("U:{}:P{}_{}", hex(&req_pub(2, format!("up{i}_{n}.bin").as_bytes(), &opts)), size, 10 + i));
            }
            for _ in 0..rng.range(2, 8) {
                rounds.push(i);
            }
        }
        // a random interleaving of the clients' first rounds, with intruders in between
        let mut sched: Vec<String> = vec![];
        let perm = {
            let mut idx: Vec<usize> = (0..rounds.len()).collect();
            for i in (1..idx.len()).rev() {
                let j = rng.below(i as u64 + 1) as usize;
                idx.swap(i, j);
            }
            idx
        };
        for p in perm {
            sched.push(format!("c{}", rounds[p]));
            if rng.chance(1, 4) {
                let dg = match rng.below(4) {
                    0 => raw_ack(rng.below(3) as u16),
                    1 => raw_data(1, &[9; 4]),
                    2 => raw_error(0, "x"),
                    _ => raw_oack(&[]),
                };
                if rng.chance(1, 2) {
                    sched.push(format!("iL:{}", hex(&dg)));
                } else {
                    sched.push(format!("iT{}:{}", rng.below(k as u64), hex(&dg)));
                }
            }
        }
        out.push(format!("conc {flags} {dup} {tree} {} {}", cl.join(";"), sched.join(",")));
    }
    out
}
