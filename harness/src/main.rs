mod binsuite;
mod capture;
mod cfgsuite;
mod clisuite;
mod codec;
mod concsuite;
mod gen_codec;
mod gen;
mod pairsuite;
mod simsock;
mod srvsuite;
mod util;
mod winsuite;
mod wsuite;

use std::io::{BufRead, BufReader, Write};
use std::path::PathBuf;

fn usage() -> ! {
    eprintln!("usage: verif-harness run <cases> <out> <scratchdir>");
    std::process::exit(2)
}

fn run_cases(cases: &str, out: &str, dir: &str) {
    let dir = PathBuf::from(dir);
    std::fs::create_dir_all(&dir).unwrap();
    let mut cap = capture::Capture::from_env();
    let rd = BufReader::new(std::fs::File::open(cases).unwrap());
    let mut w = std::io::BufWriter::new(std::fs::File::create(out).unwrap());
    for line in rd.lines() {
        let line = line.unwrap();
        let toks: Vec<&str> = line.split_whitespace().collect();
        if toks.is_empty() || toks[0].starts_with('#') {
            writeln!(w).unwrap();
            continue;
        }
        let res = match toks[0] {
            "send" => wsuite::run_send(&toks, &dir, &mut cap),
            "recv" => wsuite::run_recv(&toks, &dir, &mut cap),
            "win" => winsuite::run_win(&toks, &dir),
            "srv" => srvsuite::run_srv(&toks, &dir),
            "pair" => pairsuite::run_pair(&toks, &dir, &mut cap),
            "conc" => concsuite::run_conc(&toks, &dir),
            "cli" => clisuite::run_cli(&toks, &dir),
            "bin" => binsuite::run_bin(&toks, &dir),
            "cfg" => cfgsuite::run_cfg(&toks),
            "cfgperm" => cfgsuite::run_cfgperm(&toks),
            "ccfgperm" => cfgsuite::run_ccfgperm(&toks),
            "ccfg" => cfgsuite::run_ccfg(&toks),
            "dec" => codec::run_dec(&toks),
            "enc" => codec::run_enc(&toks),
            "opc" => codec::run_opc(&toks),
            "erc" => codec::run_erc(&toks),
            "optname" => codec::run_optname(&toks),
            "lowersweep" => codec::run_lowersweep(&toks),
            other => panic!("unknown case kind {other}"),
        };
        writeln!(w, "{res}").unwrap();
    }
    w.flush().unwrap();
}

fn main() {
    let args: Vec<String> = std::env::args().collect();
    if args.len() < 2 {
        usage();
    }
    match args[1].as_str() {
        "run" if args.len() == 5 => run_cases(&args[2], &args[3], &args[4]),
        "gen" if args.len() == 7 => {
            // gen <suite> <seed> <count> <tier> <outfile>
            let lines = gen::generate(&args[2], args[3].parse().unwrap(), args[4].parse().unwrap(), &args[5]);
            let mut w = std::io::BufWriter::new(std::fs::File::create(&args[6]).unwrap());
            for l in lines {
                writeln!(w, "{l}").unwrap();
            }
            w.flush().unwrap();
        }
        _ => usage(),
    }
}
