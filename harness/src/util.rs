//! Small shared helpers: hex, splitmix64, FNV-1a fingerprints, pattern files.

pub fn hex(b: &[u8]) -> String {
    const H: &[u8; 16] = b"0123456789abcdef";
    let mut s = String::with_capacity(b.len() * 2);
    for &x in b {
        s.push(H[(x >> 4) as usize] as char);
        s.push(H[(x & 15) as usize] as char);
    }
    s
}

pub fn unhex(s: &str) -> Vec<u8> {
    let b = s.as_bytes();
    assert!(b.len() % 2 == 0, "odd hex length: {s}");
    let v = |c: u8| -> u8 {
        match c {
            b'0'..=b'9' => c - b'0',
            b'a'..=b'f' => c - b'a' + 10,
            b'A'..=b'F' => c - b'A' + 10,
            _ => panic!("bad hex digit"),
        }
    };
    (0..b.len() / 2).map(|i| (v(b[2 * i]) << 4) | v(b[2 * i + 1])).collect()
}

/// splitmix64: every random choice of every generator derives from one state.
#[derive(Clone)]
pub struct Rng(pub u64);

impl Rng {
    pub fn new(seed: u64) -> Rng {
        Rng(seed ^ 0x9E37_79B9_7F4A_7C15)
    }
    pub fn next(&mut self) -> u64 {
        self.0 = self.0.wrapping_add(0x9E37_79B9_7F4A_7C15);
        let mut z = self.0;
        z = (z ^ (z >> 30)).wrapping_mul(0xBF58_476D_1CE4_E5B9);
        z = (z ^ (z >> 27)).wrapping_mul(0x94D0_49BB_1331_11EB);
        z ^ (z >> 31)
    }
    /// uniform in 0..n (n > 0)
    pub fn below(&mut self, n: u64) -> u64 {
        self.next() % n
    }
    pub fn range(&mut self, lo: u64, hi: u64) -> u64 {
        lo + self.below(hi - lo + 1)
    }
    pub fn chance(&mut self, num: u64, den: u64) -> bool {
        self.below(den) < num
    }
    pub fn pick<'a, T>(&mut self, xs: &'a [T]) -> &'a T {
        &xs[self.below(xs.len() as u64) as usize]
    }
    pub fn bytes(&mut self, n: usize) -> Vec<u8> {
        (0..n).map(|_| self.next() as u8).collect()
    }
}

/// File fingerprints: a Fletcher-style pair of sums modulo the prime 2^32 - 5, packed as `b << 32 | a`
/// (additions only, so that the Coq-extracted monitors can recompute it cheaply). The names keep `fnv`
/// for historical reasons.
pub const FNV_INIT: u64 = 0;
const FP_P: u64 = 4_294_967_291;

pub fn fnv_extend(h: u64, data: &[u8]) -> u64 {
    let mut a = h & 0xffff_ffff;
    let mut b = h >> 32;
    for &x in data {
        a += x as u64 + 1;
        if a >= FP_P {
            a -= FP_P;
        }
        b += a;
        if b >= FP_P {
            b -= FP_P;
        }
    }
    (b << 32) | a
}

/// Fingerprint printed as `len:fnv64hex`.
pub fn fp(data: &[u8]) -> String {
    format!("{}:{:016x}", data.len(), fnv_extend(FNV_INIT, data))
}

/// Deterministic file content shared with the model driver: byte i of pattern `seed`.
pub fn pat_byte(seed: u64, i: u64) -> u8 {
    ((seed + i * 31 + (i / 256) * 7) % 256) as u8
}

pub fn pattern(seed: u64, len: u64) -> Vec<u8> {
    (0..len).map(|i| pat_byte(seed, i)).collect()
}

/// File spec: `P<len>:<seed>` (pattern) or `H<hex>` (literal).
pub fn file_of_spec(spec: &str) -> Vec<u8> {
    if let Some(rest) = spec.strip_prefix('P') {
        let (l, s) = rest.split_once(':').expect("P<len>:<seed>");
        pattern(s.parse().unwrap(), l.parse().unwrap())
    } else if let Some(rest) = spec.strip_prefix('H') {
        unhex(rest)
    } else if let Some(rest) = spec.strip_prefix('Z') {
        // Z<len>:<byte>: a file of one repeated byte (adjacent blocks are identical)
        let (l, b) = rest.split_once(':').expect("Z<len>:<byte>");
        vec![b.parse::<u8>().unwrap(); l.parse().unwrap()]
    } else {
        panic!("bad file spec {spec}")
    }
}

/// Sockets of finished cases are parked here (the last 1500 of them), so that the kernel does not hand one of
/// their ports to a later case while a straggling worker of the earlier case may still send to it.
pub fn retire_socket(s: std::net::UdpSocket) {
    static GRAVEYARD: std::sync::Mutex<std::collections::VecDeque<std::net::UdpSocket>> =
        std::sync::Mutex::new(std::collections::VecDeque::new());
    let mut g = GRAVEYARD.lock().unwrap();
    g.push_back(s);
    if g.len() > 1500 {
        g.pop_front();
    }
}

/// A sandbox directory no earlier case of this process has used: a straggling worker of an earlier case (an abandoned
/// upload removes its file half a minute later) must never act on the tree of a later one.
pub fn fresh_sandbox(dir: &std::path::Path) -> std::path::PathBuf {
    static N: std::sync::atomic::AtomicUsize = std::sync::atomic::AtomicUsize::new(0);
    let k = N.fetch_add(1, std::sync::atomic::Ordering::SeqCst);
    dir.join(format!("sb{k:03}"))
}

/// Wire encoders of the harness' own (generators must not depend on the encoder under test).
pub fn raw_ack(n: u16) -> Vec<u8> {
    vec![0, 4, (n >> 8) as u8, n as u8]
}
pub fn raw_data(n: u16, payload: &[u8]) -> Vec<u8> {
    let mut v = vec![0, 3, (n >> 8) as u8, n as u8];
    v.extend_from_slice(payload);
    v
}
pub fn raw_error(code: u16, msg: &str) -> Vec<u8> {
    let mut v = vec![0, 5, (code >> 8) as u8, code as u8];
    v.extend_from_slice(msg.as_bytes());
    v.push(0);
    v
}
/// An ERROR datagram in one of the shapes peers produce: terminated text, no text at all, text without terminator,
/// text that is not UTF-8, a long text with a two-byte character across byte 128.
pub fn raw_error_variant(code: u16, which: u64) -> Vec<u8> {
    let mut v = vec![0, 5, (code >> 8) as u8, code as u8];
    match which % 6 {
        0 => v.extend_from_slice(b"abort\0"),
        1 => {}
        2 => v.extend_from_slice(b"aborted by user"),
        3 => v.extend_from_slice(b"annul\xe9\0"),
        4 => {
            v.extend(std::iter::repeat(b'a').take(127));
            v.extend_from_slice("\u{e9}".as_bytes());
            v.extend_from_slice(b"bbbbbbbbbb\0");
        }
        _ => v.push(0),
    }
    v
}
pub fn raw_oack(opts: &[(&str, &str)]) -> Vec<u8> {
    let mut v = vec![0, 6];
    for (k, val) in opts {
        v.extend_from_slice(k.as_bytes());
        v.push(0);
        v.extend_from_slice(val.as_bytes());
        v.push(0);
    }
    v
}
/// The eight error codes by number (no use of `from_u16`).
pub fn error_code(n: u16) -> tftpd::ErrorCode {
    use tftpd::ErrorCode::*;
    [NotDefined, FileNotFound, AccessViolation, DiskFull, IllegalOperation, UnknownId, FileExists, NoSuchUser][n as usize % 8]
}
