//! W-PAIR: two real workers (a sender and a receiver) joined by two in-memory FIFO channels on
//! which a fault schedule acts.  Scheduling-independent by construction: each channel has one
//! writer, a worker blocked in `recv` gets a time-out only at quiescence (both blocked, both
//! channels empty) - first the sender, the receiver only once the sender has ended.
//! `pair <blk> <ws> <tmo_ns> <rep_s> <rep_r> <filespec> <faults s->r> <faults r->s>`

use crate::capture::Capture;
use crate::util::*;
use std::collections::{HashMap, VecDeque};
use std::error::Error;
use std::net::SocketAddr;
use std::path::Path;
use std::sync::{Arc, Condvar, Mutex};
use std::time::Duration;
use tftpd::{Packet, Socket, Worker};

#[derive(Clone, Copy, PartialEq)]
enum Fault {
    Drop,
    Dup,
    Hold,
}

#[derive(Default)]
struct Chan {
    q: VecDeque<Vec<u8>>,
    held: Option<Vec<u8>>,
    n: usize,
    faults: HashMap<usize, Fault>,
}

impl Chan {
    fn put(&mut self, d: Vec<u8>) {
        let i = self.n;
        self.n += 1;
        match self.faults.get(&i) {
            None => {
                self.q.push_back(d);
                if let Some(h) = self.held.take() {
                    self.q.push_back(h);
                }
            }
            Some(Fault::Drop) => {
                if let Some(h) = self.held.take() {
                    self.q.push_back(h);
                }
            }
            Some(Fault::Dup) => {
                self.q.push_back(d.clone());
                self.q.push_back(d);
                if let Some(h) = self.held.take() {
                    self.q.push_back(h);
                }
            }
            Some(Fault::Hold) => {
                if let Some(h) = self.held.take() {
                    self.q.push_back(h);
                }
                self.held = Some(d);
            }
        }
    }
}

#[derive(Default)]
struct Net {
    sr: Chan, // sender -> receiver
    rs: Chan, // receiver -> sender
    blocked: [bool; 2],
    done: [bool; 2],
    steps: usize,
    runaway: bool,
    /// receive capacity: of every burst of the sender (between two of its receives) only the first `cap` datagrams arrive
    cap: Option<usize>,
    burst: usize,
}

struct PairSocket {
    role: usize, // 0 = sender, 1 = receiver
    net: Arc<(Mutex<Net>, Condvar)>,
    tmo_ns: u64,
}

const STEP_LIMIT: usize = 2_000_000;

impl Drop for PairSocket {
    fn drop(&mut self) {
        let (m, cv) = &*self.net;
        let mut n = m.lock().unwrap();
        n.done[self.role] = true;
        cv.notify_all();
    }
}

impl Socket for PairSocket {
    fn send(&self, packet: &Packet) -> Result<(), Box<dyn Error>> {
        let bytes = packet.serialize()?;
        let (m, cv) = &*self.net;
        let mut n = m.lock().unwrap();
        if self.role == 0 {
            n.burst += 1;
            if n.cap.map(|c| n.burst > c).unwrap_or(false) {
                return Ok(()); // the receiver's buffer is full: the datagram is lost without a trace
            }
            n.sr.put(bytes);
        } else {
            n.rs.put(bytes);
        }
        cv.notify_all();
        Ok(())
    }

    fn send_to(&self, packet: &Packet, _to: &SocketAddr) -> Result<(), Box<dyn Error>> {
        self.send(packet)
    }

    fn recv_with_size(&self, size: usize) -> Result<Packet, Box<dyn Error>> {
        let (m, cv) = &*self.net;
        let mut n = m.lock().unwrap();
        n.blocked[self.role] = true;
        if self.role == 0 {
            n.burst = 0;
        }
        cv.notify_all();
        loop {
            n.steps += 1;
            if n.steps > STEP_LIMIT {
                n.runaway = true;
                n.blocked[self.role] = false;
                return Err("runaway".into());
            }
            let mine_nonempty = if self.role == 0 { !n.rs.q.is_empty() } else { !n.sr.q.is_empty() };
            if mine_nonempty {
                let d = if self.role == 0 { n.rs.q.pop_front().unwrap() } else { n.sr.q.pop_front().unwrap() };
                n.blocked[self.role] = false;
                drop(n);
                let k = d.len().min(size.saturating_add(4));
                return Ok(Packet::deserialize(&d[..k])?);
            }
            let other = 1 - self.role;
            let other_idle = n.done[other] || (n.blocked[other] && if other == 0 { n.rs.q.is_empty() } else { n.sr.q.is_empty() });
            if other_idle {
                // quiescence: the sender's timer fires first; the receiver's only once the sender has ended
                if self.role == 0 || n.done[0] {
                    n.blocked[self.role] = false;
                    drop(n);
                    tftpd::verif::advance(Duration::from_nanos(self.tmo_ns));
                    return Err("simulated timeout".into());
                }
            }
            n = cv.wait(n).unwrap();
        }
    }

    fn recv_from_with_size(&self, size: usize) -> Result<(Packet, SocketAddr), Box<dyn Error>> {
        Ok((self.recv_with_size(size)?, "127.0.0.1:50000".parse().unwrap()))
    }
    fn remote_addr(&self) -> Result<SocketAddr, Box<dyn Error>> {
        Ok("127.0.0.1:50000".parse().unwrap())
    }
    fn set_read_timeout(&mut self, _dur: Duration) -> Result<(), Box<dyn Error>> {
        Ok(())
    }
    fn set_write_timeout(&mut self, _dur: Duration) -> Result<(), Box<dyn Error>> {
        Ok(())
    }
}

fn parse_faults(s: &str) -> HashMap<usize, Fault> {
    let mut m = HashMap::new();
    if s != "-" {
        for t in s.split(',') {
            let (i, k) = t.split_once(':').unwrap();
            m.insert(i.parse().unwrap(), match k { "x" => Fault::Drop, "d" => Fault::Dup, "h" => Fault::Hold, _ => panic!("bad fault") });
        }
    }
    m
}

fn outcome_of(text: &str, marker: &str, okmark: &str, out: &str) -> String {
    // the line of this role
    for l in text.lines() {
        if l.contains(marker) {
            if l.contains("Transfer timed out") {
                return "timeout".into();
            } else if l.contains("Received error code") {
                return "peer".into();
            } else if l.contains("runaway") {
                return "runaway".into();
            }
            return "other".into();
        }
    }
    if out.lines().any(|l| l.starts_with(okmark)) {
        "ok".into()
    } else {
        "none".into()
    }
}

pub fn run_pair(toks: &[&str], dir: &Path, cap: &mut Capture) -> String {
    let blk: usize = toks[1].parse().unwrap();
    let ws: u16 = toks[2].parse().unwrap();
    let tmo: u64 = toks[3].parse().unwrap();
    let rep_s: u8 = toks[4].parse().unwrap();
    let rep_r: u8 = toks[5].parse().unwrap();
    let content = file_of_spec(toks[6]);
    let src = dir.join("pair-src.bin");
    let dst = dir.join("pair-dst.bin");
    std::fs::write(&src, &content).unwrap();
    let _ = std::fs::remove_file(&dst);
    let mut net = Net::default();
    net.sr.faults = parse_faults(toks[7]);
    net.rs.faults = parse_faults(toks[8]);
    if toks.len() > 9 {
        net.cap = Some(toks[9].strip_prefix("cap=").unwrap().parse().unwrap());
    }
    let net = Arc::new((Mutex::new(net), Condvar::new()));
    cap.take();
    let s_sock = PairSocket { role: 0, net: net.clone(), tmo_ns: tmo };
    let r_sock = PairSocket { role: 1, net: net.clone(), tmo_ns: tmo };
    let rw = Worker::new(Box::new(r_sock), dst.clone(), true, blk, Duration::from_nanos(tmo), ws, rep_r);
    let sw = Worker::new(Box::new(s_sock), src.clone(), true, blk, Duration::from_nanos(tmo), ws, rep_s);
    let rh = rw.receive().unwrap();
    let sh = sw.send(false).unwrap();
    let sp = sh.join().is_err();
    let rp = rh.join().is_err();
    let (o, e) = cap.take();
    let mut s_out = if sp { "panic".to_string() } else { outcome_of(&e, "while sending", "Sent ", &o) };
    let mut r_out = if rp { "panic".to_string() } else { outcome_of(&e, "while receiving", "Received ", &o) };
    if !sp && !rp && (s_out == "none" || r_out == "none") {
        // the log lines do not carry the wording this harness knows: two lines on stdout and none on stderr still mean two
        // successes; anything else cannot be attributed to a role
        let n_out = o.lines().filter(|l| !l.trim().is_empty()).count();
        let n_err = e.lines().filter(|l| !l.trim().is_empty()).count();
        if n_out == 2 && n_err == 0 {
            s_out = "ok".into();
            r_out = "ok".into();
        } else {
            s_out = "unknown".into();
            r_out = "unknown".into();
        }
    }
    let file = match std::fs::read(&dst) {
        Ok(v) => fp(&v),
        Err(_) => "absent".to_string(),
    };
    let (nsr, nrs) = {
        let n = net.0.lock().unwrap();
        (n.sr.n, n.rs.n)
    };
    let _ = std::fs::remove_file(&src);
    let _ = std::fs::remove_file(&dst);
    format!("s={s_out} r={r_out} file={file} nsr={nsr} nrs={nrs}")
}

pub fn gen_pair(rng: &mut Rng, count: u64, tier: &str) -> Vec<String> {
    let mut out = vec![];
    let tmo = 1_000_000_000u64;
    let blk = 8u64;
    // every single fault, every position, every kind, small windows and lengths around block / window boundaries
    for ws in [1u64, 2, 3] {
        for size in [0u64, 5, 8, 9, 16, 17, 24, 31, 40] {
            let nblk = size / blk + 1;
            out.push(format!("pair {blk} {ws} {tmo} 1 1 P{size}:{} - -", size % 7));
            let nsr = nblk + 2;
            let nrs = (nblk + ws - 1) / ws + 2;
            for k in ["x", "d", "h"] {
                for i in 0..nsr {
                    out.push(format!("pair {blk} {ws} {tmo} 1 1 P{size}:{} {i}:{k} -", size % 7));
                }
                for i in 0..nrs {
                    out.push(format!("pair {blk} {ws} {tmo} 1 1 P{size}:{} - {i}:{k}", size % 7));
                }
            }
        }
    }
    // receive capacity (finding D8): windows that fit the receiver's buffer and windows that do not
    for ws in [1u64, 2, 3, 4, 8] {
        for cap in [1u64, 2, 3, 4, 8, 9] {
            for size in [0u64, 7, 8, 20, 40, 100] {
                if tier != "thorough" && (ws + cap + size) % 3 != 0 {
                    continue;
                }
                out.push(format!("pair {blk} {ws} {tmo} 1 1 P{size}:{} - - cap={cap}", size % 5));
            }
        }
    }
    out.push(format!("pair {blk} 4 {tmo} 2 1 P100:3 - - cap=8"));
    out.push(format!("pair {blk} 4 {tmo} 2 2 P100:3 - - cap=7"));
    // seeded: several faults, larger windows, duplicate mode
    let kinds = ["x", "d", "h"];
    for _ in 0..count {
        let ws = *rng.pick(&[1u64, 2, 3, 4, 8, 16]);
        let blk = *rng.pick(&[8u64, 8, 16, 512]);
        let nb = rng.range(0, 3 * ws + 2);
        let size = nb * blk + rng.below(blk);
        let rep_s = *rng.pick(&[1u64, 1, 1, 2]);
        let rep_r = *rng.pick(&[1u64, 1, 1, 2]);
        let nf = if tier == "thorough" { rng.range(0, 5) } else { rng.range(0, 3) };
        let mut fsr: Vec<String> = vec![];
        let mut frs: Vec<String> = vec![];
        for _ in 0..nf {
            let k = *rng.pick(&kinds);
            if rng.chance(1, 2) {
                fsr.push(format!("{}:{}", rng.below((nb + 2) * rep_s + 2), k));
            } else {
                frs.push(format!("{}:{}", rng.below((nb / ws + 2) * rep_r + 2), k));
            }
        }
        fsr.sort();
        fsr.dedup_by(|a, b| a.split(':').next() == b.split(':').next());
        frs.sort();
        frs.dedup_by(|a, b| a.split(':').next() == b.split(':').next());
        let j = |v: &Vec<String>| if v.is_empty() { "-".to_string() } else { v.join(",") };
        out.push(format!("pair {blk} {ws} {tmo} {rep_s} {rep_r} P{size}:{} {} {}", rng.below(250), j(&fsr), j(&frs)));
    }
    out
}
