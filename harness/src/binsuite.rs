//! BIN: the real `tftpd` / `tftpc` binaries of the current tree (built WITHOUT the verification
//! hook, paths in VERIF_TFTPD / VERIF_TFTPC): start-up behaviour, the retransmission interval in
//! real time, and transfers between the two binaries.
//!   `bin start <hexarg,hexarg,..|->`                         exit status of tftpd (or `running`)
//!   `bin rt <flags> <timeout>`                                seconds until an unacknowledged DATA 1 is sent again
//!   `bin early <flags> <timeout> <ws>`                        does a repeated ACK before the timeout bring a retransmission?
//!   `bin slow <dup> <ws> <timeout>`                           a window that takes longer to send than the timeout; repeated ACK after it
//!   `bin quiet <flags> <timeout>`                             is an upload whose peer fell silent given up (file removed)?
//!   `bin xfer <flags> <d|u> <blk> <ws> <size> <4|6>`          tftpc against tftpd, files compared

use crate::util::*;
use std::net::UdpSocket;
use std::path::Path;
use std::process::{Command, Stdio};
use std::time::{Duration, Instant};
use tftpd::Packet;

fn bin(var: &str) -> String {
    std::env::var(var).unwrap_or_else(|_| panic!("{var} not set"))
}

fn free_port() -> u16 {
    UdpSocket::bind("127.0.0.1:0").unwrap().local_addr().unwrap().port()
}

fn server_args(flags: &str, root: &Path, port: u16, v6: bool) -> Vec<String> {
    let mut a = vec!["-i".to_string(), if v6 { "::1".into() } else { "127.0.0.1".into() }, "-p".into(), port.to_string()];
    if flags.contains('d') {
        a.extend(["-sd".to_string(), root.join("snd").to_str().unwrap().into(), "-rd".into(), root.join("rcv").to_str().unwrap().into()]);
    } else {
        a.extend(["-d".to_string(), root.join("srv").to_str().unwrap().into()]);
    }
    if flags.contains('s') {
        a.push("-s".into());
    }
    if flags.contains('o') {
        a.push("--overwrite".into());
    }
    if flags.contains('k') {
        a.push("--keep-on-error".into());
    }
    a
}

pub fn run_bin(toks: &[&str], dir: &Path) -> String {
    let root = dir.join("binsb");
    let _ = std::fs::remove_dir_all(&root);
    for d in ["srv", "snd", "rcv", "cli"] {
        std::fs::create_dir_all(root.join(d)).unwrap();
    }
    let res = match toks[1] {
        "start" => {
            let args: Vec<String> = if toks[2] == "-" { vec![] } else { toks[2].split(',').map(|t| if t == "_" { String::new() } else { String::from_utf8(unhex(t)).unwrap() }).collect() };
            // "@D" stands for an existing directory, "@P" for a free port
            let port = free_port();
            let args: Vec<String> = args.into_iter().map(|a| if a == "@D" { root.join("srv").to_str().unwrap().to_string() } else if a == "@P" { port.to_string() } else { a }).collect();
            let mut child = Command::new(bin("VERIF_TFTPD")).args(&args).current_dir(&root).stdout(Stdio::null()).stderr(Stdio::null()).spawn().unwrap();
            let t0 = Instant::now();
            let mut st = None;
            while t0.elapsed() < Duration::from_millis(500) {
                if let Ok(Some(s)) = child.try_wait() {
                    st = Some(s);
                    break;
                }
                std::thread::sleep(Duration::from_millis(10));
            }
            match st {
                Some(s) => format!("exit={}", s.code().map(|c| c.to_string()).unwrap_or("signal".into())),
                None => {
                    let _ = child.kill();
                    let _ = child.wait();
                    "running".into()
                }
            }
        }
        "rt" => {
            std::fs::write(root.join("srv").join("a.txt"), pattern(1, 100)).unwrap();
            let port = free_port();
            let mut child = Command::new(bin("VERIF_TFTPD")).args(server_args(toks[2], &root, port, false)).stdout(Stdio::null()).stderr(Stdio::null()).spawn().unwrap();
            std::thread::sleep(Duration::from_millis(150));
            let sock = UdpSocket::bind("127.0.0.1:0").unwrap();
            let rq = Packet::Rrq { filename: "a.txt".into(), mode: "octet".into(), options: vec![tftpd::TransferOption { option: tftpd::OptionType::Timeout, value: toks[3].parse().unwrap() }] };
            sock.send_to(&rq.serialize().unwrap(), ("127.0.0.1", port)).unwrap();
            sock.set_read_timeout(Some(Duration::from_millis(1500))).unwrap();
            let mut buf = [0u8; 1024];
            let r = match sock.recv_from(&mut buf) {
                Ok((_, tid)) => {
                    sock.send_to(&Packet::Ack(0).serialize().unwrap(), tid).unwrap();
                    let _ = sock.recv_from(&mut buf); // DATA 1
                    let t0 = Instant::now();
                    sock.set_read_timeout(Some(Duration::from_millis(7000))).unwrap();
                    match sock.recv_from(&mut buf) {
                        Ok((n, _)) if n >= 4 && buf[1] == 3 => format!("rt={}", (t0.elapsed().as_millis() as f64 / 1000.0).round() as u64),
                        _ => "rt=none".to_string(),
                    }
                }
                Err(_) => "rt=noreply".to_string(),
            };
            let _ = child.kill();
            let _ = child.wait();
            r
        }
        "early" => {
            // a repeated ACK 1.5 s before the acknowledged timeout has elapsed must not bring the retransmission forward
            let (tmo, ws) = (toks[3].parse::<u64>().unwrap(), toks[4].parse::<usize>().unwrap());
            std::fs::write(root.join("srv").join("big"), pattern(3, 5000)).unwrap();
            let port = free_port();
            let mut child = Command::new(bin("VERIF_TFTPD")).args(server_args(toks[2], &root, port, false)).stdout(Stdio::null()).stderr(Stdio::null()).spawn().unwrap();
            std::thread::sleep(Duration::from_millis(150));
            let sock = UdpSocket::bind("127.0.0.1:0").unwrap();
            let o = |k: tftpd::OptionType, v: usize| tftpd::TransferOption { option: k, value: v };
            let rq = Packet::Rrq { filename: "big".into(), mode: "octet".into(), options: vec![o(tftpd::OptionType::Timeout, tmo as usize), o(tftpd::OptionType::Windowsize, ws)] };
            sock.send_to(&rq.serialize().unwrap(), ("127.0.0.1", port)).unwrap();
            sock.set_read_timeout(Some(Duration::from_millis(1500))).unwrap();
            let mut buf = [0u8; 1024];
            let r = match sock.recv_from(&mut buf) {
                Ok((_, tid)) => {
                    sock.send_to(&raw_ack(0), tid).unwrap();
                    // the first window
                    sock.set_read_timeout(Some(Duration::from_millis(400))).unwrap();
                    let mut first = 0;
                    while first < ws && sock.recv_from(&mut buf).is_ok() {
                        first += 1;
                    }
                    sock.set_read_timeout(Some(Duration::from_millis(tmo * 1000 - 1500 - 400))).unwrap();
                    let before = sock.recv_from(&mut buf).is_ok();
                    let early = if before {
                        true
                    } else {
                        sock.send_to(&raw_ack(0), tid).unwrap();
                        sock.set_read_timeout(Some(Duration::from_millis(1100))).unwrap();
                        matches!(sock.recv_from(&mut buf), Ok((n, _)) if n >= 4 && buf[1] == 3)
                    };
                    let _ = sock.send_to(&raw_error(0, "done"), tid);
                    format!("first={first} early={}", early as u8)
                }
                Err(_) => "noreply".to_string(),
            };
            let _ = child.kill();
            let _ = child.wait();
            r
        }
        "slow" => {
            // a window that takes longer to send than the timeout lasts (duplicate-packets mode, 1 ms per copy): the timer
            // starts when the window has been sent, so a repeated ACK right after the window brings nothing
            let (dup, ws, tmo) = (toks[2].parse::<u64>().unwrap(), toks[3].parse::<u64>().unwrap(), toks[4].parse::<u64>().unwrap());
            let blk = 8u64;
            let content = pattern(5, 3 * ws * blk + 3);
            std::fs::write(root.join("srv").join("w.bin"), &content).unwrap();
            let port = free_port();
            let mut args = server_args("-", &root, port, false);
            args.extend(["--duplicate-packets".to_string(), dup.to_string()]);
            let mut child = Command::new(bin("VERIF_TFTPD")).args(args).stdout(Stdio::null()).stderr(Stdio::null()).spawn().unwrap();
            std::thread::sleep(Duration::from_millis(150));
            let sock = UdpSocket::bind("127.0.0.1:0").unwrap();
            let o = |k: tftpd::OptionType, v: usize| tftpd::TransferOption { option: k, value: v };
            let rq = Packet::Rrq { filename: "w.bin".into(), mode: "octet".into(), options: vec![o(tftpd::OptionType::BlockSize, blk as usize), o(tftpd::OptionType::Windowsize, ws as usize), o(tftpd::OptionType::Timeout, tmo as usize)] };
            sock.send_to(&rq.serialize().unwrap(), ("127.0.0.1", port)).unwrap();
            sock.set_read_timeout(Some(Duration::from_millis(1500))).unwrap();
            let mut buf = [0u8; 2048];
            let r = match sock.recv_from(&mut buf) {
                Ok((_, tid)) => {
                    sock.send_to(&raw_ack(0), tid).unwrap();
                    // take window after window until block 2 * ws has been seen (all its copies), acknowledging each window once
                    let mut seen_last = 0u64;
                    let mut acked = 0u64;
                    sock.set_read_timeout(Some(Duration::from_millis(700))).unwrap();
                    let t0 = Instant::now();
                    while t0.elapsed() < Duration::from_secs(20) {
                        match sock.recv_from(&mut buf) {
                            Ok((n, _)) if n >= 4 && buf[1] == 3 => {
                                let k = ((buf[2] as u64) << 8) | buf[3] as u64;
                                if k == acked + ws {
                                    seen_last += 1;
                                    if seen_last == dup + 1 {
                                        acked = k;
                                        seen_last = 0;
                                        if acked == 2 * ws {
                                            break;
                                        }
                                        sock.send_to(&raw_ack(acked as u16), tid).unwrap();
                                    }
                                }
                            }
                            Ok(_) => {}
                            Err(_) => break,
                        }
                    }
                    // the second window is complete: repeat the ACK of the first one, then listen for half a second
                    let complete = acked == 2 * ws;
                    sock.send_to(&raw_ack(ws as u16), tid).unwrap();
                    sock.set_read_timeout(Some(Duration::from_millis(500))).unwrap();
                    let mut after = 0u64;
                    let t1 = Instant::now();
                    while t1.elapsed() < Duration::from_millis(500) {
                        if let Ok((n, _)) = sock.recv_from(&mut buf) {
                            if n >= 4 && buf[1] == 3 {
                                after += 1;
                            }
                        }
                    }
                    let _ = sock.send_to(&raw_error(0, "done"), tid);
                    format!("complete={} after={}", complete as u8, after)
                }
                Err(_) => "noreply".to_string(),
            };
            let _ = child.kill();
            let _ = child.wait();
            r
        }
        "quiet" => {
            // an upload whose peer falls silent after the handshake: given up after six time-outs, the partial file removed
            // (kept with --keep-on-error)
            let tmo = toks[3].parse::<u64>().unwrap();
            let port = free_port();
            let mut child = Command::new(bin("VERIF_TFTPD")).args(server_args(toks[2], &root, port, false)).stdout(Stdio::null()).stderr(Stdio::null()).spawn().unwrap();
            std::thread::sleep(Duration::from_millis(150));
            let sock = UdpSocket::bind("127.0.0.1:0").unwrap();
            let wq = Packet::Wrq { filename: "quiet.bin".into(), mode: "octet".into(), options: vec![tftpd::TransferOption { option: tftpd::OptionType::Timeout, value: tmo as usize }] };
            sock.send_to(&wq.serialize().unwrap(), ("127.0.0.1", port)).unwrap();
            sock.set_read_timeout(Some(Duration::from_millis(1500))).unwrap();
            let mut buf = [0u8; 1024];
            let r = match sock.recv_from(&mut buf) {
                Ok((n, _)) if n >= 2 && buf[1] == 6 => {
                    std::thread::sleep(Duration::from_millis(100));
                    let created = root.join("srv").join("quiet.bin").exists();
                    std::thread::sleep(Duration::from_millis(tmo * 6000 + 1300));
                    format!("created={} gone={}", created as u8, !root.join("srv").join("quiet.bin").exists() as u8)
                }
                _ => "noreply".to_string(),
            };
            let _ = child.kill();
            let _ = child.wait();
            r
        }
        "dup" => {
            // --duplicate-packets N in real time: a raw client that acknowledges every copy counts the copies of each block
            let (n, ws, tmo) = (toks[2].parse::<u64>().unwrap(), toks[3].parse::<u64>().unwrap(), toks[4]);
            let blk = 8u64;
            let nblocks = 2 * ws + 1;
            let content = pattern(3, (nblocks - 1) * blk + 2);
            std::fs::write(root.join("srv").join("d.bin"), &content).unwrap();
            let port = free_port();
            let mut args = server_args("-", &root, port, false);
            args.extend(["--duplicate-packets".to_string(), n.to_string()]);
            let mut child = Command::new(bin("VERIF_TFTPD")).args(args).stdout(Stdio::null()).stderr(Stdio::null()).spawn().unwrap();
            std::thread::sleep(Duration::from_millis(150));
            let sock = UdpSocket::bind("127.0.0.1:0").unwrap();
            let o = |k: tftpd::OptionType, v: usize| tftpd::TransferOption { option: k, value: v };
            let rq = Packet::Rrq { filename: "d.bin".into(), mode: "octet".into(), options: vec![o(tftpd::OptionType::BlockSize, blk as usize), o(tftpd::OptionType::Windowsize, ws as usize), o(tftpd::OptionType::Timeout, tmo.parse().unwrap())] };
            sock.send_to(&rq.serialize().unwrap(), ("127.0.0.1", port)).unwrap();
            sock.set_read_timeout(Some(Duration::from_millis(3000))).unwrap();
            let mut buf = [0u8; 2048];
            let mut copies: std::collections::BTreeMap<u64, u64> = Default::default();
            let mut got: Vec<u8> = vec![];
            let mut expect = 1u64;
            let mut done = false;
            let mut in_window = 0u64;
            let mut last_acked = 0u64;
            let r = match sock.recv_from(&mut buf) {
                Ok((_, tid)) => {
                    sock.send_to(&Packet::Ack(0).serialize().unwrap(), tid).unwrap();
                    let deadline = Instant::now() + Duration::from_secs(60);
                    while Instant::now() < deadline {
                        match sock.recv_from(&mut buf) {
                            Ok((len, _)) if len >= 4 && buf[1] == 3 => {
                                let k = ((buf[2] as u64) << 8) | buf[3] as u64;
                                *copies.entry(k).or_insert(0) += 1;
                                if !done && k == expect {
                                    got.extend_from_slice(&buf[4..len]);
                                    expect += 1;
                                    in_window += 1;
                                    if (len as u64) < blk + 4 {
                                        done = true;
                                    }
                                    if done || in_window == ws {
                                        in_window = 0;
                                        last_acked = k;
                                        let _ = sock.send_to(&Packet::Ack(k as u16).serialize().unwrap(), tid);
                                    }
                                } else if k == last_acked {
                                    // a conformant windowed peer that acknowledges every copy of the block that closes a window
                                    let _ = sock.send_to(&Packet::Ack(k as u16).serialize().unwrap(), tid);
                                }
                            }
                            Ok(_) => {}
                            Err(_) => break, // silence: the server is done (or gave up)
                        }
                    }
                    let worst = copies.values().cloned().max().unwrap_or(0);
                    let least = copies.values().cloned().min().unwrap_or(0);
                    format!("copies={least}..{worst} blocks={} same={}", copies.len(), (got == content) as u8)
                }
                Err(_) => "noreply".to_string(),
            };
            let _ = child.kill();
            let _ = child.wait();
            r
        }
        "xfer" => {
            let flags = toks[2];
            let upload = toks[3] == "u";
            let (blk, ws, size) = (toks[4], toks[5], toks[6].parse::<u64>().unwrap());
            let v6 = toks[7] == "6";
            let content = pattern(size % 251, size);
            let port = free_port();
            let mut child = Command::new(bin("VERIF_TFTPD")).args(server_args(flags, &root, port, v6)).stdout(Stdio::null()).stderr(Stdio::null()).spawn().unwrap();
            std::thread::sleep(Duration::from_millis(150));
            let ip = if v6 { "::1" } else { "127.0.0.1" };
            let sdir = if flags.contains('d') { "snd" } else { "srv" };
            let rdir = if flags.contains('d') { "rcv" } else { "srv" };
            let (status, same) = if upload {
                std::fs::write(root.join("cli").join("up.bin"), &content).unwrap();
                let st = Command::new(bin("VERIF_TFTPC")).args(["up.bin", "-u", "-i", ip, "-p", &port.to_string(), "-b", blk, "-w", ws, "-t", "2"]).current_dir(root.join("cli")).stdout(Stdio::null()).stderr(Stdio::null()).status().unwrap();
                std::thread::sleep(Duration::from_millis(30));
                (st, std::fs::read(root.join(rdir).join("up.bin")).map(|v| v == content).unwrap_or(false))
            } else {
                std::fs::create_dir_all(root.join(sdir).join("sub")).unwrap();
                std::fs::write(root.join(sdir).join("sub").join("f.bin"), &content).unwrap();
                let st = Command::new(bin("VERIF_TFTPC")).args(["sub\\f.bin", "-i", ip, "-p", &port.to_string(), "-b", blk, "-w", ws, "-t", "2", "-rd", root.join("cli").to_str().unwrap()]).current_dir(&root).stdout(Stdio::null()).stderr(Stdio::null()).status().unwrap();
                (st, std::fs::read(root.join("cli").join("f.bin")).map(|v| v == content).unwrap_or(false))
            };
            let _ = child.kill();
            let _ = child.wait();
            format!("res={} same={}", status.code().unwrap_or(-1), same as u8)
        }
        "dirs" => {
            // which directory serves reads and which takes writes, for the directory options given (the real binary's argv glue,
            // Config::new's fall-backs and the server's use of the two directories)
            let opts: Vec<&str> = toks[2].split(',').collect();
            for (d, f, seed) in [("srv", "in_srv.txt", 1u64), ("rcv", "in_rcv.txt", 2), ("snd", "in_snd.txt", 3)] {
                std::fs::write(root.join(d).join(f), pattern(seed, 40)).unwrap();
            }
            let port = free_port();
            let mut args = vec!["-i".to_string(), "127.0.0.1".into(), "-p".into(), port.to_string()];
            for o in &opts {
                match *o {
                    "d" => args.extend(["-d".to_string(), root.join("srv").to_str().unwrap().into()]),
                    "rd" => args.extend(["-rd".to_string(), root.join("rcv").to_str().unwrap().into()]),
                    "sd" => args.extend(["-sd".to_string(), root.join("snd").to_str().unwrap().into()]),
                    _ => {}
                }
            }
            // without -d the directory is the working directory: run the server inside srv
            let mut child = Command::new(bin("VERIF_TFTPD")).args(&args).current_dir(root.join("srv")).stdout(Stdio::null()).stderr(Stdio::null()).spawn().unwrap();
            std::thread::sleep(Duration::from_millis(150));
            let mut out = vec![];
            let mut buf = [0u8; 1024];
            for (tag, f, seed) in [("S", "in_srv.txt", 1u64), ("R", "in_rcv.txt", 2), ("N", "in_snd.txt", 3)] {
                let sock = UdpSocket::bind("127.0.0.1:0").unwrap();
                sock.set_read_timeout(Some(Duration::from_millis(800))).unwrap();
                let rq = Packet::Rrq { filename: f.into(), mode: "octet".into(), options: vec![] };
                sock.send_to(&rq.serialize().unwrap(), ("127.0.0.1", port)).unwrap();
                let r = match sock.recv_from(&mut buf) {
                    Ok((n, tid)) if n >= 4 && buf[1] == 3 => {
                        let ok = buf[4..n] == pattern(seed, 40)[..];
                        let _ = sock.send_to(&Packet::Ack(1).serialize().unwrap(), tid);
                        if ok { "D".to_string() } else { "D?".to_string() }
                    }
                    Ok((n, _)) if n >= 4 && buf[1] == 5 => format!("E{}", buf[3]),
                    Ok(_) => "other".to_string(),
                    Err(_) => "none".to_string(),
                };
                out.push(format!("{tag}:{r}"));
            }
            // an upload: where does it land?
            let sock = UdpSocket::bind("127.0.0.1:0").unwrap();
            sock.set_read_timeout(Some(Duration::from_millis(800))).unwrap();
            let wq = Packet::Wrq { filename: "up.bin".into(), mode: "octet".into(), options: vec![] };
            sock.send_to(&wq.serialize().unwrap(), ("127.0.0.1", port)).unwrap();
            if let Ok((n, tid)) = sock.recv_from(&mut buf) {
                if n >= 4 && buf[1] == 4 {
                    let d = Packet::Data { block_num: 1, data: vec![7, 7, 7, 7, 7] };
                    let _ = sock.send_to(&d.serialize().unwrap(), tid);
                    let _ = sock.recv_from(&mut buf);
                }
            }
            std::thread::sleep(Duration::from_millis(60));
            let landed: Vec<&str> = ["srv", "rcv", "snd"].into_iter().filter(|d| root.join(d).join("up.bin").exists()).collect();
            let _ = child.kill();
            let _ = child.wait();
            format!("{} up={}", out.join(","), if landed.is_empty() { "none".to_string() } else { landed.join("+") })
        }
        _ => panic!("bad bin case"),
    };
    let _ = std::fs::remove_dir_all(&root);
    res
}

pub fn gen_bin_dirs() -> Vec<String> {
    ["d", "d,rd", "d,sd", "rd,sd", "d,rd,sd", "rd", "sd", "rd,d", "sd,d", "sd,rd,d"].iter().map(|o| format!("bin dirs {o}")).collect()
}

pub fn gen_bin(_rng: &mut Rng, _count: u64, tier: &str) -> Vec<String> {
    let h = |xs: &[&str]| if xs.is_empty() { "-".to_string() } else { xs.iter().map(|x| if x.is_empty() { "_".to_string() } else { hex(x.as_bytes()) }).collect::<Vec<_>>().join(",") };
    let mut out = vec![];
    // start-up: accepted and rejected configurations (exit status of the real binary)
    for args in [
        vec!["-p", "@P", "-d", "@D"],
        vec!["-p", "@P", "-d", "@D", "--duplicate-packets", "254"],
        vec!["-p", "@P", "-d", "@D", "--duplicate-packets", "255"],
        vec!["-p", "@P", "-d", "@D", "--duplicate-packets", "256"],
        vec!["-p", "@P", "-d", "@D", "--duplicate-packets", "300"],
        vec!["-p", "@P", "-d", "@D", "--duplicate-packets", "-1"],
        vec!["-p", "@P", "-d", "/nonexistent-dir"],
        vec!["-p", "@P", "-x"],
        vec!["-p"],
        vec!["-i", "1.2.3", "-p", "@P"],
        vec!["-h"],
        vec!["-p", "@P", "-d", "@D", "-s", "-r", "--overwrite", "--keep-on-error", "-rd", "@D", "-sd", "@D"],
    ] {
        out.push(format!("bin start {}", h(&args)));
    }
    out.push("bin dup 254 6 1".into());
    out.push("bin dup 2 3 1".into());
    out.push("bin rt - 1".into());
    out.push("bin rt s 2".into());
    out.push("bin early - 7 3".into());
    out.push("bin early s 7 1".into());
    out.push("bin quiet - 1".into());
    out.push("bin quiet s 1".into());
    out.push("bin quiet k 1".into());
    out.push("bin slow 1 1300 1".into());
    let mut grid = vec![];
    for flags in ["-", "s", "d", "so"] {
        for (blk, ws) in [("512", "1"), ("8", "4"), ("1468", "8"), ("65464", "2"), ("1024", "64")] {
            for size in [0u64, 511, 512, 1469, 70000] {
                for dir in ["d", "u"] {
                    grid.push(format!("bin xfer {flags} {dir} {blk} {ws} {size} {}", if (size + blk.len() as u64) % 3 == 0 { "6" } else { "4" }));
                }
            }
        }
    }
    let stride = if tier == "thorough" { 1 } else { 9 };
    for (i, g) in grid.into_iter().enumerate() {
        if i % stride == 0 {
            out.push(g);
        }
    }
    if tier == "thorough" {
        out.push("bin xfer - d 8 16 530000 4".into()); // more than 65535 blocks between the real binaries
        out.push("bin xfer s u 8 16 530000 4".into());
        out.push("bin rt - 3".into());
        out.push("bin early - 6 2".into());
        out.push("bin early s 3 1".into());
        out.push("bin quiet sk 1".into());
    }
    out.extend(gen_bin_dirs());
    out
}
