//! The harness process is started with stdout/stderr redirected to files; the
//! outcome lines that `Worker::send/receive` print are read back from them.

use std::fs::File;
use std::io::{Read, Seek, SeekFrom};

pub struct Capture {
    out: Option<File>,
    err: Option<File>,
    out_off: u64,
    err_off: u64,
}

impl Capture {
    pub fn from_env() -> Capture {
        let open = |k: &str| std::env::var(k).ok().and_then(|p| File::open(p).ok());
        let mut c = Capture { out: open("VERIF_STDOUT"), err: open("VERIF_STDERR"), out_off: 0, err_off: 0 };
        c.take();
        c
    }

    fn read_new(f: &mut Option<File>, off: &mut u64) -> String {
        let mut s = Vec::new();
        if let Some(f) = f.as_mut() {
            let _ = f.seek(SeekFrom::Start(*off));
            let _ = f.read_to_end(&mut s);
            *off += s.len() as u64;
        }
        String::from_utf8_lossy(&s).into_owned()
    }

    /// Everything printed since the last call: (stdout, stderr).
    pub fn take(&mut self) -> (String, String) {
        use std::io::Write;
        let _ = std::io::stdout().flush();
        (Self::read_new(&mut self.out, &mut self.out_off), Self::read_new(&mut self.err, &mut self.err_off))
    }
}

/// Map what a worker printed to a small enum of outcome kinds.
pub fn classify(out: &str, err: &str) -> String {
    if err.contains("panicked at") {
        return "panic".into();
    }
    // a worker reports failure on stderr and success on stdout; the wording only refines the kind of failure
    if !err.trim().is_empty() {
        let e = err.trim();
        let kinds: &[(&str, &str)] = &[
            ("Transfer timed out", "timeout"),
            ("Received error code", "peer"),
            ("amount cannot be larger", "winremove"),
            ("cannot add to a full window", "winadd"),
            ("simulated send failure", "sendfail"),
            ("invalid oack response", "badoack"),
            ("simulated timeout", "recvfail"),
            ("simulated receive failure", "recvfail"),
            ("Buffer too short", "recvfail"),
            ("Invalid opcode", "recvfail"),
            ("converting to u16", "recvfail"),
            ("Invalid string", "recvfail"),
            ("utf-8", "recvfail"),
            ("cannot parse integer", "recvfail"),
            ("invalid digit", "recvfail"),
            ("number too large", "recvfail"),
            ("Invalid error code", "recvfail"),
            ("No such file", "nofile"),
            ("Is a directory", "io"),
        ];
        for (pat, k) in kinds {
            if e.contains(pat) {
                return (*k).into();
            }
        }
        return format!("other[{}]", e.lines().next().unwrap_or("").replace(' ', "_"));
    }
    if !out.trim().is_empty() {
        return "ok".into();
    }
    "none".into()
}
