//! CODEC-DEC / CODEC-ENC: the real `Packet::deserialize` / `serialize` and enum tables.

use crate::util::*;
use std::panic::{catch_unwind, AssertUnwindSafe};
use std::str::FromStr;
use tftpd::{ErrorCode, Opcode, OptionType, Packet, TransferOption};

pub fn opt_letter(o: &OptionType) -> &'static str {
    match o {
        OptionType::BlockSize => "b",
        OptionType::TransferSize => "s",
        OptionType::Timeout => "t",
        OptionType::Windowsize => "w",
    }
}

fn opt_of_letter(s: &str) -> OptionType {
    match s {
        "b" => OptionType::BlockSize,
        "s" => OptionType::TransferSize,
        "t" => OptionType::Timeout,
        "w" => OptionType::Windowsize,
        _ => panic!("bad option letter"),
    }
}

pub fn opts_text(os: &[TransferOption]) -> String {
    if os.is_empty() {
        return "-".into();
    }
    os.iter().map(|o| format!("{}={}", opt_letter(&o.option), o.value)).collect::<Vec<_>>().join(",")
}

fn opts_of_text(s: &str) -> Vec<TransferOption> {
    if s == "-" {
        return vec![];
    }
    s.split(',')
        .map(|t| {
            let (l, v) = t.split_once('=').unwrap();
            TransferOption { option: opt_of_letter(l), value: v.parse().unwrap() }
        })
        .collect()
}

fn hd(b: &[u8]) -> String {
    if b.is_empty() {
        "-".into()
    } else {
        hex(b)
    }
}

fn unhd(s: &str) -> Vec<u8> {
    if s == "-" {
        vec![]
    } else {
        unhex(s)
    }
}

pub fn packet_text(p: &Packet) -> String {
    match p {
        Packet::Rrq { filename, mode, options } => format!("rrq {} {} {}", hd(filename.as_bytes()), hd(mode.as_bytes()), opts_text(options)),
        Packet::Wrq { filename, mode, options } => format!("wrq {} {} {}", hd(filename.as_bytes()), hd(mode.as_bytes()), opts_text(options)),
        Packet::Data { block_num, data } => format!("data {} {}", block_num, hd(data)),
        Packet::Ack(n) => format!("ack {n}"),
        Packet::Error { code, msg } => format!("error {} {}", *code as u16, hd(msg.as_bytes())),
        Packet::Oack(os) => format!("oack {}", opts_text(os)),
    }
}

pub fn packet_of_toks(t: &[&str]) -> Packet {
    let s = |h: &str| String::from_utf8(unhd(h)).expect("enc case strings are UTF-8");
    match t[0] {
        "rrq" => Packet::Rrq { filename: s(t[1]), mode: s(t[2]), options: opts_of_text(t[3]) },
        "wrq" => Packet::Wrq { filename: s(t[1]), mode: s(t[2]), options: opts_of_text(t[3]) },
        "data" => Packet::Data { block_num: t[1].parse().unwrap(), data: unhd(t[2]) },
        "ack" => Packet::Ack(t[1].parse().unwrap()),
        "error" => Packet::Error { code: error_code(t[1].parse().unwrap()), msg: s(t[2]) },
        "oack" => Packet::Oack(opts_of_text(t[1])),
        _ => panic!("bad packet text"),
    }
}

/// `dec <hex>`
pub fn run_dec(toks: &[&str]) -> String {
    let buf = unhd(toks[1]);
    match catch_unwind(AssertUnwindSafe(|| Packet::deserialize(&buf))) {
        Ok(Ok(p)) => {
            let stable = catch_unwind(AssertUnwindSafe(|| match p.serialize() {
                Ok(b) => matches!(Packet::deserialize(&b), Ok(q) if q == p),
                Err(_) => false,
            }))
            .unwrap_or(false);
            format!("ok {} {}", packet_text(&p), if stable { "st" } else { "unst" })
        }
        Ok(Err(_)) => "err".into(),
        Err(_) => "panic".into(),
    }
}

/// `enc <packet text>`: bytes, and whether decoding them gives the packet back
pub fn run_enc(toks: &[&str]) -> String {
    let p = packet_of_toks(&toks[1..]);
    let r = catch_unwind(AssertUnwindSafe(|| {
        let b = p.serialize().unwrap();
        let rt = match Packet::deserialize(&b) {
            Ok(q) if q == p => "rt",
            Ok(_) => "rt-differs",
            Err(_) => "rt-fails",
        };
        format!("{} {}", hd(&b), rt)
    }));
    r.unwrap_or_else(|_| "panic".into())
}

/// `opc <v>` / `erc <v>`: the 16-bit enum conversions
pub fn run_opc(toks: &[&str]) -> String {
    let v: u16 = toks[1].parse().unwrap();
    match Opcode::from_u16(v) {
        Ok(o) => format!("ok {}", hex(&o.as_bytes())),
        Err(_) => "err".into(),
    }
}

pub fn run_erc(toks: &[&str]) -> String {
    let v: u16 = toks[1].parse().unwrap();
    match ErrorCode::from_u16(v) {
        Ok(o) => format!("ok {}", hex(&o.as_bytes())),
        Err(_) => "err".into(),
    }
}

/// `optname <hex>`: OptionType::from_str on the exact string, and as_str of the result
pub fn run_optname(toks: &[&str]) -> String {
    let s = String::from_utf8(unhd(toks[1])).unwrap();
    match OptionType::from_str(&s) {
        Ok(o) => format!("ok {} {}", opt_letter(&o), hex(o.as_str().as_bytes())),
        Err(_) => "err".into(),
    }
}

/// `lowersweep <lo> <hi>`: every scalar value whose lower-casing is pure ASCII
pub fn run_lowersweep(toks: &[&str]) -> String {
    let lo: u32 = toks[1].parse().unwrap();
    let hi: u32 = toks[2].parse().unwrap();
    let mut out = vec![];
    for c in lo..=hi {
        if let Some(ch) = char::from_u32(c) {
            let l = ch.to_string().to_lowercase();
            if l.is_ascii() {
                out.push(format!("{:x}:{}", c, hex(l.as_bytes())));
            }
        }
    }
    if out.is_empty() {
        "-".into()
    } else {
        out.join(",")
    }
}
