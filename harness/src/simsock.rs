//! Scripted in-memory `Socket`: the peer and the network are a list of receive
//! results (with virtual arrival delays) and a set of failing send calls.

use crate::util::{fnv_extend, hex, FNV_INIT};
use std::collections::{HashSet, VecDeque};
use std::error::Error;
use std::fs::File;
use std::io::{Read, Seek, SeekFrom};
use std::net::SocketAddr;
use std::path::PathBuf;
use std::sync::{Arc, Mutex};
use std::time::Duration;
use tftpd::{Packet, Socket};

#[derive(Clone, Debug)]
pub enum Ev {
    Dgram { delay: u64, raw: Vec<u8> },
    Fail { delay: u64 },
}

/// Incremental fingerprint of a growing file (full re-read while it is small).
pub struct Snap {
    pub path: PathBuf,
    len: u64,
    h: u64,
}

const SMALL: u64 = 1 << 16;

impl Snap {
    pub fn new(path: PathBuf) -> Snap {
        Snap { path, len: 0, h: FNV_INIT }
    }
    pub fn take(&mut self) -> String {
        let mut f = match File::open(&self.path) {
            Ok(f) => f,
            Err(_) => return "absent".to_string(),
        };
        let cur = f.metadata().map(|m| m.len()).unwrap_or(0);
        if cur <= SMALL || cur < self.len {
            let mut v = Vec::new();
            let _ = f.read_to_end(&mut v);
            self.len = v.len() as u64;
            self.h = fnv_extend(FNV_INIT, &v);
        } else {
            let _ = f.seek(SeekFrom::Start(self.len));
            let mut v = Vec::new();
            let _ = f.read_to_end(&mut v);
            self.len += v.len() as u64;
            self.h = fnv_extend(self.h, &v);
        }
        format!("{}:{:016x}", self.len, self.h)
    }
}

pub struct Shared {
    pub events: VecDeque<Ev>,
    pub log: Vec<String>,
    pub nsend: usize,
    pub nrecv: usize,
    pub extra_recv: usize,
    pub fails: HashSet<usize>,
    pub tmo_ns: u64,
    pub snap: Option<Snap>,
    pub runaway: bool,
    pub log_recv: bool,
}

pub struct SimSocket {
    pub sh: Arc<Mutex<Shared>>,
    pub remote: SocketAddr,
}

pub const RUNAWAY_LIMIT: usize = 64;

impl SimSocket {
    pub fn new(events: Vec<Ev>, fails: HashSet<usize>, tmo_ns: u64, snap: Option<Snap>) -> (SimSocket, Arc<Mutex<Shared>>) {
        let sh = Arc::new(Mutex::new(Shared {
            events: events.into(),
            log: Vec::new(),
            nsend: 0,
            nrecv: 0,
            extra_recv: 0,
            fails,
            tmo_ns,
            snap,
            runaway: false,
            log_recv: true,
        }));
        (
            SimSocket { sh: sh.clone(), remote: "127.0.0.1:50000".parse().unwrap() },
            sh,
        )
    }
}

impl Socket for SimSocket {
    fn send(&self, packet: &Packet) -> Result<(), Box<dyn Error>> {
        let bytes = packet.serialize()?;
        let mut sh = self.sh.lock().unwrap();
        let idx = sh.nsend;
        sh.nsend += 1;
        let mut tok = format!("s{}", hex(&bytes));
        if let Some(snap) = sh.snap.as_mut() {
            tok.push('@');
            tok.push_str(&snap.take());
        }
        if sh.fails.contains(&idx) {
            tok.push('!');
            sh.log.push(tok);
            return Err("simulated send failure".into());
        }
        sh.log.push(tok);
        Ok(())
    }

    fn send_to(&self, packet: &Packet, _to: &SocketAddr) -> Result<(), Box<dyn Error>> {
        self.send(packet)
    }

    fn recv_with_size(&self, size: usize) -> Result<Packet, Box<dyn Error>> {
        let mut sh = self.sh.lock().unwrap();
        sh.nrecv += 1;
        if sh.log_recv {
            sh.log.push("r".to_string());
        }
        match sh.events.pop_front() {
            None => {
                sh.extra_recv += 1;
                if sh.extra_recv > RUNAWAY_LIMIT {
                    sh.runaway = true;
                    drop(sh);
                    loop {
                        std::thread::park();
                    }
                }
                tftpd::verif::advance(Duration::from_nanos(sh.tmo_ns));
                Err("simulated timeout".into())
            }
            Some(Ev::Fail { delay }) => {
                tftpd::verif::advance(Duration::from_nanos(delay));
                Err("simulated receive failure".into())
            }
            Some(Ev::Dgram { delay, raw }) => {
                tftpd::verif::advance(Duration::from_nanos(delay));
                let n = raw.len().min(size.saturating_add(4));
                Ok(Packet::deserialize(&raw[..n])?)
            }
        }
    }

    fn recv_from_with_size(&self, size: usize) -> Result<(Packet, SocketAddr), Box<dyn Error>> {
        Ok((self.recv_with_size(size)?, self.remote))
    }

    fn remote_addr(&self) -> Result<SocketAddr, Box<dyn Error>> {
        Ok(self.remote)
    }

    fn set_read_timeout(&mut self, _dur: Duration) -> Result<(), Box<dyn Error>> {
        Ok(())
    }

    fn set_write_timeout(&mut self, _dur: Duration) -> Result<(), Box<dyn Error>> {
        Ok(())
    }
}
