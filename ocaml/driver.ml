(* Correspondence driver: reads the case lines the Rust harness ran, evaluates the
   extracted Coq model on them and prints one canonical result line per case. *)
open Model

let rec pos_of_int (i : int) : positive =
  if i = 1 then XH else if i land 1 = 0 then XO (pos_of_int (i lsr 1)) else XI (pos_of_int (i lsr 1))
let n_of_int (i : int) : n = if i = 0 then N0 else Npos (pos_of_int i)
(* saturating: a value beyond the native range reads as max_int (never wraps to 0 or a negative number) *)
let rec int_of_pos = function
  | XH -> 1
  | XO p -> let v = int_of_pos p in if v > max_int / 2 then max_int else 2 * v
  | XI p -> let v = int_of_pos p in if v >= max_int / 2 then max_int else 2 * v + 1
let int_of_n = function N0 -> 0 | Npos p -> int_of_pos p

let starts_with s p = String.length s >= String.length p && String.sub s 0 (String.length p) = p
let rec nat_of_int (i : int) : nat = if i <= 0 then O else S (nat_of_int (i - 1))
let words s = List.filter (fun x -> x <> "") (String.split_on_char ' ' s)

let byte_tbl : n array = Array.init 256 n_of_int

let bytes_of_string (s : string) : n list =
  let r = ref [] in
  for i = String.length s - 1 downto 0 do r := byte_tbl.(Char.code s.[i]) :: !r done; !r

let string_of_bytes (b : n list) : string =
  let buf = Buffer.create 64 in
  List.iter (fun x -> Buffer.add_char buf (Char.chr (int_of_n x land 255))) b; Buffer.contents buf

(* decimal text <-> N through the model's own conversions (no OCaml int overflow) *)
let n_of_dec (s : string) : n =
  match uint_of_bytes (bytes_of_string s) with Some u -> N.of_uint u | None -> failwith ("bad number " ^ s)
let dec_of_n (x : n) : string = string_of_bytes (to_dec x)

let hexval c = match c with
  | '0'..'9' -> Char.code c - 48 | 'a'..'f' -> Char.code c - 87 | 'A'..'F' -> Char.code c - 55
  | _ -> failwith "bad hex"
let bytes_of_hex (s : string) : n list =
  if s = "-" then [] else begin
    let r = ref [] in
    let l = String.length s / 2 in
    for i = l - 1 downto 0 do
      r := byte_tbl.(hexval s.[2*i] * 16 + hexval s.[2*i+1]) :: !r done; !r end
let hexdig = "0123456789abcdef"
let add_hex buf (b : n list) =
  List.iter (fun x -> let v = int_of_n x land 255 in
    Buffer.add_char buf hexdig.[v lsr 4]; Buffer.add_char buf hexdig.[v land 15]) b
let hex_of_bytes (b : n list) : string =
  let buf = Buffer.create 64 in add_hex buf b; Buffer.contents buf
let hex_or_dash b = match b with [] -> "-" | _ -> hex_of_bytes b

(* same pattern as harness util.rs *)
let pattern seed len =
  let r = ref [] in
  for i = len - 1 downto 0 do r := byte_tbl.((seed + i * 31 + (i / 256) * 7) mod 256) :: !r done; !r
let file_of_spec (s : string) : n list =
  match s.[0] with
  | 'P' -> (match String.split_on_char ':' (String.sub s 1 (String.length s - 1)) with
            | [l; sd] -> pattern (int_of_string sd) (int_of_string l) | _ -> failwith "bad P spec")
  | 'H' -> bytes_of_hex (String.sub s 1 (String.length s - 1))
  | 'Z' -> (match String.split_on_char ':' (String.sub s 1 (String.length s - 1)) with
            | [l; b] -> List.init (int_of_string l) (fun _ -> n_of_int (int_of_string b)) | _ -> failwith "bad Z spec")
  | _ -> failwith "bad file spec"

(* file fingerprint: Fletcher-style sums modulo 2^32 - 5, packed b << 32 | a (same as harness util.rs) *)
let fp_p = 4294967291
let fnv_init = 0L
let fnv_extend (h : int64) (bs : n list) : int64 =
  let a = ref (Int64.to_int (Int64.logand h 0xffffffffL)) and b = ref (Int64.to_int (Int64.shift_right_logical h 32)) in
  List.iter (fun x ->
    a := !a + (int_of_n x land 255) + 1; if !a >= fp_p then a := !a - fp_p;
    b := !b + !a; if !b >= fp_p then b := !b - fp_p) bs;
  Int64.logor (Int64.shift_left (Int64.of_int !b) 32) (Int64.of_int !a)

let opt_letter = function OBlkSize -> "b" | OTSize -> "s" | OTimeout -> "t" | OWindowSize -> "w"
let opt_of_letter = function "b" -> OBlkSize | "s" -> OTSize | "t" -> OTimeout | "w" -> OWindowSize
  | _ -> failwith "bad option letter"
let opts_text os = match os with [] -> "-" | _ ->
  String.concat "," (List.map (fun o -> opt_letter o.o_type ^ "=" ^ dec_of_n o.o_val) os)
let opts_of_text s = if s = "-" then [] else
  List.map (fun t -> match String.split_on_char '=' t with
    | [l; v] -> { o_type = opt_of_letter l; o_val = n_of_dec v } | _ -> failwith "bad opt") (String.split_on_char ',' s)

let errcode_num c = int_of_n (u16_of_errcode c)
let errcode_of_num i = match errcode_of_u16 (n_of_int i) with Some c -> c | None -> failwith "bad errcode"

let packet_text = function
  | Rrq (f, m, os) -> Printf.sprintf "rrq %s %s %s" (hex_or_dash f) (hex_or_dash m) (opts_text os)
  | Wrq (f, m, os) -> Printf.sprintf "wrq %s %s %s" (hex_or_dash f) (hex_or_dash m) (opts_text os)
  | Data (n, d) -> Printf.sprintf "data %s %s" (dec_of_n n) (hex_or_dash d)
  | Ack n -> Printf.sprintf "ack %s" (dec_of_n n)
  | Error (c, m) -> Printf.sprintf "error %d %s" (errcode_num c) (hex_or_dash m)
  | Oack os -> Printf.sprintf "oack %s" (opts_text os)

let packet_of_toks = function
  | ["rrq"; f; m; os] -> Rrq (bytes_of_hex f, bytes_of_hex m, opts_of_text os)
  | ["wrq"; f; m; os] -> Wrq (bytes_of_hex f, bytes_of_hex m, opts_of_text os)
  | ["data"; n; d] -> Data (n_of_dec n, bytes_of_hex d)
  | ["ack"; n] -> Ack (n_of_dec n)
  | ["error"; c; m] -> Error (errcode_of_num (int_of_string c), bytes_of_hex m)
  | ["oack"; os] -> Oack (opts_of_text os)
  | _ -> failwith "bad packet text"

let outcome_text = function
  | OutOk -> "ok" | OutTimeout -> "timeout" | OutPeer -> "peer" | OutWinRemove -> "winremove" | OutWinAdd -> "winadd"
  | OutSendFail -> "sendfail" | OutRecvFail -> "recvfail" | OutBadOack -> "badoack" | OutIo -> "io" | OutPanic -> "panic"

let parse_events (s : string) : ev list =
  if s = "-" then [] else
  List.map (fun t ->
    match t.[0] with
    | 'e' -> EvFail (n_of_dec (String.sub t 1 (String.length t - 1)))
    | 'd' -> (match String.split_on_char ':' (String.sub t 1 (String.length t - 1)) with
              | [d; h] -> EvDgram (n_of_dec d, bytes_of_hex h) | _ -> failwith "bad event")
    | _ -> failwith "bad event") (String.split_on_char ',' s)

let parse_fails s = if s = "-" then [] else List.map n_of_dec (String.split_on_char ',' s)

let runaway_limit = 64

(* ---- W-SEND ---- *)
let run_send toks =
  match toks with
  | [_; blk; ws; tmo; rep; check; fspec; fails; evs] ->
    let cfg = { s_blk = n_of_dec blk; s_ws = n_of_dec ws; s_tmo = n_of_dec tmo; s_rep = n_of_dec rep;
                s_check = (check = "1"); s_fails = parse_fails fails } in
    let buf = Buffer.create 4096 in
    let emit out = List.iter (fun s ->
      Buffer.add_char buf 's'; add_hex buf (encode s.s_pk);
      if s.s_failed then Buffer.add_char buf '!'; Buffer.add_char buf ' ') out in
    let (st0, out0) = send_init cfg (file_of_spec fspec) in
    emit out0;
    let st = ref st0 in
    let is_done s = match s.s_phase with SDone _ -> true | _ -> false in
    let feed e = if not (is_done !st) then begin
        Buffer.add_string buf "r ";
        let (s1, out) = send_step cfg !st e in st := s1; emit out end in
    List.iter feed (parse_events evs);
    let extra = ref 0 in
    while not (is_done !st) && !extra < runaway_limit do
      incr extra; feed (EvFail cfg.s_tmo) done;
    (match !st.s_phase with
     | SDone o -> Buffer.add_string buf ("end=" ^ outcome_text o)
     | _ -> Buffer.add_string buf "r end=runaway");
    Buffer.contents buf
  | _ -> failwith "bad send case"

(* ---- W-RECV ---- *)
(* Fingerprint of a written-chunk list (most recent first); successive snapshots share
   their tails physically, so the hash is extended from the previous snapshot. *)
let snap_cache : (n list list * int * int64) ref = ref ([], 0, fnv_init)
let snapshot (w : n list list) : string =
  let (prev, plen, ph) = !snap_cache in
  let rec collect l acc = if l == prev then Some acc else match l with [] -> None | c :: r -> collect r (c :: acc) in
  let (len, h) =
    match collect w [] with
    | Some news -> List.fold_left (fun (l, h) c -> (l + List.length c, fnv_extend h c)) (plen, ph) news
    | None -> List.fold_left (fun (l, h) c -> (l + List.length c, fnv_extend h c)) (0, fnv_init) (List.rev w) in
  snap_cache := (w, len, h);
  Printf.sprintf "%d:%016Lx" len h

let run_recv toks =
  match toks with
  | [_; blk; ws; tmo; rep; clean; fails; evs] ->
    let cfg = { r_blk = n_of_dec blk; r_ws = n_of_dec ws; r_tmo = n_of_dec tmo; r_rep = n_of_dec rep;
                r_clean = (clean.[0] = '1'); r_fails = parse_fails fails } in
    snap_cache := ([], 0, fnv_init);
    let buf = Buffer.create 4096 in
    let emit out = List.iter (fun a ->
      Buffer.add_char buf 's'; add_hex buf (encode a.a_sent.s_pk);
      Buffer.add_char buf '@'; Buffer.add_string buf (snapshot a.a_file);
      if a.a_sent.s_failed then Buffer.add_char buf '!'; Buffer.add_char buf ' ') out in
    let st = ref (recv_init cfg) in
    let is_done s = match s.r_phase with RDone _ -> true | _ -> false in
    let feed e = if not (is_done !st) then begin
        Buffer.add_string buf "r ";
        let (s1, out) = recv_step cfg !st e in st := s1; emit out end in
    List.iter feed (parse_events evs);
    let extra = ref 0 in
    while not (is_done !st) && !extra < runaway_limit do
      incr extra; feed (EvFail cfg.r_tmo) done;
    let file = match recv_final_file cfg !st with
      | None -> "absent" | Some w -> snapshot w in
    (match !st.r_phase with
     | RDone o -> Buffer.add_string buf (Printf.sprintf "file=%s end=%s" file (outcome_text o))
     | _ -> Buffer.add_string buf (Printf.sprintf "r file=%s end=runaway" file));
    Buffer.contents buf
  | _ -> failwith "bad recv case"

(* ---- WIN ---- *)
let run_win toks =
  match toks with
  | [_; mode; size; chunk; content; ops] ->
    let content = bytes_of_hex content in
    let f = match mode with
      | "R" -> { f_mode = FRead; f_rest = content; f_written = [] }
      | "W" -> { f_mode = FWrite; f_rest = []; f_written = [] }
      | "A" -> { f_mode = FReadAppend; f_rest = content; f_written = [] }
      | _ -> failwith "bad mode" in
    let w = ref (window_new (n_of_dec size) (n_of_dec chunk) f) in
    let buf = Buffer.create 256 in
    let piece p = match p with [] -> "_" | _ -> hex_of_bytes p in
    if ops <> "-" then
      List.iter (fun op ->
        let kind = op.[0] and rest = String.sub op 1 (String.length op - 1) in
        let o = match kind with
          | 'f' -> OpFill | 'e' -> OpEmpty | 'r' -> OpRemove (n_of_dec rest) | 'a' -> OpAdd (bytes_of_hex rest)
          | _ -> failwith "bad op" in
        let (w1, ob) = wstep !w o in
        w := w1;
        let res = match ob with
          | ObsFill true -> "t" | ObsFill false -> "f" | ObsUnit -> "ok"
          | ObsErr WIo -> "Eio" | ObsErr WRemove -> "Erm" | ObsErr WAdd -> "Eadd" in
        Buffer.add_string buf (Printf.sprintf "%s:%s:%d%d:%s " res (dec_of_n (w_len w1))
          (if w_is_empty w1 then 1 else 0) (if w_is_full w1 then 1 else 0)
          (match w1.w_elems with [] -> "-" | l -> String.concat "." (List.map piece l))))
        (String.split_on_char ',' ops);
    let written = written_bytes !w.w_file in
    let fin = match mode with "R" -> content | "W" -> written | _ -> content @ written in
    Buffer.add_string buf ("file=" ^ hex_or_dash fin);
    Buffer.contents buf
  | _ -> failwith "bad win case"

let fp_text (b : n list) : string = Printf.sprintf "%d:%016Lx" (List.length b) (fnv_extend fnv_init b)

(* ---- W-PAIR ---- *)
let parse_pair_faults (s : string) : (n * fault) list =
  if s = "-" then [] else
  List.map (fun t -> match String.split_on_char ':' t with
    | [i; k] -> (n_of_dec i, (match k with "x" -> NfDrop | "d" -> NfDup | "h" -> NfHold | _ -> failwith "bad fault"))
    | _ -> failwith "bad fault") (String.split_on_char ',' s)

let run_pair toks =
  match toks with
  | [_; blk; ws; tmo; rep_s; rep_r; fspec; fsr; frs] ->
    let sc = { s_blk = n_of_dec blk; s_ws = n_of_dec ws; s_tmo = n_of_dec tmo; s_rep = n_of_dec rep_s; s_check = false; s_fails = [] } in
    let rc = { r_blk = n_of_dec blk; r_ws = n_of_dec ws; r_tmo = n_of_dec tmo; r_rep = n_of_dec rep_r; r_clean = true; r_fails = [] } in
    let f1 = parse_pair_faults fsr and f2 = parse_pair_faults frs in
    let p = ref (pair_init sc rc f1 (file_of_spec fspec)) in
    let steps = ref 0 and go = ref true in
    while !go && !steps < 3000000 do
      (match pair_step sc rc f1 f2 !p with Some p' -> p := p'; incr steps | None -> go := false)
    done;
    let so = match !p.p_s.s_phase with SDone o -> outcome_text o | _ -> "runaway" in
    let ro = match !p.p_r.r_phase with RDone o -> outcome_text o | _ -> "runaway" in
    let file = match recv_final_file rc !p.p_r with None -> "absent" | Some w -> fp_text (List.concat (List.rev w)) in
    Printf.sprintf "s=%s r=%s file=%s nsr=%s nrs=%s" so ro file (dec_of_n !p.p_sr.ch_n) (dec_of_n !p.p_rs.ch_n)
  | [_; blk; ws; tmo; rep_s; rep_r; fspec; "-"; "-"; cap] when starts_with cap "cap=" ->
    (* receive capacity: only the first [cap] datagrams of every burst of the sender arrive *)
    let cap = nat_of_int (int_of_string (String.sub cap 4 (String.length cap - 4))) in
    let sc = { s_blk = n_of_dec blk; s_ws = n_of_dec ws; s_tmo = n_of_dec tmo; s_rep = n_of_dec rep_s; s_check = false; s_fails = [] } in
    let rc = { r_blk = n_of_dec blk; r_ws = n_of_dec ws; r_tmo = n_of_dec tmo; r_rep = n_of_dec rep_r; r_clean = true; r_fails = [] } in
    let p = ref (pair_init_cap sc rc cap (file_of_spec fspec)) in
    let steps = ref 0 and go = ref true in
    while !go && !steps < 3000000 do
      (match pair_step_cap sc rc cap !p with Some p' -> p := p'; incr steps | None -> go := false)
    done;
    let so = match !p.p_s.s_phase with SDone o -> outcome_text o | _ -> "runaway" in
    let ro = match !p.p_r.r_phase with RDone o -> outcome_text o | _ -> "runaway" in
    let file = match recv_final_file rc !p.p_r with None -> "absent" | Some w -> fp_text (List.concat (List.rev w)) in
    Printf.sprintf "s=%s r=%s file=%s nsr=%s nrs=%s" so ro file (dec_of_n !p.p_sr.ch_n) (dec_of_n !p.p_rs.ch_n)
  | _ -> failwith "bad pair case"

(* C04 on the implementation's result *)
let mon_pair prop case impl =
  match words case, words impl with
  | [_; _; ws; _; rep_s; _; fspec; _; _; cap], [s; r; file; _; _] when starts_with cap "cap=" ->
    let cap = int_of_string (String.sub cap 4 (String.length cap - 4)) in
    let want = fp_text (file_of_spec fspec) in
    let s_ok = (s = "s=ok") and r_ok = (r = "r=ok") and f_ok = (file = "file=" ^ want) in
    if r_ok && not f_ok then "fail:completed-upload-with-wrong-content"
    else if s_ok && not r_ok then "fail:sender-succeeded-but-receiver-did-not"
    else if s_ok && r_ok then "pass"
    else if cap >= int_of_string ws * int_of_string rep_s then "fail:transfer-within-the-receive-capacity-failed"
    (* a window that does not fit the receiver's buffer: the sender goes back to the window's start for ever (finding D8).
       For C04 more than the retry budget of consecutive receives fail: outside its premise. *)
    else if prop = "C14" then "known:window-larger-than-receive-capacity"
    else "pass"
  | [_; _; _; _; rep_s; rep_r; fspec; fsr; frs], [s; r; file; _; nrs] ->
    let nf x = if x = "-" then 0 else List.length (String.split_on_char ',' x) in
    let total = nf fsr + nf frs in
    let want = fp_text (file_of_spec fspec) in
    let s_ok = (s = "s=ok") and r_ok = (r = "r=ok") and f_ok = (file = "file=" ^ want) in
    let nrs = int_of_string (String.sub nrs 4 (String.length nrs - 4)) in
    let unknown = (s = "s=~" || r = "r=~") in   (* the outcome could not be read off the log (see tools/vlib.py, tolerant) *)
    if r_ok && not f_ok then "fail:completed-upload-with-wrong-content"
    else if unknown then (if total <= 1 && not f_ok then "fail:single-fault-and-the-file-did-not-arrive" else "pass")
    else if s_ok && not r_ok then "fail:sender-succeeded-but-receiver-did-not"
    else if total <= 1 then begin
      (* a single fault never fails a transfer - except the loss of the very last ACK, which only the sender notices *)
      let last_ack_lost = rep_r = "1" && (match String.split_on_char ':' frs with
        | [i; k] when k <> "d" -> int_of_string i = nrs - 1
        | _ -> false) in
      if not r_ok then "fail:single-fault-failed-the-receiving-side"
      else if not s_ok && not last_ack_lost then "fail:single-fault-failed-the-sending-side"
      else "pass"
    end else "pass"
  | _ -> "fail:unparsable"

(* ---- SRV ---- *)

let spec_content (c : string) : n list =
  if c = "-" then [] else if c.[0] = 'P' || c.[0] = 'Z' then file_of_spec (String.map (fun ch -> if ch = '_' then ':' else ch) c) else bytes_of_hex c

(* insert a path (list of segments) into a directory node *)
let rec insert_node (nd : node) (segs : n list list) (leaf : node) : node =
  match nd, segs with
  | NDir es, [s] -> (match lookup_entry s es with
      | Some (NDir _) when (match leaf with NDir _ -> true | _ -> false) -> nd
      | _ -> NDir (set_entry s leaf es))
  | NDir es, s :: r ->
    let sub = match lookup_entry s es with Some x -> x | None -> NDir [] in
    NDir (set_entry s (insert_node sub r leaf) es)
  | _, _ -> nd

let segs_of_rel (rel : string) : n list list =
  List.map bytes_of_string (List.filter (fun x -> x <> "") (String.split_on_char '/' rel))

(* symbolic links of the current case's tree: (path below /R, target) *)
let tree_links : (string * string) list ref = ref []
let is_full_device (path : n list) : bool =
  List.exists (fun (rel, t) -> t = "/dev/full" && string_of_bytes path = "/R/" ^ rel) !tree_links

let build_tree (tree : string) : node =
  tree_links := [];
  let base = NDir [ (bytes_of_string "R", NDir []) ] in
  if tree = "-" then base else
  List.fold_left (fun nd ent ->
    match String.split_on_char ':' ent with
    | ["d"; p] -> insert_node nd (bytes_of_string "R" :: segs_of_rel (string_of_bytes (bytes_of_hex p))) (NDir [])
    | ["f"; p; c] -> insert_node nd (bytes_of_string "R" :: segs_of_rel (string_of_bytes (bytes_of_hex p))) (NFile (spec_content c))
    | ["l"; p; t] ->
      (* a symbolic link to a file next to it: for everything the model looks at, a file with the target's content *)
      let rel = string_of_bytes (bytes_of_hex p) in
      let target = string_of_bytes (bytes_of_hex t) in
      tree_links := (rel, target) :: !tree_links;
      if target = "/dev/full" then insert_node nd (bytes_of_string "R" :: segs_of_rel rel) (NFile [])   (* exists; every write to it fails *)
      else begin
        let dir = (match String.rindex_opt rel '/' with Some i -> String.sub rel 0 i | None -> "") in
        let trel = (if dir = "" then "" else dir ^ "/") ^ target in
        let content = (match stat nd (bytes_of_string ("/R/" ^ trel)) with Some (NFile c) -> c | _ -> failwith "link target is no file") in
        insert_node nd (bytes_of_string "R" :: segs_of_rel rel) (NFile content)
      end
    | _ -> failwith "bad tree entry") base (String.split_on_char ',' tree)

let snapshot_tree (root : node) : string =
  let out = ref [] in
  let rec walk prefix nd =
    match nd with
    | NFile _ -> ()
    | NDir es ->
      let es = List.sort (fun (a, _) (b, _) -> compare (string_of_bytes a) (string_of_bytes b)) es in
      List.iter (fun (name, x) ->
        let rel = if prefix = "" then string_of_bytes name else prefix ^ "/" ^ string_of_bytes name in
        (match x with
         | NDir _ -> out := (hex_of_bytes (bytes_of_string rel) ^ "/") :: !out; walk rel x
         | NFile c -> out := (hex_of_bytes (bytes_of_string rel) ^ "=" ^ (if List.mem_assoc rel !tree_links then "link" else fp_text c)) :: !out)) es in
  (match root with
   | NDir es -> (match lookup_entry (bytes_of_string "R") es with Some r -> walk "" r | None -> ())
   | _ -> ());
  match List.rev !out with [] -> "-" | l -> String.concat "," l

let has_flag flags c = String.contains flags c

let run_srv toks =
  match toks with
  | [_; flags; dup; tree; steps] ->
    let rootp = bytes_of_string "/R" in
    let distinct = has_flag flags 'd' in
    let sdir = rootp @ bytes_of_string (if distinct then "/snd" else "/srv") in
    let rdir = rootp @ bytes_of_string (if distinct then "/rcv" else "/srv") in
    let cfg = { v_single = has_flag flags 's'; v_ro = has_flag flags 'r'; v_over = has_flag flags 'o';
                v_clean = not (has_flag flags 'k'); v_dup = n_of_dec dup; v_sdir = sdir; v_rdir = rdir } in
    let root = ref (build_tree tree) in
    let st = ref lstate_init in
    let mem = n_of_dec "1000000000000" in
    let out = ref [] in
    let abandoned = ref [] in   (* (client, path, clean) of receivers whose peer fell silent right after the handshake *)
    let held = ref [] in        (* (client, (path, options, copies, check)) of downloads left waiting after the first reply *)
    let emit s = out := s :: !out in
    let reply_text acts =
      match List.filter_map (function AReply (l, p) -> Some (l, p) | _ -> None) acts with
      | (l, p) :: _ ->
        (* of an ERROR only opcode and code are compared: the wording of the message is no property's subject *)
        let shown = (match p with Error _ -> hex_of_bytes (List.filteri (fun k _ -> k < 4) (encode p)) ^ "~" | _ -> hex_of_bytes (encode p)) in
        Some (shown ^ "@" ^ (if l then "L" else "E"))
      | [] -> None in
    List.iter (fun step ->
      if step = "-" || step.[0] = 'w' then ()
      else if step.[0] = 'c' then begin
        (* the waiting download of this client is taken up: its worker has been there all the time *)
        let c = Char.code step.[1] - 48 in
        (match List.assoc_opt c !held with
         | Some (path, o, rep, check) ->
           held := List.remove_assoc c !held;
           (match stat !root path with
            | Some (NFile content) ->
              let (datas, ph) = run_download o rep check content in
              let got = List.concat (List.filteri (fun i _ -> i mod (int_of_n rep) = 0) (List.map snd datas)) in
              let ndata = List.length datas in
              let maxpay = List.fold_left (fun m (_, p) -> max m (List.length p)) 0 datas in
              let nb = int_of_n (nblocks_of o.wo_blk content) in
              let fb = (min (int_of_n o.wo_ws) nb - 1) * int_of_n rep + 1 in
              emit (Printf.sprintf "dl=%s/%d/%d/%d/%s/x0/%s" (fp_text got) ndata maxpay fb (dec_of_n rep)
                      (match ph with SDone OutOk -> "done" | _ -> "incomplete"))
            | _ -> emit "dl=-")
         | None -> emit "dl=-")
      end
      else if step.[0] = 'x' then begin
        (* the abandoned worker of this client has exhausted its retries: clean-on-error removes whatever the path names now *)
        let c = Char.code step.[1] - 48 in
        List.iter (fun (c', path, clean) -> if c' = c && clean then root := remove_file !root path) !abandoned;
        abandoned := List.filter (fun (c', _, _) -> c' <> c) !abandoned;
        st := worker_ended !st (n_of_int (c + 1))
      end else begin
        let kind = step.[0] in
        let c = Char.code step.[1] - 48 in
        let fields = String.split_on_char ':' (String.sub step 3 (String.length step - 3)) in
        let dg = match fields with f :: _ -> if f = "-" then [] else bytes_of_hex f | [] -> [] in
        let cont = match fields with _ :: x :: _ -> x | _ -> "-" in
        let src = n_of_int (c + 1) in
        match listen_step cfg mem !root !st src dg with
        | Ok (st', acts) ->
          st := st';
          let spawn = List.find_opt (function ASpawnSend _ | ASpawnRecv _ -> true | _ -> false) acts in
          (* what the requester sees first: the listener's / handshake reply, else the first DATA of an option-less read *)
          let first =
            match reply_text acts with
            | Some r -> Some r
            | None ->
              (match spawn with
               | Some (ASpawnSend (path, o, rep, check)) ->
                 (match stat !root path with
                  | Some (NFile content) ->
                    let (datas, _) = run_download o rep check content in
                    (match datas with
                     | (nn, p) :: _ -> Some (hex_of_bytes (encode (Data (nn, p))) ^ "@" ^ (if cfg.v_single then "L" else "E"))
                     | [] -> None)
                  | _ -> None)
               | _ -> None) in
          emit ("reply=" ^ (match first with Some r -> r | None -> "none"));
          if kind <> 'q' then begin
            (* a request that arrives as a stray datagram is still served: its worker starts and is abandoned *)
            (match spawn with
             | Some (ASpawnRecv (path, _, _, _)) ->
               (match create_file !root path [] with Some r0 -> root := r0 | None -> st := worker_ended !st src)
             | _ -> ())
          end;
          if kind = 'q' then begin
            (match spawn with
             | Some (ASpawnSend (path, o, rep, check)) ->
               (match stat !root path with
                | Some (NFile _) when first <> None && cont = "H" ->
                  held := (c, (path, o, rep, check)) :: !held
                | Some (NFile _) when first <> None && cont = "M" ->
                  (* the window is retransmitted when the negotiated timeout has elapsed *)
                  emit ("rt=" ^ dec_of_n o.wo_tmo_s)
                | Some (NFile _) when first <> None && cont = "K" ->
                  (* ... and a repeated ACK before that brings nothing *)
                  emit "early=0"
                | Some (NFile content) when first <> None && cont = "R" ->
                  (* ACKs in disorder: the stale one behind the ACK of the window is ignored, the sender never goes back *)
                  let (datas, ph) = run_download o rep check content in
                  let got = List.concat (List.filteri (fun i _ -> i mod (int_of_n rep) = 0) (List.map snd datas)) in
                  emit (Printf.sprintf "ra=%s/0/%s" (fp_text got) (match ph with SDone OutOk -> "done" | _ -> "incomplete"))
                | Some (NFile content) ->
                  if first <> None && cont = "D" then begin
                    let (datas, ph) = run_download o rep check content in
                    let got = List.concat (List.filteri (fun i _ -> i mod (int_of_n rep) = 0) (List.map snd datas)) in
                    let ndata = List.length datas in
                    let maxpay = List.fold_left (fun m (_, p) -> max m (List.length p)) 0 datas in
                    let nb = int_of_n (nblocks_of o.wo_blk content) in
                    (* the client acknowledges a window when the first copy of its last block arrives *)
                    let fb = (min (int_of_n o.wo_ws) nb - 1) * int_of_n rep + 1 in
                    emit (Printf.sprintf "dl=%s/%d/%d/%d/%s/x0/%s" (fp_text got) ndata maxpay fb (dec_of_n rep)
                            (match ph with SDone OutOk -> "done" | _ -> "incomplete"))
                  end
                | _ ->
                  (* a directory: the worker fails on its first read; nothing is ever sent *)
                  if first <> None && cont = "D" then emit "dl=0:0000000000000000/0/0/0/0/x0/incomplete");
               st := worker_ended !st src
             | Some (ASpawnRecv (path, o, rep, clean)) when is_full_device path ->
               (* the file opens, the first flush fails: no ACK for the first window, the worker ends and cleans up *)
               if first <> None && String.length cont > 0 && cont.[0] = 'U' then begin
                 let content = spec_content (String.sub cont 1 (String.length cont - 1)) in
                 let nb = int_of_n (nblocks_of o.wo_blk content) in
                 ignore rep;
                 if content = [] then emit "ul=acked"
                 else if cfg.v_single then emit ("ul=error:" ^ hex_of_bytes (List.filteri (fun k _ -> k < 4) (encode (Error (EIllegalOperation, msg_invalid_request)))))
                 else emit (Printf.sprintf "ul=noack:%d" (min (int_of_n o.wo_ws) nb));
                 if content <> [] && clean then root := remove_file !root path
               end;
               st := worker_ended !st src
             | Some (ASpawnRecv (path, o, rep, clean)) ->
               let created = create_file !root path [] in
               (match created with
                | Some r0 ->
                  root := r0;
                  if first <> None && String.length cont > 0 && cont.[0] = 'U' then begin
                    let content = spec_content (String.sub cont 1 (String.length cont - 1)) in
                    let ((file, _), ph) = run_upload o rep clean content in
                    (match file with
                     | Some f -> (match create_file !root path f with Some r1 -> root := r1 | None -> ())
                     | None -> root := remove_file !root path);
                    emit (match ph with RDone OutOk -> "ul=acked" | _ -> "ul=noack:?")
                  end else if first <> None && (cont = "E" || cont = "F") then begin
                    if clean then root := remove_file !root path
                  end else if first <> None && cont = "-" then
                    abandoned := (c, path, clean) :: !abandoned
                | None ->
                  if first <> None && String.length cont > 0 && cont.[0] = 'U' then begin
                    let content = spec_content (String.sub cont 1 (String.length cont - 1)) in
                    let nb = int_of_n (nblocks_of o.wo_blk content) in
                    (* the worker ended when it could not create the file: in single-port mode the client's DATA is
                       routed to nobody and answered by the listener; a closed transfer socket stays silent *)
                    if cfg.v_single then emit ("ul=error:" ^ hex_of_bytes (List.filteri (fun k _ -> k < 4) (encode (Error (EIllegalOperation, msg_invalid_request)))))
                    else emit (Printf.sprintf "ul=noack:%d" (min (int_of_n o.wo_ws) nb))
                  end);
               if not (List.exists (fun (c', _, _) -> c' = c) !abandoned) then st := worker_ended !st src
             | _ ->
               (* refused or dropped: the continuation clients do nothing, but report *)
               if first <> None then begin
                 if cont = "D" then emit "dl=-"
                 else if String.length cont > 0 && cont.[0] = 'U' then emit "ul=-"
               end)
          end
        | Panic -> emit "LISTENER-PANIC"
        | Abort -> emit "PROCESS-ABORT"
        | Err _ -> emit "reply=none"
      end) (String.split_on_char ';' steps);
    emit ("tree=" ^ snapshot_tree !root);
    String.concat " " (List.rev !out)
  | _ -> failwith "bad srv case"

(* ---- SRV monitors: property-level checks on the implementation's trace ---- *)
let ends_with s p = String.length s >= String.length p && String.sub s (String.length s - String.length p) (String.length p) = p

(* split the flat token list of an srv result into per-step records *)
type steprec = { skind : char; sclient : int; sdg : n list; scont : string; sreply : string; sxfer : string }

let srv_steps (steps : string) (impl : string) : steprec list * string =
  let toks = ref (words impl) in
  let next () = match !toks with t :: r -> toks := r; t | [] -> "" in
  let peek () = match !toks with t :: _ -> t | [] -> "" in
  let holds = Hashtbl.create 3 in
  let recs = List.filter_map (fun step ->
    if step = "-" || step.[0] = 'w' || step.[0] = 'x' then None
    else if step.[0] = 'c' then begin
      (* the taken-up download is judged like a download of the request that was left waiting *)
      let c = Char.code step.[1] - 48 in
      let x = next () in
      match Hashtbl.find_opt holds c with
      | Some dg -> Some { skind = 'q'; sclient = c; sdg = dg; scont = "D"; sreply = "reply=held"; sxfer = x }
      | None -> None
    end else begin
      let fields = String.split_on_char ':' (String.sub step 3 (String.length step - 3)) in
      let dg = match fields with f :: _ -> if f = "-" then [] else bytes_of_hex f | [] -> [] in
      let cont = match fields with _ :: x :: _ -> x | _ -> "-" in
      let r = next () in
      let x = if List.exists (starts_with (peek ())) ["dl="; "ul="; "rt="; "early="; "ra="] then next () else "" in
      if cont = "H" then Hashtbl.replace holds (Char.code step.[1] - 48) dg;
      Some { skind = step.[0]; sclient = Char.code step.[1] - 48; sdg = dg; scont = cont; sreply = r; sxfer = x }
    end) (String.split_on_char ';' steps) in
  (recs, peek ())

let tree_entries (t : string) : (string * string) list =
  (* "tree=a=fp,b/,..." -> [(relpath, fp | "/")] *)
  let t = if starts_with t "tree=" then String.sub t 5 (String.length t - 5) else t in
  if t = "-" || t = "" then [] else
  List.map (fun e -> if ends_with e "/" then (string_of_bytes (bytes_of_hex (String.sub e 0 (String.length e - 1))), "/")
             else match String.index_opt e '=' with
               | Some i -> (string_of_bytes (bytes_of_hex (String.sub e 0 i)), String.sub e (i + 1) (String.length e - i - 1))
               | None -> (e, "?")) (String.split_on_char ',' t)

let under dir (p, _) = p = dir || starts_with p (dir ^ "/")

let reply_hex r = (* "reply=<hex>@L" -> (hex, origin) *)
  let r = if starts_with r "reply=" then String.sub r 6 (String.length r - 6) else r in
  match String.index_opt r '@' with Some i -> (String.sub r 0 i, String.sub r (i + 1) (String.length r - i - 1)) | None -> (r, "")

let is_refusal h = starts_with h "0005"

let mon_srv prop case impl =
  match words case with
  | [_; flags; dup; tree; steps] ->
    if impl = "<crash>" || impl = "<missing>" || impl = "" then "fail:no-result-(process-died?)" else begin
    let distinct = has_flag flags 'd' in
    let sdir_rel = if distinct then "snd" else "srv" and rdir_rel = if distinct then "rcv" else "srv" in
    let rootp = bytes_of_string "/R" in
    let sdir = rootp @ bytes_of_string ("/" ^ sdir_rel) and rdir = rootp @ bytes_of_string ("/" ^ rdir_rel) in
    let init = build_tree tree in
    let init_entries = tree_entries (snapshot_tree init) in
    let (recs, final_tok) = srv_steps steps impl in
    let final_entries = tree_entries final_tok in
    let rep = int_of_string dup + 1 in
    let fail = ref [] in
    let bad m = fail := m :: !fail in
    (* datagrams longer than the listener's smallest receive buffer may be cut before decoding: not judged *)
    let decoded r = if List.length r.sdg > 516 then None else match decode r.sdg with Ok p -> Some p | _ -> None in
    let uploads = List.filter_map (fun r -> if String.length r.scont > 1 && r.scont.[0] = 'U' then Some (fp_text (spec_content (String.sub r.scont 1 (String.length r.scont - 1)))) else None) recs in
    (* a completed (acknowledged) upload leaves exactly the uploaded bytes at its path *)
    let check_uploads () =
      let last_upload = Hashtbl.create 7 in
      let rel_of name = match kernel_segs (join rdir (convert_file_path name)) with
        | _ :: rel -> String.concat "/" (List.map string_of_bytes rel) | [] -> "" in
      (* names with an accepted upload that was left in flight: what happens to them later is C13's business (finding D6) *)
      let in_flight = List.filter_map (fun r -> match decoded r with
          | Some (Wrq (name, _, _)) when r.scont = "-" && r.sreply <> "reply=none" && not (is_refusal (fst (reply_hex r.sreply))) -> Some (rel_of name)
          | _ -> None) recs in
      List.iter (fun r ->
        match decoded r with
        | Some (Wrq (name, _, _)) when r.sxfer = "ul=acked" && not (List.mem (rel_of name) in_flight) ->
          let segs = kernel_segs (join rdir (convert_file_path name)) in
          (match segs with
           | _ :: rel -> Hashtbl.replace last_upload (String.concat "/" (List.map string_of_bytes rel))
                           (fp_text (spec_content (String.sub r.scont 1 (String.length r.scont - 1))))
           | [] -> ())
        | Some (Wrq (name, _, _)) when r.sreply <> "reply=none" && not (is_refusal (fst (reply_hex r.sreply))) ->
          (* a later upload of the same path was accepted and did not complete (aborted by its client, or failed):
             the path now belongs to that transfer (what it leaves behind is C13's subject), the earlier content is gone *)
          Hashtbl.remove last_upload (rel_of name)
        | _ -> ()) recs;
      Hashtbl.iter (fun rel f -> match List.assoc_opt rel final_entries with
        | Some g when g = f -> ()
        | _ -> bad "completed-upload-is-not-exactly-the-uploaded-content") last_upload;
      (* an upload the server accepted and that a loss-free conformant client drove to its end is acknowledged *)
      List.iter (fun r ->
        if starts_with r.sxfer "ul=noack" && not (has_flag flags 's') then ()
        else if starts_with r.sxfer "ul=error" then
          (match decoded r with
           | Some (Wrq (name, _, _)) ->
             let path = join rdir (convert_file_path name) in
             (* only a target that cannot be created (or written: the full device) explains an ERROR in the middle of an accepted upload *)
             (match create_file init path [] with
              | Some _ -> if not (is_full_device path) then bad "accepted-upload-aborted-by-the-server"
              | None -> ())
           | _ -> ())) recs in
    (* every accepted download yields its own file, also when the endpoint ran other transfers before *)
    let check_downloads () =
      List.iter (fun r ->
        match decoded r with
        | Some (Rrq (name, _, _)) ->
          if starts_with r.sxfer "dl=" && r.sxfer <> "dl=-" && not (starts_with r.sxfer "dl=error") then begin
            (match stat init (join sdir (convert_file_path name)) with
             | Some (NFile content) ->
               let body = String.sub r.sxfer 3 (String.length r.sxfer - 3) in
               let fpr = List.hd (String.split_on_char '/' body) in
               if fpr <> fp_text content || not (ends_with r.sxfer "/done") then
                 (if not (List.mem fpr uploads) then bad "transfer-of-a-reused-endpoint-does-not-yield-its-file")
             | _ -> ())
          end else if starts_with r.sxfer "dl=error" then bad "accepted-download-aborted-by-the-server"
        | _ -> ()) recs in
    (match prop with
     | "C03" ->
       (* nothing outside the receive directory changes; only send-directory files (or this run's uploads) are ever served *)
       let keep l = List.filter (fun e -> not (under rdir_rel e)) l in
       if keep init_entries <> keep final_entries then bad "filesystem-changed-outside-the-receive-directory";
       if List.mem_assoc rdir_rel init_entries && not (List.mem_assoc rdir_rel final_entries) then bad "the-receive-directory-itself-was-removed";
       let servable = "0:0000000000000000" :: uploads @ List.filter_map (fun (p, f) -> if under sdir_rel (p, f) && f <> "/" then Some f else None) init_entries in
       List.iter (fun r ->
         if starts_with r.sxfer "dl=" && r.sxfer <> "dl=-" && not (starts_with r.sxfer "dl=error") then begin
           let body = String.sub r.sxfer 3 (String.length r.sxfer - 3) in
           let fpr = List.hd (String.split_on_char '/' body) in
           if not (List.mem fpr servable) then bad "served-bytes-that-are-no-file-of-the-send-directory"
         end;
         (* a name that escapes lexically must be refused *)
         (match decoded r with
          | Some (Rrq (name, _, _)) ->
            if not (validate_file_path (join sdir (convert_file_path name)) sdir) && not (is_refusal (fst (reply_hex r.sreply))) && r.sreply <> "reply=none"
            then bad "escaping-read-not-refused"
          | Some (Wrq (name, _, _)) ->
            if not (validate_file_path (join rdir (convert_file_path name)) rdir) && not (is_refusal (fst (reply_hex r.sreply))) && r.sreply <> "reply=none"
            then bad "escaping-write-not-refused"
          | _ -> ())) recs
     | "C05" ->
       if List.exists (fun t -> t = "LISTENER-PANIC" || t = "PROCESS-ABORT") (words impl) then bad "listener-died";
       (match List.rev recs with
        | last :: _ when last.skind = 'q' ->
          let probe = fp_text (file_of_spec "P600:7") in
          let exp_mult = string_of_int rep in
          (match String.split_on_char '/' last.sxfer with
           | [f; _; _; _; m; _; d] when f = "dl=" ^ probe && d = "done" && m = exp_mult -> ()
           | _ -> bad "probe-request-not-served-after-the-history")
        | _ -> ());
       (* ... and goes on answering subsequent valid requests correctly, whoever sends them *)
       check_downloads ()
     | "C06" ->
       let ro = has_flag flags 'r' and over = has_flag flags 'o' in
       let touched = ref false in
       List.iteri (fun i r ->
         let (h, origin) = reply_hex r.sreply in
         if is_refusal h then begin
           if origin <> "L" then bad "refusal-not-from-the-listening-port";
           if r.sxfer <> "" && r.sxfer <> "dl=-" && r.sxfer <> "ul=-" then bad "transfer-after-refusal"
         end;
         (match decoded r with
          | Some (Wrq (name, _, _)) ->
            if ro then (if not (starts_with h "00050002") then bad "write-request-not-refused-with-error-2-in-read-only-mode")
            else begin
              let path = join rdir (convert_file_path name) in
              if not !touched && validate_file_path path rdir && not over then
                (match kind_of init path with
                 | FkMissing -> ()
                 | _ -> if not (starts_with h "00050006") then bad "existing-file-not-refused-with-error-6");
              if h <> "none" && not (is_refusal h) then touched := true
            end
          | Some (Rrq (name, _, _)) ->
            let path = join sdir (convert_file_path name) in
            if not !touched && validate_file_path path sdir then
              (match kind_of init path with
               | FkMissing -> if not (starts_with h "00050001") then bad "missing-file-not-refused-with-error-1"
               | _ -> ())
          | _ -> ());
         ignore i) recs;
       if ro && List.filter (under rdir_rel) init_entries <> List.filter (under rdir_rel) final_entries then bad "read-only-server-changed-the-disk";
       check_uploads ()
     | "C02" | "C14" ->
       check_uploads ()
     | "C99" ->
       let last_upload = Hashtbl.create 7 in
       List.iter (fun r ->
         match decoded r with
         | Some (Wrq (name, _, _)) when r.sxfer = "ul=acked" ->
           let segs = kernel_segs (join rdir (convert_file_path name)) in
           (match segs with
            | _ :: rel -> Hashtbl.replace last_upload (String.concat "/" (List.map string_of_bytes rel))
                            (fp_text (spec_content (String.sub r.scont 1 (String.length r.scont - 1))))
            | [] -> ())
         | _ -> ()) recs;
       Hashtbl.iter (fun rel f -> match List.assoc_opt rel final_entries with
         | Some g when g = f -> ()
         | _ -> bad "completed-upload-is-not-exactly-the-uploaded-content") last_upload
     | "C09" ->
       (* the transfer uses what was acknowledged: an accepted upload driven by a conformant client with exactly those values completes *)
       check_uploads ();
       List.iter (fun r ->
         match decoded r with
         | Some (Wrq (name, _, _)) when starts_with r.sxfer "ul=noack" && List.length r.sdg <= 516 ->
           let path = join rdir (convert_file_path name) in
           if validate_file_path path rdir && create_file init path [] <> None && not (is_full_device path)
              && not (List.exists (fun q -> q != r && (match decoded q with Some (Wrq (n2, _, _)) -> join rdir (convert_file_path n2) = path | _ -> false)) recs)
           then bad "accepted-upload-with-the-acknowledged-options-was-not-acknowledged-to-the-end"
         | _ -> ()) recs;
       List.iteri (fun i r ->
         let (h, _) = reply_hex r.sreply in
         match decoded r with
         | Some (Rrq (name, _, ros)) | Some (Wrq (name, _, ros)) ->
           let is_read = (match decoded r with Some (Rrq _) -> true | _ -> false) in
           let is_oack = starts_with h "0006" in
           if i = 0 && h = "none" && not (List.exists unhonourable ros) then begin
             if is_read then
               (let path = join sdir (convert_file_path name) in
                match (if validate_file_path path sdir then kind_of init path else FkMissing) with
                | FkFile _ -> bad "valid-request-with-honourable-options-not-answered"
                | _ -> ())
             else if not (has_flag flags 'r') then
               (let path = join rdir (convert_file_path name) in
                if validate_file_path path rdir then
                  match kind_of init path with
                  | FkMissing -> bad "valid-request-with-honourable-options-not-answered"
                  | _ -> ())
           end;
           if starts_with r.sxfer "rt=" then begin
             let want = List.fold_left (fun a o -> if o.o_type = OTimeout then dec_of_n o.o_val else a) "5" ros in
             if r.sxfer <> "rt=" ^ want then bad "retransmission-interval-differs-from-the-acknowledged-timeout"
           end;
           if is_oack && ros = [] then bad "oack-without-a-recognised-option";
           if is_oack && List.exists unhonourable ros then bad "unhonourable-value-acknowledged";
           if (starts_with h "0003" || starts_with h "0004") && ros <> [] then bad "recognised-options-not-acknowledged";
           if is_oack then begin
             match decode (bytes_of_hex h) with
             | Ok (Oack os') ->
               if List.map (fun o -> o.o_type) os' <> List.map (fun o -> o.o_type) ros then bad "oack-lists-other-options-than-requested"
               else List.iter2 (fun o o' ->
                 match o.o_type with
                 | OTSize ->
                   if is_read then begin
                     if i = 0 then (match kind_of init (join sdir (convert_file_path name)) with
                       | FkFile sz -> if o'.o_val <> sz then bad "tsize-is-not-the-file-size"
                       | _ -> ())
                   end else if o'.o_val <> o.o_val then bad "tsize-of-a-write-request-not-echoed"
                 | _ -> if o'.o_val <> o.o_val then bad "acknowledged-value-differs-from-the-requested-one") ros os';
               (* the transfer uses exactly the acknowledged values *)
               if starts_with r.sxfer "dl=" && ends_with r.sxfer "/done" then begin
                 let blk = int_of_n (List.fold_left (fun a o -> if o.o_type = OBlkSize then o.o_val else a) (n_of_int 512) os') in
                 let ws = int_of_n (List.fold_left (fun a o -> if o.o_type = OWindowSize then o.o_val else a) (n_of_int 1) os') in
                 (match String.split_on_char '/' (String.sub r.sxfer 3 (String.length r.sxfer - 3)) with
                  | [fpr; _; maxpay; fb; _; _; _] ->
                    let len = int_of_string (List.hd (String.split_on_char ':' fpr)) in
                    let nb = len / (max 1 blk) + 1 in
                    if int_of_string maxpay <> min blk len then bad "block-length-differs-from-the-acknowledged-blksize";
                    (* a conformant client ends at the first block shorter than the acknowledged length: that must be the file's end *)
                    (if i = 0 && is_read then match kind_of init (join sdir (convert_file_path name)) with
                       | FkFile sz when len < int_of_n sz -> bad "a-block-before-the-end-of-the-file-is-shorter-than-the-acknowledged-blksize"
                       | _ -> ());
                    if int_of_string fb <> (min ws nb - 1) * rep + 1 then bad "window-differs-from-the-acknowledged-windowsize"
                  | _ -> ())
               end
               else if starts_with r.sxfer "dl=" && ends_with r.sxfer "/incomplete" && i = 0 && is_read then begin
                 (* the download stalled: a first burst other than the acknowledged window (or the whole file) is the reason to name *)
                 let blk = int_of_n (List.fold_left (fun a o -> if o.o_type = OBlkSize then o.o_val else a) (n_of_int 512) os') in
                 let ws = int_of_n (List.fold_left (fun a o -> if o.o_type = OWindowSize then o.o_val else a) (n_of_int 1) os') in
                 match kind_of init (join sdir (convert_file_path name)), String.split_on_char '/' (String.sub r.sxfer 3 (String.length r.sxfer - 3)) with
                 | FkFile sz, [_; _; _; fb; _; _; _] ->
                   let nb = int_of_n sz / (max 1 blk) + 1 in
                   if int_of_string fb <> (min ws nb - 1) * rep + 1 then bad "window-differs-from-the-acknowledged-windowsize"
                 | _ -> ()
               end
             | _ -> bad "undecodable-oack"
           end else if starts_with h "0003" && starts_with r.sxfer "dl=" && ends_with r.sxfer "/done" then begin
             (* RFC 1350 defaults *)
             match String.split_on_char '/' (String.sub r.sxfer 3 (String.length r.sxfer - 3)) with
             | [fpr; _; maxpay; fb; _; _; _] ->
               let len = int_of_string (List.hd (String.split_on_char ':' fpr)) in
               if int_of_string maxpay <> min 512 len then bad "default-block-length-is-not-512";
               if int_of_string fb <> 1 then bad "default-transfer-is-not-lock-step"
             | _ -> ()
           end
         | _ -> ()) recs
     | "C12" ->
       check_downloads ();
       check_uploads ();
       (* a running upload keeps its file to itself: without --overwrite, a write request of another endpoint for the
          same path is refused while the first is in flight (accepted and left waiting by its client) *)
       if not (has_flag flags 'o') && not (has_flag flags 'r') then begin
         let rel_of name = match kernel_segs (join rdir (convert_file_path name)) with
           | _ :: rel -> String.concat "/" (List.map string_of_bytes rel) | [] -> "" in
         let accepted q = q.sreply <> "reply=none" && not (is_refusal (fst (reply_hex q.sreply))) in
         List.iteri (fun i r ->
           match decoded r with
           | Some (Wrq (name, _, _)) when accepted r && List.length r.sdg <= 516 ->
             let rel = rel_of name in
             if List.exists (fun (j, q) -> j < i && q.sclient <> r.sclient && q.scont = "-" && q.skind = 'q' && accepted q
                                            && (match decoded q with Some (Wrq (n2, _, _)) -> rel_of n2 = rel && validate_file_path (join rdir (convert_file_path n2)) rdir | _ -> false)
                                            && create_file init (join rdir (convert_file_path name)) [] <> None)
                  (List.mapi (fun j q -> (j, q)) recs)
             then bad "write-request-for-the-file-of-a-running-upload-accepted-from-another-endpoint"
           | _ -> ()) recs
       end;
       (* a well-formed non-request packet from an endpoint that owns no transfer (none started, or all of them over) is
          answered with an ERROR from the listening port *)
       List.iteri (fun i r ->
         if r.skind = 'g' then
           (match decoded r with
            | Some (Ack _) | Some (Data _) | Some (Error _) | Some (Oack _) ->
              let earlier = List.filteri (fun j _ -> j < i) recs in
              let is_request q = (match decoded q with Some (Rrq _) | Some (Wrq _) -> true | _ -> false) in
              let idle = List.for_all (fun q ->
                  q.sclient <> r.sclient || not (is_request q) || List.length q.sdg > 516
                  || q.sreply = "reply=none" || is_refusal (fst (reply_hex q.sreply))
                  || (q.skind = 'q' && (ends_with q.sxfer "/done" || q.sxfer = "ul=acked"))) earlier
                && List.for_all (fun q -> q.sclient <> r.sclient || List.length q.sdg <= 516) earlier in
              if idle && not (starts_with (fst (reply_hex r.sreply)) "00050004" && snd (reply_hex r.sreply) = "L")
              then bad "foreign-packet-to-the-listener-not-answered-with-error-4"
            | _ -> ())) recs
     | "C01" ->
       (* download fidelity at the server's level: what a conformant client reassembles is the file *)
       check_downloads ()
     | "C13" ->
       (* a write error fails the upload: nothing of it is acknowledged to the end *)
       List.iter (fun r -> match decoded r with
         | Some (Wrq (name, _, _)) when is_full_device (join rdir (convert_file_path name)) && r.sxfer = "ul=acked"
                                         && String.length r.scont > 1 && spec_content (String.sub r.scont 1 (String.length r.scont - 1)) <> [] ->
           bad "upload-acknowledged-to-the-end-although-every-write-failed"
         | _ -> ()) recs;
       let clean = not (has_flag flags 'k') in
       (* an accepted upload that the peer aborts with ERROR: removed (clean-on-error) or kept as a prefix (here: empty) *)
       let relpath name = match kernel_segs (join rdir (convert_file_path name)) with
         | _ :: rel -> String.concat "/" (List.map string_of_bytes rel) | [] -> "" in
       let nrecs = List.length recs in
       List.iteri (fun i r ->
         match decoded r with
         | Some (Wrq (name, _, _)) when (r.scont = "E" || r.scont = "F") && not (is_refusal (fst (reply_hex r.sreply))) && r.sreply <> "reply=none" ->
           let rel = relpath name in
           let later_same = List.exists (fun (j, r2) -> j > i && (match decoded r2 with Some (Wrq (n2, _, _)) -> relpath n2 = rel | _ -> false))
               (List.mapi (fun j x -> (j, x)) recs) in
           if not later_same && create_file init (join rdir (convert_file_path name)) [] <> None then begin
             match List.assoc_opt rel final_entries with
             | Some _ when clean -> bad "aborted-upload-not-removed"
             | Some f when f <> "0:0000000000000000" -> bad "kept-partial-file-is-not-a-prefix"
             | None when not clean -> bad "aborted-upload-removed-although-keep-on-error"
             | _ -> ()
           end
         | _ -> ()) recs;
       ignore nrecs;
       (* the most recently accepted upload of a name completed: the file holds exactly its content from then on *)
       let accepted_wrq = List.filter_map (fun (i, r) -> match decoded r with
           | Some (Wrq (name, _, _)) when not (is_refusal (fst (reply_hex r.sreply))) && r.sreply <> "reply=none" -> Some (i, relpath name, r)
           | _ -> None) (List.mapi (fun i x -> (i, x)) recs) in
       List.iter (fun (i, rel, r) ->
         if r.sxfer = "ul=acked" && not (List.exists (fun (j, rel2, _) -> j > i && rel2 = rel) accepted_wrq) then begin
           let want = fp_text (spec_content (String.sub r.scont 1 (String.length r.scont - 1))) in
           match List.assoc_opt rel final_entries with
           | Some f when f = want -> ()
           | _ ->
             (* known finding D6: an upload of the same name accepted earlier was still in flight and failed later *)
             if has_flag flags 'o' && List.exists (fun (j, rel2, r2) -> j < i && rel2 = rel && r2.sxfer <> "ul=acked" && r2.scont <> "E" && r2.scont <> "F") accepted_wrq
             then fail := "known:overlapping-uploads-same-path-overwrite-mode" :: !fail
             else bad "completed-upload-removed-or-altered"
         end) accepted_wrq
     | "C04" | "C07" | "C08" | "C15" ->
       (* the real-time histories of suite srv-rt *)
       let want_tmo r = match decoded r with
         | Some (Rrq (_, _, ros)) -> List.fold_left (fun a o -> if o.o_type = OTimeout then dec_of_n o.o_val else a) "5" ros
         | _ -> "5" in
       List.iter (fun r ->
         if starts_with r.sxfer "rt=" then begin
           if prop = "C04" && r.sxfer = "rt=none" then bad "no-retransmission-after-the-timeout";
           if prop = "C07" && r.sxfer = "rt=none" then bad "silent-peer-neither-retransmitted-to-nor-given-up-on";
           if prop = "C08" && r.sxfer <> "rt=none" && int_of_string (String.sub r.sxfer 3 (String.length r.sxfer - 3)) < int_of_string (want_tmo r)
           then bad "retransmission-before-the-negotiated-timeout"
         end;
         if prop = "C08" && r.sxfer = "early=1" then bad "repeated-ACK-brought-the-retransmission-forward";
         if prop = "C08" && starts_with r.sxfer "ra=" then begin
           match String.split_on_char '/' r.sxfer with
           | [_; regress; d] ->
             if regress <> "0" then bad "went-back-behind-acknowledged-blocks-on-a-stale-ACK";
             if d <> "done" then bad "transfer-with-ACKs-in-disorder-did-not-complete"
           | _ -> ()
         end) recs;
       if prop = "C07" then
         (* an accepted upload whose peer fell silent: given up after the retry limit (the case waits that long), its file removed or kept *)
         List.iter (fun r ->
           match decoded r with
           | Some (Wrq (name, _, _)) when r.scont = "-" && r.skind = 'q' && not (is_refusal (fst (reply_hex r.sreply))) && r.sreply <> "reply=none"
                                          && List.mem (Printf.sprintf "x%d" r.sclient) (String.split_on_char ';' steps) ->
             (match kernel_segs (join rdir (convert_file_path name)) with
              | _ :: rel ->
                let rel = String.concat "/" (List.map string_of_bytes rel) in
                (match List.assoc_opt rel final_entries with
                 | Some _ when not (has_flag flags 'k') -> bad "silent-peer-upload-not-given-up-after-the-retry-limit"
                 | None when has_flag flags 'k' -> bad "given-up-upload-removed-although-keep-on-error"
                 | _ -> ())
              | [] -> ())
           | _ -> ()) recs;
       if prop = "C15" then check_downloads ();
       if prop = "C04" || prop = "C07" then begin
         (* no fault at all is the least of the fault patterns: an accepted transfer with a conformant client completes and ends *)
         check_downloads ();
         check_uploads ()
       end
     | "C16" ->
       List.iter (fun r ->
         if starts_with r.sxfer "dl=" && ends_with r.sxfer "/done" then
           match String.split_on_char '/' (String.sub r.sxfer 3 (String.length r.sxfer - 3)) with
           | [_; _; _; _; m; x; _] ->
             if m <> string_of_int rep then bad "data-blocks-not-repeated-N+1-times";
             if x <> "x0" then bad "handshake-packet-repeated"
           | _ -> ()) recs
     | _ -> ());
    match List.filter (fun m -> not (starts_with m "known:")) !fail, !fail with
    | [], [] -> (if List.mem prop ["C01"; "C02"; "C03"; "C04"; "C05"; "C06"; "C07"; "C08"; "C09"; "C12"; "C13"; "C14"; "C15"; "C16"] then "pass" else "skip")
    | [], k :: _ -> k
    | m :: _, _ -> "fail:" ^ m
    end
  | _ -> "fail:unparsable"

(* ---- CONC: by the isolation argument every client's transfer is its own single-client transfer ---- *)
let run_conc toks =
  match toks with
  | [_; flags; dup; tree; clients; sched] ->
    let rootp = bytes_of_string "/R" in
    let distinct = has_flag flags 'd' in
    let sdir = rootp @ bytes_of_string (if distinct then "/snd" else "/srv") in
    let rdir = rootp @ bytes_of_string (if distinct then "/rcv" else "/srv") in
    let cfg = { v_single = has_flag flags 's'; v_ro = has_flag flags 'r'; v_over = has_flag flags 'o';
                v_clean = not (has_flag flags 'k'); v_dup = n_of_dec dup; v_sdir = sdir; v_rdir = rdir } in
    let root = ref (build_tree tree) in
    let st = ref lstate_init in
    let mem = n_of_dec "1000000000000" in
    let cl = Array.of_list (String.split_on_char ';' clients) in
    let results = Array.make (Array.length cl) "unfinished" in
    let started = Array.make (Array.length cl) false in
    (* rounds of the scripted client until its transfer is over: the request, then one per window *)
    let needed = Array.make (Array.length cl) 1 in
    let rounds = Array.make (Array.length cl) 0 in
    let windows o len = let b = int_of_n o.wo_blk and w = int_of_n o.wo_ws in let nb = len / b + 1 in (nb + w - 1) / w in
    let start i =
      rounds.(i) <- rounds.(i) + 1;
      if not started.(i) then begin
        started.(i) <- true;
        let f = String.split_on_char ':' cl.(i) in
        let upload = List.hd f = "U" in
        let dg = bytes_of_hex (List.nth f 1) in
        match listen_step cfg mem !root !st (n_of_int (i + 1)) dg with
        | Ok (st', acts) ->
          st := st';
          let err = List.find_map (function AReply (_, Error (c, _)) -> Some c | _ -> None) acts in
          (match err with
           | Some c -> results.(i) <- "error:" ^ hex_of_bytes (encode (Error (c, []))  |> fun b -> List.filteri (fun k _ -> k < 4) b)
           | None ->
             (match List.find_opt (function ASpawnSend _ | ASpawnRecv _ -> true | _ -> false) acts with
              | Some (ASpawnSend (path, o, rep, check)) ->
                (match stat !root path with
                 | Some (NFile content) ->
                   needed.(i) <- 1 + windows o (List.length content);
                   let (datas, ph) = run_download o rep check content in
                   let got = List.concat (List.filteri (fun k _ -> k mod (int_of_n rep) = 0) (List.map snd datas)) in
                   results.(i) <- (match ph with SDone OutOk -> "got:" ^ fp_text got | _ -> "stalled:" ^ fp_text got)
                 | _ -> results.(i) <- (if acts = [] || not (List.exists (function AReply _ -> true | _ -> false) acts) then "none" else "stalled:" ^ fp_text []))
              | Some (ASpawnRecv (path, o, rep, clean)) when upload ->
                let content = spec_content (List.nth f 2) in
                (match create_file !root path [] with
                 | Some r0 ->
                   root := r0;
                   needed.(i) <- 1 + windows o (List.length content);
                   let ((file, _), ph) = run_upload o rep clean content in
                   (match file with Some fl -> (match create_file !root path fl with Some r1 -> root := r1 | None -> ()) | None -> root := remove_file !root path);
                   results.(i) <- (match ph with RDone OutOk -> "acked" | _ -> "noack:?")
                 | None -> results.(i) <- "noack:?")
              | _ -> results.(i) <- "none"));
          st := worker_ended !st (n_of_int (i + 1))
        | _ -> results.(i) <- "LISTENER-DIED"
      end in
    let out = ref [] in
    if sched <> "-" then
      List.iter (fun t ->
        if t.[0] = 'c' then start (int_of_string (String.sub t 1 (String.length t - 1)))
        else if starts_with t "iL:" then
          (* a well-formed non-request packet from an endpoint that owns no transfer: ERROR 4 from the listener *)
          (match listen_step cfg mem !root !st (n_of_int 99) (bytes_of_hex (String.sub t 3 (String.length t - 3))) with
           | Ok (_, acts) ->
             out := (match List.find_map (function AReply (l, p) -> Some (l, p) | _ -> None) acts with
                 | Some (l, p) -> "iL=" ^ hex_of_bytes (List.filteri (fun k _ -> k < 4) (encode p)) ^ "@" ^ (if l then "L" else "E")
                 | None -> "iL=none") :: !out
           | _ -> out := "iL=LISTENER-DIED" :: !out)
        else if starts_with t "iT" then begin
          let i = int_of_string (String.sub t 2 (String.index t ':' - 2)) in
          if not started.(i) || results.(i) = "none" || starts_with results.(i) "error" then out := "iT=skipped" :: !out
          else if cfg.v_single then
            (* single-port: the datagram reaches the listener from a foreign source *)
            (match listen_step cfg mem !root !st (n_of_int 99) (bytes_of_hex (String.sub t (String.index t ':' + 1) (String.length t - String.index t ':' - 1))) with
             | Ok (_, acts) ->
               out := (match List.find_map (function AReply (l, p) -> Some (l, p) | _ -> None) acts with
                   | Some (l, p) -> "iT=" ^ hex_of_bytes (List.filteri (fun k _ -> k < 4) (encode p)) ^ "@" ^ (if l then "L" else "E")
                   | None -> "iT=none") :: !out
             | _ -> out := "iT=LISTENER-DIED" :: !out)
          else
            (* multi-port: the transfer socket is connected to its peer and the kernel drops other sources; once the
               transfer is over its port belongs to nobody (or to anybody): the harness sends nothing there *)
            out := (if results.(i) = "none" || starts_with results.(i) "error" || rounds.(i) >= needed.(i) then "iT=skipped" else "iT=none") :: !out
        end) (String.split_on_char ',' sched);
    Array.iteri (fun i _ -> start i) cl;
    let res = List.rev !out @ Array.to_list (Array.mapi (fun i r -> Printf.sprintf "c%d=%s" i r) results) in
    String.concat " " (res @ ["tree=" ^ snapshot_tree !root])
  | _ -> failwith "bad conc case"

let mon_conc prop case impl =
  match words case with
  | [_; flags; _; tree; clients; _] ->
    let distinct = has_flag flags 'd' in
    let rootp = bytes_of_string "/R" in
    let sdir = rootp @ bytes_of_string (if distinct then "/snd" else "/srv") in
    let init = build_tree tree in
    let toks = words impl in
    let final_entries = match List.find_opt (fun t -> starts_with t "tree=") toks with Some t -> tree_entries t | None -> [] in
    let cl = Array.of_list (String.split_on_char ';' clients) in
    let fails = ref [] in
    Array.iteri (fun i c ->
      let f = String.split_on_char ':' c in
      let res = match List.find_opt (fun t -> starts_with t (Printf.sprintf "c%d=" i)) toks with
        | Some t -> String.sub t (String.length (string_of_int i) + 2) (String.length t - String.length (string_of_int i) - 2) | None -> "missing" in
      if ends_with res "!origin" then fails := "datagram-from-an-unexpected-source-port" :: !fails;
      match decode (bytes_of_hex (List.nth f 1)) with
      | Ok (Rrq (name, _, _)) ->
        (match stat init (join sdir (convert_file_path name)) with
         | Some (NFile content) -> if res <> "got:" ^ fp_text content then fails := "download-is-not-its-own-file" :: !fails
         | _ -> ())
      | Ok (Wrq (name, _, _)) ->
        let want = fp_text (spec_content (List.nth f 2)) in
        let rdir = rootp @ bytes_of_string (if distinct then "/rcv" else "/srv") in
        (match kernel_segs (join rdir (convert_file_path name)) with
         | _ :: rel ->
           if res <> "acked" then fails := "upload-not-completed" :: !fails
           else if List.assoc_opt (String.concat "/" (List.map string_of_bytes rel)) final_entries <> Some want then fails := "uploaded-file-is-not-its-source" :: !fails
         | [] -> ())
      | _ -> ()) cl;
    List.iter (fun t ->
      if starts_with t "iL=" && t <> "iL=00050004@L" then fails := "foreign-packet-to-the-listener-not-answered-with-error-4" :: !fails;
      if starts_with t "iT=" && not (t = "iT=none" || t = "iT=skipped" || t = "iT=00050004@L") then fails := "foreign-packet-to-a-transfer-endpoint-answered" :: !fails) toks;
    (match !fails with [] -> "pass" | m :: _ -> "fail:" ^ m)
  | _ -> "fail:unparsable"

(* ---- CLI: bundled client against the server ---- *)
let run_cli toks =
  let go flags dup tree mode blk ws tmo arg spec =
    let rootp = bytes_of_string "/R" in
    let distinct = has_flag flags 'd' in
    let sdir = rootp @ bytes_of_string (if distinct then "/snd" else "/srv") in
    let rdir = rootp @ bytes_of_string (if distinct then "/rcv" else "/srv") in
    let cfg = { v_single = has_flag flags 's'; v_ro = has_flag flags 'r'; v_over = has_flag flags 'o';
                v_clean = not (has_flag flags 'k'); v_dup = n_of_dec dup; v_sdir = sdir; v_rdir = rdir } in
    let root = ref (build_tree tree) in
    let mem = n_of_dec "1000000000000" in
    let blk = n_of_dec blk and ws = n_of_dec ws and tmo = n_of_dec tmo in
    let errnum c = errcode_num c in
    let cli_entries = ref [] in
    let res =
      if mode = "d" then begin
        let fpath = convert_file_path (bytes_of_hex arg) in
        let rq = download_request fpath blk ws tmo in
        match listen_step cfg mem !root lstate_init (n_of_int 1) (encode rq) with
        | Ok (_, acts) ->
          (match List.find_map (function AReply (_, p) -> Some p | _ -> None) acts with
           | Some p ->
             (match on_first_reply_download p blk ws with
              | FrRefused c -> Printf.sprintf "err:server:%s" (match errnum c with 1 -> "1" | 2 -> "2" | 6 -> "6" | 4 -> "4" | _ -> "x")
              | FrUnexpected -> "err:other"
              | FrTransfer (b, w, _) ->
                (match download_target [] fpath with
                 | None -> "err:invalid-filename"
                 | Some tgt ->
                   (match List.find_opt (function ASpawnSend _ -> true | _ -> false) acts with
                    | Some (ASpawnSend (path, o, rep, check)) ->
                      (match stat !root path with
                       | Some (NFile content) ->
                         (* both sides use the acknowledged values; the exchange is the loss-free one *)
                         let ((file, _), _) = run_upload { wo_blk = b; wo_tsize = N0; wo_tmo_s = n_of_int 5; wo_ws = w } (n_of_int 1) true content in
                         ignore (o, rep, check);
                         (match file with Some f -> cli_entries := [(string_of_bytes tgt, fp_text f)] | None -> ());
                         "ok"
                       | _ -> cli_entries := [(string_of_bytes tgt, "DIRFAIL")]; "ok")
                    | _ -> "ok")))
           | None -> "HANG")
        | _ -> "LISTENER-DIED"
      end else begin
        let content = spec_content spec in
        let local = bytes_of_string "/c/" @ bytes_of_hex arg in
        match upload_request local blk ws tmo (n_of_int (List.length content)) with
        | None -> "err:invalid-filename"
        | Some rq ->
          (match listen_step cfg mem !root lstate_init (n_of_int 1) (encode rq) with
           | Ok (_, acts) ->
             (match List.find_map (function AReply (_, p) -> Some p | _ -> None) acts with
              | Some p ->
                (match on_first_reply_upload p blk ws with
                 | FrRefused c -> Printf.sprintf "err:server:%s" (match errnum c with 1 -> "1" | 2 -> "2" | 6 -> "6" | 4 -> "4" | _ -> "x")
                 | FrUnexpected -> "err:other"
                 | FrTransfer (_, _, _) ->
                   (match List.find_opt (function ASpawnRecv _ -> true | _ -> false) acts with
                    | Some (ASpawnRecv (path, o, rep, clean)) ->
                      (match create_file !root path [] with
                       | Some r0 ->
                         root := r0;
                         let ((file, _), _) = run_upload o rep clean content in
                         (match file with Some f -> (match create_file !root path f with Some r1 -> root := r1 | None -> ()) | None -> root := remove_file !root path)
                       | None -> ());
                      "ok"
                    | _ -> "ok"))
              | None -> "HANG")
           | _ -> "LISTENER-DIED")
      end in
    let cli = match !cli_entries with [] -> "-" | l -> String.concat "," (List.map (fun (p, f) -> hex_of_bytes (bytes_of_string p) ^ "=" ^ f) l) in
    Printf.sprintf "res=%s cli=%s srv=%s" res cli (snapshot_tree !root) in
  match toks with
  | [_; flags; dup; tree; "d"; blk; ws; tmo; arg] -> go flags dup tree "d" blk ws tmo arg "-"
  | [_; flags; dup; tree; "u"; blk; ws; tmo; arg; spec] -> go flags dup tree "u" blk ws tmo arg spec
  | _ -> failwith "bad cli case"

(* C14 on the implementation's result: byte-identical files at the specified places; a refusal creates no file *)
let mon_cli case impl =
  match words case, words impl with
  | (_ :: flags :: _ :: tree :: mode :: _ :: _ :: _ :: arg :: rest), [res; cli; srv] ->
    let distinct = has_flag flags 'd' in
    let rootp = bytes_of_string "/R" in
    let sdir = rootp @ bytes_of_string (if distinct then "/snd" else "/srv") in
    let rdir_rel = if distinct then "rcv" else "srv" in
    let init = build_tree tree in
    let cli_entries = tree_entries (String.sub cli 4 (String.length cli - 4)) in
    let srv_entries = tree_entries (String.sub srv 4 (String.length srv - 4)) in
    if starts_with res "res=err" then
      (if mode = "d" && cli_entries <> [] then "fail:refused-download-left-a-file" else "pass")
    else if mode = "d" then begin
      let fpath = convert_file_path (bytes_of_hex arg) in
      match stat init (join sdir fpath), file_name fpath with
      | Some (NFile content), Some base ->
        if List.assoc_opt (string_of_bytes base) cli_entries = Some (fp_text content) then "pass"
        else "fail:download-not-stored-byte-identical-under-its-basename"
      | _ -> "pass"
    end else begin
      match rest, file_name (bytes_of_string "/c/" @ bytes_of_hex arg) with
      | [spec], Some base ->
        let want = fp_text (spec_content spec) in
        let rel = rdir_rel ^ "/" ^ string_of_bytes base in
        (* accepted iff the target did not exist (or overwrite) and the server is writable *)
        let existed = List.mem_assoc rel (tree_entries (snapshot_tree init)) in
        if has_flag flags 'r' || (existed && not (has_flag flags 'o')) then "pass"
        else if List.assoc_opt rel srv_entries = Some want then "pass" else "fail:upload-not-stored-byte-identical-under-its-basename"
      | _ -> "pass"
    end
  | _ -> "fail:unparsable"

(* ---- BIN: the real binaries ---- *)
let run_bin toks =
  match toks with
  | [_; "start"; args] ->
    let argv = if args = "-" then [] else List.map (fun t -> if t = "_" then [] else bytes_of_hex t) (String.split_on_char ',' args) in
    (* "@D" names an existing directory, "@P" a free port; the only IP literals used are decided here *)
    let ex s = (string_of_bytes s = "@D") in
    let argv = List.map (fun a -> if string_of_bytes a = "@P" then bytes_of_string "4242" else a) argv in
    let pip s = (match string_of_bytes s with "127.0.0.1" | "0.0.0.0" | "::1" -> Some s | _ -> None) in
    (match parse_args ex pip (bytes_of_string "/cwd") (bytes_of_string "tftpd" :: argv) with
     | COk _ -> "running"
     | CErr _ -> "exit=1"
     | CHelp -> "exit=0")
  | [_; "rt"; _; tmo] -> "rt=" ^ tmo
  | [_; "early"; _; _; ws] -> Printf.sprintf "first=%s early=0" ws   (* 5000 bytes: the first window is full *)
  | [_; "quiet"; flags; _] -> Printf.sprintf "created=1 gone=%d" (if String.contains flags 'k' then 0 else 1)
  | [_; "slow"; _; _; _] -> "complete=1 after=0"
  | [_; "dup"; n; ws; _] ->
    (* C16: exactly N+1 copies of every block, nothing retransmitted on a loss-free link, content intact *)
    let n = int_of_string n and ws = int_of_string ws in
    Printf.sprintf "copies=%d..%d blocks=%d same=1" (n + 1) (n + 1) (2 * ws + 1)
  | [_; "dirs"; opts] ->
    (* the configuration the real argv yields (Coq model of Config::new), then: reads are served from the send directory
       only, an upload lands in the receive directory *)
    let b = bytes_of_string in
    let argv = List.concat_map (function
        | "d" -> [b "-d"; b "/S"] | "rd" -> [b "-rd"; b "/R"] | "sd" -> [b "-sd"; b "/N"] | _ -> []) (String.split_on_char ',' opts) in
    let ex s = List.mem (string_of_bytes s) ["/S"; "/R"; "/N"] in
    let pip s = (match string_of_bytes s with "127.0.0.1" -> Some s | _ -> None) in
    (match parse_args ex pip (b "/S") ([b "tftpd"; b "-i"; b "127.0.0.1"; b "-p"; b "4242"] @ argv) with
     | COk c ->
       let served d = if string_of_bytes c.c_sdir = d then "D" else "E1" in
       let up = (match string_of_bytes c.c_rdir with "/S" -> "srv" | "/R" -> "rcv" | "/N" -> "snd" | _ -> "?") in
       Printf.sprintf "S:%s,R:%s,N:%s up=%s" (served "/S") (served "/R") (served "/N") up
     | _ -> "config-rejected")
  | [_; "xfer"; _; _; _; _; _; _] -> "res=0 same=1"   (* C14: interop theorems - every valid choice completes byte-identically *)
  | _ -> failwith "bad bin case"

(* ---- CFG ---- *)
let untok t = if t = "_" then [] else bytes_of_hex t
let tok b = match b with [] -> "_" | _ -> hex_of_bytes b
let cfg_oracles e i =
  let ex = if e = "-" then [] else List.map untok (String.split_on_char ',' e) in
  let ips = if i = "-" then [] else List.map (fun t -> match String.split_on_char '=' t with
      | [a; c] -> (untok a, untok c) | _ -> failwith "bad ip oracle") (String.split_on_char ';' i) in
  ((fun s -> List.mem s ex), (fun s -> List.assoc_opt s ips))
let cerr_text = function
  | CMissing -> "missing" | CBadIp -> "badip" | CBadPort -> "badnum" | CNoDir -> "nodir" | CBadDup -> "badnum"
  | CDupMax -> "dupmax" | CInvalidFlag -> "invalidflag" | CBadBlk -> "badnum" | CBadWs -> "badnum" | CBadTimeout -> "badnum"
let b01 b = if b then "1" else "0"
let run_cfg toks =
  match toks with
  | [_; cwd; e; i; args] ->
    let cwd = untok cwd in
    let (ex, pip) = cfg_oracles e i in
    let argv = if args = "-" then [] else List.map untok (String.split_on_char ',' args) in
    let dir d = if d = cwd && d <> [] then "CWD" else tok d in
    (match parse_args ex pip cwd argv with
     | COk c -> Printf.sprintf "ok ip=%s port=%s dir=%s rdir=%s sdir=%s single=%s ro=%s dup=%s over=%s clean=%s"
                  (tok c.c_ip) (dec_of_n c.c_port) (dir c.c_dir) (dir c.c_rdir) (dir c.c_sdir)
                  (b01 c.c_single) (b01 c.c_ro) (dec_of_n c.c_dup) (b01 c.c_over) (b01 c.c_clean)
     | CErr k -> "err " ^ cerr_text k
     | CHelp -> "help")
  | _ -> failwith "bad cfg case"
let run_ccfg_ref : (string list -> string) ref = ref (fun _ -> "unset")
let run_ccfg_fwd toks = !run_ccfg_ref toks

let run_cfgperm toks =
  match toks with
  | [_; cwd; e; i; groups; perms] ->
    let gs = if groups = "-" then [||] else Array.of_list (String.split_on_char '|' groups) in
    String.concat " | " (List.map (fun perm ->
      let parts = "tftpd" :: (if perm = "-" then [] else List.map (fun k -> gs.(int_of_string k)) (String.split_on_char '.' perm)) in
      let args = String.concat "," (List.map (fun t -> if t = "tftpd" then hex_of_bytes (bytes_of_string "tftpd") else t) parts) in
      run_cfg ["cfg"; cwd; e; i; args]) (String.split_on_char ';' perms))
  | _ -> failwith "bad cfgperm case"

let run_ccfgperm toks =
  match toks with
  | [_; cwd; e; i; groups; perms] ->
    let gs = if groups = "-" then [||] else Array.of_list (String.split_on_char '|' groups) in
    String.concat " | " (List.map (fun perm ->
      let parts = if perm = "-" then [] else List.map (fun k -> gs.(int_of_string k)) (String.split_on_char '.' perm) in
      let args = match parts with [] -> "-" | _ -> String.concat "," parts in
      run_ccfg_fwd ["ccfg"; cwd; e; i; args]) (String.split_on_char ';' perms))
  | _ -> failwith "bad ccfgperm case"

(* C17 on implementation results: all orders give the same configuration, or all fail *)
let mon_cfgperm impl =
  let rs = List.map String.trim (String.split_on_char '|' impl) in
  match rs with
  | [] -> "fail:empty"
  | r0 :: rest ->
    let is_err r = String.length r >= 3 && String.sub r 0 3 = "err" in
    if is_err r0 then (if List.for_all is_err rest then "pass" else "fail:error-depends-on-order")
    else if List.for_all (fun r -> r = r0) rest then "pass" else "fail:configuration-depends-on-order"

let mon_cfg_dup case impl =
  (* every accepted vector satisfies the duplicate-packets bound, in every order that was run *)
  let accepted r = String.length (String.trim r) >= 2 && String.sub (String.trim r) 0 2 = "ok" in
  match words case with
  | ["cfg"; _; _; _; args] ->
    let argv = if args = "-" then [] else List.map untok (String.split_on_char ',' args) in
    if accepted impl && not (okDupArgs argv) then "fail:duplicate-packets>=255-accepted" else "pass"
  | ["cfgperm"; _; _; _; groups; _] ->
    let argv = if groups = "-" then [] else List.concat_map (fun g -> List.map untok (String.split_on_char ',' g)) (String.split_on_char '|' groups) in
    if List.exists accepted (String.split_on_char '|' impl) && not (okDupArgs argv) then "fail:duplicate-packets>=255-accepted" else "pass"
  | _ -> "skip"

(* C17: the receive / send directories fall back to -d exactly when not given explicitly *)
(* C17: a numeric option whose value is no number makes the parse fail *)
let mon_cfg_numeric (flags : string list) (argv : n list list) (res : string) : string =
  let numeric v = v <> "" && (let ok = ref true in String.iteri (fun i c -> if not ((c >= '0' && c <= '9') || (i = 0 && c = '+')) then ok := false) v; !ok) && v <> "+" in
  let rec bad = function
    | a :: v :: r -> (List.mem (string_of_bytes a) flags && not (numeric (string_of_bytes v))) || bad (v :: r)
    | _ -> false in
  if starts_with res "ok" && bad argv then "fail:a-value-that-is-no-number-was-accepted-for-a-numeric-option" else "pass"

let mon_cfg_fallback (cwd : string) (argv : n list list) (res : string) : string =
  let has names = List.exists (fun a -> List.mem (string_of_bytes a) names) argv in
  let last names = List.fold_left (fun (acc, prev) a -> ((match prev with Some p when List.mem p names -> Some (string_of_bytes a) | _ -> acc), Some (string_of_bytes a))) (None, None) argv |> fst in
  let shown v = if v = cwd && v <> "" then "CWD" else tok (bytes_of_string v) in
  if not (starts_with res "ok") then "pass" else begin
    let field k = List.find_map (fun t -> if starts_with t (k ^ "=") then Some (String.sub t (String.length k + 1) (String.length t - String.length k - 1)) else None) (words res) in
    match field "dir", field "rdir", field "sdir" with
    | Some d, Some r, Some sd ->
      if not (has ["-rd"; "--receive-directory"]) && r <> d then "fail:receive-directory-does-not-fall-back-to-the-directory"
      else if not (has ["-sd"; "--send-directory"]) && sd <> d then "fail:send-directory-does-not-fall-back-to-the-directory"
      else if (match last ["-rd"; "--receive-directory"] with Some v -> shown v <> r | None -> false) then "fail:explicit-receive-directory-not-kept"
      else if (match last ["-sd"; "--send-directory"] with Some v -> shown v <> sd | None -> false) then "fail:explicit-send-directory-not-kept"
      else "pass"
    | _ -> "pass"
  end

(* C17: an address that does not parse makes the parse fail; [ips]: the case's oracle field (tokens that are IP addresses) *)
let mon_cfg_ip (ips : string) (argv : n list list) (res : string) : string =
  let known = if ips = "-" then [] else List.filter_map (fun it -> match String.index_opt it '=' with Some k -> Some (String.sub it 0 k) | None -> None) (String.split_on_char ';' ips) in
  let rec bad = function
    | a :: v :: r -> (List.mem (string_of_bytes a) ["-i"; "--ip-address"] && not (List.mem (tok v) known)) || bad (v :: r)
    | _ -> false in
  if starts_with res "ok" && bad argv then "fail:an-unparsable-address-was-accepted" else "pass"

(* C17: a directory that does not exist makes the parse fail; [ex]: the case's oracle field (tokens for which Path::exists holds) *)
let mon_cfg_exists (flags : string list) (ex : string) (argv : n list list) (res : string) : string =
  let known = if ex = "-" then [] else String.split_on_char ',' ex in
  let rec bad = function
    | a :: v :: r -> (List.mem (string_of_bytes a) flags && not (List.mem (tok v) known)) || bad (v :: r)
    | _ -> false in
  if starts_with res "ok" && bad argv then "fail:a-directory-that-does-not-exist-was-accepted" else "pass"

(* C17: a 16-bit setting takes no value beyond 65535 *)
let mon_cfg_u16 (flags : string list) (argv : n list list) (res : string) : string =
  let big v = (let v = if String.length v > 0 && v.[0] = '+' then String.sub v 1 (String.length v - 1) else v in
               let v = (let i = ref 0 in while !i < String.length v - 1 && v.[!i] = '0' do incr i done; String.sub v !i (String.length v - !i)) in
               String.length v > 5 || (String.length v = 5 && v > "65535")) in
  let rec bad = function
    | a :: v :: r -> (List.mem (string_of_bytes a) flags && big (string_of_bytes v)) || bad (v :: r)
    | _ -> false in
  if starts_with res "ok" && bad argv then "fail:a-value-beyond-65535-was-accepted-for-a-16-bit-setting" else "pass"

(* C17 (client): the direction is that of the last -u / -d *)
let mon_ccfg_mode (argv : n list list) (res : string) : string =
  let valued = ["-i"; "--ip-address"; "-p"; "--port"; "-b"; "--blocksize"; "-w"; "--windowsize"; "-t"; "--timeout"; "-rd"; "--receive-directory"] in
  let rec scan mode = function
    | a :: r ->
      let a' = string_of_bytes a in
      if List.mem a' valued then (match r with _ :: r' -> scan mode r' | [] -> mode)
      else if a' = "-u" || a' = "--upload" then scan (Some true) r
      else if a' = "-d" || a' = "--download" then scan (Some false) r
      else scan mode r
    | [] -> mode in
  if not (starts_with res "ok") then "pass" else
  match scan None argv, List.find_opt (fun t -> starts_with t "up=") (words res) with
  | Some m, Some t -> if t = "up=" ^ (if m then "1" else "0") then "pass" else "fail:direction-is-not-that-of-the-last-mode-flag"
  | _ -> "pass"

let run_ccfg toks =
  match toks with
  | [_; _; e; i; args] ->
    let (ex, pip) = cfg_oracles e i in
    let argv = if args = "-" then [] else List.map untok (String.split_on_char ',' args) in
    (match parse_client_args ex pip argv with
     | COk c -> Printf.sprintf "ok ip=%s port=%s blk=%s ws=%s tmo=%s up=%s rdir=%s file=%s clean=%s"
                  (tok c.k_ip) (dec_of_n c.k_port) (dec_of_n c.k_blk) (dec_of_n c.k_ws) (dec_of_n c.k_tmo)
                  (b01 c.k_upload) (tok c.k_rdir) (tok c.k_file) (b01 c.k_clean)
     | CErr k -> "err " ^ cerr_text k
     | CHelp -> "help")
  | _ -> failwith "bad ccfg case"

(* ---- CODEC ---- *)
let run_dec toks =
  match toks with
  | [_; h] -> (match decode (bytes_of_hex h) with
               | Ok p -> let st = (match decode (encode p) with Ok q when q = p -> "st" | _ -> "unst") in
                         "ok " ^ packet_text p ^ " " ^ st
               | Err _ -> "err"
               | Panic -> "panic"
               | Abort -> "abort")
  | _ -> failwith "bad dec case"

let run_enc toks =
  match toks with
  | _ :: rest -> let p = packet_of_toks rest in
    let b = encode p in
    (* round trip inside the model as well *)
    let rt = match decode b with Ok q when q = p -> "rt" | Ok _ -> "rt-differs" | _ -> "rt-fails" in
    hex_or_dash b ^ " " ^ rt
  | _ -> failwith "bad enc case"

let run_opc toks = match toks with
  | [_; v] -> (match opcode_of_u16 (n_of_dec v) with
               | Some o -> "ok " ^ hex_of_bytes (u16_be (u16_of_opcode o)) | None -> "err")
  | _ -> failwith "bad opc case"
let run_erc toks = match toks with
  | [_; v] -> (match errcode_of_u16 (n_of_dec v) with
               | Some o -> "ok " ^ hex_of_bytes (u16_be (u16_of_errcode o)) | None -> "err")
  | _ -> failwith "bad erc case"
let run_optname toks = match toks with
  | [_; h] -> (match opt_of_name (bytes_of_hex h) with
               | Some o -> Printf.sprintf "ok %s %s" (opt_letter o) (hex_of_bytes (opt_name o)) | None -> "err")
  | _ -> failwith "bad optname case"

let utf8_of_scalar (c : int) : n list =
  let b = byte_tbl in
  if c < 0x80 then [b.(c)]
  else if c < 0x800 then [b.(0xc0 lor (c lsr 6)); b.(0x80 lor (c land 0x3f))]
  else if c < 0x10000 then [b.(0xe0 lor (c lsr 12)); b.(0x80 lor ((c lsr 6) land 0x3f)); b.(0x80 lor (c land 0x3f))]
  else [b.(0xf0 lor (c lsr 18)); b.(0x80 lor ((c lsr 12) land 0x3f)); b.(0x80 lor ((c lsr 6) land 0x3f)); b.(0x80 lor (c land 0x3f))]

let run_lowersweep toks = match toks with
  | [_; lo; hi] ->
    let lo = int_of_string lo and hi = int_of_string hi in
    let out = ref [] in
    for c = lo to hi do
      if c <= 0x10ffff && not (c >= 0xd800 && c <= 0xdfff) then begin
        let enc = utf8_of_scalar c in
        if not (utf8_valid enc) then out := Printf.sprintf "%x:INVALID" c :: !out
        else begin
          let l = lower enc in
          if List.for_all (fun x -> int_of_n x < 128) l then
            out := Printf.sprintf "%x:%s" c (hex_of_bytes l) :: !out end end
    done;
    (match !out with [] -> "-" | l -> String.concat "," (List.rev l))
  | _ -> failwith "bad lowersweep case"

(* ---- monitors on implementation traces: mon <TAB> prop <TAB> case <TAB> impl ---- *)
let verdict b = if b then "pass" else "fail"

let rec drop_last = function [] -> [] | [_] -> [] | x :: r -> x :: drop_last r
let rec last = function [] -> "" | [x] -> x | _ :: r -> last r

let mon_dec case impl =
  match words case, words impl with
  | [_; h], ["err"] -> verdict (okC10 (bytes_of_hex h) DRejected)
  | [_; h], ["panic"] -> verdict (okC10 (bytes_of_hex h) DPanicked)
  | [_; h], ("ok" :: rest) ->
    let st = last rest in
    let p = packet_of_toks (drop_last rest) in
    verdict (okC10 (bytes_of_hex h) (DAccepted (p, st = "st")))
  | _ -> "fail:unparsable"

let mon_c11 case impl =
  match words case, words impl with
  | ("enc" :: pt), [h; rt] -> verdict (okC11_enc (packet_of_toks pt) (bytes_of_hex h) (rt = "rt"))
  | ("enc" :: _), _ -> "fail:encoder-panicked-or-unparsable"
  | ["opc"; v], ["ok"; h] -> verdict (okC11_conv (n_of_int 1) (n_of_int 6) (n_of_dec v) (Some (bytes_of_hex h)))
  | ["opc"; v], ["err"] -> verdict (okC11_conv (n_of_int 1) (n_of_int 6) (n_of_dec v) None)
  | ["erc"; v], ["ok"; h] -> verdict (okC11_conv (n_of_int 0) (n_of_int 7) (n_of_dec v) (Some (bytes_of_hex h)))
  | ["erc"; v], ["err"] -> verdict (okC11_conv (n_of_int 0) (n_of_int 7) (n_of_dec v) None)
  | ("dec" :: _), _ -> (match mon_dec case impl with "pass" -> "pass" | v -> v)
  | _ -> "skip"

(* ---- worker traces ---- *)
let n_of_hex (s : string) : n =
  (* 16 hex digits -> N, through two 32-bit halves *)
  let v = ref N0 in
  String.iter (fun c -> v := N.add (N.mul !v (n_of_int 16)) (n_of_int (hexval c))) s; !v

let parse_snap (s : string) : (n * n) option =
  if s = "absent" then Some (N0, N0) else
  match String.split_on_char ':' s with
  | [l; h] -> Some (n_of_dec l, n_of_hex h)
  | _ -> failwith "bad snapshot"

let tend_of = function
  | "ok" -> EndOk | "timeout" -> EndTimeout | "peer" -> EndPeer | "sendfail" -> EndSendFail
  | "runaway" -> EndRunaway | _ -> EndOther

(* trace tokens: s<hex>[@len:hash][!] | r | file=.. | end=.. *)
let parse_trace (impl : string) : titem list * string * string =
  let items = ref [] and ending = ref "none" and file = ref "" in
  List.iter (fun t ->
    if t = "r" then items := TRecv :: !items
    else if String.length t > 4 && String.sub t 0 4 = "end=" then ending := String.sub t 4 (String.length t - 4)
    else if String.length t > 5 && String.sub t 0 5 = "file=" then file := String.sub t 5 (String.length t - 5)
    else if t.[0] = 's' then begin
      let failed = t.[String.length t - 1] = '!' in
      let body = String.sub t 1 (String.length t - 1 - (if failed then 1 else 0)) in
      let (h, snap) = match String.index_opt body '@' with
        | Some i -> (String.sub body 0 i, parse_snap (String.sub body (i + 1) (String.length body - i - 1)))
        | None -> (body, None) in
      items := TSend (bytes_of_hex h, failed, snap) :: !items end
    else failwith ("bad trace token " ^ t)) (words impl);
  (List.rev !items, !ending, !file)

let rec take n l = if n = 0 then [] else match l with [] -> [] | x :: r -> x :: take (n - 1) r

let mevs_of (evs : ev list) (cut : int option) : mev list =
  List.map (function
    | EvDgram (d, raw) -> { m_delay = d; m_raw = Some (match cut with Some c -> take c raw | None -> raw) }
    | EvFail d -> { m_delay = d; m_raw = None }) evs

let fbyte_of_spec (s : string) : (n -> n) * int =
  match s.[0] with
  | 'P' -> (match String.split_on_char ':' (String.sub s 1 (String.length s - 1)) with
            | [l; sd] -> let seed = int_of_string sd in
              ((fun i -> let i = int_of_n i in byte_tbl.((seed + i * 31 + (i / 256) * 7) mod 256)), int_of_string l)
            | _ -> failwith "bad P spec")
  | 'H' -> let a = Array.of_list (bytes_of_hex (String.sub s 1 (String.length s - 1))) in
    ((fun i -> let i = int_of_n i in if i < Array.length a then a.(i) else N0), Array.length a)
  | _ -> failwith "bad file spec"

let mon_send prop case impl =
  match words case with
  | [_; blk; ws; tmo; rep; check; fspec; _; evs] ->
    let (items, ending, _) = parse_trace impl in
    let (fbyte, size) = fbyte_of_spec fspec in
    let v = okSend (n_of_dec blk) (n_of_dec ws) (n_of_dec tmo) (n_of_dec rep) (n_of_int size) fbyte
              (check = "1") (mevs_of (parse_events evs) (Some 516)) items (tend_of ending) in
    let long = size / (int_of_string blk) >= 65000 in
    (match prop with
     | "C01" -> verdict v.v_c01
     | "C07" -> verdict v.v_c07
     | "C08" -> verdict v.v_c08
     | "C16" -> verdict (v.v_c16 && (rep = "1" || (v.v_c08 && v.v_c07 && v.v_c01)))
     | "C15" -> if long then verdict (v.v_c01 && v.v_c07 && v.v_c08) else "skip"
     | "C04" -> verdict v.v_c04
     | _ -> "skip")
  | _ -> "fail:unparsable"

let mon_recv prop case impl =
  match words case with
  | [_; blk; ws; tmo; rep; clean; _; evs] ->
    let (items, ending, file) = parse_trace impl in
    let final = if file = "absent" || file = "" then None else parse_snap file in
    let evl = parse_events evs in
    let v = okRecv (n_of_dec blk) (n_of_dec ws) (n_of_dec rep) (clean.[0] = '1') (n_of_dec tmo)
              (mevs_of evl None) items (tend_of ending) final in
    let long = List.length evl >= 65000 in
    (match prop with
     | "C02" -> verdict v.u_c02
     | "C07" -> verdict v.u_c07
     | "C08" -> verdict v.u_c08
     | "C16" -> verdict (v.u_c16 && (rep = "1" || (v.u_c02 && v.u_c07 && v.u_c08)))
     | "C13" -> verdict v.u_c13
     | "C04" -> verdict v.u_c04
     | "C15" -> if long then verdict (v.u_c02 && v.u_c07 && v.u_c08 && v.u_c04) else "skip"
     | _ -> "skip")
  | _ -> "fail:unparsable"

let run_mon (line : string) : string =
  match String.split_on_char '\t' line with
  | [_; prop; case; impl] ->
    (match prop with
     | "C10" -> (match words case with "dec" :: _ -> mon_dec case impl | _ -> "skip")
     | "C11" -> mon_c11 case impl
     | _ -> (match words case with
             | "send" :: _ -> mon_send prop case impl
             | "recv" :: _ -> mon_recv prop case impl
             | "srv" :: _ -> mon_srv prop case impl
             | "cli" :: _ -> if prop = "C14" then mon_cli case impl else "skip"
             | ["bin"; "start"; args] ->
               (* a start-up with --duplicate-packets N, N >= 255 or not a u8, must be rejected *)
               if prop = "C16" || prop = "C17" then begin
                 let argv = if args = "-" then [] else List.map (fun t -> if t = "_" then [] else bytes_of_hex t) (String.split_on_char ',' args) in
                 if impl = "running" && not (okDupArgs argv) then "fail:duplicate-packets>=255-accepted-at-start-up" else "pass"
               end else "skip"
             | ["bin"; "dup"; n; ws; _] ->
               if prop = "C16" || prop = "C08" then
                 (if impl = Printf.sprintf "copies=%d..%d blocks=%d same=1" (int_of_string n + 1) (int_of_string n + 1) (2 * int_of_string ws + 1) then "pass"
                  else "fail:data-blocks-not-emitted-exactly-N+1-times-in-real-time") else "skip"
             | ["bin"; "rt"; _; tmo] ->
               if prop = "C09" then (if impl = "rt=" ^ tmo then "pass" else "fail:retransmission-interval-differs-from-the-acknowledged-timeout")
               else if prop = "C04" then (if starts_with impl "rt=" && impl <> "rt=none" then "pass" else "fail:no-retransmission-after-the-timeout")
               else if prop = "C07" then (if starts_with impl "rt=" && impl <> "rt=none" then "pass" else "fail:silent-peer-neither-retransmitted-to-nor-given-up-on")
               else if prop = "C08" then
                 (if starts_with impl "rt=" && impl <> "rt=none" && int_of_string (String.sub impl 3 (String.length impl - 3)) < int_of_string tmo
                  then "fail:retransmission-before-the-negotiated-timeout" else "pass")
               else "skip"
             | ["bin"; "early"; _; _; ws] ->
               if prop = "C08" then (if impl = Printf.sprintf "first=%s early=0" ws then "pass" else "fail:repeated-ACK-brought-the-retransmission-forward-(or-window-size-not-kept)")
               else "skip"
             | ["bin"; "slow"; _; _; _] ->
               if prop = "C08" then (if impl = "complete=1 after=0" then "pass" else "fail:repeated-ACK-right-after-a-slowly-sent-window-brought-a-retransmission") else "skip"
             | ["bin"; "quiet"; flags; _] ->
               if prop = "C07" || prop = "C13" then
                 (if impl = run_bin (words case) then "pass"
                  else if String.contains flags 'k' then "fail:given-up-upload-removed-although-keep-on-error"
                  else "fail:silent-peer-upload-not-given-up-after-the-retry-limit")
               else "skip"
             | ["bin"; "dirs"; _] ->
               if prop = "C03" || prop = "C17" then
                 (if impl = run_bin (words case) then "pass"
                  else if prop = "C03" then "fail:reads-or-writes-go-to-a-directory-other-than-the-configured-one"
                  else "fail:directory-options-do-not-configure-the-served-directories")
               else "skip"
             | "bin" :: "xfer" :: _ -> if prop = "C14" then (if impl = "res=0 same=1" then "pass" else "fail:binaries-do-not-interoperate-byte-exactly") else "skip"
             | "conc" :: _ -> if List.mem prop ["C12"; "C05"; "C09"; "C01"; "C02"; "C14"] then mon_conc prop case impl else "skip"
             | "pair" :: _ -> if prop = "C04" || prop = "C14" || prop = "C16" then mon_pair prop case impl else "skip"
             | ["cfgperm"; cwd; _; _; groups; _] when prop = "C17" ->
               (match mon_cfgperm impl with
                | "pass" ->
                  (match mon_cfg_dup case impl with
                   | "pass" ->
                     let argv = if groups = "-" then [] else List.concat_map (fun g -> List.map untok (String.split_on_char ',' g)) (String.split_on_char '|' groups) in
                     List.fold_left (fun acc r -> if acc <> "pass" then acc else mon_cfg_fallback (string_of_bytes (untok cwd)) argv (String.trim r)) "pass" (String.split_on_char '|' impl)
                   | v -> v)
                | v -> v)
             | "cfgperm" :: _ -> if prop = "C17" then (match mon_cfgperm impl with "pass" -> mon_cfg_dup case impl | v -> v)
                                 else if prop = "C16" then mon_cfg_dup case impl else "skip"
             | ["cfg"; cwd; ex; ips; args] ->
               if prop = "C17" then
                 (let argv = if args = "-" then [] else List.map untok (String.split_on_char ',' args) in
                  match mon_cfg_dup case impl with
                  | "pass" -> (match mon_cfg_fallback (string_of_bytes (untok cwd)) argv impl with
                      | "pass" -> (match mon_cfg_numeric ["-p"; "--port"; "--duplicate-packets"] argv impl with
                          | "pass" -> (match mon_cfg_ip ips argv impl with
                              | "pass" -> (match mon_cfg_exists ["-d"; "--directory"; "-rd"; "--receive-directory"; "-sd"; "--send-directory"] ex argv impl with
                                  | "pass" -> mon_cfg_u16 ["-p"; "--port"] argv impl
                                  | v -> v)
                              | v -> v)
                          | v -> v)
                      | v -> v)
                  | v -> v)
               else if prop = "C16" then mon_cfg_dup case impl else "skip"
             | "ccfgperm" :: _ -> if prop = "C17" then mon_cfgperm impl else "skip"
             | ["ccfg"; _; ex; _; args] ->
               if prop = "C17" then
                 (let argv = if args = "-" then [] else List.map untok (String.split_on_char ',' args) in
                  match mon_cfg_numeric ["-p"; "--port"; "-b"; "--blocksize"; "-w"; "--windowsize"; "-t"; "--timeout"] argv impl with
                  | "pass" -> (match mon_ccfg_mode argv impl with
                      | "pass" -> (match mon_cfg_u16 ["-p"; "--port"; "-w"; "--windowsize"] argv impl with
                          | "pass" -> mon_cfg_exists ["-rd"; "--receive-directory"] ex argv impl
                          | v -> v)
                      | v -> v)
                  | v -> v)
               else "skip"
             | "win" :: _ -> if prop = "C18" then (if String.trim (run_win (words case)) = String.trim impl then "pass" else "fail:differs-from-the-verified-queue-specification") else "skip"
             | _ -> "skip"))
  | _ -> "fail:bad-monitor-line"

let () = run_ccfg_ref := run_ccfg

let run_line (line : string) : string =
  if String.length line > 4 && String.sub line 0 4 = "mon\t" then run_mon line else
  let toks = List.filter (fun s -> s <> "") (String.split_on_char ' ' line) in
  match toks with
  | [] -> ""
  | k :: _ when String.length k > 0 && k.[0] = '#' -> ""
  | "send" :: _ -> run_send toks
  | "recv" :: _ -> run_recv toks
  | "win" :: _ -> run_win toks
  | "srv" :: _ -> run_srv toks
  | "pair" :: _ -> run_pair toks
  | "conc" :: _ -> run_conc toks
  | "cli" :: _ -> run_cli toks
  | "bin" :: _ -> run_bin toks
  | "cfg" :: _ -> run_cfg toks
  | "cfgperm" :: _ -> run_cfgperm toks
  | "ccfg" :: _ -> run_ccfg toks
  | "ccfgperm" :: _ -> run_ccfgperm toks
  | "dec" :: _ -> run_dec toks
  | "enc" :: _ -> run_enc toks
  | "opc" :: _ -> run_opc toks
  | "erc" :: _ -> run_erc toks
  | "optname" :: _ -> run_optname toks
  | "lowersweep" :: _ -> run_lowersweep toks
  | k :: _ -> failwith ("unknown case kind " ^ k)

let () =
  let inp = open_in Sys.argv.(1) and out = open_out Sys.argv.(2) in
  (try while true do
     let line = input_line inp in
     let res = try run_line line with Failure m -> "driver-error " ^ m | Stack_overflow -> "driver-error stack" in
     output_string out (String.trim res); output_char out '\n'
   done with End_of_file -> ());
  close_in inp; close_out out
