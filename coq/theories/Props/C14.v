(** C14 - Bundled client and server interoperate.  Pinned statements only.  "Interoperate" is
    proved over loss-free FIFO channels: each side's loop is shown to complete against the
    other side's loss-free behaviour (the blocks of the file in order / the ACK of every window),
    and the two loops are composed into one closed system ([C14_both_loops_complete_together]:
    a sending and a receiving worker with the same block and window size, joined by FIFO
    channels, both end in success with the receiver holding exactly the file - any file, any
    sizes; duplicate-packets mode off).  Real loopback losses for very large windows are outside (D8). *)
From Tftp Require Import Base.Prelude Model.Types Model.Consts Model.Codec Model.Window Model.Worker Model.Spec
  Model.Server Model.Client Proofs.SpecP Proofs.SendP Proofs.RecvP Proofs.ServerP Proofs.NetP Proofs.ClientP
  Model.Net Proofs.CosimLive Proofs.CosimDup.
Local Open Scope N_scope.

(** Every valid option choice of the client (blksize 8..65464, windowsize 1..65535, timeout
    1..255 s) is accepted and echoed by the server; tsize is the file size on a download. *)
Theorem C14_server_echoes_client_options : forall blk ws tmo tsize rs, valid_choice blk ws tmo ->
  parse_options (client_opts blk ws tmo tsize) rs default_wopts =
    Some (mk_wopts blk (match rs with Some sz => sz | None => tsize end) tmo ws,
          client_opts blk ws tmo (match rs with Some sz => sz | None => tsize end)).
Proof. exact server_echoes_client_options. Qed.

(** Both sides then run with the same block and window size. *)
Theorem C14_client_params_agree : forall blk ws tmo tsize b0 w0, ws < 65536 ->
  adopt (client_opts blk ws tmo tsize) b0 w0 = (blk, ws).
Proof. exact client_params_agree. Qed.

(** Download: request -> OACK -> ACK 0 -> the server's loop completes, the client's loop
    completes holding exactly the file; for every file length (beyond 65535 blocks too),
    both port modes, any duplicate count. *)
Theorem C14_interop_download : forall cfg root st src name blk ws tmo F, listener_inv st -> valid_choice blk ws tmo ->
  let path := join (v_sdir cfg) (convert_file_path name) in
  validate_file_path path (v_sdir cfg) = true -> stat root path = Some (NFile F) ->
  handle_rrq cfg root st src name (client_opts blk ws tmo 0) =
    (fst (handle_rrq cfg root st src name (client_opts blk ws tmo 0)),
     [AReply (v_single cfg) (Oack (client_opts blk ws tmo (lenN F)));
      ASpawnSend path (mk_wopts blk (lenN F) tmo ws) (v_dup cfg + 1) true]) /\
  on_first_reply_download (Oack (client_opts blk ws tmo (lenN F))) blk ws = FrTransfer blk ws true /\
  (exists s outs, run_send (mk_scfg blk ws (tmo * 1000000000) (v_dup cfg + 1) true []) F
       (EvDgram 0 (ack_dgram 0) :: ideal_acks (S (N.to_nat (nblk blk F))) ws (nblk blk F) 0) = (s, outs) /\ s_phase s = SDone OutOk) /\
  (exists r outs, run_recv (client_rcfg blk ws) (ideal_datas blk F 1 (N.to_nat (nblk blk F))) = (r, outs) /\
       r_phase r = RDone OutOk /\ written_bytes (w_file (r_w r)) = F).
Proof. exact interop_download. Qed.

(** Upload: the request names the base name of the local file; stored at receive_dir / basename. *)
Theorem C14_interop_upload : forall cfg root st src local base blk ws tmo F, listener_inv st -> valid_choice blk ws tmo ->
  file_name local = Some base ->
  let path := join (v_rdir cfg) (convert_file_path base) in
  check_file_exists root path (v_rdir cfg) = ChkMissing ->
  upload_request local blk ws tmo (lenN F) = Some (Wrq base octet (client_opts blk ws tmo (lenN F))) /\
  handle_wrq cfg root st src base (client_opts blk ws tmo (lenN F)) =
    (fst (handle_wrq cfg root st src base (client_opts blk ws tmo (lenN F))),
     [AReply (v_single cfg) (Oack (client_opts blk ws tmo (lenN F)));
      ASpawnRecv path (mk_wopts blk (lenN F) tmo ws) (v_dup cfg + 1) (v_clean cfg)]) /\
  on_first_reply_upload (Oack (client_opts blk ws tmo (lenN F))) blk ws = FrTransfer blk ws false /\
  (exists r outs, run_recv (mk_rcfg blk ws (tmo * 1000000000) (v_dup cfg + 1) (v_clean cfg) []) (ideal_datas blk F 1 (N.to_nat (nblk blk F))) = (r, outs) /\
       r_phase r = RDone OutOk /\ written_bytes (w_file (r_w r)) = F) /\
  (exists s outs, run_send (client_scfg blk ws) F (ideal_acks (S (N.to_nat (nblk blk F))) ws (nblk blk F) 0) = (s, outs) /\ s_phase s = SDone OutOk).
Proof. exact interop_upload. Qed.

(** A download is stored under the base name of the requested path in the receive directory. *)
Theorem C14_download_target : forall rdir p n, file_name p = Some n -> download_target rdir p = Some (join rdir n).
Proof. intros rdir p n H. unfold download_target. rewrite H. reflexivity. Qed.

(** When the server refuses the request the client starts no transfer: no file is created. *)
Theorem C14_refusal_creates_nothing : forall c m blk ws,
  on_first_reply_download (Error c m) blk ws = FrRefused c /\ on_first_reply_upload (Error c m) blk ws = FrRefused c.
Proof. exact refusal_creates_nothing. Qed.

(** Non-vacuity. *)
Example C14_ex_names :
  file_name [115; 117; 98; 47; 98; 46; 98; 105; 110] = Some [98; 46; 98; 105; 110]                  (* sub/b.bin -> b.bin *)
  /\ file_name (convert_file_path [92; 115; 117; 98; 92; 98]) = Some [98]                             (* \sub\b -> b *)
  /\ download_target [47; 100] [115; 47; 98] = Some [47; 100; 47; 98]
  /\ valid_choice 65464 65535 255 /\ valid_choice 8 1 1.
Proof. repeat split; vm_compute; try reflexivity; discriminate. Qed.

(** The data phase as one closed system: the sender's output is the receiver's input and vice
    versa (download: server sends, client receives; upload: the other way round). *)
Theorem C14_both_loops_complete_together : forall sc rc F,
  wf_params (s_blk sc) (s_ws sc) -> r_blk rc = s_blk sc -> r_ws rc = s_ws sc -> s_check sc = false ->
  s_fails sc = [] -> r_fails rc = [] -> s_rep sc = 1 -> r_rep rc = 1 -> 0 < s_tmo sc ->
  exists fuel, let p := pair_run sc rc [] [] fuel (pair_init sc rc [] F) in
    r_phase (p_r p) = RDone OutOk /\ written_bytes (w_file (r_w (p_r p))) = F /\ s_phase (p_s p) = SDone OutOk.
Proof. exact cosim_perfect. Qed.

(** REFUTED for windows larger than the receiver's buffer (known finding D8): the property's
    "every valid option choice (windowsize 1..65535)" does not hold once a window's burst exceeds
    what the receiving socket buffers - the receiver keeps what fitted, ignores the rest of every
    retransmission (which restarts at the window's first block), no ACK is ever sent, both sides
    give up.  Witness: block size 8, window 3, six blocks, capacity 2.  With capacity 3 the same
    transfer completes. *)
Theorem C14_refuted_receive_capacity :
  let sc := mk_scfg 8 3 1000000000 1 false [] in
  let rc := mk_rcfg 8 3 1000000000 1 true [] in
  s_phase (p_s capacity_witness) = SDone OutTimeout /\ r_phase (p_r capacity_witness) = RDone OutTimeout /\
  recv_final_file rc (p_r capacity_witness) = None /\ pair_step_cap sc rc 2 capacity_witness = None.
Proof. exact capacity_livelock. Qed.
Theorem C14_capacity_sufficient_completes :
  let sc := mk_scfg 8 3 1000000000 1 false [] in
  let rc := mk_rcfg 8 3 1000000000 1 true [] in
  let p := pair_run_cap sc rc 3 200 (pair_init_cap sc rc 3 (pattern_file 40)) in
  s_phase (p_s p) = SDone OutOk /\ r_phase (p_r p) = RDone OutOk /\
  match recv_final_file rc (p_r p) with Some w => concat (rev w) = pattern_file 40 | None => False end.
Proof. exact capacity_sufficient. Qed.

(** ... and in general: whenever the receiver's buffer takes a whole window burst ([s_rep] copies of
    [windowsize] blocks), nothing is dropped by the capacity rule and the transfer completes - every
    file, block size, window size, repeat counts.  Finding D8 is exactly the complement. *)
Theorem C14_within_capacity_completes : forall sc rc F,
  wf_params (s_blk sc) (s_ws sc) -> r_blk rc = s_blk sc -> r_ws rc = s_ws sc -> s_check sc = false ->
  s_fails sc = [] -> r_fails rc = [] -> 1 <= s_rep sc -> 1 <= r_rep rc -> 0 < s_tmo sc ->
  forall cap, (N.to_nat (s_rep sc) * N.to_nat (s_ws sc) <= cap)%nat ->
  exists fuel, let p := pair_run_cap sc rc cap fuel (pair_init_cap sc rc cap F) in
    r_phase (p_r p) = RDone OutOk /\ written_bytes (w_file (r_w (p_r p))) = F /\ s_phase (p_s p) = SDone OutOk.
Proof. exact cosim_cap_sufficient. Qed.

Print Assumptions C14_within_capacity_completes.
Print Assumptions C14_refuted_receive_capacity.
Print Assumptions C14_both_loops_complete_together.
Print Assumptions C14_interop_download.
Print Assumptions C14_interop_upload.
Print Assumptions C14_server_echoes_client_options.
