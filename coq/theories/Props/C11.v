(** C11 - Codec round trip and RFC wire layout.  Pinned statements only. *)
From Tftp Require Import Base.Prelude Base.Decimal Model.Types Model.Consts Model.Codec Model.Rfc Model.Monitors
  Proofs.CodecP Proofs.MonitorsP.
Local Open Scope N_scope.

(** Decoding the encoding of any packet value returns the identical packet:
    all six kinds, any option list (duplicates included), any payload length. *)
Theorem C11_decode_encode : forall p, wf p -> decode (encode p) = Ok p.
Proof. exact decode_encode. Qed.

(** The encoding is exactly the RFC 1350 / 2347 layout, written independently with
    literal opcodes, error codes and option names: big-endian 16-bit fields,
    NUL-terminated strings, decimal ASCII option values. *)
Theorem C11_encode_layout : forall p, encode p = rfc_layout p.
Proof. exact encode_layout. Qed.

Theorem C11_decimal_roundtrip : forall n, n < usize_limit -> parse_usize (to_dec n) = Some n.
Proof. exact decimal_roundtrip. Qed.

Theorem C11_to_dec_shape : forall n,
  Forall is_digit (to_dec n) /\ to_dec n <> [] /\ (forall r, to_dec n = 48 :: r -> r = [] /\ n = 0).
Proof. exact to_dec_shape. Qed.

(** Opcode and error-code conversions are mutually inverse over all of N - hence
    over the whole 16-bit range - on the tables generated from the source, and
    exactly 1..6 resp. 0..7 are accepted. *)
Theorem C11_opcode_inverse : forall v c, opcode_of_u16 v = Some c <-> u16_of_opcode c = v.
Proof. exact opcode_inverse. Qed.
Theorem C11_opcode_accepted_range : forall v, opcode_of_u16 v <> None <-> 1 <= v <= 6.
Proof. exact opcode_accepted_range. Qed.
Theorem C11_errcode_inverse : forall v c, errcode_of_u16 v = Some c <-> u16_of_errcode c = v.
Proof. exact errcode_inverse. Qed.
Theorem C11_errcode_accepted_range : forall v, errcode_of_u16 v <> None <-> v <= 7.
Proof. exact errcode_accepted_range. Qed.
Theorem C11_option_name_inverse : forall o, opt_of_name (opt_name o) = Some o.
Proof. exact option_name_inverse. Qed.
Theorem C11_option_name_recognised : forall o, recognise (opt_name o) = Some o.
Proof. exact option_name_recognised. Qed.

(** The monitors run on the implementation accept the model. *)
Theorem C11_monitor_enc_on_model : forall p, wf p -> okC11_enc p (encode p) true = true.
Proof. exact okC11_enc_on_model. Qed.
Theorem C11_monitor_opcode_on_model : forall v, v < 65536 ->
  okC11_conv 1 6 v (match opcode_of_u16 v with Some o => Some (u16_be (u16_of_opcode o)) | None => None end) = true.
Proof. exact okC11_conv_opcode_on_model. Qed.
Theorem C11_monitor_errcode_on_model : forall v, v < 65536 ->
  okC11_conv 0 7 v (match errcode_of_u16 v with Some o => Some (u16_be (u16_of_errcode o)) | None => None end) = true.
Proof. exact okC11_conv_errcode_on_model. Qed.

(** Non-vacuity. *)
Example C11_ex_wf : wf (Wrq [195; 169] [111] [mk_opt OBlkSize 1432; mk_opt OBlkSize 8]).
Proof. repeat split; try reflexivity; try (intros [H|H]; [discriminate|]; try destruct H as [H|H]; try discriminate; try contradiction);
  repeat constructor. Qed.
Example C11_ex_layout : encode (Data 258 [7; 8]) = [0; 3; 1; 2; 7; 8]
  /\ encode (Oack [mk_opt OTimeout 12]) = [0; 6; 116; 105; 109; 101; 111; 117; 116; 0; 49; 50; 0].
Proof. split; reflexivity. Qed.

Print Assumptions C11_decode_encode.
Print Assumptions C11_encode_layout.
Print Assumptions C11_opcode_inverse.
Print Assumptions C11_errcode_accepted_range.
Print Assumptions C11_monitor_enc_on_model.
