(** C10 - Decoder totality.  Pinned statements only: each theorem is closed by
    [exact] of a lemma proved in Proofs/, followed by a [Check] pin of its
    statement and [Print Assumptions]. *)
From Tftp Require Import Base.Prelude Base.Decimal Model.Types Model.Consts Model.Codec Model.Monitors
  Proofs.CodecP Proofs.MonitorsP.
Local Open Scope N_scope.

(** For every byte string of any length the decoder returns a packet or an error:
    no panic (slice/index/subtraction out of range), no abort, no fuel exhaustion. *)
Theorem C10_decode_never_panics : forall buf : bytes,
  decode buf <> Panic /\ decode buf <> Abort /\ decode buf <> Err EFuel.
Proof. exact decode_never_panics. Qed.

Theorem C10_decode_total : forall buf : bytes,
  (exists p, decode buf = Ok p) \/ (exists e, decode buf = Err e /\ e <> EFuel).
Proof. exact decode_total. Qed.

(** Rejections the property names. *)
Theorem C10_reject_short : forall buf, (length buf < 2)%nat -> decode buf = Err EShort.
Proof. exact reject_short. Qed.

Theorem C10_reject_unknown_opcode : forall a b rest,
  opcode_of_u16 (a * 256 + b) = None -> decode (a :: b :: rest) = Err EOpcode.
Proof. exact reject_unknown_opcode. Qed.

Theorem C10_reject_short_header : forall a b rest o,
  opcode_of_u16 (a * 256 + b) = Some o -> (o = OpData \/ o = OpAck \/ o = OpError) ->
  (length rest < 2)%nat -> decode (a :: b :: rest) = Err EU16.
Proof. exact reject_short_header. Qed.

Theorem C10_reject_bad_errcode : forall a b c d rest,
  opcode_of_u16 (a * 256 + b) = Some OpError -> errcode_of_u16 (c * 256 + d) = None ->
  decode (a :: b :: c :: d :: rest) = Err EErrCode.
Proof. exact reject_bad_errcode. Qed.

Theorem C10_reject_request_without_nul : forall a b rest o,
  opcode_of_u16 (a * 256 + b) = Some o -> (o = OpRrq \/ o = OpWrq) ->
  (forall f m tail, rest <> f ++ 0 :: m ++ 0 :: tail) ->
  exists e, decode (a :: b :: rest) = Err e.
Proof. exact reject_request_without_nul. Qed.

Theorem C10_accepted_request_ends_with_nul : forall buf p,
  decode buf = Ok p ->
  match p with
  | Rrq _ _ _ | Wrq _ _ _ => exists pre, buf = pre ++ [0]
  | Oack _ => (length buf = 2)%nat \/ exists pre, buf = pre ++ [0]
  | _ => True
  end.
Proof. exact accepted_request_ends_with_nul. Qed.

Theorem C10_reject_nonnumeric_option : forall f buf zi name z1 val z2 ty,
  (zi < length buf - 1)%nat ->
  to_string buf (zi + 1) = Ok (name, z1) -> to_string buf (z1 + 1) = Ok (val, z2) ->
  recognise name = Some ty -> parse_usize val = None ->
  parse_opts (S f) buf zi = Err ENum.
Proof. exact reject_nonnumeric_option. Qed.

(** Everything the property text says must be rejected (written with literal RFC
    numbers in [must_reject]) is rejected. *)
Theorem C10_must_reject_sound : forall buf, must_reject buf = true -> exists e, decode buf = Err e.
Proof. exact must_reject_sound. Qed.

(** Whatever is accepted is a well-formed packet value and is stable under re-encoding. *)
Theorem C10_decode_ok_wf : forall buf p, all_bytes buf -> decode buf = Ok p -> wf p.
Proof. exact decode_ok_wf. Qed.

Theorem C10_decode_stable : forall buf p, all_bytes buf -> decode buf = Ok p -> decode (encode p) = Ok p.
Proof. exact decode_stable. Qed.

(** The trace monitor that is run on the implementation accepts every behaviour of the model. *)
Theorem C10_monitor_on_model : forall buf, all_bytes buf ->
  match decode buf with
  | Ok p => forall stable, (stable = true <-> decode (encode p) = Ok p) -> okC10 buf (DAccepted p stable) = true
  | Err _ => okC10 buf DRejected = true
  | Panic | Abort => False
  end.
Proof. exact okC10_on_model. Qed.

(** Non-vacuity: concrete datagrams on both sides of each statement. *)
Example C10_ex_accepts : decode [0; 1; 97; 0; 111; 0; 116; 115; 105; 122; 101; 0; 53; 0]
  = Ok (Rrq [97] [111] [mk_opt OTSize 5]).
Proof. reflexivity. Qed.
Example C10_ex_rejects_nonnumeric : is_err (decode [0; 1; 97; 0; 111; 0; 116; 115; 105; 122; 101; 0; 120; 0]) = true.
Proof. reflexivity. Qed.
Example C10_ex_must_reject : must_reject [0; 2; 97; 0; 111] = true /\ must_reject [0; 5; 0; 9; 0] = true
  /\ must_reject [0; 4; 1] = true /\ must_reject [0; 1; 97; 0; 111; 0] = false
  /\ must_reject [0; 1; 97; 0; 111; 0; 88] = true /\ must_reject [0; 6; 88] = true /\ must_reject [0; 6] = false.
Proof. repeat split; reflexivity. Qed.

Print Assumptions C10_decode_never_panics.
Print Assumptions C10_decode_total.
Print Assumptions C10_must_reject_sound.
Print Assumptions C10_decode_stable.
Print Assumptions C10_monitor_on_model.
