(** C01 - Download fidelity.  Pinned statements only: each theorem is closed by [exact] of a
    lemma proved in Proofs/, followed by [Print Assumptions]. *)
From Tftp Require Import Base.Prelude Model.Types Model.Consts Model.Codec Model.Window Model.Worker Model.Spec
  Proofs.CodecP Proofs.SpecP Proofs.WindowP Proofs.SendP.
Local Open Scope N_scope.

(** Every DATA datagram the sending worker ever hands to the socket - for every file, block
    size, window size 1..65535, repeat count, and every list of receive results (ACKs of any
    number, bogus ones included, errors, garbage, timeouts with any delays) - carries block
    number [k mod 65536] together with exactly the bytes [(k-1)*blk, k*blk) of the file, for
    a [k] between 1 and the number of the final block. *)
Theorem C01_send_data_is_slice : forall cfg F evs st outs, wf_params (s_blk cfg) (s_ws cfg) ->
  run_send cfg F evs = (st, outs) ->
  forall burst s n p, In burst outs -> In s burst -> s_pk s = Data n p ->
  exists k, 1 <= k <= nblk (s_blk cfg) F /\ n = k mod 65536 /\ p = chunk (s_blk cfg) F k.
Proof. exact send_data_is_slice. Qed.

(** Nothing but DATA (and the one refusal of a bad reply to the OACK) is ever sent. *)
Theorem C01_send_only_data_or_refusal : forall cfg F evs st outs, wf_params (s_blk cfg) (s_ws cfg) ->
  run_send cfg F evs = (st, outs) ->
  forall burst s, In burst outs -> In s burst ->
  (exists n p, s_pk s = Data n p) \/ s_pk s = Error EIllegalOperation invalid_oack_msg.
Proof. exact send_only_data_or_refusal. Qed.

(** The last block of the transfer is the first one shorter than the block size (empty when
    the size is an exact multiple); every earlier block is full; together they are the file. *)
Theorem C01_blocks_before_last_full : forall blk F k, 0 < blk -> 1 <= k -> k < nblk blk F ->
  lenN (chunk blk F k) = blk.
Proof. exact chunk_full. Qed.
Theorem C01_last_block_short : forall blk F, 0 < blk ->
  lenN (chunk blk F (nblk blk F)) = lenN F mod blk /\ lenN (chunk blk F (nblk blk F)) < blk.
Proof. intros blk F H. split; [exact (chunk_last blk F H)|exact (chunk_last_short blk F H)]. Qed.
Theorem C01_blocks_are_the_file : forall blk F, 0 < blk ->
  concat (chunks_from blk F 1 (N.to_nat (nblk blk F))) = F.
Proof. exact chunks_concat. Qed.

(** A burst is one transmission of the whole current window, in order, numbered
    consecutively from the window front, each block [rep] times. *)
Theorem C01_burst_shape : forall cfg F st e st' out, wf_params (s_blk cfg) (s_ws cfg) ->
  s_fails cfg = [] -> SInv cfg F st -> send_step cfg st e = (st', out) ->
  out = [] \/ out = window_tx (N.to_nat (s_rep cfg)) (s_abs st') (w_elems (s_w st'))
  \/ (s_phase st = SAwaitOack /\ out = [mk_sent (Error EIllegalOperation invalid_oack_msg) false]).
Proof. exact send_step_burst_shape. Qed.

(** The invariant behind it holds in every reachable state. *)
Theorem C01_invariant_reachable : forall cfg F evs, wf_params (s_blk cfg) (s_ws cfg) ->
  SInv cfg F (fst (run_send cfg F evs)).
Proof. exact send_run_inv. Qed.

(** DATA on the wire: opcode 3, big-endian block number, payload. *)
Theorem C01_data_layout : forall n p, encode (Data n p) = [0; 3; n / 256; n mod 256] ++ p.
Proof. intros n p. rewrite encode_layout. reflexivity. Qed.

(** Second sentence: a client that reassembles in-order blocks, fed any sub-multiset of the
    emitted datagrams in any order, holds the file when it completes and a prefix of it
    otherwise - never a corrupted copy.  Beyond 65536 blocks the datagram-lifetime condition
    [fresh] inherent in 16-bit block numbers is needed (a constraint on the network). *)
Theorem C01_client_copy_exact_any_length : forall blk F ks e acc, 0 < blk -> 1 <= e <= nblk blk F ->
  acc = takeN ((e - 1) * blk) F -> fresh blk F e ks ->
  forall acc' done, ref_client blk e acc (map (dgram blk F) ks) = (acc', done) ->
  (done = true -> acc' = F) /\ (exists m, acc' = takeN m F).
Proof. exact client_copy_exact_gen. Qed.

Theorem C01_download_never_corrupted : forall cfg F evs st outs arrivals, wf_params (s_blk cfg) (s_ws cfg) ->
  nblk (s_blk cfg) F <= 65536 ->
  run_send cfg F evs = (st, outs) ->
  Forall (fun a => exists burst s, In burst outs /\ In s burst /\ s_pk s = Data (fst a) (snd a)) arrivals ->
  forall acc done, ref_client (s_blk cfg) 1 [] arrivals = (acc, done) ->
  (done = true -> acc = F) /\ (exists m, acc = takeN m F).
Proof. exact download_never_corrupted. Qed.

(** Non-vacuity: an 11-byte file, block size 8, window 2, the peer acknowledges block 1 and
    then block 2 (a partial-window ACK at end of file): blocks 1,2 - block 2 again - end. *)
Definition ex_cfg := mk_scfg 8 2 1000000000 1 false [].
Definition ex_file : bytes := [1; 2; 3; 4; 5; 6; 7; 8; 9; 10; 11].
Definition ex_acks : list ev := [EvDgram 0 [0; 4; 0; 1]; EvDgram 0 [0; 4; 0; 2]].
Example C01_ex_run :
  s_phase (fst (run_send ex_cfg ex_file ex_acks)) = SDone OutOk /\
  map (map (fun s => s_pk s)) (snd (run_send ex_cfg ex_file ex_acks)) =
    [[Data 1 [1; 2; 3; 4; 5; 6; 7; 8]; Data 2 [9; 10; 11]]; [Data 2 [9; 10; 11]]; []].
Proof. split; vm_compute; reflexivity. Qed.
Example C01_ex_wf : wf_params (s_blk ex_cfg) (s_ws ex_cfg).
Proof. vm_compute. repeat split; discriminate. Qed.

Print Assumptions C01_send_data_is_slice.
Print Assumptions C01_burst_shape.
Print Assumptions C01_download_never_corrupted.
Print Assumptions C01_client_copy_exact_any_length.
