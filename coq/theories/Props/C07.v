(** C07 - Termination.  Pinned statements only. *)
From Tftp Require Import Base.Prelude Model.Types Model.Consts Model.Codec Model.Window Model.Worker Model.Spec
  Proofs.CodecP Proofs.SpecP Proofs.WindowP Proofs.SendP Proofs.RecvP.
Local Open Scope N_scope.

(** Sender: the step that accepts the ACK of the final block ends the transfer at once and
    emits nothing ... *)
Theorem C07_send_ends_at_final_ack : forall cfg F st e r j, wf_params (s_blk cfg) (s_ws cfg) ->
  SInv cfg F st -> s_phase st = SInWindow ->
  receive max_request_packet_size e = RPacket (Ack r) ->
  s_abs st <= j < s_abs st + lenN (w_elems (s_w st)) -> j mod 65536 = r -> j = nblk (s_blk cfg) F ->
  exists st', send_step cfg st e = (st', []) /\ s_phase st' = SDone OutOk.
Proof. exact send_final_ack_ends. Qed.

(** ... and success is reached in no other way. *)
Theorem C07_send_ok_only_by_final_ack : forall cfg F st e st' out, wf_params (s_blk cfg) (s_ws cfg) ->
  SInv cfg F st -> s_phase st <> SDone OutOk ->
  send_step cfg st e = (st', out) -> s_phase st' = SDone OutOk ->
  out = [] /\ exists r, receive max_request_packet_size e = RPacket (Ack r) /\
    s_abs st <= nblk (s_blk cfg) F < s_abs st + lenN (w_elems (s_w st)) /\
    nblk (s_blk cfg) F mod 65536 = r mod 65536.
Proof. exact send_ok_only_by_final_ack. Qed.

(** The sender never emits a block beyond the file's final block (any ACK pattern). *)
Theorem C07_no_block_beyond_final : forall cfg F evs st outs, wf_params (s_blk cfg) (s_ws cfg) ->
  run_send cfg F evs = (st, outs) ->
  forall burst s n p, In burst outs -> In s burst -> s_pk s = Data n p ->
  exists k, 1 <= k <= nblk (s_blk cfg) F /\ n = k mod 65536 /\ p = chunk (s_blk cfg) F k.
Proof. exact send_data_is_slice. Qed.

(** An ERROR from the peer ends either loop at once, silently. *)
Theorem C07_send_error_stops : forall cfg st e c m st' out,
  (forall o, s_phase st <> SDone o) ->
  receive max_request_packet_size e = RPacket (Error c m) ->
  send_step cfg st e = (st', out) -> out = [] /\ s_phase st' = SDone OutPeer.
Proof. exact send_error_stops. Qed.
Theorem C07_recv_error_stops : forall cfg st e c m st' out, r_phase st = RRun ->
  receive (r_blk cfg) e = RPacket (Error c m) ->
  recv_step cfg st e = (st', out) -> out = [] /\ r_phase st' = RDone OutPeer.
Proof. exact recv_error_stops. Qed.

(** A rejected option acknowledgement (ERROR, non-zero ACK, failed receive): no DATA at all. *)
Theorem C07_oack_refusal_stops : forall cfg st e st' out,
  s_phase st = SAwaitOack ->
  (receive max_request_packet_size e = RNone \/
   (exists c m, receive max_request_packet_size e = RPacket (Error c m)) \/
   (exists n, n <> 0 /\ receive max_request_packet_size e = RPacket (Ack n))) ->
  send_step cfg st e = (st', out) ->
  (exists o, s_phase st' = SDone o) /\ data_packets out = [].
Proof. exact send_oack_refusal_stops. Qed.

(** After ending, nothing more is emitted, whatever arrives. *)
Theorem C07_send_finished_is_silent : forall cfg st e o, s_phase st = SDone o -> send_step cfg st e = (st, []).
Proof. exact send_done_absorbing. Qed.
Theorem C07_recv_finished_is_silent : forall cfg st e o, r_phase st = RDone o -> recv_step cfg st e = (st, []).
Proof. exact recv_done_absorbing. Qed.

(** A silent peer: from every running state the worker gives up after at most
    [max_retries - retry] further failed receives - it neither waits nor retransmits forever. *)
Theorem C07_send_silence_bounded : forall cfg n st d,
  s_phase st = SInWindow -> s_retry st < max_retries ->
  max_retries - s_retry st <= N.of_nat n ->
  exists o, s_phase (fst (send_steps cfg st (repeat (EvFail d) n))) = SDone o /\
            (s_fails cfg = [] -> o = OutTimeout).
Proof. exact send_silence_bounded. Qed.
Theorem C07_recv_silence_bounded : forall cfg n st d, r_retry st < max_retries -> r_phase st = RRun ->
  max_retries - r_retry st <= N.of_nat n ->
  r_phase (fst (recv_steps cfg st (repeat (EvFail d) n))) = RDone OutTimeout /\
  concat (snd (recv_steps cfg st (repeat (EvFail d) n))) = [].
Proof. exact recv_silence_bounded. Qed.
(** The bound is the constant of the source (generated). *)
Theorem C07_retry_budget_positive : 0 < max_retries.
Proof. exact max_retries_pos. Qed.

(** Receiver: the final (short) block is flushed, acknowledged [rep] times, and ends the transfer. *)
Theorem C07_recv_ends_at_final_block : forall cfg hist st e n p, wf_params (r_blk cfg) (r_ws cfg) ->
  RInv cfg hist st -> r_phase st = RRun ->
  receive (r_blk cfg) e = RPacket (Data n p) -> n = wadd16 (r_bn st) 1 -> lenN p < r_blk cfg ->
  memN (r_nsent st) (r_fails cfg) = false -> 1 <= r_rep cfg ->
  exists st' out, recv_step cfg st e = (st', out) /\ r_phase st' = RDone OutOk /\
    length out = N.to_nat (r_rep cfg) /\ w_elems (r_w st') = [] /\
    Forall (fun a => s_pk (a_sent a) = Ack n) out.
Proof. exact recv_ends_at_final_block. Qed.

(** Non-vacuity: silence right after the first window; an ERROR in reply to the OACK. *)
Example C07_ex_silence :
  s_phase (fst (run_send (mk_scfg 8 2 1000000000 1 false []) [1; 2; 3] (repeat (EvFail 1000000000) 6))) = SDone OutTimeout
  /\ length (concat (snd (run_send (mk_scfg 8 2 1000000000 1 false []) [1; 2; 3] (repeat (EvFail 1000000000) 6)))) = 6%nat.
Proof. split; vm_compute; reflexivity. Qed.
Example C07_ex_oack_error :
  run_send (mk_scfg 8 2 1000000000 1 true []) [1; 2; 3] [EvDgram 0 [0; 5; 0; 0; 110; 111; 0]] =
  (fst (run_send (mk_scfg 8 2 1000000000 1 true []) [1; 2; 3] [EvDgram 0 [0; 5; 0; 0; 110; 111; 0]]), [[]; []])
  /\ s_phase (fst (run_send (mk_scfg 8 2 1000000000 1 true []) [1; 2; 3] [EvDgram 0 [0; 5; 0; 0; 110; 111; 0]])) = SDone OutPeer.
Proof. split; vm_compute; reflexivity. Qed.

Print Assumptions C07_send_ends_at_final_ack.
Print Assumptions C07_send_ok_only_by_final_ack.
Print Assumptions C07_send_silence_bounded.
Print Assumptions C07_recv_silence_bounded.
Print Assumptions C07_recv_ends_at_final_block.
