(** C18 - Window buffer contract.  Pinned statements only. *)
From Tftp Require Import Base.Prelude Model.Types Model.Consts Model.Codec Model.Window Model.Worker Model.Spec
  Proofs.SpecP Proofs.WindowP.
Local Open Scope N_scope.

(** For every sequence of operations the buffer never holds more than its size. *)
Theorem C18_bounded : forall ops w, WInv w -> WInv (fst (wrun w ops)).
Proof. exact wrun_bounded. Qed.
Theorem C18_new_bounded : forall size chunk f, size <= 65535 -> WInv (window_new size chunk f).
Proof. exact window_new_inv. Qed.

(** Successive fills - whatever other operations are interleaved - hand out the file's bytes
    in order without gap or repetition: the pieces appended by all fills of a run,
    concatenated, are exactly the bytes consumed from the file. *)
Theorem C18_fills_hand_out_file_in_order : forall ops w, WInv w -> f_mode (w_file w) = FRead ->
  concat (fill_pieces w ops) ++ f_rest (w_file (fst (wrun w ops))) = f_rest (w_file w).
Proof. exact fills_hand_out_file_in_order. Qed.

(** One fill: pieces of exactly [chunk] bytes up to [size]; it reports [false] iff it appended
    a short (possibly empty) piece, which is the last one - nothing is left unread. *)
Theorem C18_fill : forall w, WInv w -> f_mode (w_file w) <> FWrite ->
  exists cs full w', fill w = WOk (w', full) /\
    w_elems w' = w_elems w ++ cs /\
    concat cs ++ f_rest (w_file w') = f_rest (w_file w) /\
    f_written (w_file w') = f_written (w_file w) /\ f_mode (w_file w') = f_mode (w_file w) /\
    w_size w' = w_size w /\ w_chunk w' = w_chunk w /\
    lenN (w_elems w') <= w_size w /\
    (full = true -> lenN (w_elems w') = w_size w /\ Forall (full_piece (w_chunk w)) cs) /\
    (full = false -> exists init last, cs = init ++ [last] /\ Forall (full_piece (w_chunk w)) init /\
                                       lenN last < w_chunk w /\ f_rest (w_file w') = []).
Proof. exact fill_spec. Qed.
Theorem C18_fill_after_eof_is_empty : forall w, WInv w -> f_mode (w_file w) = FRead -> 0 < w_chunk w ->
  f_rest (w_file w) = [] ->
  forall w' full, fill w = WOk (w', full) ->
  Forall (fun c => c = []) (skipn (length (w_elems w)) (w_elems w')).
Proof. exact fill_after_eof_is_empty. Qed.

(** Relative to a file: the pieces are the blocks [a, a+n) of the file, in order. *)
Theorem C18_fill_reads_blocks : forall n blk F a cs rest' full, 0 < blk -> 1 <= a -> a <= nblk blk F ->
  read_chunks n blk (dropN ((a - 1) * blk) F) = (cs, rest', full) ->
  cs = chunks_from blk F a (length cs) /\
  rest' = dropN ((a - 1 + lenN cs) * blk) F /\
  (length cs <= n)%nat /\
  (full = true -> length cs = n /\ a + lenN cs <= nblk blk F) /\
  (full = false -> (1 <= length cs)%nat /\ a + lenN cs = nblk blk F + 1).
Proof. exact read_chunks_spec. Qed.

(** [remove(k)] discards exactly the [k] oldest pieces and fails when [k] exceeds the length. *)
Theorem C18_remove : forall w k, WInv w ->
  (k <= lenN (w_elems w) ->
     remove w k = WOk (mk_window (dropN k (w_elems w)) (w_size w) (w_chunk w) (w_file w))) /\
  (lenN (w_elems w) < k -> remove w k = WErr WRemove).
Proof. exact remove_exact. Qed.

(** [add] fails iff the buffer is full, otherwise appends at the back. *)
Theorem C18_add : forall w d, WInv w ->
  (lenN (w_elems w) = w_size w -> add w d = WErr WAdd) /\
  (lenN (w_elems w) < w_size w ->
     add w d = WOk (mk_window (w_elems w ++ [d]) (w_size w) (w_chunk w) (w_file w))).
Proof. exact add_exact. Qed.

(** [empty] appends all buffered pieces to the file in order and clears the buffer. *)
Theorem C18_empty : forall w, f_mode (w_file w) <> FRead ->
  exists w', empty w = WOk w' /\ w_elems w' = [] /\
    written_bytes (w_file w') = written_bytes (w_file w) ++ concat (w_elems w) /\
    w_size w' = w_size w /\ w_chunk w' = w_chunk w /\ f_mode (w_file w') = f_mode (w_file w).
Proof. exact empty_appends. Qed.

(** The receiving side under every history: for every sequence of [add] / [empty] / [fill] calls on a
    created file, the bytes written followed by the pieces still buffered are exactly what was there
    before followed by the accepted pieces in the order of their [add]s - a refused [add] (buffer
    full) contributes nothing, nothing is lost, nothing is written twice, nothing else is written. *)
Theorem C18_adds_are_stored_in_order : forall ops w, WInv w -> f_mode (w_file w) = FWrite -> no_remove ops ->
  stored_then_buffered (fst (wrun w ops)) = stored_then_buffered w ++ concat (add_pieces w ops).
Proof. exact adds_are_stored_in_order. Qed.
Theorem C18_adds_then_empty_file : forall ops size chunk, size <= 65535 -> no_remove ops ->
  let w := fst (wrun (window_new size chunk file_created) (ops ++ [OpEmpty])) in
  w_elems w = [] /\ written_bytes (w_file w) = concat (add_pieces (window_new size chunk file_created) (ops ++ [OpEmpty])).
Proof. exact adds_then_empty_file. Qed.
Example C18_ex_refused_add_is_not_stored :
  let w0 := window_new 2 5 file_created in
  let ops := [OpAdd [1]; OpAdd [2; 3]; OpAdd [4]; OpFill; OpEmpty; OpAdd [5]] in
  no_remove ops /\ add_pieces w0 ops = [[1]; [2; 3]; [5]] /\
  stored_then_buffered (fst (wrun w0 ops)) = [1; 2; 3; 5] /\ w_elems (fst (wrun w0 ops)) = [[5]].
Proof. split; [repeat constructor|]. split; [|split]; vm_compute; reflexivity. Qed.

(** The sender's slide: acknowledging [k] pieces and refilling keeps the unacknowledged pieces at the
    front in order and appends the next bytes of the file behind them, within the size. *)
Theorem C18_remove_then_fill_slides : forall w k, WInv w -> f_mode (w_file w) = FRead -> k <= lenN (w_elems w) ->
  exists cs full w', wrun w [OpRemove k; OpFill] = (w', [ObsUnit; ObsFill full]) /\
    w_elems w' = dropN k (w_elems w) ++ cs /\
    concat cs ++ f_rest (w_file w') = f_rest (w_file w) /\
    lenN (w_elems w') <= w_size w /\
    (full = true -> lenN (w_elems w') = w_size w) /\
    (full = false -> f_rest (w_file w') = []).
Proof. exact remove_then_fill_slides. Qed.

(** Non-vacuity: the two sequences of the repository's unit tests, and one beyond them. *)
Example C18_ex_fill_remove_fill :
  let w0 := window_new 2 5 (file_for_read [72; 101; 108; 108; 111; 44; 32; 119; 111; 114; 108; 100; 33]) in
  snd (wrun w0 [OpFill; OpRemove 1; OpFill; OpRemove 3; OpFill]) = [ObsFill true; ObsUnit; ObsFill false; ObsErr WRemove; ObsFill true]
  /\ w_elems (fst (wrun w0 [OpFill; OpRemove 1; OpFill])) = [[44; 32; 119; 111; 114]; [108; 100; 33]].
Proof. split; vm_compute; reflexivity. Qed.
Example C18_ex_add_empty :
  let w0 := window_new 2 5 file_created in
  snd (wrun w0 [OpAdd [1]; OpAdd [2; 3]; OpAdd [4]; OpEmpty; OpAdd [4]; OpEmpty]) = [ObsUnit; ObsUnit; ObsErr WAdd; ObsUnit; ObsUnit; ObsUnit]
  /\ written_bytes (w_file (fst (wrun w0 [OpAdd [1]; OpAdd [2; 3]; OpAdd [4]; OpEmpty; OpAdd [4]; OpEmpty]))) = [1; 2; 3; 4].
Proof. split; vm_compute; reflexivity. Qed.

Print Assumptions C18_bounded.
Print Assumptions C18_fills_hand_out_file_in_order.
Print Assumptions C18_fill.
Print Assumptions C18_remove.
Print Assumptions C18_empty.
Print Assumptions C18_adds_are_stored_in_order.
Print Assumptions C18_adds_then_empty_file.
Print Assumptions C18_remove_then_fill_slides.
