(** C12 - Isolation of concurrent transfers.  Pinned statements only.  The theorems are about
    the labelled transition system of Model/System.v (listener + one worker per accepted
    request + per-worker inbox); that kernel threads, mpsc channels and connected UDP sockets
    behave as its rules say is assumed (DESIGN.md), the CONC suite samples real schedules. *)
From Tftp Require Import Base.Prelude Model.Types Model.Consts Model.Codec Model.Window Model.Worker Model.Server
  Model.System Proofs.ServerP Proofs.SystemP.
Local Open Scope N_scope.

(** Non-interference, one step: whatever happens for another endpoint - a request, data, its
    worker's step or time-out, garbage - leaves the worker of endpoint [i] (state and inbox)
    exactly as it was, and every datagram the server emits in that step goes to that other endpoint. *)
Theorem C12_foreign_step_preserves_worker : forall cfg mem root y l i, label_src l <> i ->
  y_get i (y_ws (fst (sys_step cfg mem root y l))) = y_get i (y_ws y) /\
  Forall (fun d => fst d = label_src l) (snd (sys_step cfg mem root y l)).
Proof. exact foreign_step_preserves_worker. Qed.

(** ... hence for every interleaving of any number of other clients and intruders. *)
Theorem C12_foreign_run_preserves_worker : forall cfg mem root ls y i, Forall (fun l => label_src l <> i) ls ->
  y_get i (y_ws (fst (sys_run cfg mem root y ls))) = y_get i (y_ws y) /\
  Forall (fun d => fst d <> i) (snd (sys_run cfg mem root y ls)).
Proof. exact foreign_run_preserves_worker. Qed.

(** A worker's own step reads nothing but its own state and inbox: with the two theorems above,
    the transfer of [i] in any concurrent run is its single-client transfer (run_send /
    run_recv of C01 / C02 on its own datagram sequence). *)
Theorem C12_own_step_is_local : forall cfg mem root y i w raw inbox,
  y_get i (y_ws y) = Some (w, raw :: inbox) ->
  sys_step cfg mem root y (LWork i) =
    (mk_sys (y_ls y) (y_put i (fst (work w (EvDgram 0 raw) i), inbox) (y_ws y)), snd (work w (EvDgram 0 raw) i)).
Proof. exact own_step_is_local. Qed.

(** Demultiplexing in single-port mode is by source address. *)
Theorem C12_routing_by_source : forall cfg mem root st src raw p, listener_inv st -> 65468 <= mem ->
  v_single cfg = true -> memN src (l_clients st) = true ->
  decode (takeN (l_largest st + 4) raw) = Ok p ->
  (forall f m os, p <> Rrq f m os) -> (forall f m os, p <> Wrq f m os) ->
  listen_step cfg mem root st src raw = Ok (st, [ARoute p]).
Proof. exact routing_by_source. Qed.

(** Well-formed non-request packets (DATA, ACK, OACK, ERROR) from an endpoint that owns no
    transfer are answered with ERROR 4 from the listening port and change nothing. *)
Theorem C12_foreign_nonrequest_answered : forall cfg mem root st src raw p, listener_inv st -> 65468 <= mem ->
  memN src (l_clients st) = false ->
  decode (takeN ((if v_single cfg then l_largest st else max_request_packet_size) + 4) raw) = Ok p ->
  (forall f m os, p <> Rrq f m os) -> (forall f m os, p <> Wrq f m os) ->
  listen_step cfg mem root st src raw = Ok (st, [AReply true (Error EIllegalOperation msg_invalid_request)]).
Proof. exact foreign_nonrequest_answered. Qed.

(** The one shared piece of state other clients can influence - the size of the single-port
    receive buffer - only ever grows, and a datagram that fits is decoded alike whatever it is. *)
Theorem C12_buffer_growth_harmless : forall (raw : bytes) a b, lenN raw <= a + 4 -> a <= b -> takeN (b + 4) raw = takeN (a + 4) raw.
Proof. exact buffer_growth_harmless. Qed.

(** Non-vacuity: two clients; a request of client 2 and garbage of endpoint 9 in between leave client 1's worker alone. *)
Definition ex_root12 := NDir [([115], NDir [([102], NFile [1; 2; 3; 4; 5; 6; 7; 8; 9])])].
Definition ex_cfg12 := mk_srvcfg true false false true 0 [47; 115] [47; 115].
Definition rrq_f12 : bytes := [0; 1; 102; 0; 111; 0].
Example C12_ex_two_clients :
  let y1 := fst (sys_step ex_cfg12 65468 ex_root12 (mk_sys lstate_init []) (LArrive 1 rrq_f12)) in
  let y2 := fst (sys_run ex_cfg12 65468 ex_root12 y1 [LArrive 2 rrq_f12; LArrive 9 [0; 4; 0; 1]; LTimeout 2]) in
  y_get 1 (y_ws y2) = y_get 1 (y_ws y1) /\ y_get 1 (y_ws y1) <> None /\ y_get 2 (y_ws y2) <> None.
Proof. vm_compute. repeat split; discriminate. Qed.

Print Assumptions C12_foreign_run_preserves_worker.
Print Assumptions C12_routing_by_source.
Print Assumptions C12_foreign_nonrequest_answered.
