(** C02 - Upload fidelity.  Pinned statements only. *)
From Tftp Require Import Base.Prelude Model.Types Model.Consts Model.Codec Model.Window Model.Worker Model.Spec
  Proofs.CodecP Proofs.SpecP Proofs.WindowP Proofs.SendP Proofs.RecvP.
Local Open Scope N_scope.

(** For every event list (arrivals of any kind, duplicated, reordered, interleaved with
    stray and undecodable packets, timeouts): every ACK of the [j]-th burst was emitted when
    the file held exactly the concatenation of the blocks accepted in sequence among the
    first [j+1] arrivals - each once, in order - and it acknowledges their count mod 65536.
    [accepted] is the property's own definition of "received in sequence" (Model/Spec.v). *)
Theorem C02_ack_implies_stored : forall cfg evs st outs j burst a, wf_params (r_blk cfg) (r_ws cfg) ->
  run_recv cfg evs = (st, outs) -> nth_error outs j = Some burst -> In a burst ->
  let acc := accepted (r_blk cfg) 0 (firstn (S j) evs) in
  s_pk (a_sent a) = Ack (lenN acc mod 65536) /\ concat (rev (a_file a)) = concat acc.
Proof. exact recv_ack_implies_stored. Qed.

(** Success is reached exactly by accepting a short block in sequence; the file then is the
    concatenation of everything accepted in sequence, nothing is left in the buffer. *)
Theorem C02_final_file : forall cfg evs st outs, wf_params (r_blk cfg) (r_ws cfg) ->
  run_recv cfg evs = (st, outs) -> r_phase st = RDone OutOk ->
  written_bytes (w_file (r_w st)) = concat (accepted (r_blk cfg) 0 evs) /\
  existsb (short (r_blk cfg)) (accepted (r_blk cfg) 0 evs) = true /\
  w_elems (r_w st) = [].
Proof. exact recv_final. Qed.

(** Bytes reach the file only in arrival order: in every state file ++ buffer is the
    concatenation of the blocks accepted among some prefix of the arrivals. *)
Theorem C02_file_is_prefix : forall cfg evs st outs, wf_params (r_blk cfg) (r_ws cfg) ->
  run_recv cfg evs = (st, outs) ->
  exists k, written_bytes (w_file (r_w st)) ++ concat (w_elems (r_w st)) =
            concat (accepted (r_blk cfg) 0 (firstn k evs)).
Proof. exact recv_file_is_prefix. Qed.

(** The receive buffer is [blk + 4] bytes, so an accepted payload never exceeds the block size. *)
Theorem C02_payload_bounded : forall blk e n p, receive blk e = RPacket (Data n p) -> lenN p <= blk.
Proof. exact recv_payload_bounded. Qed.

(** One step: invariant for the extended history; every ACK leaves with an empty buffer. *)
Theorem C02_step : forall cfg hist st e st' out, wf_params (r_blk cfg) (r_ws cfg) ->
  RInv cfg hist st -> r_phase st = RRun -> recv_step cfg st e = (st', out) ->
  RInv cfg (hist ++ [e]) st' /\
  Forall (fun a => s_pk (a_sent a) = Ack (r_bn st') /\
                   a_file a = f_written (w_file (r_w st')) /\
                   w_elems (r_w st') = []) out.
Proof. exact recv_step_spec. Qed.

(** No "window full", no write on a closed descriptor, no panic in any reachable step. *)
Theorem C02_no_internal_error : forall cfg hist st e st', wf_params (r_blk cfg) (r_ws cfg) ->
  RInv cfg hist st -> r_phase st = RRun -> st' = fst (recv_step cfg st e) ->
  r_phase st' <> RDone OutWinAdd /\ r_phase st' <> RDone OutIo /\ r_phase st' <> RDone OutPanic
  /\ r_phase st' <> RDone OutWinRemove.
Proof. exact recv_step_no_internal_error. Qed.

(** With a conformant sender (its datagrams are blocks of its file, whatever is dropped,
    duplicated, reordered or mixed in) a completed upload is the sender's file. *)
Theorem C02_conformant_sender : forall cfg F evs st outs, wf_params (r_blk cfg) (r_ws cfg) ->
  nblk (r_blk cfg) F <= 65536 -> Forall (conformant (r_blk cfg) F) evs ->
  run_recv cfg evs = (st, outs) -> r_phase st = RDone OutOk ->
  written_bytes (w_file (r_w st)) = F.
Proof. exact recv_conformant_sender. Qed.

(** Non-vacuity: blocks 1, 1 (duplicate), 3 (ahead), 2, 3 (short) with window 2. *)
Definition ex_rcfg := mk_rcfg 4 2 1000000000 1 true [].
Definition ex_arrivals : list ev :=
  [EvDgram 0 [0; 3; 0; 1; 10; 11; 12; 13]; EvDgram 0 [0; 3; 0; 1; 10; 11; 12; 13];
   EvDgram 0 [0; 3; 0; 3; 18]; EvDgram 0 [0; 3; 0; 2; 14; 15; 16; 17]; EvDgram 0 [0; 3; 0; 3; 18]].
Example C02_ex_run :
  r_phase (fst (run_recv ex_rcfg ex_arrivals)) = RDone OutOk /\
  written_bytes (w_file (r_w (fst (run_recv ex_rcfg ex_arrivals)))) = [10; 11; 12; 13; 14; 15; 16; 17; 18] /\
  map (map (fun a => (s_pk (a_sent a), concat (rev (a_file a))))) (snd (run_recv ex_rcfg ex_arrivals)) =
    [[]; []; []; [(Ack 2, [10; 11; 12; 13; 14; 15; 16; 17])]; [(Ack 3, [10; 11; 12; 13; 14; 15; 16; 17; 18])]].
Proof. repeat split; vm_compute; reflexivity. Qed.

Print Assumptions C02_ack_implies_stored.
Print Assumptions C02_final_file.
Print Assumptions C02_conformant_sender.
