(** C08 - Window flow control; retransmission only on timeout or gap.  Pinned statements only. *)
From Tftp Require Import Base.Prelude Model.Types Model.Consts Model.Codec Model.Window Model.Worker Model.Spec
  Proofs.CodecP Proofs.SpecP Proofs.WindowP Proofs.SendP Proofs.RecvP.
Local Open Scope N_scope.

(** Never more than [ws] blocks outstanding: every burst is the current window, whose length
    the invariant bounds by [ws] in every reachable state, and whose front is the block after
    the last accepted acknowledgement. *)
Theorem C08_outstanding_le_ws : forall cfg F st, SInv cfg F st -> lenN (w_elems (s_w st)) <= s_ws cfg.
Proof. exact outstanding_le_ws. Qed.
Theorem C08_burst_is_window : forall cfg F st e st' out, wf_params (s_blk cfg) (s_ws cfg) ->
  s_fails cfg = [] -> SInv cfg F st -> send_step cfg st e = (st', out) ->
  out = [] \/ out = window_tx (N.to_nat (s_rep cfg)) (s_abs st') (w_elems (s_w st'))
  \/ (s_phase st = SAwaitOack /\ out = [mk_sent (Error EIllegalOperation invalid_oack_msg) false]).
Proof. exact send_step_burst_shape. Qed.

(** Acknowledgements are cumulative: after an accepted ACK for the block at distance [diff]
    from the window front, transmission resumes at the block after it. *)
Theorem C08_acks_cumulative : forall cfg F st e r st' out, wf_params (s_blk cfg) (s_ws cfg) ->
  SInv cfg F st -> s_phase st = SInWindow ->
  receive max_request_packet_size e = RPacket (Ack r) ->
  wsub16 r (s_bn st) < lenN (w_elems (s_w st)) ->
  send_step cfg st e = (st', out) ->
  s_abs st' = s_abs st + wsub16 r (s_bn st) + 1 /\ s_bn st' = s_abs st' mod 65536.
Proof. exact acks_cumulative. Qed.

(** A burst has exactly two possible causes: an ACK inside the current window (a new window;
    it retransmits blocks iff the ACK was partial, i.e. revealed a gap), or the negotiated
    timeout has elapsed since the last transmission. *)
Theorem C08_burst_causes : forall cfg F st e st' out, wf_params (s_blk cfg) (s_ws cfg) ->
  SInv cfg F st -> s_phase st = SInWindow ->
  send_step cfg st e = (st', out) -> out <> [] ->
  (exists r, receive max_request_packet_size e = RPacket (Ack r) /\
             wsub16 r (s_bn st) < lenN (w_elems (s_w st)))
  \/ s_tmo cfg <= s_since st + ev_delay e.
Proof. exact burst_causes. Qed.

(** For every window size 1..65535 a duplicate, stale or foreign ACK inside the timeout is
    inert: no transmission (no Sorcerer's-Apprentice doubling), no abort, no state change but
    the clock reading; it does not even count as a failed attempt. *)
Theorem C08_stale_ack_is_inert : forall cfg F st e r, wf_params (s_blk cfg) (s_ws cfg) ->
  SInv cfg F st -> s_phase st = SInWindow ->
  receive max_request_packet_size e = RPacket (Ack r) ->
  ~ (wsub16 r (s_bn st) < lenN (w_elems (s_w st))) ->
  s_since st + ev_delay e < s_tmo cfg ->
  send_step cfg st e = (with_since st (ev_delay e), []).
Proof. exact stale_ack_is_inert. Qed.

(** An ACK is accepted iff it names a block of the window (so: not a duplicate, not stale). *)
Theorem C08_accepted_iff_in_window : forall cfg F st r, wf_params (s_blk cfg) (s_ws cfg) ->
  SCore cfg F st -> r < 65536 ->
  let diff := wsub16 r (s_bn st) in
  (diff < lenN (w_elems (s_w st)) -> (s_abs st + diff) mod 65536 = r) /\
  (forall j, s_abs st <= j < s_abs st + lenN (w_elems (s_w st)) -> j mod 65536 = r ->
             j = s_abs st + diff /\ diff < lenN (w_elems (s_w st))).
Proof. exact ack_attribution_unique. Qed.

(** No arithmetic overflow, window misuse or file error in any reachable step (so Debug and
    Release builds behave alike). *)
Theorem C08_no_internal_error : forall cfg F st e st', wf_params (s_blk cfg) (s_ws cfg) ->
  SInv cfg F st -> (forall o, s_phase st <> SDone o) -> st' = fst (send_step cfg st e) ->
  receive max_request_packet_size e <> RPanic ->
  s_phase st' <> SDone OutPanic /\ s_phase st' <> SDone OutWinRemove /\
  s_phase st' <> SDone OutWinAdd /\ s_phase st' <> SDone OutIo.
Proof. exact send_step_no_internal_error. Qed.

(** Only failed receives count against the retry budget; an accepted ACK resets it. *)
Theorem C08_retry_counts_failures : forall cfg F st e st' out, wf_params (s_blk cfg) (s_ws cfg) ->
  SInv cfg F st -> s_phase st = SInWindow -> send_step cfg st e = (st', out) ->
  (forall o, s_phase st' <> SDone o) ->
  (is_failed_attempt (receive max_request_packet_size e) -> s_retry st' = s_retry st + 1) /\
  (forall r, receive max_request_packet_size e = RPacket (Ack r) ->
     if wsub16 r (s_bn st) <? lenN (w_elems (s_w st)) then s_retry st' = 0 else s_retry st' = s_retry st).
Proof. exact retry_counts_failures. Qed.

(** Receiver: an ACK at the latest after [ws] consecutive in-order blocks ... *)
Theorem C08_recv_acks_full_window : forall cfg hist st e n p, wf_params (r_blk cfg) (r_ws cfg) ->
  RInv cfg hist st -> r_phase st = RRun ->
  receive (r_blk cfg) e = RPacket (Data n p) -> n = wadd16 (r_bn st) 1 ->
  lenN (w_elems (r_w st)) + 1 = r_ws cfg -> 1 <= r_rep cfg ->
  exists st' out, recv_step cfg st e = (st', out) /\ out <> [] /\ w_elems (r_w st') = [] /\
    Forall (fun a => s_pk (a_sent a) = Ack n) out.
Proof. exact recv_acks_full_window. Qed.
Theorem C08_recv_buffer_below_ws : forall cfg hist st, RInv cfg hist st -> r_phase st = RRun ->
  lenN (w_elems (r_w st)) < r_ws cfg.
Proof. exact recv_buffer_below_ws. Qed.
(** ... and an out-of-sequence block is never written; it repeats the last ACK only when
    nothing is buffered. *)
Theorem C08_recv_out_of_sequence : forall cfg st e n p, r_phase st = RRun ->
  receive (r_blk cfg) e = RPacket (Data n p) -> n <> wadd16 (r_bn st) 1 ->
  exists st' out, recv_step cfg st e = (st', out) /\
    r_bn st' = r_bn st /\ r_w st' = r_w st /\ r_cnt st' = r_cnt st /\ r_retry st' = r_retry st /\
    Forall (fun a => s_pk (a_sent a) = Ack (r_bn st)) out /\
    (w_elems (r_w st) <> [] -> out = [] /\ st' = st) /\
    (w_elems (r_w st) = [] -> 1 <= r_rep cfg -> out <> []).
Proof. exact recv_out_of_sequence. Qed.

(** Non-vacuity: window size 65535, a stale ACK 0 after ACK 1 changes nothing (defect D3 before its repair). *)
Definition ex_big := mk_scfg 8 65535 1000000000 1 false [].
Definition ex_file20 : bytes := [1; 2; 3; 4; 5; 6; 7; 8; 9; 10; 11; 12; 13; 14; 15; 16; 17; 18; 19; 20].
Example C08_ex_stale_at_65535 :
  map (@length sent) (snd (run_send ex_big ex_file20 [EvDgram 0 [0; 4; 0; 1]; EvDgram 0 [0; 4; 0; 0]; EvDgram 0 [0; 4; 0; 1]])) = [3; 2; 0; 0]%nat
  /\ s_phase (fst (run_send ex_big ex_file20 [EvDgram 0 [0; 4; 0; 1]; EvDgram 0 [0; 4; 0; 0]; EvDgram 0 [0; 4; 0; 1]])) = SInWindow.
Proof. split; vm_compute; reflexivity. Qed.

Print Assumptions C08_outstanding_le_ws.
Print Assumptions C08_acks_cumulative.
Print Assumptions C08_burst_causes.
Print Assumptions C08_stale_ack_is_inert.
Print Assumptions C08_recv_acks_full_window.
