(** C09 - Option negotiation.  Pinned statements only. *)
From Tftp Require Import Base.Prelude Model.Types Model.Consts Model.Codec Model.Monitors Model.Server
  Proofs.CodecP Proofs.ServerP.
Local Open Scope N_scope.

(** The decoder keeps exactly the recognised options (names compared case-insensitively), in
    request order; unknown options are dropped. *)
Theorem C09_option_name_recognised : forall o, recognise (opt_name o) = Some o.
Proof. exact option_name_recognised. Qed.

(** [parse_options]: the list echoed in the OACK has the same options in the same order; every
    blksize / timeout / windowsize value equals the requested one and is within 8..65464 /
    1..255 / 1..65535; tsize is the file size on a read request and the client's value on a
    write request; the worker options are the last acknowledged value of each option, or the
    defaults. *)
Theorem C09_parse_options_spec : forall os rs acc w os', parse_options os rs acc = Some (w, os') ->
  Forall2 (echo_ok rs) os os' /\
  wo_blk w = last_val OBlkSize os' (wo_blk acc) /\
  wo_tmo_s w = last_val OTimeout os' (wo_tmo_s acc) /\
  wo_ws w = last_val OWindowSize os' (wo_ws acc) /\
  wo_tsize w = last_val OTSize os' (wo_tsize acc) /\
  (opts_in_range acc -> opts_in_range w).
Proof. exact parse_options_spec. Qed.

(** Values the server cannot honour (timeout 0, windowsize 0 or > 65535, blksize outside
    8..65464, timeout > 255) are never acknowledged: no option list comes back, the handlers
    send nothing.  Every other request is parsed. *)
Theorem C09_unhonourable_never_acked : forall os rs acc, existsb unhonourable os = true -> parse_options os rs acc = None.
Proof. exact unhonourable_never_acked. Qed.
Theorem C09_honourable_parsed : forall os rs acc, existsb unhonourable os = false ->
  exists w os', parse_options os rs acc = Some (w, os').
Proof. exact honourable_parsed. Qed.

(** An accepted read request: OACK exactly when at least one recognised option is present
    (otherwise the worker starts with DATA 1), and the worker gets the acknowledged values. *)
Theorem C09_handle_rrq : forall cfg root st src name os st' acts, listener_inv st ->
  handle_rrq cfg root st src name os = (st', acts) ->
  let path := join (v_sdir cfg) (convert_file_path name) in
  listener_inv st' /\
  match check_file_exists root path (v_sdir cfg) with
  | ChkViolation => st' = st /\ acts = [AReply true (Error EAccessViolation (msg_access_pre ++ path))]
  | ChkMissing => st' = st /\ acts = [AReply true (Error EFileNotFound (msg_not_found_pre ++ path ++ msg_not_found_post))]
  | ChkExists k =>
    let size := match k with FkFile n => n | _ => 0 end in
    match parse_options os (Some size) default_wopts with
    | None => st' = st /\ acts = []
    | Some (o, os') =>
      opts_in_range o /\
      acts = (match os' with [] => [] | _ => [AReply (v_single cfg) (Oack os')] end)
             ++ [ASpawnSend path o (v_dup cfg + 1) (match os' with [] => false | _ => true end)]
    end
  end.
Proof. exact handle_rrq_spec. Qed.

(** RFC 1350 defaults when nothing was acknowledged: 512 bytes, lock-step, 5 s. *)
Theorem C09_defaults : default_wopts = mk_wopts 512 0 5 1.
Proof. vm_compute. reflexivity. Qed.

(** Non-vacuity. *)
Example C09_ex_parse :
  parse_options [mk_opt OBlkSize 1024; mk_opt OTSize 0; mk_opt OBlkSize 16] (Some 77) default_wopts
    = Some (mk_wopts 16 77 5 1, [mk_opt OBlkSize 1024; mk_opt OTSize 77; mk_opt OBlkSize 16])
  /\ parse_options [mk_opt OTimeout 0] None default_wopts = None
  /\ parse_options [mk_opt OWindowSize 65536] None default_wopts = None
  /\ parse_options [mk_opt OBlkSize 7] None default_wopts = None.
Proof. repeat split; vm_compute; reflexivity. Qed.

Print Assumptions C09_parse_options_spec.
Print Assumptions C09_unhonourable_never_acked.
Print Assumptions C09_handle_rrq.
