(** C03 - Directory confinement.  Pinned statements only.  File-system behaviour is the small
    POSIX model of Model/Server.v (lexical resolution, no symbolic links, Unix separators). *)
From Tftp Require Import Base.Prelude Model.Types Model.Consts Model.Codec Model.Server Proofs.ServerP.
Local Open Scope N_scope.

(** [convert_file_path] always yields a relative name without backslashes - for every string. *)
Theorem C03_convert_is_relative : forall name,
  is_absolute (convert_file_path name) = false /\ ~ In backslash (convert_file_path name).
Proof. exact convert_is_relative. Qed.

(** A request name that passes validation resolves inside the directory: the path the server
    opens consists of the directory's components followed by components none of which is "..",
    "." or empty, and whatever the kernel finds there is reached by walking down from the
    directory's own node.  Absolute names, ".." anywhere, mixed or repeated separators,
    prefix-sharing sibling names: all covered, the name is universally quantified. *)
Theorem C03_validate_confines : forall dir name root, dir <> [] ->
  validate_file_path (join dir (convert_file_path name)) dir = true ->
  let p := join dir (convert_file_path name) in
  let rel := kernel_segs (convert_file_path name) in
  kernel_segs p = kernel_segs dir ++ rel /\
  Forall (fun s => is_dotdot s = false /\ normal s = true) rel /\
  (forall nd, stat root p = Some nd ->
     exists d, walk root (kernel_segs dir) = Some d /\ walk d rel = Some nd).
Proof. exact validate_confines. Qed.

Theorem C03_no_dotdot_component : forall p seg, has_dotdot p = false -> In seg (split_slash [] p) -> is_dotdot seg = false.
Proof. exact no_dotdot_component. Qed.

(** Creating or replacing a file below a directory leaves every path that diverges from it
    unchanged (writes cannot leak out of the receive directory). *)
Theorem C03_write_frame : forall segs nd c nd' other, write_file nd segs c = Some nd' ->
  diverges other segs = true -> walk nd' other = walk nd other.
Proof. exact write_frame. Qed.

(** A name that fails validation is answered with ERROR 2 from the listening port; the
    listener state is unchanged and nothing is spawned: no file-system effect. *)
Theorem C03_violation_refused_read : forall cfg root st src name os,
  validate_file_path (join (v_sdir cfg) (convert_file_path name)) (v_sdir cfg) = false ->
  handle_rrq cfg root st src name os =
    (st, [AReply true (Error EAccessViolation (msg_access_pre ++ join (v_sdir cfg) (convert_file_path name)))]).
Proof. exact violation_refused. Qed.
Theorem C03_violation_refused_write : forall cfg root st src name os,
  validate_file_path (join (v_rdir cfg) (convert_file_path name)) (v_rdir cfg) = false ->
  handle_wrq cfg root st src name os =
    (st, [AReply true (Error EAccessViolation (msg_access_pre ++ join (v_rdir cfg) (convert_file_path name)))]).
Proof. exact violation_refused_wrq. Qed.

(** Every file a handler touches is [join send_dir (convert name)] (reads) or
    [join receive_dir (convert name)] (writes) for a name that passed validation. *)
Theorem C03_reads_only_send_dir : forall cfg root st src name os st' acts, listener_inv st ->
  handle_rrq cfg root st src name os = (st', acts) ->
  forall p o rep chk, In (ASpawnSend p o rep chk) acts ->
  p = join (v_sdir cfg) (convert_file_path name) /\ validate_file_path p (v_sdir cfg) = true.
Proof.
  intros cfg root st src name os st' acts Hi H p o rep chk Hin.
  pose proof (handle_rrq_spec _ _ _ _ _ _ _ _ Hi H) as [_ Hs]. cbv zeta in Hs.
  unfold check_file_exists in Hs.
  destruct (validate_file_path (join (v_sdir cfg) (convert_file_path name)) (v_sdir cfg)) eqn:V; cbn [negb] in Hs.
  - destruct (kind_of root _); try (destruct Hs as [_ ->]; destruct Hin as [X|[]]; discriminate).
    + destruct (parse_options _ _ _) as [[o' os']|]; [|destruct Hs as [_ ->]; contradiction].
      destruct Hs as [_ ->]. apply in_app_or in Hin. destruct Hin as [Hin|[Hin|[]]].
      * destruct os'; [contradiction|]. destruct Hin as [X|[]]; discriminate.
      * inversion Hin; subst. split; [reflexivity|exact V].
    + destruct (parse_options _ _ _) as [[o' os']|]; [|destruct Hs as [_ ->]; contradiction].
      destruct Hs as [_ ->]. apply in_app_or in Hin. destruct Hin as [Hin|[Hin|[]]].
      * destruct os'; [contradiction|]. destruct Hin as [X|[]]; discriminate.
      * inversion Hin; subst. split; [reflexivity|exact V].
  - destruct Hs as [_ ->]. destruct Hin as [X|[]]; discriminate.
Qed.

(** Non-vacuity: some names against the directory "/R/srv". *)
Definition d_srv : bytes := [47; 82; 47; 115; 114; 118].
Example C03_ex_names :
  validate_file_path (join d_srv (convert_file_path [46; 46; 47; 120])) d_srv = false            (* ../x *)
  /\ validate_file_path (join d_srv (convert_file_path [47; 47; 82; 47; 115; 114; 118; 45; 120; 47; 115])) d_srv = true  (* //R/srv-x/s -> /R/srv/R/srv-x/s *)
  /\ join d_srv (convert_file_path [47; 47; 82; 47; 115; 114; 118; 45; 120; 47; 115]) = d_srv ++ [47; 82; 47; 115; 114; 118; 45; 120; 47; 115]
  /\ validate_file_path (join d_srv (convert_file_path [97; 92; 46; 46; 92; 98])) d_srv = false   (* a\..\b *)
  /\ validate_file_path (join d_srv (convert_file_path [115; 117; 98; 47; 46; 47; 98])) d_srv = true. (* sub/./b *)
Proof. repeat split; vm_compute; reflexivity. Qed.

Print Assumptions C03_validate_confines.
Print Assumptions C03_write_frame.
Print Assumptions C03_reads_only_send_dir.
Print Assumptions C03_convert_is_relative.
