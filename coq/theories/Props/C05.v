(** C05 - Listener availability.  Pinned statements only (the listener's decision logic; OS
    resource exhaustion is outside the model, see DESIGN.md). *)
From Tftp Require Import Base.Prelude Model.Types Model.Consts Model.Codec Model.Server Proofs.CodecP Proofs.ServerP.
Local Open Scope N_scope.

(** The receive buffer of the listener never exceeds 65464 + 4 bytes and never shrinks below
    512 + 4: under this invariant no datagram - any byte string, any source - makes the
    listener panic or abort; it answers or drops it and the invariant still holds. *)
Theorem C05_listen_step_total : forall cfg mem root st src raw, listener_inv st -> 65468 <= mem ->
  exists st' acts, listen_step cfg mem root st src raw = Ok (st', acts) /\ listener_inv st'.
Proof. exact listen_step_total. Qed.

Theorem C05_initial_invariant : listener_inv lstate_init.
Proof. exact lstate_init_inv. Qed.

(** For every history of datagrams (any length, any interleaving of sources, the file system
    evolving arbitrarily in between), in both port modes, read-only or not: the listener is
    still running afterwards. *)
Theorem C05_listener_never_dies : forall cfg mem roots h st i, listener_inv st -> 65468 <= mem ->
  exists st', listen_run cfg mem roots st h i = Ok st' /\ listener_inv st'.
Proof. exact listener_never_dies. Qed.

(** In multi-port mode the answer to a datagram does not depend on the listener state at all:
    whatever was sent before, a valid request is answered as by a fresh server. *)
Theorem C05_multi_port_stateless : forall cfg mem root st1 st2 src raw, v_single cfg = false ->
  match listen_step cfg mem root st1 src raw, listen_step cfg mem root st2 src raw with
  | Ok (_, a1), Ok (_, a2) => a1 = a2
  | Panic, Panic | Abort, Abort => True
  | Err _, Err _ => True
  | _, _ => False
  end.
Proof. exact multi_port_stateless. Qed.

(** Option values are validated before use: whatever a request carries, the parameters handed
    to a worker are within 8..65464 / 1..255 s / 1..65535 (so no worker allocation or timer
    arithmetic can overflow), and unhonourable values produce no worker at all. *)
Theorem C05_spawn_params_safe : forall os rs acc w os', parse_options os rs acc = Some (w, os') ->
  opts_in_range acc -> opts_in_range w.
Proof. intros os rs acc w os' H. exact (proj2 (proj2 (proj2 (proj2 (proj2 (parse_options_spec _ _ _ _ _ H)))))). Qed.

(** The decoder under the listener never panics, for any byte string. *)
Theorem C05_decode_never_panics : forall buf : bytes, decode buf <> Panic /\ decode buf <> Abort /\ decode buf <> Err EFuel.
Proof. exact decode_never_panics. Qed.

(** Non-vacuity: the datagrams that killed the server before the D5 repair. *)
Definition rrq_blksize_2_63 : bytes :=
  [0; 1; 102; 0; 111; 0; 98; 108; 107; 115; 105; 122; 101; 0; 57; 50; 50; 51; 51; 55; 50; 48; 51; 54; 56; 53; 52; 55; 55; 53; 56; 48; 56; 0].
Example C05_ex_hostile_blksize :
  listen_step (mk_srvcfg true false false true 0 [47; 115] [47; 115]) 65468 (NDir [([115], NDir [([102], NFile [1; 2; 3])])]) lstate_init 1 rrq_blksize_2_63
  = Ok (lstate_init, []).
Proof. vm_compute. reflexivity. Qed.

Print Assumptions C05_listen_step_total.
Print Assumptions C05_listener_never_dies.
Print Assumptions C05_multi_port_stateless.
