(** C06 - Access policy.  Pinned statements only. *)
From Tftp Require Import Base.Prelude Model.Types Model.Consts Model.Codec Model.Server Proofs.ServerP.
Local Open Scope N_scope.

(** Read-only mode: every write request is answered with ERROR 2 from the listening port,
    before any path handling; state unchanged, nothing spawned. *)
Theorem C06_read_only_refuses_wrq : forall cfg mem root st src raw f m os, v_ro cfg = true ->
  (let size := if v_single cfg then l_largest st else max_request_packet_size in
   isize_max <? size + 4 = false /\ mem <? size + 4 = false /\ decode (takeN (size + 4) raw) = Ok (Wrq f m os)) ->
  listen_step cfg mem root st src raw = Ok (st, [AReply true (Error EAccessViolation msg_read_only)]).
Proof. exact read_only_refuses_wrq. Qed.

(** Without overwrite, a write request naming an existing file (or directory) is refused with
    ERROR 6; state unchanged, nothing spawned - the file stays byte-identical. *)
Theorem C06_no_overwrite_refuses_existing : forall cfg root st src name os k, v_over cfg = false ->
  check_file_exists root (join (v_rdir cfg) (convert_file_path name)) (v_rdir cfg) = ChkExists k ->
  handle_wrq cfg root st src name os = (st, [AReply true (Error EFileExists msg_exists)]).
Proof. exact no_overwrite_refuses_existing. Qed.

(** A read request for a missing file is refused with ERROR 1. *)
Theorem C06_rrq_missing_refused : forall cfg root st src name os,
  check_file_exists root (join (v_sdir cfg) (convert_file_path name)) (v_sdir cfg) = ChkMissing ->
  handle_rrq cfg root st src name os =
    (st, [AReply true (Error EFileNotFound (msg_not_found_pre ++ join (v_sdir cfg) (convert_file_path name) ++ msg_not_found_post))]).
Proof. exact rrq_missing_refused. Qed.

(** Refusals come from the listening port, start no transfer and leave the listener state alone:
    an action list that contains an ERROR is exactly that one ERROR, sent by the listener. *)
Theorem C06_refusals_start_nothing : forall cfg mem root st src raw st' acts, listener_inv st ->
  listen_step cfg mem root st src raw = Ok (st', acts) -> existsb is_error_reply acts = true ->
  st' = st /\ exists c m, acts = [AReply true (Error c m)].
Proof. exact refusals_start_nothing. Qed.

(** The complete case analysis of a write request (policy x target state x options). *)
Theorem C06_handle_wrq_table : forall cfg root st src name os st' acts, listener_inv st ->
  handle_wrq cfg root st src name os = (st', acts) ->
  let path := join (v_rdir cfg) (convert_file_path name) in
  let init_ok :=
    match parse_options os None default_wopts with
    | None => st' = st /\ acts = []
    | Some (o, os') =>
      opts_in_range o /\
      acts = [AReply (v_single cfg) (match os' with [] => Ack 0 | _ => Oack os' end);
              ASpawnRecv path o (v_dup cfg + 1) (v_clean cfg)]
    end in
  listener_inv st' /\
  match check_file_exists root path (v_rdir cfg) with
  | ChkViolation => st' = st /\ acts = [AReply true (Error EAccessViolation (msg_access_pre ++ path))]
  | ChkMissing => init_ok
  | ChkExists _ => if v_over cfg then init_ok else st' = st /\ acts = [AReply true (Error EFileExists msg_exists)]
  end.
Proof. exact handle_wrq_spec. Qed.

(** With overwrite the accepted upload starts by truncating the target ([File::create] in the
    file-system model: the old content is gone whatever its length). *)
Theorem C06_create_replaces : forall es s old new, lookup_entry s es = Some (NFile old) ->
  write_file (NDir es) [s] new = Some (NDir (set_entry s (NFile new) es)) /\
  lookup_entry s (set_entry s (NFile new) es) = Some (NFile new).
Proof. intros es s old new H. cbn [write_file]. rewrite H. split; [reflexivity|apply lookup_set_same]. Qed.

(** Non-vacuity. *)
Definition ex_root := NDir [([115], NDir [([102], NFile [1; 2; 3])])].
Definition wrq_f : bytes := [0; 2; 102; 0; 111; 0].
Example C06_ex_table :
  listen_step (mk_srvcfg false true false true 0 [47; 115] [47; 115]) 65468 ex_root lstate_init 1 wrq_f
    = Ok (lstate_init, [AReply true (Error EAccessViolation msg_read_only)])
  /\ listen_step (mk_srvcfg false false false true 0 [47; 115] [47; 115]) 65468 ex_root lstate_init 1 wrq_f
    = Ok (lstate_init, [AReply true (Error EFileExists msg_exists)])
  /\ listen_step (mk_srvcfg false false true true 0 [47; 115] [47; 115]) 65468 ex_root lstate_init 1 wrq_f
    = Ok (lstate_init, [AReply false (Ack 0); ASpawnRecv [47; 115; 47; 102] default_wopts 1 true]).
Proof. repeat split; vm_compute; reflexivity. Qed.

Print Assumptions C06_read_only_refuses_wrq.
Print Assumptions C06_refusals_start_nothing.
Print Assumptions C06_handle_wrq_table.
