(** C04 - Loss tolerance.  Pinned statements only.

    What is proved for unbounded transfers (every file, block size, window size):
    - the closed system of a sending and a receiving worker over two channels is SAFE under every
      fault schedule (drops, duplicates, reorderings, in any number): the receiver's file is always
      a block prefix of the sender's, success of the receiver means the exact file, success of the
      sender implies success of the receiver ([C04_closed_system_safe], files up to 65535 blocks);
    - it is LIVE without faults and with any ONE disturbed datagram, DATA or ACK, wherever it
      falls - lost, repeated, or held back and released behind its successor (reordered):
      [C04_no_loss_completes], [C04_one_lost_*], [C04_one_repeated_*], [C04_one_reordered_*],
      summed up in [C04_single_fault] (duplicate-packets mode off; time-outs at quiescence); a lost
      or forever-held final ACK is the exception RFC 1350 allows: the receiver holds the complete
      file, the sender gives up;
    - the local mechanisms of recovery (stale ACKs inert and free, retry budget counts failed
      receives only, repeated block re-triggers the ACK).
    - it is LIVE under ANY NUMBER of lost DATA datagrams no two of which are within two windows
      of datagrams of each other ([C04_spaced_data_losses_complete]) and under any number of lost
      ACKs no two of which are within one window ([C04_spaced_ack_losses_complete]): every window
      is then hit at most once, each loss costs one time-out, the retry counter starts afresh.
    What is NOT proved: liveness under faults that fall closer together than that (up to the
    retry budget: the property's general clause), mixed schedules, and duplicate-packets mode with
    faults.  For those the safety theorem holds, the finite enumeration [C04_single_fault_small]
    (independent of the round induction) stands, and the W-PAIR co-simulation suite decides seeded
    multi-fault schedules against the real workers. *)
From Coq Require Import Lia.
From Tftp Require Import Base.Prelude Model.Types Model.Consts Model.Codec Model.Window Model.Worker Model.Spec
  Model.Server Model.Net Proofs.CodecP Proofs.SpecP Proofs.WindowP Proofs.SendP Proofs.RecvP Proofs.NetP
  Proofs.CosimP Proofs.CosimLive.
Local Open Scope N_scope.

(** Loss-free baseline, any file, block size, window size, repeat count. *)
Theorem C04_download_completes : forall cfg F, wf_params (s_blk cfg) (s_ws cfg) -> s_fails cfg = [] -> s_check cfg = false ->
  let nb := nblk (s_blk cfg) F in
  exists st outs, run_send cfg F (ideal_acks (S (N.to_nat nb)) (s_ws cfg) nb 0) = (st, outs) /\ s_phase st = SDone OutOk.
Proof. exact download_completes. Qed.
Theorem C04_upload_completes : forall cfg F, wf_params (r_blk cfg) (r_ws cfg) -> r_fails cfg = [] -> 1 <= r_rep cfg ->
  let nb := nblk (r_blk cfg) F in
  exists st outs, run_recv cfg (ideal_datas (r_blk cfg) F 1 (N.to_nat nb)) = (st, outs) /\
    r_phase st = RDone OutOk /\ written_bytes (w_file (r_w st)) = F.
Proof. exact upload_completes. Qed.

(** Sender: a duplicate / stale ACK changes nothing and does not count against the budget;
    only failed receives do, and an accepted ACK resets the count. *)
Theorem C04_stale_ack_is_inert : forall cfg F st e r, wf_params (s_blk cfg) (s_ws cfg) ->
  SInv cfg F st -> s_phase st = SInWindow ->
  receive max_request_packet_size e = RPacket (Ack r) ->
  ~ (wsub16 r (s_bn st) < lenN (w_elems (s_w st))) ->
  s_since st + ev_delay e < s_tmo cfg ->
  send_step cfg st e = (with_since st (ev_delay e), []).
Proof. exact stale_ack_is_inert. Qed.
Theorem C04_retry_counts_failures : forall cfg F st e st' out, wf_params (s_blk cfg) (s_ws cfg) ->
  SInv cfg F st -> s_phase st = SInWindow -> send_step cfg st e = (st', out) ->
  (forall o, s_phase st' <> SDone o) ->
  (is_failed_attempt (receive max_request_packet_size e) -> s_retry st' = s_retry st + 1) /\
  (forall r, receive max_request_packet_size e = RPacket (Ack r) ->
     if wsub16 r (s_bn st) <? lenN (w_elems (s_w st)) then s_retry st' = 0 else s_retry st' = s_retry st).
Proof. exact retry_counts_failures. Qed.

(** Receiver: a block that arrives again while nothing is buffered repeats the last ACK (this
    is what lets a sender whose ACK was lost move on); with blocks buffered it is ignored;
    either way nothing is written twice and the retry count is untouched. *)
Theorem C04_recv_reacks : forall cfg st e n p, r_phase st = RRun ->
  receive (r_blk cfg) e = RPacket (Data n p) -> n <> wadd16 (r_bn st) 1 ->
  exists st' out, recv_step cfg st e = (st', out) /\
    r_bn st' = r_bn st /\ r_w st' = r_w st /\ r_cnt st' = r_cnt st /\ r_retry st' = r_retry st /\
    Forall (fun a => s_pk (a_sent a) = Ack (r_bn st)) out /\
    (w_elems (r_w st) <> [] -> out = [] /\ st' = st) /\
    (w_elems (r_w st) = [] -> 1 <= r_rep cfg -> out <> []).
Proof. exact recv_out_of_sequence. Qed.

(** Whatever is lost, duplicated, reordered: an upload that completes holds the sender's file. *)
Theorem C04_completed_upload_is_exact : forall cfg F evs st outs, wf_params (r_blk cfg) (r_ws cfg) ->
  conformant_fresh (r_blk cfg) F evs ->
  run_recv cfg evs = (st, outs) -> r_phase st = RDone OutOk ->
  written_bytes (w_file (r_w st)) = F.
Proof. exact recv_conformant_sender_any_length. Qed.

(** Every single fault (drop, duplicate, hold-and-swap) at every position in either direction,
    block size 8, window sizes 1..3, nine file lengths around block / window boundaries: the
    receiving side completes with exactly the file, and the sending side completes too unless
    the very last ACK was lost (RFC 1350's exception).  2592 co-simulations evaluated by the
    kernel ([vm_compute]); a finite domain enumerated completely. *)
Theorem C04_single_fault_small : forall ws len dir i k,
  In ws small_windows -> In len small_sizes -> In i positions -> In k all_kinds ->
  single_fault_ok ws (pattern_file len) dir i k = true.
Proof. exact single_fault_small. Qed.

(** Closed system, safety, every fault schedule. *)
Theorem C04_closed_system_safe : forall sc rc f_sr f_rs F,
  wf_params (s_blk sc) (s_ws sc) -> r_blk rc = s_blk sc -> r_ws rc = s_ws sc -> s_check sc = false ->
  r_fails rc = [] -> 1 <= r_rep rc -> forall fuel, nblk (s_blk sc) F <= 65535 ->
  let p := pair_run sc rc f_sr f_rs fuel (pair_init sc rc f_sr F) in
  (exists c, c <= nblk (s_blk sc) F /\
     written_bytes (w_file (r_w (p_r p))) ++ concat (w_elems (r_w (p_r p))) = takeN (c * s_blk sc) F) /\
  (r_phase (p_r p) = RDone OutOk -> written_bytes (w_file (r_w (p_r p))) = F) /\
  (s_phase (p_s p) = SDone OutOk -> r_phase (p_r p) = RDone OutOk /\ written_bytes (w_file (r_w (p_r p))) = F).
Proof. exact cosim_safe. Qed.

(** Closed system, liveness: no loss; one lost DATA datagram; one lost ACK - any file, any
    block size, any window size, any position. *)
Theorem C04_no_loss_completes : forall sc rc F,
  wf_params (s_blk sc) (s_ws sc) -> r_blk rc = s_blk sc -> r_ws rc = s_ws sc -> s_check sc = false ->
  s_fails sc = [] -> r_fails rc = [] -> s_rep sc = 1 -> r_rep rc = 1 -> 0 < s_tmo sc ->
  exists fuel, let p := pair_run sc rc [] [] fuel (pair_init sc rc [] F) in
    r_phase (p_r p) = RDone OutOk /\ written_bytes (w_file (r_w (p_r p))) = F /\ s_phase (p_s p) = SDone OutOk.
Proof. exact cosim_perfect. Qed.
Theorem C04_one_lost_data_completes : forall sc rc F,
  wf_params (s_blk sc) (s_ws sc) -> r_blk rc = s_blk sc -> r_ws rc = s_ws sc -> s_check sc = false ->
  s_fails sc = [] -> r_fails rc = [] -> s_rep sc = 1 -> r_rep rc = 1 -> 0 < s_tmo sc ->
  forall i, exists fuel,
    let p := pair_run sc rc [(i, NfDrop)] [] fuel (pair_init sc rc [(i, NfDrop)] F) in
    r_phase (p_r p) = RDone OutOk /\ written_bytes (w_file (r_w (p_r p))) = F /\ s_phase (p_s p) = SDone OutOk.
Proof. exact cosim_data_drop. Qed.
Theorem C04_one_lost_ack_completes : forall sc rc F,
  wf_params (s_blk sc) (s_ws sc) -> r_blk rc = s_blk sc -> r_ws rc = s_ws sc -> s_check sc = false ->
  s_fails sc = [] -> r_fails rc = [] -> s_rep sc = 1 -> r_rep rc = 1 -> 0 < s_tmo sc ->
  forall i, exists fuel,
    let p := pair_run sc rc [] [(i, NfDrop)] fuel (pair_init sc rc [] F) in
    r_phase (p_r p) = RDone OutOk /\ written_bytes (w_file (r_w (p_r p))) = F /\
    (s_phase (p_s p) = SDone OutOk \/ ch_n (p_rs p) = i + 1).
Proof. exact cosim_ack_drop. Qed.

Theorem C04_one_repeated_data_completes : forall sc rc F,
  wf_params (s_blk sc) (s_ws sc) -> r_blk rc = s_blk sc -> r_ws rc = s_ws sc -> s_check sc = false ->
  s_fails sc = [] -> r_fails rc = [] -> s_rep sc = 1 -> r_rep rc = 1 -> 0 < s_tmo sc ->
  forall i, exists fuel,
    let p := pair_run sc rc [(i, NfDup)] [] fuel (pair_init sc rc [(i, NfDup)] F) in
    r_phase (p_r p) = RDone OutOk /\ written_bytes (w_file (r_w (p_r p))) = F /\ s_phase (p_s p) = SDone OutOk.
Proof. exact cosim_data_dup. Qed.
Theorem C04_one_repeated_ack_completes : forall sc rc F,
  wf_params (s_blk sc) (s_ws sc) -> r_blk rc = s_blk sc -> r_ws rc = s_ws sc -> s_check sc = false ->
  s_fails sc = [] -> r_fails rc = [] -> s_rep sc = 1 -> r_rep rc = 1 -> 0 < s_tmo sc ->
  forall i, exists fuel,
    let p := pair_run sc rc [] [(i, NfDup)] fuel (pair_init sc rc [] F) in
    r_phase (p_r p) = RDone OutOk /\ written_bytes (w_file (r_w (p_r p))) = F /\ s_phase (p_s p) = SDone OutOk.
Proof. exact cosim_ack_dup. Qed.

Theorem C04_one_reordered_data_completes : forall sc rc F,
  wf_params (s_blk sc) (s_ws sc) -> r_blk rc = s_blk sc -> r_ws rc = s_ws sc -> s_check sc = false ->
  s_fails sc = [] -> r_fails rc = [] -> s_rep sc = 1 -> r_rep rc = 1 -> 0 < s_tmo sc ->
  forall i, exists fuel,
    let p := pair_run sc rc [(i, NfHold)] [] fuel (pair_init sc rc [(i, NfHold)] F) in
    r_phase (p_r p) = RDone OutOk /\ written_bytes (w_file (r_w (p_r p))) = F /\ s_phase (p_s p) = SDone OutOk.
Proof. exact cosim_data_hold. Qed.
Theorem C04_one_reordered_ack_completes : forall sc rc F,
  wf_params (s_blk sc) (s_ws sc) -> r_blk rc = s_blk sc -> r_ws rc = s_ws sc -> s_check sc = false ->
  s_fails sc = [] -> r_fails rc = [] -> s_rep sc = 1 -> r_rep rc = 1 -> 0 < s_tmo sc ->
  forall i, exists fuel,
    let p := pair_run sc rc [] [(i, NfHold)] fuel (pair_init sc rc [] F) in
    r_phase (p_r p) = RDone OutOk /\ written_bytes (w_file (r_w (p_r p))) = F /\
    (s_phase (p_s p) = SDone OutOk \/ ch_n (p_rs p) = i + 1).
Proof. exact cosim_ack_hold. Qed.

(** Any number of losses in one direction, spaced so that no window (nor its retransmission) is
    hit twice. *)
Theorem C04_spaced_data_losses_complete : forall sc rc F,
  wf_params (s_blk sc) (s_ws sc) -> r_blk rc = s_blk sc -> r_ws rc = s_ws sc -> s_check sc = false ->
  s_fails sc = [] -> r_fails rc = [] -> s_rep sc = 1 -> r_rep rc = 1 -> 0 < s_tmo sc ->
  forall is, spaced (2 * s_ws sc) 0 is -> exists fuel,
    let f := map (fun i => (i, NfDrop)) is in
    let p := pair_run sc rc f [] fuel (pair_init sc rc f F) in
    r_phase (p_r p) = RDone OutOk /\ written_bytes (w_file (r_w (p_r p))) = F /\ s_phase (p_s p) = SDone OutOk.
Proof. exact cosim_data_drops. Qed.
Theorem C04_spaced_ack_losses_complete : forall sc rc F,
  wf_params (s_blk sc) (s_ws sc) -> r_blk rc = s_blk sc -> r_ws rc = s_ws sc -> s_check sc = false ->
  s_fails sc = [] -> r_fails rc = [] -> s_rep sc = 1 -> r_rep rc = 1 -> 0 < s_tmo sc ->
  forall is, spaced (s_ws sc) 0 is -> exists fuel,
    let f := map (fun i => (i, NfDrop)) is in
    let p := pair_run sc rc [] f fuel (pair_init sc rc [] F) in
    r_phase (p_r p) = RDone OutOk /\ written_bytes (w_file (r_w (p_r p))) = F /\
    (s_phase (p_s p) = SDone OutOk \/ In (ch_n (p_rs p) - 1) is).
Proof. exact cosim_ack_drops. Qed.

(** Non-vacuity of the spacing premise: losses of the datagrams 3, 30 and 70 with window size 8. *)
Example C04_ex_spaced : spaced (2 * 8) 0 [3; 30; 70].
Proof. cbn [spaced]. repeat split; lia. Qed.

(** The closed-system statement for every kind of single fault of the network model (delivered,
    lost, repeated, held back), either direction, every position, every file, block size and
    window size: the receiving side completes and keeps its file. *)
Definition C04_single_fault_statement : Prop :=
  forall (blk ws : N) (F : bytes) (dir : bool) (i : N) (k : fault), 0 < blk -> 1 <= ws <= 65535 ->
  exists fuel,
    let sc := mk_scfg blk ws 1000000000 1 false [] in
    let rc := mk_rcfg blk ws 1000000000 1 true [] in
    let f1 := if dir then [(i, k)] else [] in
    let f2 := if dir then [] else [(i, k)] in
    let p := pair_run sc rc f1 f2 fuel (pair_init sc rc f1 F) in
    r_phase (p_r p) = RDone OutOk /\ recv_final_file rc (p_r p) <> None.
Theorem C04_single_fault : C04_single_fault_statement.
Proof. exact single_fault_statement_holds. Qed.

Example C04_ex_lost_ack :
  single_fault_ok 1 (pattern_file 17) false 0 NfDrop = true /\ single_fault_ok 2 (pattern_file 17) true 1 NfHold = true.
Proof. split; vm_compute; reflexivity. Qed.

Print Assumptions C04_closed_system_safe.
Print Assumptions C04_no_loss_completes.
Print Assumptions C04_one_lost_data_completes.
Print Assumptions C04_one_lost_ack_completes.
Print Assumptions C04_one_repeated_data_completes.
Print Assumptions C04_one_repeated_ack_completes.
Print Assumptions C04_one_reordered_data_completes.
Print Assumptions C04_one_reordered_ack_completes.
Print Assumptions C04_single_fault.
Print Assumptions C04_spaced_data_losses_complete.
Print Assumptions C04_spaced_ack_losses_complete.
Print Assumptions C04_download_completes.
Print Assumptions C04_upload_completes.
Print Assumptions C04_single_fault_small.
Print Assumptions C04_recv_reacks.
