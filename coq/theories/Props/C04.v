(** C04 - Loss tolerance.  Pinned statements only.

    What is proved for unbounded transfers: the loss-free baseline (both loops complete against a
    conformant peer, any length / block size / window), and the local mechanisms that make
    recovery work (stale ACKs are inert and do not consume the retry budget, the retry budget
    counts exactly failed receives, a repeated block re-triggers the ACK, silence ends after
    the budget).  What is proved only on a finite domain (by exhaustive computation inside Coq):
    every single fault of every kind at every position, on small transfers.  The closed-system
    statement for all lengths and windows ([C04_single_fault_statement] below) is NOT proved;
    beyond the finite domain it is decided by the W-PAIR co-simulation suite. *)
From Tftp Require Import Base.Prelude Model.Types Model.Consts Model.Codec Model.Window Model.Worker Model.Spec
  Model.Server Model.Net Proofs.CodecP Proofs.SpecP Proofs.WindowP Proofs.SendP Proofs.RecvP Proofs.NetP.
Local Open Scope N_scope.

(** Loss-free baseline, any file, block size, window size, repeat count. *)
Theorem C04_download_completes : forall cfg F, wf_params (s_blk cfg) (s_ws cfg) -> s_fails cfg = [] -> s_check cfg = false ->
  let nb := nblk (s_blk cfg) F in
  exists st outs, run_send cfg F (ideal_acks (S (N.to_nat nb)) (s_ws cfg) nb 0) = (st, outs) /\ s_phase st = SDone OutOk.
Proof. exact download_completes. Qed.
Theorem C04_upload_completes : forall cfg F, wf_params (r_blk cfg) (r_ws cfg) -> r_fails cfg = [] -> 1 <= r_rep cfg ->
  let nb := nblk (r_blk cfg) F in
  exists st outs, run_recv cfg (ideal_datas (r_blk cfg) F 1 (N.to_nat nb)) = (st, outs) /\
    r_phase st = RDone OutOk /\ written_bytes (w_file (r_w st)) = F.
Proof. exact upload_completes. Qed.

(** Sender: a duplicate / stale ACK changes nothing and does not count against the budget;
    only failed receives do, and an accepted ACK resets the count. *)
Theorem C04_stale_ack_is_inert : forall cfg F st e r, wf_params (s_blk cfg) (s_ws cfg) ->
  SInv cfg F st -> s_phase st = SInWindow ->
  receive max_request_packet_size e = RPacket (Ack r) ->
  ~ (wsub16 r (s_bn st) < lenN (w_elems (s_w st))) ->
  s_since st + ev_delay e < s_tmo cfg ->
  send_step cfg st e = (with_since st (ev_delay e), []).
Proof. exact stale_ack_is_inert. Qed.
Theorem C04_retry_counts_failures : forall cfg F st e st' out, wf_params (s_blk cfg) (s_ws cfg) ->
  SInv cfg F st -> s_phase st = SInWindow -> send_step cfg st e = (st', out) ->
  (forall o, s_phase st' <> SDone o) ->
  (is_failed_attempt (receive max_request_packet_size e) -> s_retry st' = s_retry st + 1) /\
  (forall r, receive max_request_packet_size e = RPacket (Ack r) ->
     if wsub16 r (s_bn st) <? lenN (w_elems (s_w st)) then s_retry st' = 0 else s_retry st' = s_retry st).
Proof. exact retry_counts_failures. Qed.

(** Receiver: a block that arrives again while nothing is buffered repeats the last ACK (this
    is what lets a sender whose ACK was lost move on); with blocks buffered it is ignored;
    either way nothing is written twice and the retry count is untouched. *)
Theorem C04_recv_reacks : forall cfg st e n p, r_phase st = RRun ->
  receive (r_blk cfg) e = RPacket (Data n p) -> n <> wadd16 (r_bn st) 1 ->
  exists st' out, recv_step cfg st e = (st', out) /\
    r_bn st' = r_bn st /\ r_w st' = r_w st /\ r_cnt st' = r_cnt st /\ r_retry st' = r_retry st /\
    Forall (fun a => s_pk (a_sent a) = Ack (r_bn st)) out /\
    (w_elems (r_w st) <> [] -> out = [] /\ st' = st) /\
    (w_elems (r_w st) = [] -> 1 <= r_rep cfg -> out <> []).
Proof. exact recv_out_of_sequence. Qed.

(** Whatever is lost, duplicated, reordered: an upload that completes holds the sender's file. *)
Theorem C04_completed_upload_is_exact : forall cfg F evs st outs, wf_params (r_blk cfg) (r_ws cfg) ->
  conformant_fresh (r_blk cfg) F evs ->
  run_recv cfg evs = (st, outs) -> r_phase st = RDone OutOk ->
  written_bytes (w_file (r_w st)) = F.
Proof. exact recv_conformant_sender_any_length. Qed.

(** Every single fault (drop, duplicate, hold-and-swap) at every position in either direction,
    block size 8, window sizes 1..3, nine file lengths around block / window boundaries: the
    receiving side completes with exactly the file, and the sending side completes too unless
    the very last ACK was lost (RFC 1350's exception).  2592 co-simulations evaluated by the
    kernel ([vm_compute]); a finite domain enumerated completely. *)
Theorem C04_single_fault_small : forall ws len dir i k,
  In ws small_windows -> In len small_sizes -> In i positions -> In k all_kinds ->
  single_fault_ok ws (pattern_file len) dir i k = true.
Proof. exact single_fault_small. Qed.

(** The full closed-system statement (NOT proved; kept visible): for every file, block size,
    window size and every single fault, the co-simulation ends like the finite instances above. *)
Definition C04_single_fault_statement : Prop :=
  forall (blk ws : N) (F : bytes) (dir : bool) (i : N) (k : fault), 0 < blk -> 1 <= ws <= 65535 ->
  exists fuel,
    let sc := mk_scfg blk ws 1000000000 1 false [] in
    let rc := mk_rcfg blk ws 1000000000 1 true [] in
    let f1 := if dir then [(i, k)] else [] in
    let f2 := if dir then [] else [(i, k)] in
    let p := pair_run sc rc f1 f2 fuel (pair_init sc rc f1 F) in
    r_phase (p_r p) = RDone OutOk /\ recv_final_file rc (p_r p) <> None.

Example C04_ex_lost_ack :
  single_fault_ok 1 (pattern_file 17) false 0 NfDrop = true /\ single_fault_ok 2 (pattern_file 17) true 1 NfHold = true.
Proof. split; vm_compute; reflexivity. Qed.

Print Assumptions C04_download_completes.
Print Assumptions C04_upload_completes.
Print Assumptions C04_single_fault_small.
Print Assumptions C04_recv_reacks.
