(** C04 - Loss tolerance.  Pinned statements only.

    What is proved for unbounded transfers (every file, block size, window size):
    - the closed system of a sending and a receiving worker over two channels is SAFE under every
      fault schedule (drops, duplicates, reorderings, in any number): the receiver's file is always
      a block prefix of the sender's, success of the receiver means the exact file, success of the
      sender implies success of the receiver ([C04_closed_system_safe], files up to 65535 blocks);
    - it is LIVE without faults and with any ONE disturbed datagram, DATA or ACK, wherever it
      falls - lost, repeated, or held back and released behind its successor (reordered):
      [C04_no_loss_completes], [C04_one_lost_*], [C04_one_repeated_*], [C04_one_reordered_*],
      summed up in [C04_single_fault] (duplicate-packets mode off; time-outs at quiescence); a lost
      or forever-held final ACK is the exception RFC 1350 allows: the receiver holds the complete
      file, the sender gives up;
    - the local mechanisms of recovery (stale ACKs inert and free, retry budget counts failed
      receives only, repeated block re-triggers the ACK).
    - it is LIVE under ANY NUMBER of lost DATA datagrams no two of which are within two windows
      of datagrams of each other ([C04_spaced_data_losses_complete]) and under any number of lost
      ACKs no two of which are within one window ([C04_spaced_ack_losses_complete]): every window
      is then hit at most once, each loss costs one time-out, the retry counter starts afresh.
    - THE GENERAL CLAUSE, for files of at most 65535 blocks (duplicate-packets mode off):
      under EVERY fault schedule - drops, repetitions, reorderings in any number and any
      combination, on both channels - the run ends, and it ends in one of exactly two ways: the
      transfer has completed on both sides with exactly the file, or the sender has given up
      ([C04_every_schedule_ends]); the sender gives up only by a failed receive attempt made
      with five failed attempts already on its count ([C04_gives_up_only_at_the_limit]), and the
      count restarts whenever the window advances ([C04_retry_counts_failures]).  Hence a
      schedule in which fewer than six consecutive attempts fail completes.  Quantitatively:
      from ANY state the system can be in after ANY faults, if nothing more is disturbed, both
      sides are still at work and the sender can afford one more time-out, the transfer
      completes ([C04_quiet_after_faults_completes]) - one time-out is all a recovery costs.
      The invariant behind both is [C04_general_invariant].
      The same two theorems for duplicate-packets mode (any repeat counts on either side) are
      pinned in Props/C16.v ([C16_every_schedule_ends_in_dup_mode],
      [C16_quiet_after_faults_completes_in_dup_mode]).
    What is NOT proved: arbitrary schedules for files beyond 65535 blocks (proved there for no
    fault, single faults and spaced losses: C15; the safety theorem has the same bound because a
    datagram held back long enough can then be mistaken for a later block).  The finite enumeration
    [C04_single_fault_small] (independent of the inductions) stands beside the theorems, and the
    W-PAIR co-simulation suite runs seeded multi-fault schedules against the real workers. *)
From Coq Require Import Lia.
From Tftp Require Import Base.Prelude Model.Types Model.Consts Model.Codec Model.Window Model.Worker Model.Spec
  Model.Server Model.Net Proofs.CodecP Proofs.SpecP Proofs.WindowP Proofs.SendP Proofs.RecvP Proofs.NetP
  Proofs.CosimP Proofs.CosimLive.
Local Open Scope N_scope.

(** Loss-free baseline, any file, block size, window size, repeat count. *)
Theorem C04_download_completes : forall cfg F, wf_params (s_blk cfg) (s_ws cfg) -> s_fails cfg = [] -> s_check cfg = false ->
  let nb := nblk (s_blk cfg) F in
  exists st outs, run_send cfg F (ideal_acks (S (N.to_nat nb)) (s_ws cfg) nb 0) = (st, outs) /\ s_phase st = SDone OutOk.
Proof. exact download_completes. Qed.
Theorem C04_upload_completes : forall cfg F, wf_params (r_blk cfg) (r_ws cfg) -> r_fails cfg = [] -> 1 <= r_rep cfg ->
  let nb := nblk (r_blk cfg) F in
  exists st outs, run_recv cfg (ideal_datas (r_blk cfg) F 1 (N.to_nat nb)) = (st, outs) /\
    r_phase st = RDone OutOk /\ written_bytes (w_file (r_w st)) = F.
Proof. exact upload_completes. Qed.

(** Sender: a duplicate / stale ACK changes nothing and does not count against the budget;
    only failed receives do, and an accepted ACK resets the count. *)
Theorem C04_stale_ack_is_inert : forall cfg F st e r, wf_params (s_blk cfg) (s_ws cfg) ->
  SInv cfg F st -> s_phase st = SInWindow ->
  receive max_request_packet_size e = RPacket (Ack r) ->
  ~ (wsub16 r (s_bn st) < lenN (w_elems (s_w st))) ->
  s_since st + ev_delay e < s_tmo cfg ->
  send_step cfg st e = (with_since st (ev_delay e), []).
Proof. exact stale_ack_is_inert. Qed.
Theorem C04_retry_counts_failures : forall cfg F st e st' out, wf_params (s_blk cfg) (s_ws cfg) ->
  SInv cfg F st -> s_phase st = SInWindow -> send_step cfg st e = (st', out) ->
  (forall o, s_phase st' <> SDone o) ->
  (is_failed_attempt (receive max_request_packet_size e) -> s_retry st' = s_retry st + 1) /\
  (forall r, receive max_request_packet_size e = RPacket (Ack r) ->
     if wsub16 r (s_bn st) <? lenN (w_elems (s_w st)) then s_retry st' = 0 else s_retry st' = s_retry st).
Proof. exact retry_counts_failures. Qed.

(** Receiver: a block that arrives again while nothing is buffered repeats the last ACK (this
    is what lets a sender whose ACK was lost move on); with blocks buffered it is ignored;
    either way nothing is written twice and the retry count is untouched. *)
Theorem C04_recv_reacks : forall cfg st e n p, r_phase st = RRun ->
  receive (r_blk cfg) e = RPacket (Data n p) -> n <> wadd16 (r_bn st) 1 ->
  exists st' out, recv_step cfg st e = (st', out) /\
    r_bn st' = r_bn st /\ r_w st' = r_w st /\ r_cnt st' = r_cnt st /\ r_retry st' = r_retry st /\
    Forall (fun a => s_pk (a_sent a) = Ack (r_bn st)) out /\
    (w_elems (r_w st) <> [] -> out = [] /\ st' = st) /\
    (w_elems (r_w st) = [] -> 1 <= r_rep cfg -> out <> []).
Proof. exact recv_out_of_sequence. Qed.

(** Whatever is lost, duplicated, reordered: an upload that completes holds the sender's file. *)
Theorem C04_completed_upload_is_exact : forall cfg F evs st outs, wf_params (r_blk cfg) (r_ws cfg) ->
  conformant_fresh (r_blk cfg) F evs ->
  run_recv cfg evs = (st, outs) -> r_phase st = RDone OutOk ->
  written_bytes (w_file (r_w st)) = F.
Proof. exact recv_conformant_sender_any_length. Qed.

(** Every single fault (drop, duplicate, hold-and-swap) at every position in either direction,
    block size 8, window sizes 1..3, nine file lengths around block / window boundaries: the
    receiving side completes with exactly the file, and the sending side completes too unless
    the very last ACK was lost (RFC 1350's exception).  2592 co-simulations evaluated by the
    kernel ([vm_compute]); a finite domain enumerated completely. *)
Theorem C04_single_fault_small : forall ws len dir i k,
  In ws small_windows -> In len small_sizes -> In i positions -> In k all_kinds ->
  single_fault_ok ws (pattern_file len) dir i k = true.
Proof. exact single_fault_small. Qed.

(** Closed system, safety, every fault schedule. *)
Theorem C04_closed_system_safe : forall sc rc f_sr f_rs F,
  wf_params (s_blk sc) (s_ws sc) -> r_blk rc = s_blk sc -> r_ws rc = s_ws sc -> s_check sc = false ->
  r_fails rc = [] -> 1 <= r_rep rc -> forall fuel, nblk (s_blk sc) F <= 65535 ->
  let p := pair_run sc rc f_sr f_rs fuel (pair_init sc rc f_sr F) in
  (exists c, c <= nblk (s_blk sc) F /\
     written_bytes (w_file (r_w (p_r p))) ++ concat (w_elems (r_w (p_r p))) = takeN (c * s_blk sc) F) /\
  (r_phase (p_r p) = RDone OutOk -> written_bytes (w_file (r_w (p_r p))) = F) /\
  (s_phase (p_s p) = SDone OutOk -> r_phase (p_r p) = RDone OutOk /\ written_bytes (w_file (r_w (p_r p))) = F).
Proof. exact cosim_safe. Qed.

(** Closed system, liveness: no loss; one lost DATA datagram; one lost ACK - any file, any
    block size, any window size, any position. *)
Theorem C04_no_loss_completes : forall sc rc F,
  wf_params (s_blk sc) (s_ws sc) -> r_blk rc = s_blk sc -> r_ws rc = s_ws sc -> s_check sc = false ->
  s_fails sc = [] -> r_fails rc = [] -> s_rep sc = 1 -> r_rep rc = 1 -> 0 < s_tmo sc ->
  exists fuel, let p := pair_run sc rc [] [] fuel (pair_init sc rc [] F) in
    r_phase (p_r p) = RDone OutOk /\ written_bytes (w_file (r_w (p_r p))) = F /\ s_phase (p_s p) = SDone OutOk.
Proof. exact cosim_perfect. Qed.
Theorem C04_one_lost_data_completes : forall sc rc F,
  wf_params (s_blk sc) (s_ws sc) -> r_blk rc = s_blk sc -> r_ws rc = s_ws sc -> s_check sc = false ->
  s_fails sc = [] -> r_fails rc = [] -> s_rep sc = 1 -> r_rep rc = 1 -> 0 < s_tmo sc ->
  forall i, exists fuel,
    let p := pair_run sc rc [(i, NfDrop)] [] fuel (pair_init sc rc [(i, NfDrop)] F) in
    r_phase (p_r p) = RDone OutOk /\ written_bytes (w_file (r_w (p_r p))) = F /\ s_phase (p_s p) = SDone OutOk.
Proof. exact cosim_data_drop. Qed.
Theorem C04_one_lost_ack_completes : forall sc rc F,
  wf_params (s_blk sc) (s_ws sc) -> r_blk rc = s_blk sc -> r_ws rc = s_ws sc -> s_check sc = false ->
  s_fails sc = [] -> r_fails rc = [] -> s_rep sc = 1 -> r_rep rc = 1 -> 0 < s_tmo sc ->
  forall i, exists fuel,
    let p := pair_run sc rc [] [(i, NfDrop)] fuel (pair_init sc rc [] F) in
    r_phase (p_r p) = RDone OutOk /\ written_bytes (w_file (r_w (p_r p))) = F /\
    (s_phase (p_s p) = SDone OutOk \/ ch_n (p_rs p) = i + 1).
Proof. exact cosim_ack_drop. Qed.

Theorem C04_one_repeated_data_completes : forall sc rc F,
  wf_params (s_blk sc) (s_ws sc) -> r_blk rc = s_blk sc -> r_ws rc = s_ws sc -> s_check sc = false ->
  s_fails sc = [] -> r_fails rc = [] -> s_rep sc = 1 -> r_rep rc = 1 -> 0 < s_tmo sc ->
  forall i, exists fuel,
    let p := pair_run sc rc [(i, NfDup)] [] fuel (pair_init sc rc [(i, NfDup)] F) in
    r_phase (p_r p) = RDone OutOk /\ written_bytes (w_file (r_w (p_r p))) = F /\ s_phase (p_s p) = SDone OutOk.
Proof. exact cosim_data_dup. Qed.
Theorem C04_one_repeated_ack_completes : forall sc rc F,
  wf_params (s_blk sc) (s_ws sc) -> r_blk rc = s_blk sc -> r_ws rc = s_ws sc -> s_check sc = false ->
  s_fails sc = [] -> r_fails rc = [] -> s_rep sc = 1 -> r_rep rc = 1 -> 0 < s_tmo sc ->
  forall i, exists fuel,
    let p := pair_run sc rc [] [(i, NfDup)] fuel (pair_init sc rc [] F) in
    r_phase (p_r p) = RDone OutOk /\ written_bytes (w_file (r_w (p_r p))) = F /\ s_phase (p_s p) = SDone OutOk.
Proof. exact cosim_ack_dup. Qed.

Theorem C04_one_reordered_data_completes : forall sc rc F,
  wf_params (s_blk sc) (s_ws sc) -> r_blk rc = s_blk sc -> r_ws rc = s_ws sc -> s_check sc = false ->
  s_fails sc = [] -> r_fails rc = [] -> s_rep sc = 1 -> r_rep rc = 1 -> 0 < s_tmo sc ->
  forall i, exists fuel,
    let p := pair_run sc rc [(i, NfHold)] [] fuel (pair_init sc rc [(i, NfHold)] F) in
    r_phase (p_r p) = RDone OutOk /\ written_bytes (w_file (r_w (p_r p))) = F /\ s_phase (p_s p) = SDone OutOk.
Proof. exact cosim_data_hold. Qed.
Theorem C04_one_reordered_ack_completes : forall sc rc F,
  wf_params (s_blk sc) (s_ws sc) -> r_blk rc = s_blk sc -> r_ws rc = s_ws sc -> s_check sc = false ->
  s_fails sc = [] -> r_fails rc = [] -> s_rep sc = 1 -> r_rep rc = 1 -> 0 < s_tmo sc ->
  forall i, exists fuel,
    let p := pair_run sc rc [] [(i, NfHold)] fuel (pair_init sc rc [] F) in
    r_phase (p_r p) = RDone OutOk /\ written_bytes (w_file (r_w (p_r p))) = F /\
    (s_phase (p_s p) = SDone OutOk \/ ch_n (p_rs p) = i + 1).
Proof. exact cosim_ack_hold. Qed.

(** Any number of losses in one direction, spaced so that no window (nor its retransmission) is
    hit twice. *)
Theorem C04_spaced_data_losses_complete : forall sc rc F,
  wf_params (s_blk sc) (s_ws sc) -> r_blk rc = s_blk sc -> r_ws rc = s_ws sc -> s_check sc = false ->
  s_fails sc = [] -> r_fails rc = [] -> s_rep sc = 1 -> r_rep rc = 1 -> 0 < s_tmo sc ->
  forall is, spaced (2 * s_ws sc) 0 is -> exists fuel,
    let f := map (fun i => (i, NfDrop)) is in
    let p := pair_run sc rc f [] fuel (pair_init sc rc f F) in
    r_phase (p_r p) = RDone OutOk /\ written_bytes (w_file (r_w (p_r p))) = F /\ s_phase (p_s p) = SDone OutOk.
Proof. exact cosim_data_drops. Qed.
Theorem C04_spaced_ack_losses_complete : forall sc rc F,
  wf_params (s_blk sc) (s_ws sc) -> r_blk rc = s_blk sc -> r_ws rc = s_ws sc -> s_check sc = false ->
  s_fails sc = [] -> r_fails rc = [] -> s_rep sc = 1 -> r_rep rc = 1 -> 0 < s_tmo sc ->
  forall is, spaced (s_ws sc) 0 is -> exists fuel,
    let f := map (fun i => (i, NfDrop)) is in
    let p := pair_run sc rc [] f fuel (pair_init sc rc [] F) in
    r_phase (p_r p) = RDone OutOk /\ written_bytes (w_file (r_w (p_r p))) = F /\
    (s_phase (p_s p) = SDone OutOk \/ In (ch_n (p_rs p) - 1) is).
Proof. exact cosim_ack_drops. Qed.

(** Non-vacuity of the spacing premise: losses of the datagrams 3, 30 and 70 with window size 8. *)
Example C04_ex_spaced : spaced (2 * 8) 0 [3; 30; 70].
Proof. cbn [spaced]. repeat split; lia. Qed.

(** The closed-system statement for every kind of single fault of the network model (delivered,
    lost, repeated, held back), either direction, every position, every file, block size and
    window size: the receiving side completes and keeps its file. *)
Definition C04_single_fault_statement : Prop :=
  forall (blk ws : N) (F : bytes) (dir : bool) (i : N) (k : fault), 0 < blk -> 1 <= ws <= 65535 ->
  exists fuel,
    let sc := mk_scfg blk ws 1000000000 1 false [] in
    let rc := mk_rcfg blk ws 1000000000 1 true [] in
    let f1 := if dir then [(i, k)] else [] in
    let f2 := if dir then [] else [(i, k)] in
    let p := pair_run sc rc f1 f2 fuel (pair_init sc rc f1 F) in
    r_phase (p_r p) = RDone OutOk /\ recv_final_file rc (p_r p) <> None.
Theorem C04_single_fault : C04_single_fault_statement.
Proof. exact single_fault_statement_holds. Qed.

(** The mechanism of recovery on the sending side: once the timeout has elapsed since the last
    transmission, a receive that brings no progress (a failed attempt inside the budget, an
    acknowledgement outside the window) is followed by the whole window again, and the timer
    restarts.  (The monitor's timer rule is this statement read off the implementation's trace.) *)
Theorem C04_timer_drives_recovery : forall cfg F st e st' out, wf_params (s_blk cfg) (s_ws cfg) -> s_fails cfg = [] ->
  SInv cfg F st -> s_phase st = SInWindow -> send_step cfg st e = (st', out) ->
  s_tmo cfg <= s_since st + ev_delay e ->
  ((is_failed_attempt (receive max_request_packet_size e) /\ s_retry st + 1 <> max_retries) \/
   (exists r, receive max_request_packet_size e = RPacket (Ack r) /\ ~ (wsub16 r (s_bn st) < lenN (w_elems (s_w st))))) ->
  out = window_tx (N.to_nat (s_rep cfg)) (s_abs st) (w_elems (s_w st)) /\ w_elems (s_w st) <> [] /\
  s_since st' = 0 /\ s_phase st' = SInWindow /\ s_w st' = s_w st /\ s_abs st' = s_abs st.
Proof. exact timer_drives_recovery. Qed.

(** The general clause.  Every fault schedule ends, in completion or at the retry limit. *)
Definition C04_every_schedule_statement : Prop :=
  forall (blk ws : N) (F : bytes) (f1 f2 : list (N * fault)), 0 < blk -> 1 <= ws <= 65535 -> nblk blk F <= 65535 ->
  exists fuel,
    let sc := mk_scfg blk ws 1000000000 1 false [] in
    let rc := mk_rcfg blk ws 1000000000 1 true [] in
    let p := pair_run sc rc f1 f2 fuel (pair_init sc rc f1 F) in
    (r_phase (p_r p) = RDone OutOk /\ written_bytes (w_file (r_w (p_r p))) = F /\ s_phase (p_s p) = SDone OutOk)
    \/ s_phase (p_s p) = SDone OutTimeout.
Theorem C04_every_schedule_ends : C04_every_schedule_statement.
Proof. exact any_schedule_statement_holds. Qed.

(** ... hence: a schedule under which the sender never reaches the retry limit completes. *)
Theorem C04_below_the_limit_completes :
  forall (blk ws : N) (F : bytes) (f1 f2 : list (N * fault)), 0 < blk -> 1 <= ws <= 65535 -> nblk blk F <= 65535 ->
  let sc := mk_scfg blk ws 1000000000 1 false [] in
  let rc := mk_rcfg blk ws 1000000000 1 true [] in
  (forall fuel, s_phase (p_s (pair_run sc rc f1 f2 fuel (pair_init sc rc f1 F))) <> SDone OutTimeout) ->
  exists fuel,
    let p := pair_run sc rc f1 f2 fuel (pair_init sc rc f1 F) in
    r_phase (p_r p) = RDone OutOk /\ written_bytes (w_file (r_w (p_r p))) = F /\ s_phase (p_s p) = SDone OutOk.
Proof. exact below_the_limit_statement_holds. Qed.

Theorem C04_every_schedule_ends_gen : forall sc rc F,
  wf_params (s_blk sc) (s_ws sc) -> r_blk rc = s_blk sc -> r_ws rc = s_ws sc -> s_check sc = false ->
  s_fails sc = [] -> r_fails rc = [] -> s_rep sc = 1 -> r_rep rc = 1 -> 0 < s_tmo sc ->
  forall f_sr f_rs, nblk (s_blk sc) F <= 65535 ->
  exists fuel,
    let p := pair_run sc rc f_sr f_rs fuel (pair_init sc rc f_sr F) in
    (r_phase (p_r p) = RDone OutOk /\ written_bytes (w_file (r_w (p_r p))) = F /\ s_phase (p_s p) = SDone OutOk)
    \/ s_phase (p_s p) = SDone OutTimeout.
Proof. exact cosim_terminates. Qed.

(** The sender ends in [OutTimeout] only by a failed receive attempt at the limit. *)
Theorem C04_gives_up_only_at_the_limit : forall sc st e st' out, s_phase st = SInWindow ->
  send_step sc st e = (st', out) -> s_phase st' = SDone OutTimeout ->
  s_retry st + 1 = max_retries /\ is_failed_attempt (receive max_request_packet_size e).
Proof. intros sc. exact (give_up_only_at_limit sc). Qed.

(** Whatever happened before: once nothing more is disturbed, one time-out is enough. *)
Definition C04_quiet_after_faults_statement : Prop :=
  forall (blk ws : N) (F : bytes) (f1 f2 : list (N * fault)) (fuel0 : nat),
  0 < blk -> 1 <= ws <= 65535 -> nblk blk F <= 65535 ->
  let sc := mk_scfg blk ws 1000000000 1 false [] in
  let rc := mk_rcfg blk ws 1000000000 1 true [] in
  let p := pair_run sc rc f1 f2 fuel0 (pair_init sc rc f1 F) in
  clean_from f1 (ch_n (p_sr p)) -> clean_from f2 (ch_n (p_rs p)) ->
  s_phase (p_s p) = SInWindow -> s_retry (p_s p) + 1 < max_retries -> r_phase (p_r p) = RRun ->
  exists fuel,
    let p' := pair_run sc rc f1 f2 fuel p in
    r_phase (p_r p') = RDone OutOk /\ written_bytes (w_file (r_w (p_r p'))) = F /\ s_phase (p_s p') = SDone OutOk.
Theorem C04_quiet_after_faults_completes : C04_quiet_after_faults_statement.
Proof. exact quiet_after_faults_statement_holds. Qed.

(** The invariant of the closed system under every schedule, while the sender is at work. *)
Theorem C04_general_invariant : forall sc rc F,
  wf_params (s_blk sc) (s_ws sc) -> r_blk rc = s_blk sc -> r_ws rc = s_ws sc -> s_check sc = false ->
  s_fails sc = [] -> r_fails rc = [] -> s_rep sc = 1 -> r_rep rc = 1 -> 0 < s_tmo sc ->
  forall f_sr f_rs fuel, nblk (s_blk sc) F <= 65535 ->
  let p := pair_run sc rc f_sr f_rs fuel (pair_init sc rc f_sr F) in
  s_phase (p_s p) = SInWindow ->
  exists a r0 c j,
    SS sc F (p_s p) a r0 /\ RG sc rc F (p_r p) a (wlen (p_s p)) c j /\
    Forall (dat_ok sc F (a + wlen (p_s p))) (in_flight (p_sr p)) /\
    Forall (ackG a (a + wlen (p_s p)) c) (in_flight (p_rs p)).
Proof. exact cosim_general_invariant. Qed.

(** The premises of [C04_quiet_after_faults_completes] are met by a heavily disturbed run: seven
    faults on the DATA channel, three on the ACK channel, four time-outs on the sender's count. *)
Example C04_ex_quiet_after_faults :
  let sc := mk_scfg 4 3 1000000000 1 false [] in
  let rc := mk_rcfg 4 3 1000000000 1 true [] in
  let F := map N.of_nat (seq 1 30) in
  let f1 := [(1, NfDrop); (2, NfHold); (4, NfDup); (5, NfDrop); (7, NfDrop); (8, NfDrop); (9, NfHold)] in
  let f2 := [(0, NfDrop); (1, NfDup); (2, NfHold)] in
  let p := pair_run sc rc f1 f2 15 (pair_init sc rc f1 F) in
  clean_from f1 (ch_n (p_sr p)) /\ clean_from f2 (ch_n (p_rs p)) /\
  s_phase (p_s p) = SInWindow /\ s_retry (p_s p) = 4 /\ r_phase (p_r p) = RRun /\ r_cnt (p_r p) = 3 /\
  nblk 4 F = 8.
Proof. exact quiet_after_faults_premises. Qed.

Example C04_ex_lost_ack :
  single_fault_ok 1 (pattern_file 17) false 0 NfDrop = true /\ single_fault_ok 2 (pattern_file 17) true 1 NfHold = true.
Proof. split; vm_compute; reflexivity. Qed.

Print Assumptions C04_closed_system_safe.
Print Assumptions C04_no_loss_completes.
Print Assumptions C04_one_lost_data_completes.
Print Assumptions C04_one_lost_ack_completes.
Print Assumptions C04_one_repeated_data_completes.
Print Assumptions C04_one_repeated_ack_completes.
Print Assumptions C04_one_reordered_data_completes.
Print Assumptions C04_one_reordered_ack_completes.
Print Assumptions C04_single_fault.
Print Assumptions C04_every_schedule_ends.
Print Assumptions C04_timer_drives_recovery.
Print Assumptions C04_every_schedule_ends_gen.
Print Assumptions C04_below_the_limit_completes.
Print Assumptions C04_gives_up_only_at_the_limit.
Print Assumptions C04_quiet_after_faults_completes.
Print Assumptions C04_general_invariant.
Print Assumptions C04_spaced_data_losses_complete.
Print Assumptions C04_spaced_ack_losses_complete.
Print Assumptions C04_download_completes.
Print Assumptions C04_upload_completes.
Print Assumptions C04_single_fault_small.
Print Assumptions C04_recv_reacks.
