(** C16 - Duplicate-packets mode.  Pinned statements only. *)
From Tftp Require Import Base.Decimal Model.Config Proofs.ConfigP.
From Tftp Require Import Base.Prelude Model.Types Model.Consts Model.Codec Model.Window Model.Worker Model.Spec
  Proofs.CodecP Proofs.SpecP Proofs.WindowP Proofs.SendP Proofs.RecvP Model.Net Proofs.CosimP Proofs.CosimLive Proofs.CosimDup.
Local Open Scope N_scope.

(** [send_packet]: [rep = N + 1] copies back to back; only the result of the first copy
    decides - a failed send of a later copy cannot fail the transfer. *)
Theorem C16_first_copy_decides : forall fails rep p nsent out n ok, 1 <= rep ->
  send_packet fails rep p nsent = (out, n, ok) ->
  ok = negb (memN nsent fails) /\
  Forall (fun s => s_pk s = p) out /\
  (ok = true -> length out = N.to_nat rep /\ n = nsent + rep) /\
  (ok = false -> out = [mk_sent p true] /\ n = nsent + 1).
Proof. exact send_packet_first_copy_decides. Qed.

(** Every DATA block of every burst is emitted exactly [rep] times back to back
    ([window_tx rep] is: for each block of the window in order, [rep] identical copies); the
    refusal of a bad reply to the OACK is sent once. *)
Theorem C16_data_repeated : forall cfg F st e st' out, wf_params (s_blk cfg) (s_ws cfg) ->
  s_fails cfg = [] -> SInv cfg F st -> send_step cfg st e = (st', out) ->
  out = [] \/ out = window_tx (N.to_nat (s_rep cfg)) (s_abs st') (w_elems (s_w st'))
  \/ (s_phase st = SAwaitOack /\ out = [mk_sent (Error EIllegalOperation invalid_oack_msg) false]).
Proof. exact send_step_burst_shape. Qed.

(** Every acknowledgement of a data block is emitted exactly [rep] times back to back. *)
Theorem C16_ack_repeated : forall cfg st next st' out, 1 <= r_rep cfg ->
  memN (r_nsent st) (r_fails cfg) = false -> r_ack cfg st next = (st', out) ->
  length out = N.to_nat (r_rep cfg) /\ Forall (fun a => s_pk (a_sent a) = Ack (r_bn st)) out /\ r_phase st' = next.
Proof. exact r_ack_copies. Qed.

(** Facing duplicates (the server's own receiver against a duplicating sender): a repeated
    block is out of sequence - never written twice; it at most repeats the last ACK. *)
Theorem C16_duplicate_data_harmless : forall cfg st e n p, r_phase st = RRun ->
  receive (r_blk cfg) e = RPacket (Data n p) -> n <> wadd16 (r_bn st) 1 ->
  exists st' out, recv_step cfg st e = (st', out) /\
    r_bn st' = r_bn st /\ r_w st' = r_w st /\ r_cnt st' = r_cnt st /\ r_retry st' = r_retry st /\
    Forall (fun a => s_pk (a_sent a) = Ack (r_bn st)) out /\
    (w_elems (r_w st) <> [] -> out = [] /\ st' = st) /\
    (w_elems (r_w st) = [] -> 1 <= r_rep cfg -> out <> []).
Proof. exact recv_out_of_sequence. Qed.

(** ... and the server's own sender against a peer that acknowledges every copy: the extra
    ACKs are stale and inert. *)
Theorem C16_duplicate_ack_harmless : forall cfg F st e r, wf_params (s_blk cfg) (s_ws cfg) ->
  SInv cfg F st -> s_phase st = SInWindow ->
  receive max_request_packet_size e = RPacket (Ack r) ->
  ~ (wsub16 r (s_bn st) < lenN (w_elems (s_w st))) ->
  s_since st + ev_delay e < s_tmo cfg ->
  send_step cfg st e = (with_since st (ev_delay e), []).
Proof. exact stale_ack_is_inert. Qed.

(** [--duplicate-packets N] is accepted at start-up iff N parses as a u8 below 255; the workers'
    repeat count N + 1 then fits a u8. *)
Theorem C16_dup_config_bounds : forall exists_ parse_ip v c rest,
  (exists e, parse_loop exists_ parse_ip c (s_duplicate_packets :: v :: rest) = CErr e) \/
  (exists d, parse_bounded 256 v = Some d /\ d < 255 /\
             parse_loop exists_ parse_ip c (s_duplicate_packets :: v :: rest) = parse_loop exists_ parse_ip (set_dup c d) rest).
Proof. exact dup_config_bounds. Qed.

(** Non-vacuity: [rep = 3], the third copy of the final ACK fails (defect D9 before its repair):
    the upload still completes and the file is kept. *)
Example C16_ex_third_copy_fails :
  let r := run_recv (mk_rcfg 8 1 1000000000 3 true [2]) [EvDgram 0 [0; 3; 0; 1; 1; 2; 3; 4]] in
  r_phase (fst r) = RDone OutOk /\ recv_final_file (mk_rcfg 8 1 1000000000 3 true [2]) (fst r) = Some [[1; 2; 3; 4]]
  /\ map (fun a => s_failed (a_sent a)) (concat (snd r)) = [false; false; true].
Proof. repeat split; vm_compute; reflexivity. Qed.
Example C16_ex_window_tx :
  map (fun s => s_pk s) (window_tx 2 65535 [[7]; [8]]) = [Data 65535 [7]; Data 65535 [7]; Data 0 [8]; Data 0 [8]].
Proof. vm_compute. reflexivity. Qed.

(** Duplicates are harmless end to end: in the closed system of a sender emitting every DATA
    [s_rep] times and a receiver emitting every ACK [r_rep] times - any repeat counts - over
    channels that may in addition lose, repeat and reorder datagrams at will, the receiver's file
    is always a block prefix of the sender's, success of the receiver means the exact file, and
    the sender never succeeds without the receiver (files up to 65535 blocks). *)
Theorem C16_duplicates_never_corrupt : forall sc rc f_sr f_rs F,
  wf_params (s_blk sc) (s_ws sc) -> r_blk rc = s_blk sc -> r_ws rc = s_ws sc -> s_check sc = false ->
  r_fails rc = [] -> 1 <= r_rep rc -> forall fuel, nblk (s_blk sc) F <= 65535 ->
  let p := pair_run sc rc f_sr f_rs fuel (pair_init sc rc f_sr F) in
  (exists c, c <= nblk (s_blk sc) F /\
     written_bytes (w_file (r_w (p_r p))) ++ concat (w_elems (r_w (p_r p))) = takeN (c * s_blk sc) F) /\
  (r_phase (p_r p) = RDone OutOk -> written_bytes (w_file (r_w (p_r p))) = F) /\
  (s_phase (p_s p) = SDone OutOk -> r_phase (p_r p) = RDone OutOk /\ written_bytes (w_file (r_w (p_r p))) = F).
Proof. exact cosim_safe. Qed.

(** ... and transfers in duplicate mode complete: both workers repeating every data-phase datagram
    (any repeat counts), undisturbed channels, any file, block size and window size - both sides
    end in success and the receiver holds exactly the file. *)
Theorem C16_dup_mode_transfer_completes : forall sc rc F,
  wf_params (s_blk sc) (s_ws sc) -> r_blk rc = s_blk sc -> r_ws rc = s_ws sc -> s_check sc = false ->
  s_fails sc = [] -> r_fails rc = [] -> 1 <= s_rep sc -> 1 <= r_rep rc -> 0 < s_tmo sc ->
  exists fuel, let p := pair_run sc rc [] [] fuel (pair_init sc rc [] F) in
    r_phase (p_r p) = RDone OutOk /\ written_bytes (w_file (r_w (p_r p))) = F /\ s_phase (p_s p) = SDone OutOk.
Proof. exact cosim_perfect_dup. Qed.

(** Duplicate mode AND a disturbed network: the sender repeats every DATA [s_rep] times, the receiver
    every ACK [r_rep] times, both channels lose, repeat and reorder at will.  Every schedule ends -
    completed on both sides with exactly the file, or with the sender at the retry limit (files up to
    65535 blocks) ... *)
Definition C16_every_schedule_statement : Prop :=
  forall (blk ws srep rrep : N) (F : bytes) (f1 f2 : list (N * fault)),
  0 < blk -> 1 <= ws <= 65535 -> 1 <= srep -> 1 <= rrep -> nblk blk F <= 65535 ->
  exists fuel,
    let sc := mk_scfg blk ws 1000000000 srep false [] in
    let rc := mk_rcfg blk ws 1000000000 rrep true [] in
    let p := pair_run sc rc f1 f2 fuel (pair_init sc rc f1 F) in
    (r_phase (p_r p) = RDone OutOk /\ written_bytes (w_file (r_w (p_r p))) = F /\ s_phase (p_s p) = SDone OutOk)
    \/ s_phase (p_s p) = SDone OutTimeout.
Theorem C16_every_schedule_ends_in_dup_mode : C16_every_schedule_statement.
Proof. exact any_schedule_dup_statement_holds. Qed.

(** ... and once nothing more is disturbed (both sides at work, one time-out still affordable) the
    transfer completes with byte-identical content. *)
Definition C16_quiet_after_faults_statement : Prop :=
  forall (blk ws srep rrep : N) (F : bytes) (f1 f2 : list (N * fault)) (fuel0 : nat),
  0 < blk -> 1 <= ws <= 65535 -> 1 <= srep -> 1 <= rrep -> nblk blk F <= 65535 ->
  let sc := mk_scfg blk ws 1000000000 srep false [] in
  let rc := mk_rcfg blk ws 1000000000 rrep true [] in
  let p := pair_run sc rc f1 f2 fuel0 (pair_init sc rc f1 F) in
  clean_from f1 (ch_n (p_sr p)) -> clean_from f2 (ch_n (p_rs p)) ->
  s_phase (p_s p) = SInWindow -> s_retry (p_s p) + 1 < max_retries -> r_phase (p_r p) = RRun ->
  exists fuel,
    let p' := pair_run sc rc f1 f2 fuel p in
    r_phase (p_r p') = RDone OutOk /\ written_bytes (w_file (r_w (p_r p'))) = F /\ s_phase (p_s p') = SDone OutOk.
Theorem C16_quiet_after_faults_completes_in_dup_mode : C16_quiet_after_faults_statement.
Proof. exact quiet_after_faults_dup_statement_holds. Qed.

Example C16_ex_quiet_after_faults :
  let sc := mk_scfg 4 3 1000000000 3 false [] in
  let rc := mk_rcfg 4 3 1000000000 2 true [] in
  let F := map N.of_nat (seq 1 30) in
  let f1 := [(0, NfDrop); (1, NfDrop); (2, NfDrop); (4, NfHold); (7, NfDup); (9, NfDrop); (10, NfDrop); (11, NfDrop); (12, NfDrop)] in
  let f2 := [(0, NfDrop); (1, NfDup); (3, NfHold)] in
  let p := pair_run sc rc f1 f2 40 (pair_init sc rc f1 F) in
  clean_from f1 (ch_n (p_sr p)) /\ clean_from f2 (ch_n (p_rs p)) /\
  s_phase (p_s p) = SInWindow /\ s_retry (p_s p) + 1 < max_retries /\ r_phase (p_r p) = RRun.
Proof. exact quiet_after_faults_dup_premises. Qed.

Print Assumptions C16_dup_mode_transfer_completes.
Print Assumptions C16_every_schedule_ends_in_dup_mode.
Print Assumptions C16_quiet_after_faults_completes_in_dup_mode.
Print Assumptions C16_duplicates_never_corrupt.
Print Assumptions C16_first_copy_decides.
Print Assumptions C16_data_repeated.
Print Assumptions C16_ack_repeated.
Print Assumptions C16_dup_config_bounds.
