(** C17 - Command-line configuration.  Pinned statements only.  [exists_] ([Path::exists]),
    [parse_ip] ([IpAddr::from_str]) and [cwd] are oracles (Section variables of the model). *)
From Tftp Require Import Base.Prelude Base.Decimal Model.Types Model.Consts Model.Config Proofs.ConfigP.
Local Open Scope N_scope.

(** An argument vector made of setting groups (flag, or flag and value, in long or short
    spelling): if every group is valid the parser yields the configuration obtained by applying
    the groups in order, then the two directory fall-backs; if some group is invalid
    (unparsable address / port / count, count >= 255, missing directory) it fails. *)
Theorem C17_parse_render : forall exists_ parse_ip gs c,
  (forallb (gvalid exists_ parse_ip) gs = true ->
     parse_loop exists_ parse_ip c (flat_map render gs) = COk (finish (fold_left (apply parse_ip) gs c))) /\
  (forallb (gvalid exists_ parse_ip) gs = false -> exists e, parse_loop exists_ parse_ip c (flat_map render gs) = CErr e).
Proof. exact parse_render. Qed.

(** Applying groups in order = taking, for every setting, the value of its last occurrence. *)
Theorem C17_last_occurrence_wins : forall parse_ip gs c, fold_left (apply parse_ip) gs c = canon parse_ip c gs.
Proof. exact fold_apply_canon. Qed.

Theorem C17_parse_is_last_wins : forall exists_ parse_ip cwd gs, forallb (gvalid exists_ parse_ip) gs = true ->
  parse_args exists_ parse_ip cwd (str [97] :: flat_map render gs) = COk (finish (canon parse_ip (default_config cwd) gs)).
Proof. exact parse_is_last_wins. Qed.

(** Order independence: two vectors whose groups agree setting by setting (any interleaving of
    different settings) give the same configuration, or fail both. *)
Theorem C17_order_independent : forall exists_ parse_ip gs gs' c,
  (forall k, filter (has_key k) gs = filter (has_key k) gs') ->
  same_outcome (parse_loop exists_ parse_ip c (flat_map render gs)) (parse_loop exists_ parse_ip c (flat_map render gs')).
Proof. exact order_independent. Qed.

(** Documented defaults: 127.0.0.1:69, current directory for all three directories,
    multi-port, writable, no duplicates, no overwrite, clean-on-error (values generated from the source). *)
Theorem C17_documented_defaults : forall exists_ parse_ip cwd argv0,
  parse_args exists_ parse_ip cwd [argv0] =
    COk (mk_config [49; 50; 55; 46; 48; 46; 48; 46; 49] 69 cwd cwd cwd false false 0 false true).
Proof. exact documented_defaults. Qed.

(** The receive and send directories fall back to -d exactly when not given explicitly. *)
Theorem C17_dir_fallback_iff : forall exists_ parse_ip cwd gs, (forall v, exists_ v = true -> v <> []) ->
  forallb (gvalid exists_ parse_ip) gs = true ->
  let c := finish (canon parse_ip (default_config cwd) gs) in
  c_rdir c = (match lastk KeyRd gs with Some (GRd _ v) => v | _ => c_dir c end) /\
  c_sdir c = (match lastk KeySd gs with Some (GSd _ v) => v | _ => c_dir c end) /\
  c_dir c = (match lastk KeyDir gs with Some (GDir _ v) => v | _ => cwd end).
Proof. exact dir_fallback_iff. Qed.

(** Unknown flag, flag missing its value. *)
Theorem C17_unknown_flag_rejected : forall exists_ parse_ip gs a rest c,
  forallb (gvalid exists_ parse_ip) gs = true -> sflag_of a = FUnknown ->
  parse_loop exists_ parse_ip c (flat_map render gs ++ a :: rest) = CErr CInvalidFlag.
Proof. exact unknown_flag_rejected. Qed.
Theorem C17_missing_value_rejected : forall exists_ parse_ip gs a c,
  forallb (gvalid exists_ parse_ip) gs = true -> needs_value (sflag_of a) = true ->
  parse_loop exists_ parse_ip c (flat_map render gs ++ [a]) = CErr CMissing.
Proof. exact missing_value_rejected. Qed.

(** duplicate-packets >= 255 (or anything a u8 cannot hold) is rejected. *)
Theorem C17_dup_config_bounds : forall exists_ parse_ip v c rest,
  (exists e, parse_loop exists_ parse_ip c (s_duplicate_packets :: v :: rest) = CErr e) \/
  (exists d, parse_bounded 256 v = Some d /\ d < 255 /\
             parse_loop exists_ parse_ip c (s_duplicate_packets :: v :: rest) = parse_loop exists_ parse_ip (set_dup c d) rest).
Proof. exact dup_config_bounds. Qed.

(** Non-vacuity: "-rd B -d A" and "-d A -rd B" with existing directories. *)
Definition ex_exists (v : bytes) : bool := match v with [65] | [66] => true | _ => false end.
Definition ex_ip (v : bytes) : option bytes := None.
Example C17_ex_order :
  parse_args ex_exists ex_ip [47] [[116]; s_rd; [66]; s_d; [65]; s_s] =
  parse_args ex_exists ex_ip [47] [[116]; s_single_port; s_directory; [65]; s_receive_directory; [66]]
  /\ parse_args ex_exists ex_ip [47] [[116]; s_rd; [66]; s_d; [65]; s_s] =
     COk (mk_config [49; 50; 55; 46; 48; 46; 48; 46; 49] 69 [65] [66] [65] true false 0 false true)
  /\ parse_args ex_exists ex_ip [47] [[116]; s_duplicate_packets; [50; 53; 53]] = CErr CDupMax
  /\ parse_args ex_exists ex_ip [47] [[116]; s_duplicate_packets; [50; 53; 54]] = CErr CBadDup.
Proof. repeat split; vm_compute; reflexivity. Qed.

Print Assumptions C17_parse_render.
Print Assumptions C17_order_independent.
Print Assumptions C17_last_occurrence_wins.
Print Assumptions C17_dir_fallback_iff.
Print Assumptions C17_dup_config_bounds.
