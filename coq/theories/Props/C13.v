(** C13 - Cleanup of failed uploads.  Pinned statements only. *)
From Tftp Require Import Base.Prelude Model.Types Model.Consts Model.Codec Model.Window Model.Worker Model.Spec
  Model.System Proofs.SpecP Proofs.WindowP Proofs.SendP Proofs.RecvP Proofs.SystemP.
Local Open Scope N_scope.

(** Every abort point (any prefix of any arrival list followed by ERROR, silence or a failed
    send), every window size, clean or keep: a failed upload is removed when clean-on-error is
    in force, otherwise what is kept is - on block boundaries - a prefix of the bytes accepted
    in sequence; a completed upload is never removed and holds exactly the accepted blocks. *)
Theorem C13_final_file : forall cfg evs st outs, wf_params (r_blk cfg) (r_ws cfg) ->
  run_recv cfg evs = (st, outs) ->
  match r_phase st with
  | RDone OutOk => exists w, recv_final_file cfg st = Some w /\ concat (rev w) = concat (accepted (r_blk cfg) 0 evs)
  | RDone _ => if r_clean cfg then recv_final_file cfg st = None
               else exists w k, recv_final_file cfg st = Some w /\
                      exists tail, concat (rev w) ++ tail = concat (accepted (r_blk cfg) 0 (firstn k evs))
  | RRun => True
  end.
Proof. exact recv_final_file_spec. Qed.

(** Blocks reach the file only through flushes, in arrival order. *)
Theorem C13_file_is_prefix : forall cfg evs st outs, wf_params (r_blk cfg) (r_ws cfg) ->
  run_recv cfg evs = (st, outs) ->
  exists k, written_bytes (w_file (r_w st)) ++ concat (w_elems (r_w st)) =
            concat (accepted (r_blk cfg) 0 (firstn k evs)).
Proof. exact recv_file_is_prefix. Qed.

(** ERROR from the peer, or silence, always ends in a failed state (so the cleanup rule applies). *)
Theorem C13_error_fails : forall cfg st e c m st' out, r_phase st = RRun ->
  receive (r_blk cfg) e = RPacket (Error c m) ->
  recv_step cfg st e = (st', out) -> out = [] /\ r_phase st' = RDone OutPeer.
Proof. exact recv_error_stops. Qed.
Theorem C13_silence_fails : forall cfg n st d, r_retry st < max_retries -> r_phase st = RRun ->
  max_retries - r_retry st <= N.of_nat n ->
  r_phase (fst (recv_steps cfg st (repeat (EvFail d) n))) = RDone OutTimeout /\
  concat (snd (recv_steps cfg st (repeat (EvFail d) n))) = [].
Proof. exact recv_silence_bounded. Qed.

(** Histories of uploads over one receive directory: a failed upload's name is gone
    (clean-on-error) or untouched (keep) ... *)
Theorem C13_failed_upload_cleaned : forall s w n, nodup_names (u_dir s) -> w_lookup w (u_live s) = Some (n, true) ->
  d_lookup n (u_dir (ustep s (UFail w))) = None.
Proof. exact failed_upload_cleaned. Qed.
Theorem C13_failed_upload_kept : forall s w n, w_lookup w (u_live s) = Some (n, false) ->
  u_dir (ustep s (UFail w)) = u_dir s.
Proof. exact failed_upload_kept. Qed.

(** ... and a completed upload persists under every later history that does not concern its
    name: failures, completions and acceptances of uploads of other names never touch it. *)
Theorem C13_outside_known : forall s w n cl c h, w_lookup w (u_live s) = Some (n, cl) ->
  untouched n (ustep (ustep s (UWrite w c)) (UDone w)) h ->
  d_lookup n (u_dir (urun s (UWrite w c :: UDone w :: h))) = Some c.
Proof. exact completed_upload_persists. Qed.

(** KNOWN FINDING (defect D6, not repaired): with two accepted uploads of one name whose
    lifetimes overlap, the later failure of the earlier one removes the completed upload. *)
Theorem C13_refuted_overlapping_uploads :
  d_lookup [120] (u_dir (urun (mk_usys [] []) [UAccept 1 [120] true; UAccept 2 [120] true; UWrite 2 [112; 97; 121]; UDone 2]))
    = Some [112; 97; 121]
  /\ d_lookup [120] (u_dir (urun (mk_usys [] []) d6_history)) = None
  /\ ~ untouched [120] (urun (mk_usys [] []) [UAccept 1 [120] true; UAccept 2 [120] true; UWrite 2 [112; 97; 121]; UDone 2]) [UFail 1].
Proof. exact overlapping_uploads_refuted. Qed.

(** Non-vacuity: abort after one of two blocks, window 2 (block buffered, not yet flushed). *)
Example C13_ex_abort :
  recv_final_file (mk_rcfg 4 2 1000000000 1 true []) (fst (run_recv (mk_rcfg 4 2 1000000000 1 true [])
     [EvDgram 0 [0; 3; 0; 1; 1; 2; 3; 4]; EvDgram 0 [0; 5; 0; 0; 120; 0]])) = None
  /\ recv_final_file (mk_rcfg 4 2 1000000000 1 false []) (fst (run_recv (mk_rcfg 4 2 1000000000 1 false [])
     [EvDgram 0 [0; 3; 0; 1; 1; 2; 3; 4]; EvDgram 0 [0; 5; 0; 0; 120; 0]])) = Some [].
Proof. split; vm_compute; reflexivity. Qed.

Print Assumptions C13_final_file.
Print Assumptions C13_outside_known.
Print Assumptions C13_refuted_overlapping_uploads.
