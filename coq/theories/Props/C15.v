(** C15 - Block-number wrap-around.  Pinned statements only.  All theorems of C01, C02, C07
    and C08 are stated for files and runs of any length, so they already cover transfers
    beyond 65535 blocks; this file pins what is specific to the 16-bit counter. *)
From Tftp Require Import Base.Prelude Model.Types Model.Consts Model.Codec Model.Window Model.Worker Model.Spec
  Proofs.CodecP Proofs.SpecP Proofs.WindowP Proofs.SendP Proofs.RecvP Model.Net Proofs.CosimLive.
Local Open Scope N_scope.

(** Sender: in every reachable state of every run (any length) the 16-bit block number is
    the unbounded index of the window front modulo 65536, and the window holds at most
    [ws <= 65535] blocks. *)
Theorem C15_send_bn_tracks_abs : forall cfg F evs, wf_params (s_blk cfg) (s_ws cfg) ->
  let st := fst (run_send cfg F evs) in
  s_bn st = s_abs st mod 65536 /\ lenN (w_elems (s_w st)) <= 65535.
Proof.
  intros cfg F evs Hwf. destruct (send_run_inv cfg F evs Hwf) as [(_ & _ & _ & _ & E & G & _) _].
  cbv zeta. split; [exact E|]. destruct Hwf as (_ & _ & Hw). lia.
Qed.

(** Receiver: the 16-bit block number is the count of blocks accepted in sequence modulo 65536. *)
Theorem C15_recv_bn_tracks_count : forall cfg evs st outs, wf_params (r_blk cfg) (r_ws cfg) ->
  run_recv cfg evs = (st, outs) ->
  exists k, r_bn st = lenN (accepted (r_blk cfg) 0 (firstn k evs)) mod 65536.
Proof. exact recv_bn_tracks_count. Qed.

(** An ACK number is accepted iff exactly one block of the current window has that number
    modulo 65536; it is attributed to that block - never to one 65536 positions away. *)
Theorem C15_ack_attribution_unique : forall cfg F st r, wf_params (s_blk cfg) (s_ws cfg) ->
  SCore cfg F st -> r < 65536 ->
  let diff := wsub16 r (s_bn st) in
  (diff < lenN (w_elems (s_w st)) -> (s_abs st + diff) mod 65536 = r) /\
  (forall j, s_abs st <= j < s_abs st + lenN (w_elems (s_w st)) -> j mod 65536 = r ->
             j = s_abs st + diff /\ diff < lenN (w_elems (s_w st))).
Proof. exact ack_attribution_unique. Qed.

Theorem C15_wsub16_is_distance : forall abs j len, abs <= j < abs + len -> len <= 65535 ->
  wsub16 (j mod 65536) (abs mod 65536) = j - abs.
Proof. exact wsub16_in_window. Qed.

(** Downloads of any length: every DATA is block [k mod 65536] with the bytes of block [k]
    (instance of C01 with no bound on [nblk]) ... *)
Theorem C15_long_download_exact : forall cfg F evs st outs, wf_params (s_blk cfg) (s_ws cfg) ->
  65536 <= nblk (s_blk cfg) F ->
  run_send cfg F evs = (st, outs) ->
  forall burst s n p, In burst outs -> In s burst -> s_pk s = Data n p ->
  exists k, 1 <= k <= nblk (s_blk cfg) F /\ n = k mod 65536 /\ p = chunk (s_blk cfg) F k.
Proof. intros cfg F evs st outs Hwf _. exact (send_data_is_slice cfg F evs st outs Hwf). Qed.

(** ... and a client reassembling in order gets the file, under the datagram-lifetime
    condition that 16-bit numbers make unavoidable. *)
Theorem C15_long_download_client : forall blk F ks e acc, 0 < blk -> 1 <= e <= nblk blk F ->
  acc = takeN ((e - 1) * blk) F -> fresh blk F e ks ->
  forall acc' done, ref_client blk e acc (map (dgram blk F) ks) = (acc', done) ->
  (done = true -> acc' = F) /\ (exists m, acc' = takeN m F).
Proof. exact client_copy_exact_gen. Qed.

(** Uploads of any length stay byte-identical. *)
Theorem C15_long_upload_exact : forall cfg F evs st outs, wf_params (r_blk cfg) (r_ws cfg) ->
  conformant_fresh (r_blk cfg) F evs ->
  run_recv cfg evs = (st, outs) -> r_phase st = RDone OutOk ->
  written_bytes (w_file (r_w st)) = F.
Proof. exact recv_conformant_sender_any_length. Qed.

(** Non-vacuity: a reachable state whose window straddles the wrap (front = block 65535,
    two blocks buffered): ACK 0 names block 65536 (diff 1), ACK 65534 names nothing. *)
Example C15_ex_straddle :
  wsub16 0 (65535 mod 65536) = 1 /\ wsub16 65534 (65535 mod 65536) = 65535 /\ wadd16 65535 1 = 0
  /\ wsub16 (65536 mod 65536) (65535 mod 65536) = 65536 - 65535.
Proof. repeat split; vm_compute; reflexivity. Qed.

(** Closed system, any length: a sending and a receiving worker joined by FIFO channels complete
    with exactly the file however often the 16-bit block number wraps (no bound on the number
    of blocks anywhere in the statement or its proof) - and still do when one DATA datagram is
    lost at any position, in particular in the window that contains blocks 65535 / 65536. *)
Theorem C15_transfer_completes_across_wraps : forall sc rc F,
  wf_params (s_blk sc) (s_ws sc) -> r_blk rc = s_blk sc -> r_ws rc = s_ws sc -> s_check sc = false ->
  s_fails sc = [] -> r_fails rc = [] -> s_rep sc = 1 -> r_rep rc = 1 -> 0 < s_tmo sc ->
  exists fuel, let p := pair_run sc rc [] [] fuel (pair_init sc rc [] F) in
    r_phase (p_r p) = RDone OutOk /\ written_bytes (w_file (r_w (p_r p))) = F /\ s_phase (p_s p) = SDone OutOk.
Proof. exact cosim_perfect. Qed.
Theorem C15_loss_at_any_block_number_recovers : forall sc rc F,
  wf_params (s_blk sc) (s_ws sc) -> r_blk rc = s_blk sc -> r_ws rc = s_ws sc -> s_check sc = false ->
  s_fails sc = [] -> r_fails rc = [] -> s_rep sc = 1 -> r_rep rc = 1 -> 0 < s_tmo sc ->
  forall i, exists fuel,
    let p := pair_run sc rc [(i, NfDrop)] [] fuel (pair_init sc rc [(i, NfDrop)] F) in
    r_phase (p_r p) = RDone OutOk /\ written_bytes (w_file (r_w (p_r p))) = F /\ s_phase (p_s p) = SDone OutOk.
Proof. exact cosim_data_drop. Qed.

Print Assumptions C15_transfer_completes_across_wraps.
Print Assumptions C15_loss_at_any_block_number_recovers.
Print Assumptions C15_send_bn_tracks_abs.
Print Assumptions C15_recv_bn_tracks_count.
Print Assumptions C15_ack_attribution_unique.
Print Assumptions C15_long_upload_exact.
