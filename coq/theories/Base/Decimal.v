(** Decimal ASCII <-> N, as [usize::to_string] and [usize::from_str] do it. *)
From Coq Require Import Decimal DecimalN.
From Tftp Require Import Base.Prelude.
Local Open Scope N_scope.

Fixpoint bytes_of_uint (u : Decimal.uint) : bytes :=
  match u with
  | Nil => []
  | D0 u => 48 :: bytes_of_uint u
  | D1 u => 49 :: bytes_of_uint u
  | D2 u => 50 :: bytes_of_uint u
  | D3 u => 51 :: bytes_of_uint u
  | D4 u => 52 :: bytes_of_uint u
  | D5 u => 53 :: bytes_of_uint u
  | D6 u => 54 :: bytes_of_uint u
  | D7 u => 55 :: bytes_of_uint u
  | D8 u => 56 :: bytes_of_uint u
  | D9 u => 57 :: bytes_of_uint u
  end.

Definition digit_cons (c : N) (u : Decimal.uint) : option Decimal.uint :=
  if c =? 48 then Some (D0 u) else if c =? 49 then Some (D1 u)
  else if c =? 50 then Some (D2 u) else if c =? 51 then Some (D3 u)
  else if c =? 52 then Some (D4 u) else if c =? 53 then Some (D5 u)
  else if c =? 54 then Some (D6 u) else if c =? 55 then Some (D7 u)
  else if c =? 56 then Some (D8 u) else if c =? 57 then Some (D9 u)
  else None.

Fixpoint uint_of_bytes (s : bytes) : option Decimal.uint :=
  match s with
  | [] => Some Nil
  | c :: r => match uint_of_bytes r with
              | Some u => digit_cons c u
              | None => None
              end
  end.

(** [n.to_string()] *)
Definition to_dec (n : N) : bytes := bytes_of_uint (N.to_uint n).

Definition usize_limit : N := 18446744073709551616. (* 2^64 *)

(** [s.parse::<usize>()] on a 64-bit target: optional single '+', at least one
    digit, value below 2^64 (leading zeros allowed). *)
Definition parse_usize (s : bytes) : option N :=
  match s with
  | [] => None
  | c :: r =>
    let ds := if c =? 43 then r else s in
    match ds with
    | [] => None
    | _ => match uint_of_bytes ds with
           | Some u => let v := N.of_uint u in
                       if v <? usize_limit then Some v else None
           | None => None
           end
    end
  end.

(** Narrower integer types reuse the same grammar with a smaller bound. *)
Definition parse_bounded (limit : N) (s : bytes) : option N :=
  match s with
  | [] => None
  | c :: r =>
    let ds := if c =? 43 then r else s in
    match ds with
    | [] => None
    | _ => match uint_of_bytes ds with
           | Some u => let v := N.of_uint u in
                       if v <? limit then Some v else None
           | None => None
           end
    end
  end.
