(** Common definitions: bytes, results with explicit panics, list helpers. *)
From Coq Require Export List NArith Bool Arith Lia.
Export ListNotations.

Definition byte := N.
Definition bytes := list N.

(** Error kinds the code distinguishes (kinds, not message texts). *)
Inductive err :=
| EShort      (* buffer shorter than 2 *)
| EOpcode     (* opcode not in the table *)
| EU16        (* fewer than two bytes where a u16 is read *)
| ENoNul      (* missing NUL terminator *)
| EUtf8       (* String::from_utf8 failed *)
| ENum        (* usize::from_str failed on a recognised option *)
| EErrCode    (* error code not in the table *)
| EFuel.      (* model artefact: recursion fuel exhausted; proved unreachable *)

(** Outcome of a modelled Rust computation: [Panic] unwinds the thread,
    [Abort] ends the process (failed allocation). *)
Inductive res (A : Type) :=
| Ok (a : A)
| Err (e : err)
| Panic
| Abort.
Arguments Ok {A} a.
Arguments Err {A} e.
Arguments Panic {A}.
Arguments Abort {A}.

Definition bind {A B} (r : res A) (f : A -> res B) : res B :=
  match r with
  | Ok a => f a
  | Err e => Err e
  | Panic => Panic
  | Abort => Abort
  end.

Notation "'do' x <- r ; k" := (bind r (fun x => k))
  (at level 200, x pattern, r at level 100, k at level 200, right associativity).

Definition is_ok {A} (r : res A) : bool := match r with Ok _ => true | _ => false end.
Definition is_err {A} (r : res A) : bool := match r with Err _ => true | _ => false end.

Definition lenN {A} (l : list A) : N := N.of_nat (length l).

(** [take]/[drop] with binary counters (what a read of [n] bytes does). *)
Definition takeN {A} (n : N) (l : list A) : list A := firstn (N.to_nat n) l.
Definition dropN {A} (n : N) (l : list A) : list A := skipn (N.to_nat n) l.

(** Position of the first NUL byte. *)
Fixpoint find_zero (l : bytes) : option nat :=
  match l with
  | [] => None
  | b :: r => if N.eqb b 0 then Some O
              else match find_zero r with Some i => Some (S i) | None => None end
  end.

Definition nonul (l : bytes) : Prop := ~ In 0%N l.
Fixpoint nonulb (l : bytes) : bool :=
  match l with [] => true | b :: r => negb (N.eqb b 0) && nonulb r end.

Fixpoint bytes_eqb (a b : bytes) : bool :=
  match a, b with
  | [], [] => true
  | x :: a', y :: b' => N.eqb x y && bytes_eqb a' b'
  | _, _ => false
  end.

Definition all_bytes (l : bytes) : Prop := Forall (fun b => (b < 256)%N) l.
