(** UTF-8 well-formedness exactly as [String::from_utf8] decides it
    (Unicode Standard, table 3-7), and the ASCII projection of
    [str::to_lowercase] that option-name recognition needs. *)
From Tftp Require Import Base.Prelude.
Local Open Scope N_scope.

Definition in_rng (lo hi b : N) : bool := (lo <=? b) && (b <=? hi).
Definition cont (b : N) : bool := in_rng 128 191 b.

Fixpoint utf8_valid (l : bytes) : bool :=
  match l with
  | [] => true
  | b :: r =>
    if b <? 128 then utf8_valid r
    else if in_rng 194 223 b then
      match r with c1 :: r1 => cont c1 && utf8_valid r1 | _ => false end
    else if b =? 224 then
      match r with c1 :: c2 :: r2 => in_rng 160 191 c1 && cont c2 && utf8_valid r2 | _ => false end
    else if in_rng 225 236 b || in_rng 238 239 b then
      match r with c1 :: c2 :: r2 => cont c1 && cont c2 && utf8_valid r2 | _ => false end
    else if b =? 237 then
      match r with c1 :: c2 :: r2 => in_rng 128 159 c1 && cont c2 && utf8_valid r2 | _ => false end
    else if b =? 240 then
      match r with c1 :: c2 :: c3 :: r3 => in_rng 144 191 c1 && cont c2 && cont c3 && utf8_valid r3 | _ => false end
    else if in_rng 241 243 b then
      match r with c1 :: c2 :: c3 :: r3 => cont c1 && cont c2 && cont c3 && utf8_valid r3 | _ => false end
    else if b =? 244 then
      match r with c1 :: c2 :: c3 :: r3 => in_rng 128 143 c1 && cont c2 && cont c3 && utf8_valid r3 | _ => false end
    else false
  end.

(** Lower-casing, projected to what can equal an ASCII name: ASCII capitals are
    folded, U+212A KELVIN SIGN (E2 84 AA) becomes 'k', every other non-ASCII
    scalar keeps bytes >= 128 (validated exhaustively against
    [char::to_lowercase] by the harness; trusted base). *)
Fixpoint lower (l : bytes) : bytes :=
  match l with
  | [] => []
  | b :: r =>
    if b =? 226 then
      match r with
      | c1 :: c2 :: r2 => if (c1 =? 132) && (c2 =? 170) then 107 :: lower r2 else b :: lower r
      | _ => b :: lower r
      end
    else (if in_rng 65 90 b then b + 32 else b) :: lower r
  end.
