(** Extraction of the executable model for the correspondence driver.
    [ExtrOcamlBasic] only: bool, option, unit, list, prod, sumbool, sumor are mapped
    to their OCaml counterparts; N / positive / nat stay inductive types. *)
From Coq Require Extraction ExtrOcamlBasic.
From Tftp Require Import Base.Prelude Base.Utf8 Base.Decimal Model.Types Model.Consts Model.Codec
  Model.Window Model.Worker Model.Rfc Model.Monitors Model.Config Model.Server Model.Net Model.Client.
Extraction Language OCaml.
Extraction "model.ml"
  N.of_uint N.to_uint N.add N.mul N.div N.modulo N.eqb N.ltb N.leb N.of_nat N.to_nat
  uint_of_bytes bytes_of_uint to_dec parse_usize parse_bounded utf8_valid lower
  encode decode u16_be opt_name opt_of_name recognise u16_of_errcode errcode_of_u16 u16_of_opcode opcode_of_u16
  window_new file_for_read file_created mk_file wrun wstep written_bytes w_len w_is_empty w_is_full
  send_init send_step recv_init recv_step recv_final_file
  max_retries
  okC10 okC11_enc okC11_conv rfc_layout okSend okRecv fnv_extend fnv_init parse_args parse_client_args okDupArgs
  listen_step lstate_init worker_ended stat kind_of create_file remove_file lookup_entry set_entry run_download run_upload nblocks_of
  convert_file_path join validate_file_path parse_options default_wopts msg_invalid_request kernel_segs unhonourable pair_init pair_step pair_init_cap pair_step_cap
  download_request upload_request on_first_reply_download on_first_reply_upload download_target file_name.
