(** Proofs about the receiving loop ([Worker::receive_file]): C02, C07, C08 (receiver side). *)
From Coq Require Import ZArith Lia ZifyBool ZifyNat ZifyN.
From Tftp Require Import Base.Prelude Model.Types Model.Consts Model.Codec Model.Window Model.Worker Model.Spec
  Proofs.ListAux Proofs.CodecP.
Local Open Scope N_scope.

(** * What the socket layer hands to the loop *)

(** With the [UdpSocket] flavour the datagram is cut to [blk + 4] bytes before decoding,
    so an accepted payload never exceeds the block size. *)
Theorem recv_payload_bounded : forall blk e n p,
  receive blk e = RPacket (Data n p) -> lenN p <= blk.
Admitted.

(** The decoder never panics, so neither does the receive. *)
Theorem receive_never_panics : forall size e, receive size e <> RPanic.
Admitted.

(** * The property's notion of "accepted in sequence" *)

(** [accepted] is finished once a short block was accepted. *)
Definition finished (blk : N) (acc : list bytes) : Prop :=
  exists init last, acc = init ++ [last] /\ lenN last < blk.

Theorem accepted_full_prefix : forall blk c evs,
  forall init last, accepted blk c evs = init ++ [last] -> Forall (fun p => lenN p = blk) init.
Admitted.

(** Extending the arrivals by one event: nothing changes once finished; otherwise the
    event is accepted iff it is DATA with the next number. *)
Theorem accepted_snoc : forall blk evs e,
  accepted blk 0 (evs ++ [e]) =
  accepted blk 0 evs ++
    (if (existsb (fun p => lenN p <? blk) (accepted blk 0 evs)) then []
     else match receive blk e with
          | RPacket (Data n p) =>
            if n =? (lenN (accepted blk 0 evs) + 1) mod 65536 then [p] else []
          | _ => []
          end).
Admitted.

Theorem accepted_finished_app : forall blk evs rest,
  existsb (fun p => lenN p <? blk) (accepted blk 0 evs) = true ->
  accepted blk 0 (evs ++ rest) = accepted blk 0 evs.
Admitted.

(** * The invariant of the receiving loop, relative to the events consumed so far *)

Definition RInv (cfg : rcfg) (hist : list ev) (st : rstate) : Prop :=
  let w := r_w st in
  let acc := accepted (r_blk cfg) 0 hist in
  w_size w = r_ws cfg /\ w_chunk w = r_blk cfg /\ f_mode (w_file w) = FWrite /\
  r_cnt st = lenN acc /\
  r_bn st = r_cnt st mod 65536 /\
  lenN (w_elems w) <= r_ws cfg /\
  (r_phase st = RRun -> lenN (w_elems w) < r_ws cfg) /\
  (r_phase st = RRun -> Forall (fun p => lenN p = r_blk cfg) acc) /\
  written_bytes (w_file w) ++ concat (w_elems w) = concat acc /\
  r_retry st < max_retries.

Theorem recv_init_inv : forall cfg, wf_params (r_blk cfg) (r_ws cfg) -> RInv cfg [] (recv_init cfg).
Admitted.

(** One step from a running state: the invariant holds for the extended history. *)
Theorem recv_step_inv : forall cfg hist st e, wf_params (r_blk cfg) (r_ws cfg) ->
  RInv cfg hist st -> r_phase st = RRun -> RInv cfg (hist ++ [e]) (fst (recv_step cfg st e)).
Admitted.

(** Every ACK is sent with an empty buffer - everything accepted so far is in the file -
    and carries the 16-bit count of blocks accepted in sequence. *)
Theorem recv_step_acks : forall cfg hist st e st' out, wf_params (r_blk cfg) (r_ws cfg) ->
  RInv cfg hist st -> r_phase st = RRun -> recv_step cfg st e = (st', out) ->
  Forall (fun a => s_pk (a_sent a) = Ack (r_bn st') /\
                   a_file a = f_written (w_file (r_w st')) /\
                   w_elems (r_w st') = []) out.
Admitted.

(** C02: for every event list, the j-th burst of ACKs was emitted when the file held
    exactly the concatenation of the blocks accepted in sequence among the first j+1
    arrivals, and acknowledges their count (mod 65536). *)
Theorem recv_ack_implies_stored : forall cfg evs st outs j burst a, wf_params (r_blk cfg) (r_ws cfg) ->
  run_recv cfg evs = (st, outs) -> nth_error outs j = Some burst -> In a burst ->
  let acc := accepted (r_blk cfg) 0 (firstn (S j) evs) in
  s_pk (a_sent a) = Ack (lenN acc mod 65536) /\ concat (rev (a_file a)) = concat acc.
Admitted.

(** Success means: a short block was accepted in sequence, and the file is exactly the
    concatenation of everything accepted in sequence - each block once, in order. *)
Theorem recv_final : forall cfg evs st outs, wf_params (r_blk cfg) (r_ws cfg) ->
  run_recv cfg evs = (st, outs) -> r_phase st = RDone OutOk ->
  written_bytes (w_file (r_w st)) = concat (accepted (r_blk cfg) 0 evs) /\
  finished (r_blk cfg) (accepted (r_blk cfg) 0 evs).
Admitted.

(** In every state the file is a prefix (on block boundaries) of what was accepted. *)
Theorem recv_file_is_prefix : forall cfg evs st outs, wf_params (r_blk cfg) (r_ws cfg) ->
  run_recv cfg evs = (st, outs) ->
  exists k, written_bytes (w_file (r_w st)) = concat (firstn k (accepted (r_blk cfg) 0 evs)).
Admitted.

(** The final short block, once accepted, is flushed, acknowledged [rep] times and ends the transfer. *)
Theorem recv_ends_at_final_block : forall cfg hist st e n p, wf_params (r_blk cfg) (r_ws cfg) ->
  RInv cfg hist st -> r_phase st = RRun ->
  receive (r_blk cfg) e = RPacket (Data n p) -> n = wadd16 (r_bn st) 1 -> lenN p < r_blk cfg ->
  memN (r_nsent st) (r_fails cfg) = false -> 1 <= r_rep cfg ->
  exists st' out, recv_step cfg st e = (st', out) /\ r_phase st' = RDone OutOk /\
    length out = N.to_nat (r_rep cfg) /\ w_elems (r_w st') = [].
Admitted.

(** No window misuse, file error or panic in any reachable step. *)
Theorem recv_step_no_internal_error : forall cfg hist st e st', wf_params (r_blk cfg) (r_ws cfg) ->
  RInv cfg hist st -> r_phase st = RRun -> st' = fst (recv_step cfg st e) ->
  r_phase st' <> RDone OutWinAdd /\ r_phase st' <> RDone OutIo /\ r_phase st' <> RDone OutPanic
  /\ r_phase st' <> RDone OutWinRemove.
Admitted.

(** * Termination (C07, receiver side) *)

Theorem recv_done_absorbing : forall cfg st e o, r_phase st = RDone o -> recv_step cfg st e = (st, []).
Admitted.

Theorem recv_error_stops : forall cfg st e c m st' out, r_phase st = RRun ->
  receive (r_blk cfg) e = RPacket (Error c m) ->
  recv_step cfg st e = (st', out) -> out = [] /\ r_phase st' = RDone OutPeer.
Admitted.

Theorem recv_silence_bounded : forall cfg st d n, r_retry st < max_retries -> r_phase st = RRun ->
  max_retries - r_retry st <= N.of_nat n ->
  r_phase (fst (recv_steps cfg st (repeat (EvFail d) n))) = RDone OutTimeout /\
  concat (snd (recv_steps cfg st (repeat (EvFail d) n))) = [].
Admitted.

(** * Acknowledgement cadence (C08, receiver side) and repeated ACKs *)

(** An out-of-sequence block arriving while nothing is buffered repeats the last ACK;
    with blocks buffered it is ignored.  Neither touches the file or the counters. *)
Theorem recv_out_of_sequence : forall cfg st e n p, r_phase st = RRun ->
  receive (r_blk cfg) e = RPacket (Data n p) -> n <> wadd16 (r_bn st) 1 ->
  exists st' out, recv_step cfg st e = (st', out) /\
    r_bn st' = r_bn st /\ r_w st' = r_w st /\ r_cnt st' = r_cnt st /\ r_retry st' = r_retry st /\
    Forall (fun a => s_pk (a_sent a) = Ack (r_bn st)) out /\
    (w_elems (r_w st) <> [] -> out = [] /\ st' = st).
Admitted.

(** The [ws]-th consecutive in-order block is acknowledged at once. *)
Theorem recv_acks_full_window : forall cfg hist st e n p, wf_params (r_blk cfg) (r_ws cfg) ->
  RInv cfg hist st -> r_phase st = RRun ->
  receive (r_blk cfg) e = RPacket (Data n p) -> n = wadd16 (r_bn st) 1 ->
  lenN (w_elems (r_w st)) + 1 = r_ws cfg -> 1 <= r_rep cfg ->
  exists st' out, recv_step cfg st e = (st', out) /\ out <> [] /\ w_elems (r_w st') = [] /\
    Forall (fun a => s_pk (a_sent a) = Ack n) out.
Admitted.

(** * Conformant sender (files of at most 65536 blocks: no block number is reused) *)

Definition conformant (blk : N) (F : bytes) (e : ev) : Prop :=
  match receive blk e with
  | RPacket (Data n p) => exists k, 1 <= k <= nblk blk F /\ n = k mod 65536 /\ p = chunk blk F k
  | _ => True
  end.

(** Whatever is dropped, duplicated, reordered or delayed, and whatever stray packets
    are mixed in: if the transfer succeeds the file is the sender's file. *)
Theorem recv_conformant_sender : forall cfg F evs st outs, wf_params (r_blk cfg) (r_ws cfg) ->
  nblk (r_blk cfg) F <= 65536 -> Forall (conformant (r_blk cfg) F) evs ->
  run_recv cfg evs = (st, outs) -> r_phase st = RDone OutOk ->
  written_bytes (w_file (r_w st)) = F.
Admitted.
