(** Proofs about the receiving loop ([Worker::receive_file]): C02, C07, C08, C13 (receiver side). *)
From Coq Require Import ZArith Lia ZifyBool ZifyNat ZifyN.
From Tftp Require Import Base.Prelude Model.Types Model.Consts Model.Codec Model.Window Model.Worker Model.Spec
  Proofs.ListAux Proofs.CodecP Proofs.SpecP Proofs.WindowP Proofs.SendP.
Local Open Scope N_scope.
Ltac Zify.zify_post_hook ::= Z.div_mod_to_equations.

Lemma lenN_one {A} : forall (x : A), lenN [x] = 1.
Proof. reflexivity. Qed.

(** * What the socket layer hands to the loop *)

Lemma parse_rq_shape : forall buf op p, parse_rq buf op = Ok p ->
  (exists f m os, p = Rrq f m os) \/ (exists f m os, p = Wrq f m os).
Proof.
  intros buf op p. unfold parse_rq.
  destruct (to_string buf 2) as [[f z]|e| |]; cbn [bind]; try discriminate.
  destruct (to_string buf (z + 1)) as [[m z2]|e| |]; cbn [bind]; try discriminate.
  destruct (parse_opts (length buf) buf z2) as [os|e| |]; cbn [bind]; try discriminate.
  destruct op; try discriminate; intros H; injection H as <-; [left|right]; eauto.
Qed.

(** A datagram that decodes to DATA is its four header bytes followed by the payload. *)
Lemma decode_data_inv : forall buf n p, decode buf = Ok (Data n p) ->
  exists a b c d, buf = a :: b :: c :: d :: p /\ n = c * 256 + d.
Proof.
  intros buf n p H. destruct buf as [|a [|b rest]]; [discriminate|discriminate|].
  rewrite decode_cons2 in H. destruct (opcode_of_u16 (a * 256 + b)) as [o|]; [|discriminate].
  destruct o.
  - destruct (parse_rq_shape _ _ _ H) as [(f & m & os & X)|(f & m & os & X)]; discriminate.
  - destruct (parse_rq_shape _ _ _ H) as [(f & m & os & X)|(f & m & os & X)]; discriminate.
  - destruct rest as [|c [|d r]]; [discriminate|discriminate|].
    rewrite parse_data_4 in H. injection H as <- <-. exists a, b, c, d. split; reflexivity.
  - destruct (parse_ack_shape _ _ H) as (k & X). discriminate.
  - destruct (parse_error_shape _ _ H) as (c & m & X). discriminate.
  - unfold parse_oack in H. destruct (parse_opts _ _ _); cbn [bind] in H; discriminate.
Qed.

(** With the [UdpSocket] flavour the datagram is cut to [blk + 4] bytes before decoding,
    so an accepted payload never exceeds the block size. *)
Theorem recv_payload_bounded : forall blk e n p,
  receive blk e = RPacket (Data n p) -> lenN p <= blk.
Proof.
  intros blk e n p H. unfold receive in H. destruct e as [d raw|d]; [|discriminate].
  destruct (decode (takeN (blk + 4) raw)) as [q|err| |] eqn:E; try discriminate.
  injection H as ->. destruct (decode_data_inv _ _ _ E) as (a & b & c & dd & Hb & _).
  assert (Hl : lenN (takeN (blk + 4) raw) <= blk + 4) by (rewrite lenN_takeN; lia).
  rewrite Hb in Hl. rewrite !lenN_cons in Hl. lia.
Qed.

(** The decoder never panics, so neither does the receive. *)
Theorem receive_never_panics : forall size e, receive size e <> RPanic.
Proof.
  intros size e. unfold receive. destruct e as [d raw|d]; [|discriminate].
  destruct (decode_never_panics (takeN (size + 4) raw)) as (H1 & H2 & _).
  destruct (decode (takeN (size + 4) raw)); try discriminate; congruence.
Qed.

(** * The property's notion of "accepted in sequence" *)

Definition short (blk : N) (p : bytes) : bool := lenN p <? blk.

(** What one more arrival adds to the blocks accepted in sequence: nothing once a short
    block was accepted; otherwise the arrival iff it is DATA with the next number. *)
Definition accepts (blk : N) (acc : list bytes) (c : N) (e : ev) : list bytes :=
  if existsb (short blk) acc then []
  else match receive blk e with
       | RPacket (Data n p) => if n =? (c + lenN acc + 1) mod 65536 then [p] else []
       | _ => []
       end.

Lemma accepted_snoc_gen : forall blk evs c e,
  accepted blk c (evs ++ [e]) = accepted blk c evs ++ accepts blk (accepted blk c evs) c e.
Proof.
  intros blk evs. induction evs as [|x r IH]; intros c e.
  - cbn [app accepted]. unfold accepts. cbn [existsb]. rewrite lenN_nil, N.add_0_r.
    destruct (receive blk e) as [p| |]; try reflexivity.
    destruct p; try reflexivity. destruct (_ =? _); [|reflexivity].
    destruct (lenN payload <? blk); reflexivity.
  - cbn [app accepted].
    destruct (receive blk x) as [p| |]; try (rewrite IH; reflexivity).
    destruct p as [f m os|f m os|n d|n|cd m|os]; try (rewrite IH; reflexivity).
    destruct (n =? (c + 1) mod 65536); [|rewrite IH; reflexivity].
    destruct (N.ltb_spec (lenN d) blk) as [Hs|Hf].
    + cbn [app]. unfold accepts. cbn [existsb]. unfold short at 1.
      destruct (N.ltb_spec (lenN d) blk); [|lia]. cbn [orb]. reflexivity.
    + rewrite IH. cbn [app]. f_equal. unfold accepts. cbn [existsb]. unfold short at 2.
      destruct (N.ltb_spec (lenN d) blk); [lia|]. cbn [orb]. rewrite lenN_cons.
      replace (c + 1 + lenN (accepted blk (c + 1) r) + 1) with (c + (lenN (accepted blk (c + 1) r) + 1) + 1) by lia.
      reflexivity.
Qed.

Theorem accepted_snoc : forall blk evs e,
  accepted blk 0 (evs ++ [e]) = accepted blk 0 evs ++ accepts blk (accepted blk 0 evs) 0 e.
Proof. intros. apply accepted_snoc_gen. Qed.

(** Once a short block was accepted, nothing that arrives later is accepted. *)
Theorem accepted_finished_app : forall blk rest evs,
  existsb (short blk) (accepted blk 0 evs) = true ->
  accepted blk 0 (evs ++ rest) = accepted blk 0 evs.
Proof.
  intros blk rest. induction rest as [|e rest IH] using rev_ind; intros evs H.
  - rewrite app_nil_r. reflexivity.
  - rewrite app_assoc, accepted_snoc, IH by assumption. unfold accepts. rewrite H. apply app_nil_r.
Qed.

(** Only the last accepted block can be short. *)
Theorem accepted_full_prefix : forall blk evs c init last,
  accepted blk c evs = init ++ [last] -> Forall (fun p => short blk p = false) init.
Proof.
  intros blk evs. induction evs as [|x r IH]; intros c init last H; cbn [accepted] in H.
  - destruct init; discriminate.
  - destruct (receive blk x) as [p| |]; try (eapply IH; exact H).
    destruct p as [f m os|f m os|n d|n|cd m|os]; try (eapply IH; exact H).
    destruct (n =? (c + 1) mod 65536); [|eapply IH; exact H].
    destruct (N.ltb_spec (lenN d) blk) as [Hs|Hf].
    + destruct init as [|i0 init]; [constructor|]. cbn [app] in H. injection H as _ H.
      destruct init; discriminate.
    + destruct init as [|i0 init]; [constructor|]. cbn [app] in H. injection H as <- H.
      constructor; [unfold short; destruct (N.ltb_spec (lenN d) blk); [lia|reflexivity]|].
      eapply IH. exact H.
Qed.

(** * The invariant of the receiving loop, relative to the events consumed so far *)

Definition RInv (cfg : rcfg) (hist : list ev) (st : rstate) : Prop :=
  let w := r_w st in
  let acc := accepted (r_blk cfg) 0 hist in
  w_size w = r_ws cfg /\ w_chunk w = r_blk cfg /\ f_mode (w_file w) = FWrite /\
  r_cnt st = lenN acc /\
  r_bn st = r_cnt st mod 65536 /\
  lenN (w_elems w) <= r_ws cfg /\
  (r_phase st = RRun -> lenN (w_elems w) < r_ws cfg) /\
  (r_phase st = RRun -> existsb (short (r_blk cfg)) acc = false) /\
  written_bytes (w_file w) ++ concat (w_elems w) = concat acc /\
  r_retry st < max_retries.

Theorem recv_init_inv : forall cfg, wf_params (r_blk cfg) (r_ws cfg) -> RInv cfg [] (recv_init cfg).
Proof.
  intros cfg (Hb & Hw1 & Hw2). unfold RInv, recv_init.
  cbn [r_w r_cnt r_bn r_phase r_retry window_new w_elems w_size w_chunk w_file file_created f_mode accepted
       written_bytes f_written rev concat app existsb].
  unfold lenN. cbn [length N.of_nat]. repeat split; try reflexivity; try lia.
Qed.

Lemma RInv_WInv : forall cfg hist st, wf_params (r_blk cfg) (r_ws cfg) -> RInv cfg hist st -> WInv (r_w st).
Proof. intros cfg hist st (_ & _ & Hw) (A & _ & _ & _ & _ & G & _). split; rewrite A; assumption. Qed.

(** [send_packet(&Packet::Ack(block_number))] *)
Lemma r_ack_spec : forall cfg st next st' out, r_ack cfg st next = (st', out) ->
  r_bn st' = r_bn st /\ r_w st' = r_w st /\ r_retry st' = r_retry st /\ r_cnt st' = r_cnt st /\
  (r_phase st' = next \/ r_phase st' = RDone OutSendFail) /\
  Forall (fun a => s_pk (a_sent a) = Ack (r_bn st) /\ a_file a = f_written (w_file (r_w st))) out.
Proof.
  intros cfg st next st' out H. unfold r_ack in H.
  destruct (send_packet (r_fails cfg) (r_rep cfg) (Ack (r_bn st)) (r_nsent st)) as [[o n] ok] eqn:P.
  pose proof (send_packet_pk _ _ _ _ _ _ _ P) as Hp.
  inversion H; subst. cbn [r_bn r_w r_retry r_cnt r_phase]. repeat split; try reflexivity.
  - destruct ok; [left|right]; reflexivity.
  - unfold tag_file. rewrite Forall_map. eapply Forall_impl; [|exact Hp].
    intros s Hs. cbn [a_sent a_file]. split; [exact Hs|reflexivity].
Qed.

(** An in-sequence block: what [recv_step] computes, under the invariant. *)
Lemma step_data_in : forall cfg hist st e n d, wf_params (r_blk cfg) (r_ws cfg) ->
  RInv cfg hist st -> r_phase st = RRun ->
  receive (r_blk cfg) e = RPacket (Data n d) -> n = wadd16 (r_bn st) 1 ->
  let w1 := mk_window (w_elems (r_w st) ++ [d]) (w_size (r_w st)) (w_chunk (r_w st)) (w_file (r_w st)) in
  let final := lenN d <? r_blk cfg in
  recv_step cfg st e =
    if final || (lenN (w_elems (r_w st)) + 1 =? r_ws cfg) then
      r_ack cfg (mk_rstate n (mk_window [] (w_size (r_w st)) (w_chunk (r_w st))
                               (mk_file FWrite (f_rest (w_file (r_w st)))
                                        (rev (w_elems (r_w st) ++ [d]) ++ f_written (w_file (r_w st)))))
                           0 (r_nsent st) RRun (r_cnt st + 1))
            (if final then RDone OutOk else RRun)
    else (mk_rstate n w1 (r_retry st) (r_nsent st) RRun (r_cnt st + 1), []).
Proof.
  intros cfg hist st e n d Hwf Hi Hp Hr Hn w1 final.
  pose proof (RInv_WInv _ _ _ Hwf Hi) as Hw.
  destruct Hi as (A & B & C & D & E & G & G2 & I & J & K). specialize (G2 Hp).
  unfold recv_step. rewrite Hp, Hr, Hn, N.eqb_refl.
  rewrite (proj2 (add_exact (r_w st) d Hw)) by lia. fold w1.
  assert (Hw1 : WInv w1).
  { destruct Hw. split; unfold w1; cbn [w_elems w_size]; [rewrite lenN_app, lenN_one; lia|assumption]. }
  assert (Hfull : w_is_full w1 = (lenN (w_elems (r_w st)) + 1 =? r_ws cfg)).
  { unfold w_is_full. rewrite (w_len_exact _ Hw1). unfold w1. cbn [w_elems w_size].
    rewrite lenN_app, lenN_one, A. reflexivity. }
  rewrite Hfull. fold final.
  destruct (final || (lenN (w_elems (r_w st)) + 1 =? r_ws cfg)); [|reflexivity].
  unfold empty. unfold w1 at 1. cbn [w_elems].
  destruct (w_elems (r_w st) ++ [d]) as [|x l] eqn:El; [destruct (w_elems (r_w st)); discriminate|].
  unfold w1. cbn [w_file w_size w_chunk]. rewrite C. reflexivity.
Qed.

(** One step from a running state: the invariant holds for the extended history, and
    every ACK is sent with an empty buffer - everything accepted so far is in the file -
    carrying the 16-bit count of blocks accepted in sequence. *)
Theorem recv_step_spec : forall cfg hist st e st' out, wf_params (r_blk cfg) (r_ws cfg) ->
  RInv cfg hist st -> r_phase st = RRun -> recv_step cfg st e = (st', out) ->
  RInv cfg (hist ++ [e]) st' /\
  Forall (fun a => s_pk (a_sent a) = Ack (r_bn st') /\
                   a_file a = f_written (w_file (r_w st')) /\
                   w_elems (r_w st') = []) out.
Proof.
  intros cfg hist st e st' out Hwf Hi Hp H.
  pose proof Hi as (A & B & C & D & E & G & G2 & I & J & K).
  specialize (G2 Hp). specialize (I Hp).
  (* what the new event adds to the accepted blocks *)
  assert (Hacc : accepted (r_blk cfg) 0 (hist ++ [e]) =
                 accepted (r_blk cfg) 0 hist ++
                 match receive (r_blk cfg) e with
                 | RPacket (Data n p) => if n =? wadd16 (r_bn st) 1 then [p] else []
                 | _ => []
                 end).
  { rewrite accepted_snoc. unfold accepts. rewrite I. f_equal.
    destruct (receive (r_blk cfg) e) as [p| |]; try reflexivity. destruct p; try reflexivity.
    rewrite N.add_0_l, <- D. replace (wadd16 (r_bn st) 1) with ((r_cnt st + 1) mod 65536)
      by (unfold wadd16; rewrite E; lia). reflexivity. }
  (* a step that leaves everything but the retry counter / phase alone and accepts nothing *)
  assert (Hsame : forall st2, r_w st2 = r_w st -> r_cnt st2 = r_cnt st -> r_bn st2 = r_bn st ->
            r_retry st2 < max_retries ->
            accepted (r_blk cfg) 0 (hist ++ [e]) = accepted (r_blk cfg) 0 hist ->
            RInv cfg (hist ++ [e]) st2).
  { intros st2 E1 E2 E3 E4 E5. unfold RInv. rewrite E1, E2, E3, E5.
    repeat split; try assumption; intros; try assumption; lia. }
  destruct (receive (r_blk cfg) e) as [p| |] eqn:Hr.
  - destruct p as [f m os|f m os|n d|n|c m|os].
    1,2,4,6: unfold recv_step in H; rewrite Hp, Hr in H; rewrite app_nil_r in Hacc;
      (destruct (N.eqb_spec (r_retry st + 1) max_retries);
       inversion H; subst; (split; [apply Hsame; cbn [r_w r_cnt r_bn r_retry r_done]; try reflexivity; try assumption; lia|constructor])).
    + (* DATA *)
      destruct (N.eqb_spec n (wadd16 (r_bn st) 1)) as [Hn|Hn].
      * rewrite (step_data_in cfg hist st e n d Hwf Hi Hp Hr Hn) in H. cbv zeta in H.
        assert (Hcnt : lenN (accepted (r_blk cfg) 0 (hist ++ [e])) = r_cnt st + 1)
          by (rewrite Hacc, lenN_app, lenN_one; lia).
        assert (Hbn : n = (r_cnt st + 1) mod 65536) by (rewrite Hn; unfold wadd16; rewrite E; lia).
        destruct ((lenN d <? r_blk cfg) || (lenN (w_elems (r_w st)) + 1 =? r_ws cfg)) eqn:Hflush.
        -- (* flush and acknowledge *)
           destruct (r_ack_spec _ _ _ _ _ H) as (F1 & F2 & F3 & F4 & F5 & F6).
           cbn [r_bn r_w r_retry r_cnt] in F1, F2, F3, F4, F6. split.
           ++ unfold RInv. rewrite F1, F2, F3, F4. cbn [w_elems w_size w_chunk w_file f_mode].
              change (@lenN bytes []) with 0. destruct Hwf as (Hb & Hw1 & Hw2).
              split; [exact A|]. split; [exact B|]. split; [reflexivity|]. split; [symmetry; exact Hcnt|].
              split; [exact Hbn|]. split; [lia|]. split; [intros; lia|]. split.
              { intros Hrun. destruct F5 as [F5|F5]; [|rewrite F5 in Hrun; discriminate].
                rewrite F5 in Hrun. destruct (N.ltb_spec (lenN d) (r_blk cfg)) as [Hs|Hf]; [discriminate|].
                rewrite Hacc, existsb_app, I. cbn [existsb orb]. unfold short.
                destruct (N.ltb_spec (lenN d) (r_blk cfg)); [lia|reflexivity]. }
              split; [|exact max_retries_pos].
              unfold written_bytes. cbn [f_written concat]. rewrite app_nil_r, rev_app_distr, rev_involutive, concat_app.
              unfold written_bytes in J. rewrite Hacc, !concat_app, app_assoc, J. reflexivity.
           ++ eapply Forall_impl; [|exact F6]. intros a [Ha1 Ha2]. rewrite F1, F2. cbn [w_file w_elems].
              repeat split; assumption.
        -- (* buffered *)
           inversion H; subst st' out. split; [|constructor].
           apply orb_false_iff in Hflush. destruct Hflush as [Hnf Hnfull].
           unfold RInv. cbn [r_w r_cnt r_bn r_phase r_retry w_elems w_size w_chunk w_file].
           rewrite lenN_app, lenN_one.
           destruct (N.eqb_spec (lenN (w_elems (r_w st)) + 1) (r_ws cfg)); [discriminate|].
           split; [exact A|]. split; [exact B|]. split; [exact C|]. split; [symmetry; exact Hcnt|].
           split; [exact Hbn|]. split; [lia|]. split; [intros; lia|]. split.
           { intros _. rewrite Hacc, existsb_app, I. cbn [existsb orb]. unfold short. rewrite Hnf. reflexivity. }
           split; [|exact K].
           rewrite Hacc, !concat_app, app_assoc, J. reflexivity.
      * (* out of sequence *)
        rewrite app_nil_r in Hacc.
        unfold recv_step in H. rewrite Hp, Hr in H.
        destruct (N.eqb_spec n (wadd16 (r_bn st) 1)); [contradiction|].
        destruct (w_is_empty (r_w st)) eqn:Hemp.
        -- destruct (r_ack_spec _ _ _ _ _ H) as (F1 & F2 & F3 & F4 & F5 & F6). split.
           ++ apply Hsame; try assumption. rewrite F3. exact K.
           ++ apply w_is_empty_iff in Hemp. eapply Forall_impl; [|exact F6]. intros a [Ha1 Ha2].
              rewrite F1, F2. repeat split; assumption.
        -- inversion H; subst. split; [apply Hsame; try reflexivity; assumption|constructor].
    + (* ERROR *)
      unfold recv_step in H. rewrite Hp, Hr in H. rewrite app_nil_r in Hacc. inversion H; subst.
      split; [apply Hsame; try reflexivity; assumption|constructor].
  - unfold recv_step in H. rewrite Hp, Hr in H. rewrite app_nil_r in Hacc.
    destruct (N.eqb_spec (r_retry st + 1) max_retries);
      inversion H; subst; (split; [apply Hsame; cbn [r_w r_cnt r_bn r_retry r_done]; try reflexivity; try assumption; lia|constructor]).
  - exfalso. exact (receive_never_panics _ _ Hr).
Qed.

Theorem recv_step_inv : forall cfg hist st e, wf_params (r_blk cfg) (r_ws cfg) ->
  RInv cfg hist st -> r_phase st = RRun -> RInv cfg (hist ++ [e]) (fst (recv_step cfg st e)).
Proof.
  intros cfg hist st e Hwf Hi Hp. destruct (recv_step cfg st e) as [st' out] eqn:E.
  exact (proj1 (recv_step_spec _ _ _ _ _ _ Hwf Hi Hp E)).
Qed.

Theorem recv_done_absorbing : forall cfg st e o, r_phase st = RDone o -> recv_step cfg st e = (st, []).
Proof. intros cfg st e o H. unfold recv_step. rewrite H. reflexivity. Qed.

Lemma recv_steps_done : forall cfg evs st o, r_phase st = RDone o ->
  recv_steps cfg st evs = (st, map (fun _ => []) evs).
Proof.
  intros cfg evs. induction evs as [|e evs IH]; intros st o H; cbn [recv_steps map]; [reflexivity|].
  rewrite (recv_done_absorbing _ _ _ _ H), (IH _ _ H). reflexivity.
Qed.

Lemma nth_error_map_nil : forall {A B} (l : list A) j (b : list B),
  nth_error (map (fun _ => []) l) j = Some b -> b = [].
Proof.
  intros A B l. induction l as [|x l IHl]; intros j b Hn.
  - destruct j; discriminate.
  - destruct j; cbn [map nth_error] in Hn; [injection Hn as <-; reflexivity|eapply IHl; exact Hn].
Qed.

(** * C02 *)

(** Generalised over the starting state: the [j]-th burst of a run that starts in a state
    satisfying the invariant for [hist]. *)
Lemma recv_steps_acks : forall cfg evs hist st st' outs j burst a, wf_params (r_blk cfg) (r_ws cfg) ->
  RInv cfg hist st -> recv_steps cfg st evs = (st', outs) ->
  nth_error outs j = Some burst -> In a burst ->
  let acc := accepted (r_blk cfg) 0 (hist ++ firstn (S j) evs) in
  s_pk (a_sent a) = Ack (lenN acc mod 65536) /\ concat (rev (a_file a)) = concat acc.
Proof.
  intros cfg evs. induction evs as [|e evs IH]; intros hist st st' outs j burst a Hwf Hi H Hn Ha;
    cbn [recv_steps] in H.
  - inversion H; subst. destruct j; discriminate.
  - destruct (recv_step cfg st e) as [st1 out] eqn:E1. destruct (recv_steps cfg st1 evs) as [st2 outs2] eqn:E2.
    inversion H; subst.
    destruct (r_phase st) eqn:Hp.
    + destruct (recv_step_spec _ _ _ _ _ _ Hwf Hi Hp E1) as [Hi1 Ho].
      destruct j as [|j]; cbn [nth_error] in Hn.
      * injection Hn as <-. rewrite Forall_forall in Ho. destruct (Ho _ Ha) as (O1 & O2 & O3).
        cbv zeta. change (firstn 1 (e :: evs)) with [e]. destruct Hi1 as (A & B & C & D & E & G & G2 & I & J & K).
        rewrite O3 in J. cbn [concat] in J. rewrite app_nil_r in J. unfold written_bytes in J.
        split; [rewrite O1, E, D; reflexivity|rewrite O2; exact J].
      * cbv zeta. change (firstn (S (S j)) (e :: evs)) with (e :: firstn (S j) evs).
        replace (hist ++ e :: firstn (S j) evs) with ((hist ++ [e]) ++ firstn (S j) evs)
          by (rewrite <- app_assoc; reflexivity).
        eapply IH; eassumption.
    + exfalso. rewrite (recv_done_absorbing _ _ _ _ Hp) in E1. inversion E1; subst.
      rewrite (recv_steps_done _ _ _ _ Hp) in E2. inversion E2; subst.
      assert (Hb : burst = []) by (eapply (nth_error_map_nil (e :: evs)); exact Hn).
      subst burst. contradiction.
Qed.

(** C02: for every event list, every ACK of the [j]-th burst was emitted when the file held
    exactly the concatenation of the blocks accepted in sequence among the first [j+1]
    arrivals - each once, in order - and it acknowledges their count (mod 65536).  So
    nothing is acknowledged that was not received in sequence, and at the moment of
    ACK(k) every byte of blocks 1..k is in the file. *)
Theorem recv_ack_implies_stored : forall cfg evs st outs j burst a, wf_params (r_blk cfg) (r_ws cfg) ->
  run_recv cfg evs = (st, outs) -> nth_error outs j = Some burst -> In a burst ->
  let acc := accepted (r_blk cfg) 0 (firstn (S j) evs) in
  s_pk (a_sent a) = Ack (lenN acc mod 65536) /\ concat (rev (a_file a)) = concat acc.
Proof.
  intros cfg evs st outs j burst a Hwf H Hn Ha. unfold run_recv in H.
  exact (recv_steps_acks cfg evs [] _ _ _ _ _ _ Hwf (recv_init_inv cfg Hwf) H Hn Ha).
Qed.

(** The step that ended a transfer. *)
Lemma recv_steps_ends : forall cfg evs hist st st' outs o, wf_params (r_blk cfg) (r_ws cfg) ->
  RInv cfg hist st -> r_phase st = RRun -> recv_steps cfg st evs = (st', outs) -> r_phase st' = RDone o ->
  exists pre e post stk outk, evs = pre ++ e :: post /\ RInv cfg (hist ++ pre) stk /\ r_phase stk = RRun /\
    recv_step cfg stk e = (st', outk).
Proof.
  intros cfg evs. induction evs as [|e evs IH]; intros hist st st' outs o Hwf Hi Hp H Hd; cbn [recv_steps] in H.
  - inversion H; subst. congruence.
  - destruct (recv_step cfg st e) as [st1 out] eqn:E1. destruct (recv_steps cfg st1 evs) as [st2 outs2] eqn:E2.
    inversion H; subst. destruct (recv_step_spec _ _ _ _ _ _ Hwf Hi Hp E1) as [Hi1 _].
    destruct (r_phase st1) eqn:Hp1.
    + destruct (IH _ _ _ _ _ Hwf Hi1 Hp1 E2 Hd) as (pre & e' & post & stk & outk & -> & Hik & Hpk & Hsk).
      exists (e :: pre), e', post, stk, outk. split; [reflexivity|]. split; [|split; assumption].
      replace (hist ++ e :: pre) with ((hist ++ [e]) ++ pre) by (rewrite <- app_assoc; reflexivity). exact Hik.
    + rewrite (recv_steps_done _ _ _ _ Hp1) in E2. inversion E2; subst.
      exists [], e, evs, st, out. rewrite app_nil_r. split; [reflexivity|]. split; [exact Hi|]. split; [exact Hp|exact E1].
Qed.

(** A step ends in success only by accepting, in sequence, a block shorter than the block size. *)
Lemma recv_step_ok : forall cfg hist st e st' out, wf_params (r_blk cfg) (r_ws cfg) ->
  RInv cfg hist st -> r_phase st = RRun -> recv_step cfg st e = (st', out) -> r_phase st' = RDone OutOk ->
  exists n d, receive (r_blk cfg) e = RPacket (Data n d) /\ n = wadd16 (r_bn st) 1 /\ lenN d < r_blk cfg /\
              w_elems (r_w st') = [].
Proof.
  intros cfg hist st e st' out Hwf Hi Hp H Hok.
  destruct (receive (r_blk cfg) e) as [p| |] eqn:Hr.
  - destruct p as [f m os|f m os|n d|n|c m|os].
    1,2,4,6: exfalso; unfold recv_step in H; rewrite Hp, Hr in H;
      destruct (r_retry st + 1 =? max_retries); inversion H; subst; cbn [r_phase r_done] in Hok; congruence.
    + destruct (N.eqb_spec n (wadd16 (r_bn st) 1)) as [Hn|Hn].
      * rewrite (step_data_in cfg hist st e n d Hwf Hi Hp Hr Hn) in H. cbv zeta in H.
        destruct (N.ltb_spec (lenN d) (r_blk cfg)) as [Hs|Hf].
        -- cbn [orb] in H. destruct (r_ack_spec _ _ _ _ _ H) as (F1 & F2 & F3 & F4 & F5 & F6).
           exists n, d. repeat split; try assumption; try reflexivity.
           rewrite F2. reflexivity.
        -- exfalso. cbn [orb] in H. destruct (_ =? r_ws cfg).
           ++ destruct (r_ack_spec _ _ _ _ _ H) as (_ & _ & _ & _ & [F5|F5] & _); congruence.
           ++ inversion H; subst. cbn [r_phase] in Hok. discriminate.
      * exfalso. unfold recv_step in H. rewrite Hp, Hr in H.
        destruct (N.eqb_spec n (wadd16 (r_bn st) 1)); [contradiction|].
        destruct (w_is_empty (r_w st)).
        -- destruct (r_ack_spec _ _ _ _ _ H) as (_ & _ & _ & _ & [F5|F5] & _); congruence.
        -- inversion H; subst. congruence.
    + exfalso. unfold recv_step in H. rewrite Hp, Hr in H. inversion H; subst. cbn [r_phase r_done] in Hok. congruence.
  - exfalso. unfold recv_step in H. rewrite Hp, Hr in H.
    destruct (r_retry st + 1 =? max_retries); inversion H; subst; cbn [r_phase r_done] in Hok; congruence.
  - exfalso. exact (receive_never_panics _ _ Hr).
Qed.

(** Success means: a short block was accepted in sequence, and the file is exactly the
    concatenation of everything accepted in sequence - each block once, in order. *)
Theorem recv_final : forall cfg evs st outs, wf_params (r_blk cfg) (r_ws cfg) ->
  run_recv cfg evs = (st, outs) -> r_phase st = RDone OutOk ->
  written_bytes (w_file (r_w st)) = concat (accepted (r_blk cfg) 0 evs) /\
  existsb (short (r_blk cfg)) (accepted (r_blk cfg) 0 evs) = true /\
  w_elems (r_w st) = [].
Proof.
  intros cfg evs st outs Hwf H Hok. unfold run_recv in H.
  destruct (recv_steps_ends cfg evs [] _ _ _ _ Hwf (recv_init_inv cfg Hwf) eq_refl H Hok)
    as (pre & e & post & stk & outk & -> & Hik & Hpk & Hsk).
  cbn [app] in Hik.
  destruct (recv_step_spec _ _ _ _ _ _ Hwf Hik Hpk Hsk) as [Hi' _].
  destruct (recv_step_ok _ _ _ _ _ _ Hwf Hik Hpk Hsk Hok) as (n & d & Hr & Hn & Hs & Hel).
  assert (Hfin : existsb (short (r_blk cfg)) (accepted (r_blk cfg) 0 (pre ++ [e])) = true).
  { rewrite accepted_snoc. unfold accepts. destruct Hik as (_ & _ & _ & D & E & _ & _ & I & _).
    rewrite (I Hpk), Hr. rewrite N.add_0_l, <- D.
    replace ((r_cnt stk + 1) mod 65536) with (wadd16 (r_bn stk) 1) by (unfold wadd16; rewrite E; lia).
    rewrite <- Hn, N.eqb_refl, existsb_app. cbn [existsb]. unfold short at 2.
    destruct (N.ltb_spec (lenN d) (r_blk cfg)); [|lia]. rewrite orb_true_r. reflexivity. }
  replace (pre ++ e :: post) with ((pre ++ [e]) ++ post) by (rewrite <- app_assoc; reflexivity).
  rewrite accepted_finished_app by exact Hfin.
  destruct Hi' as (_ & _ & _ & _ & _ & _ & _ & _ & J & _). rewrite Hel in J. cbn [concat] in J.
  rewrite app_nil_r in J. split; [exact J|]. split; [exact Hfin|exact Hel].
Qed.

(** In every state the file is a prefix, on block boundaries, of what was accepted: bytes
    reach the file only in arrival order (this is what a kept partial upload holds, C13). *)
Theorem recv_file_is_prefix : forall cfg evs st outs, wf_params (r_blk cfg) (r_ws cfg) ->
  run_recv cfg evs = (st, outs) ->
  exists k, written_bytes (w_file (r_w st)) ++ concat (w_elems (r_w st)) =
            concat (accepted (r_blk cfg) 0 (firstn k evs)).
Proof.
  intros cfg evs st outs Hwf H. unfold run_recv in H.
  assert (G : forall evs hist st0 st outs, RInv cfg hist st0 -> recv_steps cfg st0 evs = (st, outs) ->
            exists k, RInv cfg (hist ++ firstn k evs) st).
  { clear evs st outs H. intros evs. induction evs as [|e evs IH]; intros hist st0 st outs Hi H; cbn [recv_steps] in H.
    - inversion H; subst. exists O. cbn [firstn]. rewrite app_nil_r. exact Hi.
    - destruct (recv_step cfg st0 e) as [st1 out] eqn:E1. destruct (recv_steps cfg st1 evs) as [st2 outs2] eqn:E2.
      inversion H; subst. destruct (r_phase st0) eqn:Hp.
      + destruct (recv_step_spec _ _ _ _ _ _ Hwf Hi Hp E1) as [Hi1 _].
        destruct (IH _ _ _ _ Hi1 E2) as [k Hk]. exists (S k). cbn [firstn].
        replace (hist ++ e :: firstn k evs) with ((hist ++ [e]) ++ firstn k evs) by (rewrite <- app_assoc; reflexivity).
        exact Hk.
      + rewrite (recv_done_absorbing _ _ _ _ Hp) in E1. inversion E1; subst.
        rewrite (recv_steps_done _ _ _ _ Hp) in E2. inversion E2; subst.
        exists O. cbn [firstn]. rewrite app_nil_r. exact Hi. }
  destruct (G evs [] _ _ _ (recv_init_inv cfg Hwf) H) as [k Hk]. exists k.
  destruct Hk as (_ & _ & _ & _ & _ & _ & _ & _ & J & _). exact J.
Qed.

(** The final short block, once accepted, is flushed, acknowledged [rep] times and ends the transfer. *)
Theorem recv_ends_at_final_block : forall cfg hist st e n p, wf_params (r_blk cfg) (r_ws cfg) ->
  RInv cfg hist st -> r_phase st = RRun ->
  receive (r_blk cfg) e = RPacket (Data n p) -> n = wadd16 (r_bn st) 1 -> lenN p < r_blk cfg ->
  memN (r_nsent st) (r_fails cfg) = false -> 1 <= r_rep cfg ->
  exists st' out, recv_step cfg st e = (st', out) /\ r_phase st' = RDone OutOk /\
    length out = N.to_nat (r_rep cfg) /\ w_elems (r_w st') = [] /\
    Forall (fun a => s_pk (a_sent a) = Ack n) out.
Proof.
  intros cfg hist st e n p Hwf Hi Hp Hr Hn Hs Hnf Hrep.
  rewrite (step_data_in cfg hist st e n p Hwf Hi Hp Hr Hn). cbv zeta.
  destruct (N.ltb_spec (lenN p) (r_blk cfg)); [|lia]. cbn [orb].
  unfold r_ack. cbn [r_bn r_nsent r_w r_retry r_cnt]. unfold send_packet.
  destruct (N.eqb_spec (r_rep cfg) 0); [lia|]. rewrite Hnf.
  eexists. eexists. split; [reflexivity|]. cbn [r_phase r_w w_elems]. split; [reflexivity|].
  split; [|split; [reflexivity|]].
  - unfold tag_file. rewrite map_length. cbn [length].
    assert (L : forall f q k i, length (send_copies f q k i) = k)
      by (intros f q k; induction k; intros; cbn [send_copies length]; auto).
    rewrite L. lia.
  - unfold tag_file. rewrite Forall_map. constructor; [reflexivity|].
    eapply Forall_impl; [|apply send_copies_pk]. intros a Ha. exact Ha.
Qed.

(** No window misuse, file error or panic in any reachable step. *)
Theorem recv_step_no_internal_error : forall cfg hist st e st', wf_params (r_blk cfg) (r_ws cfg) ->
  RInv cfg hist st -> r_phase st = RRun -> st' = fst (recv_step cfg st e) ->
  r_phase st' <> RDone OutWinAdd /\ r_phase st' <> RDone OutIo /\ r_phase st' <> RDone OutPanic
  /\ r_phase st' <> RDone OutWinRemove.
Proof.
  intros cfg hist st e st' Hwf Hi Hp ->.
  destruct (recv_step cfg st e) as [st' out] eqn:H. cbn [fst].
  assert (Hack : forall sa next sb o, r_ack cfg sa next = (sb, o) ->
            (next = RRun \/ next = RDone OutOk) ->
            r_phase sb <> RDone OutWinAdd /\ r_phase sb <> RDone OutIo /\ r_phase sb <> RDone OutPanic
            /\ r_phase sb <> RDone OutWinRemove).
  { intros sa next sb o Ha Hnx. destruct (r_ack_spec _ _ _ _ _ Ha) as (_ & _ & _ & _ & [F|F] & _); rewrite F;
      [destruct Hnx as [-> | ->]|]; repeat split; discriminate. }
  destruct (receive (r_blk cfg) e) as [p| |] eqn:Hr.
  - destruct p as [f m os|f m os|n d|n|c m|os].
    1,2,4,6: unfold recv_step in H; rewrite Hp, Hr in H;
      destruct (r_retry st + 1 =? max_retries); inversion H; subst; cbn [r_phase r_done]; repeat split; discriminate.
    + destruct (N.eqb_spec n (wadd16 (r_bn st) 1)) as [Hn|Hn].
      * rewrite (step_data_in cfg hist st e n d Hwf Hi Hp Hr Hn) in H. cbv zeta in H.
        destruct ((lenN d <? r_blk cfg) || (lenN (w_elems (r_w st)) + 1 =? r_ws cfg)).
        -- eapply Hack; [exact H|]. destruct (lenN d <? r_blk cfg); auto.
        -- inversion H; subst. cbn [r_phase]. repeat split; discriminate.
      * unfold recv_step in H. rewrite Hp, Hr in H.
        destruct (N.eqb_spec n (wadd16 (r_bn st) 1)); [contradiction|].
        destruct (w_is_empty (r_w st)).
        -- eapply Hack; [exact H|auto].
        -- inversion H; subst. rewrite Hp. repeat split; discriminate.
    + unfold recv_step in H. rewrite Hp, Hr in H. inversion H; subst. cbn [r_phase r_done]. repeat split; discriminate.
  - unfold recv_step in H. rewrite Hp, Hr in H.
    destruct (r_retry st + 1 =? max_retries); inversion H; subst; cbn [r_phase r_done]; repeat split; discriminate.
  - exfalso. exact (receive_never_panics _ _ Hr).
Qed.

(** * Termination (C07, receiver side) *)

Theorem recv_error_stops : forall cfg st e c m st' out, r_phase st = RRun ->
  receive (r_blk cfg) e = RPacket (Error c m) ->
  recv_step cfg st e = (st', out) -> out = [] /\ r_phase st' = RDone OutPeer.
Proof.
  intros cfg st e c m st' out Hp Hr H. unfold recv_step in H. rewrite Hp, Hr in H.
  inversion H; subst. split; reflexivity.
Qed.

(** A silent peer: the receiver gives up after [max_retries - retry] failed receives,
    having sent nothing in the meantime. *)
Theorem recv_silence_bounded : forall cfg n st d, r_retry st < max_retries -> r_phase st = RRun ->
  max_retries - r_retry st <= N.of_nat n ->
  r_phase (fst (recv_steps cfg st (repeat (EvFail d) n))) = RDone OutTimeout /\
  concat (snd (recv_steps cfg st (repeat (EvFail d) n))) = [].
Proof.
  intros cfg n. induction n as [|n IH]; intros st d Hr Hp Hn; [lia|].
  cbn [repeat recv_steps].
  assert (Hs : recv_step cfg st (EvFail d) =
               if r_retry st + 1 =? max_retries then (r_done st OutTimeout, [])
               else (mk_rstate (r_bn st) (r_w st) (r_retry st + 1) (r_nsent st) RRun (r_cnt st), [])).
  { unfold recv_step. rewrite Hp. reflexivity. }
  rewrite Hs. destruct (N.eqb_spec (r_retry st + 1) max_retries) as [Eq|Ne].
  - rewrite (recv_steps_done cfg _ (r_done st OutTimeout) OutTimeout eq_refl). cbn [fst snd concat app].
    split; [reflexivity|]. clear. induction n; cbn [repeat map concat app]; auto.
  - destruct (recv_steps cfg _ (repeat (EvFail d) n)) as [st2 outs] eqn:E2. cbn [fst snd concat app].
    specialize (IH (mk_rstate (r_bn st) (r_w st) (r_retry st + 1) (r_nsent st) RRun (r_cnt st)) d).
    rewrite E2 in IH. cbn [fst snd r_retry r_phase] in IH. apply IH; [lia|reflexivity|lia].
Qed.

(** * Acknowledgement cadence (C08, receiver side) and repeated ACKs *)

(** An out-of-sequence block arriving while nothing is buffered repeats the last ACK;
    with blocks buffered it is ignored.  Neither touches the file or the counters. *)
Theorem recv_out_of_sequence : forall cfg st e n p, r_phase st = RRun ->
  receive (r_blk cfg) e = RPacket (Data n p) -> n <> wadd16 (r_bn st) 1 ->
  exists st' out, recv_step cfg st e = (st', out) /\
    r_bn st' = r_bn st /\ r_w st' = r_w st /\ r_cnt st' = r_cnt st /\ r_retry st' = r_retry st /\
    Forall (fun a => s_pk (a_sent a) = Ack (r_bn st)) out /\
    (w_elems (r_w st) <> [] -> out = [] /\ st' = st) /\
    (w_elems (r_w st) = [] -> 1 <= r_rep cfg -> out <> []).
Proof.
  intros cfg st e n p Hp Hr Hn. unfold recv_step. rewrite Hp, Hr.
  destruct (N.eqb_spec n (wadd16 (r_bn st) 1)); [contradiction|].
  destruct (w_is_empty (r_w st)) eqn:He.
  - destruct (r_ack cfg st RRun) as [st' out] eqn:Ha. exists st', out.
    destruct (r_ack_spec _ _ _ _ _ Ha) as (F1 & F2 & F3 & F4 & F5 & F6).
    split; [reflexivity|]. repeat split; try assumption.
    + eapply Forall_impl; [|exact F6]. intros a [Ha1 _]. exact Ha1.
    + apply w_is_empty_iff in He. congruence.
    + apply w_is_empty_iff in He. congruence.
    + intros _ Hrep. unfold r_ack, send_packet in Ha. destruct (N.eqb_spec (r_rep cfg) 0); [lia|].
      destruct (memN _ _); inversion Ha; subst; discriminate.
  - exists st, []. split; [reflexivity|]. repeat split; auto.
    intros Hnil. apply w_is_empty_iff in Hnil. congruence.
Qed.

(** The [ws]-th consecutive in-order block is acknowledged at once: the receiver never holds
    more than [ws - 1] unacknowledged blocks when it waits for the next datagram. *)
Theorem recv_acks_full_window : forall cfg hist st e n p, wf_params (r_blk cfg) (r_ws cfg) ->
  RInv cfg hist st -> r_phase st = RRun ->
  receive (r_blk cfg) e = RPacket (Data n p) -> n = wadd16 (r_bn st) 1 ->
  lenN (w_elems (r_w st)) + 1 = r_ws cfg -> 1 <= r_rep cfg ->
  exists st' out, recv_step cfg st e = (st', out) /\ out <> [] /\ w_elems (r_w st') = [] /\
    Forall (fun a => s_pk (a_sent a) = Ack n) out.
Proof.
  intros cfg hist st e n p Hwf Hi Hp Hr Hn Hfull Hrep.
  rewrite (step_data_in cfg hist st e n p Hwf Hi Hp Hr Hn). cbv zeta.
  rewrite (proj2 (N.eqb_eq _ _) Hfull), orb_true_r.
  match goal with |- exists st' out, r_ack cfg ?s ?nx = _ /\ _ => destruct (r_ack cfg s nx) as [st' out] eqn:Ha end.
  exists st', out. destruct (r_ack_spec _ _ _ _ _ Ha) as (F1 & F2 & F3 & F4 & F5 & F6).
  split; [reflexivity|]. split; [|split].
  - unfold r_ack, send_packet in Ha. destruct (N.eqb_spec (r_rep cfg) 0); [lia|].
    destruct (memN _ _); inversion Ha; subst; discriminate.
  - rewrite F2. reflexivity.
  - eapply Forall_impl; [|exact F6]. intros a [Ha1 _]. exact Ha1.
Qed.

(** Between two flushes the buffer holds fewer than [ws] blocks (so [Window::add] never
    fails and at most [ws] blocks are ever acknowledged by one ACK). *)
Theorem recv_buffer_below_ws : forall cfg hist st, RInv cfg hist st -> r_phase st = RRun ->
  lenN (w_elems (r_w st)) < r_ws cfg.
Proof. intros cfg hist st (_ & _ & _ & _ & _ & _ & G2 & _) Hp. exact (G2 Hp). Qed.

(** * Conformant sender (files of at most 65536 blocks: no block number is reused) *)

Definition conformant (blk : N) (F : bytes) (e : ev) : Prop :=
  match receive blk e with
  | RPacket (Data n p) => exists k, 1 <= k <= nblk blk F /\ n = k mod 65536 /\ p = chunk blk F k
  | _ => True
  end.

(** With a conformant sender the blocks accepted in sequence are the blocks 1, 2, ... of its file. *)
Lemma accepted_conformant : forall blk F evs, 0 < blk -> nblk blk F <= 65536 ->
  Forall (conformant blk F) evs ->
  exists m, (m <= N.to_nat (nblk blk F))%nat /\ accepted blk 0 evs = chunks_from blk F 1 m.
Proof.
  intros blk F evs Hb Hn H. induction evs as [|e evs IH] using rev_ind.
  - exists O. split; [lia|reflexivity].
  - apply Forall_app in H. destruct H as [H1 H2]. inversion H2 as [|? ? He _]; subst.
    destruct (IH H1) as (m & Hm & Hacc). rewrite accepted_snoc. unfold accepts.
    destruct (existsb (short blk) (accepted blk 0 evs)) eqn:Hfin; [exists m; rewrite app_nil_r; auto|].
    unfold conformant in He. destruct (receive blk e) as [p| |]; try (exists m; rewrite app_nil_r; auto).
    destruct p as [f mm os|f mm os|n d|n|c mm|os]; try (exists m; rewrite app_nil_r; auto).
    destruct He as (k & Hk & -> & ->). rewrite Hacc. unfold lenN. rewrite chunks_from_length.
    destruct (N.eqb_spec (k mod 65536) ((0 + N.of_nat m + 1) mod 65536)) as [Ek|Ek];
      [|exists m; rewrite app_nil_r; auto].
    (* all accepted blocks are full, so m < nblk *)
    assert (Hmlt : N.of_nat m < nblk blk F).
    { destruct (N.lt_ge_cases (N.of_nat m) (nblk blk F)) as [|Hge]; [assumption|exfalso].
      assert (m = N.to_nat (nblk blk F)) by lia. subst m. rewrite Hacc in Hfin.
      assert (Hin : In (chunk blk F (nblk blk F)) (chunks_from blk F 1 (N.to_nat (nblk blk F)))).
      { pose proof (nblk_pos blk F).
        replace (N.to_nat (nblk blk F)) with ((N.to_nat (nblk blk F) - 1) + 1)%nat by lia.
        rewrite chunks_from_app. apply in_or_app. right. cbn [chunks_from]. left. f_equal. lia. }
      assert (Hex : existsb (short blk) (chunks_from blk F 1 (N.to_nat (nblk blk F))) = true).
      { apply existsb_exists. eexists. split; [exact Hin|]. unfold short.
        pose proof (chunk_last_short blk F Hb). destruct (N.ltb_spec (lenN (chunk blk F (nblk blk F))) blk); [reflexivity|lia]. }
      congruence. }
    assert (k = N.of_nat m + 1) by lia. subst k.
    exists (m + 1)%nat. split; [lia|]. rewrite chunks_from_app. cbn [chunks_from]. f_equal. f_equal. f_equal. lia.
Qed.

(** Whatever is dropped, duplicated, reordered or delayed, and whatever stray packets
    are mixed in: if the transfer succeeds the file is the sender's file. *)
Theorem recv_conformant_sender : forall cfg F evs st outs, wf_params (r_blk cfg) (r_ws cfg) ->
  nblk (r_blk cfg) F <= 65536 -> Forall (conformant (r_blk cfg) F) evs ->
  run_recv cfg evs = (st, outs) -> r_phase st = RDone OutOk ->
  written_bytes (w_file (r_w st)) = F.
Proof.
  intros cfg F evs st outs Hwf Hn Hc H Hok.
  destruct (recv_final _ _ _ _ Hwf H Hok) as (Hfile & Hfin & _).
  pose proof (proj1 Hwf) as Hb.
  destruct (accepted_conformant _ _ _ Hb Hn Hc) as (m & Hm & Hacc).
  rewrite Hfile, Hacc. rewrite Hacc in Hfin.
  (* a short block among the first m blocks: m = nblk *)
  apply existsb_exists in Hfin. destruct Hfin as (c & Hin & Hs).
  destruct (chunks_from_In _ _ _ _ _ Hin) as (k & Hk & ->). unfold short in Hs.
  destruct (N.ltb_spec (lenN (chunk (r_blk cfg) F k)) (r_blk cfg)) as [Hs'|]; [|discriminate].
  pose proof (chunk_short_last (r_blk cfg) F k Hb (proj1 Hk) Hs').
  assert (m = N.to_nat (nblk (r_blk cfg) F)) by lia. subst m. apply chunks_concat. exact Hb.
Qed.

(** * What is left on disk (C13, receiver side) *)

(** A failed upload: with clean-on-error the file is removed; otherwise what is kept is a
    prefix, on block boundaries, of the bytes accepted in sequence.  A completed upload
    is never removed. *)
Theorem recv_final_file_spec : forall cfg evs st outs, wf_params (r_blk cfg) (r_ws cfg) ->
  run_recv cfg evs = (st, outs) ->
  match r_phase st with
  | RDone OutOk => exists w, recv_final_file cfg st = Some w /\ concat (rev w) = concat (accepted (r_blk cfg) 0 evs)
  | RDone _ => if r_clean cfg then recv_final_file cfg st = None
               else exists w k, recv_final_file cfg st = Some w /\
                      exists tail, concat (rev w) ++ tail = concat (accepted (r_blk cfg) 0 (firstn k evs))
  | RRun => True
  end.
Proof.
  intros cfg evs st outs Hwf H. destruct (r_phase st) as [|o] eqn:Hp; [exact I|].
  destruct o.
  1: { destruct (recv_final _ _ _ _ Hwf H Hp) as (Hfile & _). unfold recv_final_file. rewrite Hp.
       eexists. split; [reflexivity|]. exact Hfile. }
  all: unfold recv_final_file; rewrite Hp; destruct (r_clean cfg); [reflexivity|];
    destruct (recv_file_is_prefix _ _ _ _ Hwf H) as [k Hk];
    eexists; exists k; (split; [reflexivity|]); eexists; exact Hk.
Qed.

(** * Every reachable receiver state satisfies the invariant for the events it consumed *)
Theorem recv_run_inv : forall cfg evs st outs, wf_params (r_blk cfg) (r_ws cfg) ->
  run_recv cfg evs = (st, outs) -> exists k, RInv cfg (firstn k evs) st.
Proof.
  intros cfg evs st outs Hwf H. unfold run_recv in H.
  assert (G : forall evs hist st0 st outs, RInv cfg hist st0 -> recv_steps cfg st0 evs = (st, outs) ->
            exists k, RInv cfg (hist ++ firstn k evs) st).
  { clear evs st outs H. intros evs. induction evs as [|e evs IH]; intros hist st0 st outs Hi H; cbn [recv_steps] in H.
    - inversion H; subst. exists O. cbn [firstn]. rewrite app_nil_r. exact Hi.
    - destruct (recv_step cfg st0 e) as [st1 out] eqn:E1. destruct (recv_steps cfg st1 evs) as [st2 outs2] eqn:E2.
      inversion H; subst. destruct (r_phase st0) eqn:Hp.
      + destruct (recv_step_spec _ _ _ _ _ _ Hwf Hi Hp E1) as [Hi1 _].
        destruct (IH _ _ _ _ Hi1 E2) as [k Hk]. exists (S k). cbn [firstn].
        replace (hist ++ e :: firstn k evs) with ((hist ++ [e]) ++ firstn k evs) by (rewrite <- app_assoc; reflexivity).
        exact Hk.
      + rewrite (recv_done_absorbing _ _ _ _ Hp) in E1. inversion E1; subst.
        rewrite (recv_steps_done _ _ _ _ Hp) in E2. inversion E2; subst.
        exists O. cbn [firstn]. rewrite app_nil_r. exact Hi. }
  exact (G evs [] _ _ _ (recv_init_inv cfg Hwf) H).
Qed.

(** The 16-bit block number of the receiver is the unbounded count of accepted blocks modulo 65536. *)
Theorem recv_bn_tracks_count : forall cfg evs st outs, wf_params (r_blk cfg) (r_ws cfg) ->
  run_recv cfg evs = (st, outs) ->
  exists k, r_bn st = lenN (accepted (r_blk cfg) 0 (firstn k evs)) mod 65536.
Proof.
  intros cfg evs st outs Hwf H. destruct (recv_run_inv _ _ _ _ Hwf H) as [k (_ & _ & _ & D & E & _)].
  exists k. rewrite E, D. reflexivity.
Qed.

(** * Duplicate-packets mode (C16, receiver side) *)

Lemma send_copies_length : forall f q k i, length (send_copies f q k i) = k.
Proof. intros f q k. induction k; intros; cbn [send_copies length]; auto. Qed.

(** [send_packet]: [rep] copies back to back; only the result of the first copy matters. *)
Theorem send_packet_first_copy_decides : forall fails rep p nsent out n ok, 1 <= rep ->
  send_packet fails rep p nsent = (out, n, ok) ->
  ok = negb (memN nsent fails) /\
  Forall (fun s => s_pk s = p) out /\
  (ok = true -> length out = N.to_nat rep /\ n = nsent + rep) /\
  (ok = false -> out = [mk_sent p true] /\ n = nsent + 1).
Proof.
  intros fails rep p nsent out n ok Hrep H. pose proof (send_packet_pk _ _ _ _ _ _ _ H) as Hp.
  unfold send_packet in H. destruct (N.eqb_spec rep 0); [lia|].
  destruct (memN nsent fails); inversion H; subst; cbn [negb].
  - repeat split; try assumption; try discriminate; reflexivity.
  - repeat split; try assumption; try discriminate. cbn [length]. rewrite send_copies_length. lia.
Qed.

(** Every acknowledgement of a data block is emitted exactly [rep] times back to back. *)
Theorem r_ack_copies : forall cfg st next st' out, 1 <= r_rep cfg ->
  memN (r_nsent st) (r_fails cfg) = false -> r_ack cfg st next = (st', out) ->
  length out = N.to_nat (r_rep cfg) /\ Forall (fun a => s_pk (a_sent a) = Ack (r_bn st)) out /\ r_phase st' = next.
Proof.
  intros cfg st next st' out Hrep Hnf H. unfold r_ack in H.
  destruct (send_packet (r_fails cfg) (r_rep cfg) (Ack (r_bn st)) (r_nsent st)) as [[o n] ok] eqn:P.
  destruct (send_packet_first_copy_decides _ _ _ _ _ _ _ Hrep P) as (Hok & Hpk & Ht & _).
  rewrite Hnf in Hok. cbn [negb] in Hok. subst ok. destruct (Ht eq_refl) as [Hl _].
  inversion H; subst. unfold tag_file. rewrite map_length, Forall_map. repeat split; try assumption.
Qed.

(** * Conformant sender, any number of blocks (C15) *)

(** Datagram-lifetime condition for uploads: a DATA datagram that arrives when [c] blocks have
    been accepted carries a block of the sender's file less than 65536 blocks away from [c + 1]. *)
Definition conformant_fresh (blk : N) (F : bytes) (evs : list ev) : Prop :=
  forall pre e post n p, evs = pre ++ e :: post -> receive blk e = RPacket (Data n p) ->
  exists k, 1 <= k <= nblk blk F /\ n = k mod 65536 /\ p = chunk blk F k /\
            k < lenN (accepted blk 0 pre) + 1 + 65536 /\ lenN (accepted blk 0 pre) + 1 < k + 65536.

Lemma accepted_conformant_gen : forall blk F evs, 0 < blk -> conformant_fresh blk F evs ->
  exists m, (m <= N.to_nat (nblk blk F))%nat /\ accepted blk 0 evs = chunks_from blk F 1 m.
Proof.
  intros blk F evs Hb. induction evs as [|e evs IH] using rev_ind; intros H.
  - exists O. split; [lia|reflexivity].
  - assert (H1 : conformant_fresh blk F evs).
    { intros pre e0 post n p Hev Hr. apply (H pre e0 (post ++ [e]) n p); [|exact Hr].
      rewrite Hev, <- app_assoc. reflexivity. }
    destruct (IH H1) as (m & Hm & Hacc). rewrite accepted_snoc. unfold accepts.
    destruct (existsb (short blk) (accepted blk 0 evs)) eqn:Hfin; [exists m; rewrite app_nil_r; auto|].
    destruct (receive blk e) as [p| |] eqn:Hr; try (exists m; rewrite app_nil_r; auto).
    destruct p as [f mm os|f mm os|n d|n|c mm|os]; try (exists m; rewrite app_nil_r; auto).
    destruct (H evs e [] n d eq_refl Hr) as (k & Hk & -> & -> & Hf1 & Hf2).
    rewrite Hacc in *. unfold lenN in *. rewrite chunks_from_length in *.
    destruct (N.eqb_spec (k mod 65536) ((0 + N.of_nat m + 1) mod 65536)) as [Ek|Ek];
      [|exists m; rewrite app_nil_r; auto].
    assert (k = N.of_nat m + 1) by lia. subst k.
    exists (m + 1)%nat. split; [lia|]. rewrite chunks_from_app. cbn [chunks_from]. f_equal. f_equal. f_equal. lia.
Qed.

(** Uploads of any length, block numbers wrapping as often as needed: if the transfer
    succeeds the file is the sender's file. *)
Theorem recv_conformant_sender_any_length : forall cfg F evs st outs, wf_params (r_blk cfg) (r_ws cfg) ->
  conformant_fresh (r_blk cfg) F evs ->
  run_recv cfg evs = (st, outs) -> r_phase st = RDone OutOk ->
  written_bytes (w_file (r_w st)) = F.
Proof.
  intros cfg F evs st outs Hwf Hc H Hok.
  destruct (recv_final _ _ _ _ Hwf H Hok) as (Hfile & Hfin & _).
  pose proof (proj1 Hwf) as Hb.
  destruct (accepted_conformant_gen _ _ _ Hb Hc) as (m & Hm & Hacc).
  rewrite Hfile, Hacc. rewrite Hacc in Hfin.
  apply existsb_exists in Hfin. destruct Hfin as (c & Hin & Hs).
  destruct (chunks_from_In _ _ _ _ _ Hin) as (k & Hk & ->). unfold short in Hs.
  destruct (N.ltb_spec (lenN (chunk (r_blk cfg) F k)) (r_blk cfg)) as [Hs'|]; [|discriminate].
  pose proof (chunk_short_last (r_blk cfg) F k Hb (proj1 Hk) Hs').
  assert (m = N.to_nat (nblk (r_blk cfg) F)) by lia. subst m. apply chunks_concat. exact Hb.
Qed.
