(** Proofs about the server's command-line parser ([Config::new]): C17, and the start-up
    rejection of [--duplicate-packets >= 255] (C16). *)
From Coq Require Import ZArith Lia ZifyBool ZifyNat ZifyN.
From Tftp Require Import Base.Prelude Base.Decimal Model.Types Model.Consts Model.Config Proofs.ListAux Proofs.CodecP.
Local Open Scope N_scope.

(** * Setting groups: what an argument vector is made of *)

Inductive sgroup :=
| GIp (long : bool) (v : bytes) | GPort (long : bool) (v : bytes) | GDir (long : bool) (v : bytes)
| GRd (long : bool) (v : bytes) | GSd (long : bool) (v : bytes)
| GSingle (long : bool) | GRo (long : bool) | GDup (v : bytes) | GOver | GKeep.

Definition render (g : sgroup) : list bytes :=
  match g with
  | GIp l v => [if l then s_ip_address else s_i; v]
  | GPort l v => [if l then s_port else s_p; v]
  | GDir l v => [if l then s_directory else s_d; v]
  | GRd l v => [if l then s_receive_directory else s_rd; v]
  | GSd l v => [if l then s_send_directory else s_sd; v]
  | GSingle l => [if l then s_single_port else s_s]
  | GRo l => [if l then s_read_only else s_r]
  | GDup v => [s_duplicate_packets; v]
  | GOver => [s_overwrite]
  | GKeep => [s_keep_on_error]
  end.

Inductive skey := KeyIp | KeyPort | KeyDir | KeyRd | KeySd | KeySingle | KeyRo | KeyDup | KeyOver | KeyKeep.
Definition all_keys := [KeyIp; KeyPort; KeyDir; KeyRd; KeySd; KeySingle; KeyRo; KeyDup; KeyOver; KeyKeep].

Definition key_of (g : sgroup) : skey :=
  match g with
  | GIp _ _ => KeyIp | GPort _ _ => KeyPort | GDir _ _ => KeyDir | GRd _ _ => KeyRd | GSd _ _ => KeySd
  | GSingle _ => KeySingle | GRo _ => KeyRo | GDup _ => KeyDup | GOver => KeyOver | GKeep => KeyKeep
  end.

Definition key_eqb (a b : skey) : bool :=
  match a, b with
  | KeyIp, KeyIp | KeyPort, KeyPort | KeyDir, KeyDir | KeyRd, KeyRd | KeySd, KeySd | KeySingle, KeySingle
  | KeyRo, KeyRo | KeyDup, KeyDup | KeyOver, KeyOver | KeyKeep, KeyKeep => true
  | _, _ => false
  end.

Definition has_key (k : skey) (g : sgroup) : bool := key_eqb k (key_of g).

Section Server.
  Variable exists_ : bytes -> bool.
  Variable parse_ip : bytes -> option bytes.
  Variable cwd : bytes.

  Definition ipval (v : bytes) : bytes := match parse_ip v with Some ip => ip | None => [] end.
  Definition numval (limit : N) (v : bytes) : N := match parse_bounded limit v with Some n => n | None => 0 end.

  (** A group is valid when its value parses / its directory exists / its count is below 255. *)
  Definition gvalid (g : sgroup) : bool :=
    match g with
    | GIp _ v => match parse_ip v with Some _ => true | None => false end
    | GPort _ v => match parse_bounded 65536 v with Some _ => true | None => false end
    | GDir _ v | GRd _ v | GSd _ v => exists_ v
    | GDup v => match parse_bounded 256 v with Some d => negb (d =? dup_reject) | None => false end
    | _ => true
    end.

  Definition apply (c : config) (g : sgroup) : config :=
    match g with
    | GIp _ v => set_ip c (ipval v)
    | GPort _ v => set_port c (numval 65536 v)
    | GDir _ v => set_dir c v
    | GRd _ v => set_rdir c v
    | GSd _ v => set_sdir c v
    | GSingle _ => set_single c
    | GRo _ => set_ro c
    | GDup v => set_dup c (numval 256 v)
    | GOver => set_over c
    | GKeep => set_keep c
    end.

  Notation ploop := (parse_loop exists_ parse_ip).

  (** The spellings are recognised (closed computations on the flag table). *)
  Lemma flag_spellings :
    sflag_of s_i = FIp /\ sflag_of s_ip_address = FIp /\ sflag_of s_p = FPort /\ sflag_of s_port = FPort /\
    sflag_of s_d = FDir /\ sflag_of s_directory = FDir /\ sflag_of s_rd = FRd /\ sflag_of s_receive_directory = FRd /\
    sflag_of s_sd = FSd /\ sflag_of s_send_directory = FSd /\ sflag_of s_s = FSingle /\ sflag_of s_single_port = FSingle /\
    sflag_of s_r = FRo /\ sflag_of s_read_only = FRo /\ sflag_of s_duplicate_packets = FDup /\
    sflag_of s_overwrite = FOver /\ sflag_of s_keep_on_error = FKeep /\ sflag_of s_h = FHelp /\ sflag_of s_help = FHelp.
  Proof. repeat split; vm_compute; reflexivity. Qed.

  (** One group: consumed as a whole; the loop goes on with the setting applied, or stops with an error. *)
  Lemma parse_group : forall g c rest,
    ploop c (render g ++ rest) = if gvalid g then ploop (apply c g) rest
                                 else match ploop c (render g ++ rest) with CErr e => CErr e | _ => CErr CMissing end.
  Proof.
    destruct flag_spellings as (F1 & F2 & F3 & F4 & F5 & F6 & F7 & F8 & F9 & F10 & F11 & F12 & F13 & F14 & F15 & F16 & F17 & _).
    intros g c rest. destruct g as [l v|l v|l v|l v|l v|l|l|v| |]; try destruct l;
      cbn [render app parse_loop gvalid apply];
      rewrite ?F1, ?F2, ?F3, ?F4, ?F5, ?F6, ?F7, ?F8, ?F9, ?F10, ?F11, ?F12, ?F13, ?F14, ?F15, ?F16, ?F17;
      try reflexivity;
      unfold ipval, numval;
      try (destruct (parse_ip v); reflexivity);
      try (destruct (parse_bounded 65536 v); reflexivity);
      try (destruct (exists_ v); reflexivity).
    destruct (parse_bounded 256 v) as [d|]; [|reflexivity]. destruct (d =? dup_reject); reflexivity.
  Qed.

  Lemma parse_group_invalid : forall g c rest, gvalid g = false -> exists e, ploop c (render g ++ rest) = CErr e.
  Proof.
    intros g c rest H. rewrite parse_group, H. destruct (ploop c (render g ++ rest)); eexists; reflexivity.
  Qed.

  (** A whole vector of groups: every group valid -> the configuration obtained by applying the
      groups in order (then the two directory fall-backs); some group invalid -> an error. *)
  Theorem parse_render : forall gs c,
    (forallb gvalid gs = true -> ploop c (flat_map render gs) = COk (finish (fold_left apply gs c))) /\
    (forallb gvalid gs = false -> exists e, ploop c (flat_map render gs) = CErr e).
  Proof.
    induction gs as [|g gs IH]; intros c.
    - split; [reflexivity|discriminate].
    - cbn [flat_map forallb fold_left]. destruct (gvalid g) eqn:Hg; cbn [andb].
      + rewrite parse_group, Hg. apply IH.
      + split; [discriminate|]. intros _. apply parse_group_invalid. exact Hg.
  Qed.

  (** * Last occurrence wins *)

  Fixpoint last_opt {A} (l : list A) : option A :=
    match l with [] => None | [x] => Some x | _ :: r => last_opt r end.

  Lemma last_opt_snoc : forall {A} (l : list A) x, last_opt (l ++ [x]) = Some x.
  Proof. intros A l x. induction l as [|y l IH]; [reflexivity|]. cbn [app last_opt]. rewrite IH. destruct (l ++ [x]) eqn:E; [destruct l; discriminate|reflexivity]. Qed.

  Definition lastk (k : skey) (gs : list sgroup) : option sgroup := last_opt (filter (has_key k) gs).

  (** The configuration determined by the last occurrence of each setting. *)
  Definition canon (c : config) (gs : list sgroup) : config :=
    mk_config
      (match lastk KeyIp gs with Some (GIp _ v) => ipval v | _ => c_ip c end)
      (match lastk KeyPort gs with Some (GPort _ v) => numval 65536 v | _ => c_port c end)
      (match lastk KeyDir gs with Some (GDir _ v) => v | _ => c_dir c end)
      (match lastk KeyRd gs with Some (GRd _ v) => v | _ => c_rdir c end)
      (match lastk KeySd gs with Some (GSd _ v) => v | _ => c_sdir c end)
      (match lastk KeySingle gs with Some _ => true | None => c_single c end)
      (match lastk KeyRo gs with Some _ => true | None => c_ro c end)
      (match lastk KeyDup gs with Some (GDup v) => numval 256 v | _ => c_dup c end)
      (match lastk KeyOver gs with Some _ => true | None => c_over c end)
      (match lastk KeyKeep gs with Some _ => false | None => c_clean c end).

  Lemma canon_nil : forall c, canon c [] = c.
  Proof. intros []. reflexivity. Qed.

  Theorem fold_apply_canon : forall gs c, fold_left apply gs c = canon c gs.
  Proof.
    intros gs c. induction gs as [|g gs IH] using rev_ind.
    - rewrite canon_nil. reflexivity.
    - rewrite fold_left_app. cbn [fold_left]. rewrite IH. unfold canon, lastk. rewrite !filter_app.
      destruct g; cbn [filter has_key key_eqb key_of apply]; rewrite ?app_nil_r, ?last_opt_snoc; reflexivity.
  Qed.

  (** * Order independence *)

  Lemma forallb_by_keys : forall (f : sgroup -> bool) gs,
    forallb f gs = forallb (fun k => forallb f (filter (has_key k) gs)) all_keys.
  Proof.
    intros f gs. induction gs as [|g gs IH]; [reflexivity|].
    cbn [forallb]. rewrite IH. unfold all_keys. cbn [forallb filter].
    destruct g; cbn [has_key key_eqb key_of forallb]; destruct (f _);
      cbn [andb]; rewrite ?andb_true_r, ?andb_false_r; try reflexivity;
      repeat (rewrite ?andb_false_r, ?andb_false_l; try reflexivity; try (destruct (forallb f _); cbn [andb])).
  Qed.

  Definition same_outcome (a b : cres config) : Prop :=
    match a, b with
    | COk x, COk y => x = y
    | CErr _, CErr _ => True
    | CHelp, CHelp => True
    | _, _ => False
    end.

  (** Two vectors whose groups agree setting by setting (same groups per key, in the same
      relative order) - in particular any two orderings that only interleave different
      settings differently - parse alike: the same configuration, or an error in both. *)
  Theorem order_independent : forall gs gs' c,
    (forall k, filter (has_key k) gs = filter (has_key k) gs') ->
    same_outcome (ploop c (flat_map render gs)) (ploop c (flat_map render gs')).
  Proof.
    intros gs gs' c H.
    assert (Hv : forallb gvalid gs = forallb gvalid gs').
    { rewrite (forallb_by_keys gvalid gs), (forallb_by_keys gvalid gs'). unfold all_keys. cbn [forallb].
      rewrite !H. reflexivity. }
    assert (Hc : canon c gs = canon c gs') by (unfold canon, lastk; rewrite !H; reflexivity).
    destruct (parse_render gs c) as [A1 A2]. destruct (parse_render gs' c) as [B1 B2].
    destruct (forallb gvalid gs) eqn:V.
    - rewrite (A1 eq_refl), (B1 (eq_sym Hv)), !fold_apply_canon, Hc. reflexivity.
    - destruct (A2 eq_refl) as [e1 ->]. destruct (B2 (eq_sym Hv)) as [e2 ->]. exact I.
  Qed.

  (** The configuration of a valid vector, spelled out: every setting is the value of its last
      occurrence, unspecified settings keep their defaults, and the receive / send directories
      fall back to the directory exactly when they were not given. *)
  Theorem parse_is_last_wins : forall gs, forallb gvalid gs = true ->
    parse_args exists_ parse_ip cwd (str [97] :: flat_map render gs) =
      COk (finish (canon (default_config cwd) gs)).
  Proof.
    intros gs H. unfold parse_args. rewrite (proj1 (parse_render gs _) H), fold_apply_canon. reflexivity.
  Qed.

  Theorem dir_fallback_iff : forall gs, (forall v, exists_ v = true -> v <> []) -> forallb gvalid gs = true ->
    let c := finish (canon (default_config cwd) gs) in
    c_rdir c = (match lastk KeyRd gs with Some (GRd _ v) => v | _ => c_dir c end) /\
    c_sdir c = (match lastk KeySd gs with Some (GSd _ v) => v | _ => c_dir c end) /\
    c_dir c = (match lastk KeyDir gs with Some (GDir _ v) => v | _ => cwd end).
  Proof.
    intros gs Hex Hv. cbv zeta. unfold finish, canon. cbn [c_rdir c_sdir c_dir default_config].
    assert (Hin : forall k g, lastk k gs = Some g -> In g gs /\ has_key k g = true).
    { intros k g Hl. unfold lastk in Hl.
      assert (G : forall l, last_opt l = Some g -> In g l).
      { clear. induction l as [|x l IH]; [discriminate|]. cbn [last_opt]. destruct l; [intros E; inversion E; left; reflexivity|].
        intros E. right. apply IH. exact E. }
      apply G in Hl. apply filter_In in Hl. exact Hl. }
    rewrite forallb_forall in Hv.
    repeat split.
    - destruct (lastk KeyRd gs) as [g|] eqn:E; [|reflexivity]. destruct (Hin _ _ E) as [Hi Hk].
      destruct g; try discriminate Hk. specialize (Hv _ Hi). cbn [gvalid] in Hv.
      destruct v as [|x v']; [exfalso; exact (Hex [] Hv eq_refl)|reflexivity].
    - destruct (lastk KeySd gs) as [g|] eqn:E; [|reflexivity]. destruct (Hin _ _ E) as [Hi Hk].
      destruct g; try discriminate Hk. specialize (Hv _ Hi). cbn [gvalid] in Hv.
      destruct v as [|x v']; [exfalso; exact (Hex [] Hv eq_refl)|reflexivity].
  Qed.

  (** Documented defaults. *)
  Theorem documented_defaults : forall argv0,
    parse_args exists_ parse_ip cwd [argv0] =
      COk (mk_config (ip_text cfg_default_ip) cfg_default_port cwd cwd cwd false false 0 false cfg_default_clean).
  Proof. intros. reflexivity. Qed.

  (** Errors the property names: unknown flag, flag missing its value. *)
  Theorem unknown_flag_rejected : forall gs a rest c, forallb gvalid gs = true -> sflag_of a = FUnknown ->
    ploop c (flat_map render gs ++ a :: rest) = CErr CInvalidFlag.
  Proof.
    induction gs as [|g gs IH]; intros a rest c Hv Ha.
    - cbn [flat_map app parse_loop]. rewrite Ha. reflexivity.
    - cbn [flat_map forallb] in *. apply andb_true_iff in Hv. destruct Hv as [Hg Hv].
      rewrite <- app_assoc, parse_group, Hg. apply IH; assumption.
  Qed.

  Definition needs_value (f : sflag) : bool :=
    match f with FIp | FPort | FDir | FRd | FSd | FDup => true | _ => false end.

  Theorem missing_value_rejected : forall gs a c, forallb gvalid gs = true -> needs_value (sflag_of a) = true ->
    ploop c (flat_map render gs ++ [a]) = CErr CMissing.
  Proof.
    induction gs as [|g gs IH]; intros a c Hv Ha.
    - cbn [flat_map app parse_loop]. destruct (sflag_of a); try discriminate; reflexivity.
    - cbn [flat_map forallb] in *. apply andb_true_iff in Hv. destruct Hv as [Hg Hv].
      rewrite <- app_assoc, parse_group, Hg. apply IH; assumption.
  Qed.

  (** [--duplicate-packets N] is accepted iff N parses as u8 and is below 255 (C16): then
      [N + 1 <= 255] copies never overflow the worker's u8 repeat count. *)
  Theorem dup_config_bounds : forall v c rest,
    (exists e, ploop c (s_duplicate_packets :: v :: rest) = CErr e) \/
    (exists d, parse_bounded 256 v = Some d /\ d < 255 /\
               ploop c (s_duplicate_packets :: v :: rest) = ploop (set_dup c d) rest).
  Proof.
    intros v c rest. destruct flag_spellings as (_ & _ & _ & _ & _ & _ & _ & _ & _ & _ & _ & _ & _ & _ & F15 & _).
    cbn [parse_loop]. rewrite F15. destruct (parse_bounded 256 v) as [d|] eqn:P; [|left; eexists; reflexivity].
    destruct (N.eqb_spec d dup_reject) as [E|E]; [left; eexists; reflexivity|].
    right. exists d. split; [reflexivity|]. split; [|reflexivity].
    assert (d < 256).
    { unfold parse_bounded in P. destruct v as [|x r]; [discriminate|].
      destruct (if x =? 43 then r else x :: r); [discriminate|].
      destruct (uint_of_bytes _); [|discriminate]. destruct (N.ltb_spec (N.of_uint u) 256); [|discriminate].
      inversion P; subst. assumption. }
    unfold dup_reject in E. lia.
  Qed.
End Server.
