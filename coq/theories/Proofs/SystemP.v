(** Proofs about upload life cycles (C13). *)
From Coq Require Import ZArith Lia.
From Tftp Require Import Base.Prelude Model.System Proofs.ServerP.
Local Open Scope N_scope.

Lemma d_lookup_set_same : forall d n c, d_lookup n (d_set n c d) = Some c.
Proof.
  induction d as [|[m x] d IH]; intros n c; cbn [d_set d_lookup].
  - rewrite bytes_eqb_refl. reflexivity.
  - destruct (bytes_eqb m n) eqn:E; cbn [d_lookup]; rewrite E; [reflexivity|apply IH].
Qed.

Lemma d_lookup_set_other : forall d n m c, bytes_eqb m n = false -> d_lookup n (d_set m c d) = d_lookup n d.
Proof.
  induction d as [|[k x] d IH]; intros n m c H; cbn [d_set d_lookup].
  - rewrite H. reflexivity.
  - destruct (bytes_eqb k m) eqn:E; cbn [d_lookup].
    + destruct (bytes_eqb k n) eqn:E2; [|reflexivity]. exfalso.
      apply bytes_eqb_true in E. apply bytes_eqb_true in E2. subst. rewrite bytes_eqb_refl in H. discriminate.
    + destruct (bytes_eqb k n); [reflexivity|apply IH; exact H].
Qed.

Lemma d_lookup_del_other : forall d n m, bytes_eqb m n = false -> d_lookup n (d_del m d) = d_lookup n d.
Proof.
  induction d as [|[k x] d IH]; intros n m H; cbn [d_del d_lookup]; [reflexivity|].
  destruct (bytes_eqb k m) eqn:E; cbn [d_lookup].
  - destruct (bytes_eqb k n) eqn:E2; [|reflexivity]. exfalso.
    apply bytes_eqb_true in E. apply bytes_eqb_true in E2. subst. rewrite bytes_eqb_refl in H. discriminate.
  - destruct (bytes_eqb k n); [reflexivity|apply IH; exact H].
Qed.

(** An event that does not concern the name leaves the file of that name alone, and does not
    change which live workers own the name. *)
Definition owners (n : bytes) (s : usys) : list N :=
  map fst (filter (fun e => bytes_eqb (fst (snd e)) n) (u_live s)).

Lemma w_lookup_del_other : forall l w v, v <> w -> w_lookup v (w_del w l) = w_lookup v l.
Proof.
  induction l as [|[u x] l IH]; intros w v H; cbn [w_del filter w_lookup fst]; [reflexivity|].
  destruct (N.eqb_spec u w) as [->|Hn]; cbn [negb].
  - destruct (N.eqb_spec w v); [congruence|]. apply IH. exact H.
  - cbn [w_lookup]. destruct (u =? v); [reflexivity|]. apply IH. exact H.
Qed.

Lemma ustep_frame : forall s e n, touches n s e = false -> d_lookup n (u_dir (ustep s e)) = d_lookup n (u_dir s).
Proof.
  intros s e n H. destruct e as [w m cl|w c|w|w]; cbn [touches ustep] in *.
  - cbn [u_dir]. apply d_lookup_set_other. exact H.
  - destruct (w_lookup w (u_live s)) as [[m cl]|]; [|reflexivity]. cbn [u_dir]. apply d_lookup_set_other. exact H.
  - reflexivity.
  - destruct (w_lookup w (u_live s)) as [[m cl]|]; [|reflexivity]. cbn [u_dir].
    destruct cl; [apply d_lookup_del_other; exact H|reflexivity].
Qed.

(** Directories built by [d_set] from the empty one hold each name once; then deleting removes it. *)
Fixpoint nodup_names (d : dir) : Prop :=
  match d with [] => True | (m, _) :: r => d_lookup m r = None /\ nodup_names r end.

Lemma d_lookup_del_nodup : forall d n, nodup_names d -> d_lookup n (d_del n d) = None.
Proof.
  induction d as [|[m x] d IH]; intros n H; cbn [d_del d_lookup]; [reflexivity|].
  destruct H as [H1 H2]. destruct (bytes_eqb m n) eqn:E.
  - apply bytes_eqb_true in E. subst. exact H1.
  - cbn [d_lookup]. rewrite E. apply IH. exact H2.
Qed.

Lemma nodup_set : forall d n c, nodup_names d -> nodup_names (d_set n c d).
Proof.
  induction d as [|[m x] d IH]; intros n c H; cbn [d_set nodup_names]; [auto|].
  destruct H as [H1 H2]. destruct (bytes_eqb m n) eqn:E; cbn [nodup_names].
  - split; assumption.
  - split; [|apply IH; exact H2]. rewrite d_lookup_set_other; [exact H1|].
    rewrite bytes_eqb_sym. exact E.
Qed.

Lemma nodup_del : forall d n, nodup_names d -> nodup_names (d_del n d).
Proof.
  induction d as [|[m x] d IH]; intros n H; cbn [d_del nodup_names]; [auto|].
  destruct H as [H1 H2]. destruct (bytes_eqb m n) eqn:E; [exact H2|]. cbn [nodup_names].
  split; [|apply IH; exact H2]. rewrite d_lookup_del_other; [exact H1|]. rewrite bytes_eqb_sym. exact E.
Qed.

Lemma ustep_nodup : forall s e, nodup_names (u_dir s) -> nodup_names (u_dir (ustep s e)).
Proof.
  intros s e H. destruct e as [w m cl|w c|w|w]; cbn [ustep].
  - cbn [u_dir]. apply nodup_set. exact H.
  - destruct (w_lookup w (u_live s)) as [[m cl]|]; [|exact H]. cbn [u_dir]. apply nodup_set. exact H.
  - exact H.
  - destruct (w_lookup w (u_live s)) as [[m cl]|]; [|exact H]. cbn [u_dir]. destruct cl; [apply nodup_del|]; exact H.
Qed.

Theorem failed_upload_cleaned : forall s w n, nodup_names (u_dir s) -> w_lookup w (u_live s) = Some (n, true) ->
  d_lookup n (u_dir (ustep s (UFail w))) = None.
Proof. intros s w n Hd Hw. cbn [ustep]. rewrite Hw. cbn [u_dir]. apply d_lookup_del_nodup. exact Hd. Qed.

Theorem failed_upload_kept : forall s w n, w_lookup w (u_live s) = Some (n, false) ->
  u_dir (ustep s (UFail w)) = u_dir s.
Proof. intros s w n Hw. cbn [ustep]. rewrite Hw. reflexivity. Qed.

(** A history in which, from some point on, nothing concerns the name [n]. *)
Fixpoint untouched (n : bytes) (s : usys) (h : list uev) : Prop :=
  match h with [] => True | e :: r => touches n s e = false /\ untouched n (ustep s e) r end.

Lemma untouched_frame : forall h n s, untouched n s h -> d_lookup n (u_dir (urun s h)) = d_lookup n (u_dir s).
Proof.
  induction h as [|e h IH]; intros n s H; [reflexivity|]. destruct H as [H1 H2].
  unfold urun in *. cbn [fold_left]. rewrite IH by exact H2. apply ustep_frame. exact H1.
Qed.

(** C13, second sentence, for uploads that do not overlap on the name: after worker [w]
    flushed [c] and ended in success, and as long as no later event concerns the name - in
    particular no other upload of that name is in flight or accepted later - the file holds
    exactly [c], whatever other uploads (of other names) start, complete or fail meanwhile. *)
Theorem completed_upload_persists : forall s w n cl c h, w_lookup w (u_live s) = Some (n, cl) ->
  untouched n (ustep (ustep s (UWrite w c)) (UDone w)) h ->
  d_lookup n (u_dir (urun s (UWrite w c :: UDone w :: h))) = Some c.
Proof.
  intros s w n cl c h Hw Hu. unfold urun. cbn [fold_left]. fold (urun (ustep (ustep s (UWrite w c)) (UDone w)) h).
  rewrite untouched_frame by exact Hu. cbn [ustep]. rewrite Hw. cbn [u_dir]. apply d_lookup_set_same.
Qed.

(** With overlapping uploads of one name the statement is false (defect D6 of the code): the
    later failure of a transfer accepted earlier removes the completed upload. *)
Definition d6_history : list uev :=
  [UAccept 1 [120] true; UAccept 2 [120] true; UWrite 2 [112; 97; 121]; UDone 2; UFail 1].

Theorem overlapping_uploads_refuted :
  d_lookup [120] (u_dir (urun (mk_usys [] []) [UAccept 1 [120] true; UAccept 2 [120] true; UWrite 2 [112; 97; 121]; UDone 2]))
    = Some [112; 97; 121]
  /\ d_lookup [120] (u_dir (urun (mk_usys [] []) d6_history)) = None
  /\ ~ untouched [120] (urun (mk_usys [] []) [UAccept 1 [120] true; UAccept 2 [120] true; UWrite 2 [112; 97; 121]; UDone 2]) [UFail 1].
Proof.
  split; [vm_compute; reflexivity|]. split; [vm_compute; reflexivity|].
  intros [H _]. vm_compute in H. discriminate.
Qed.
