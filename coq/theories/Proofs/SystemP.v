(** Proofs about upload life cycles (C13). *)
From Coq Require Import ZArith Lia.
From Tftp Require Import Base.Prelude Model.System Proofs.ServerP.
Local Open Scope N_scope.

Lemma d_lookup_set_same : forall d n c, d_lookup n (d_set n c d) = Some c.
Proof.
  induction d as [|[m x] d IH]; intros n c; cbn [d_set d_lookup].
  - rewrite bytes_eqb_refl. reflexivity.
  - destruct (bytes_eqb m n) eqn:E; cbn [d_lookup]; rewrite E; [reflexivity|apply IH].
Qed.

Lemma d_lookup_set_other : forall d n m c, bytes_eqb m n = false -> d_lookup n (d_set m c d) = d_lookup n d.
Proof.
  induction d as [|[k x] d IH]; intros n m c H; cbn [d_set d_lookup].
  - rewrite H. reflexivity.
  - destruct (bytes_eqb k m) eqn:E; cbn [d_lookup].
    + destruct (bytes_eqb k n) eqn:E2; [|reflexivity]. exfalso.
      apply bytes_eqb_true in E. apply bytes_eqb_true in E2. subst. rewrite bytes_eqb_refl in H. discriminate.
    + destruct (bytes_eqb k n); [reflexivity|apply IH; exact H].
Qed.

Lemma d_lookup_del_other : forall d n m, bytes_eqb m n = false -> d_lookup n (d_del m d) = d_lookup n d.
Proof.
  induction d as [|[k x] d IH]; intros n m H; cbn [d_del d_lookup]; [reflexivity|].
  destruct (bytes_eqb k m) eqn:E; cbn [d_lookup].
  - destruct (bytes_eqb k n) eqn:E2; [|reflexivity]. exfalso.
    apply bytes_eqb_true in E. apply bytes_eqb_true in E2. subst. rewrite bytes_eqb_refl in H. discriminate.
  - destruct (bytes_eqb k n); [reflexivity|apply IH; exact H].
Qed.

(** An event that does not concern the name leaves the file of that name alone, and does not
    change which live workers own the name. *)
Definition owners (n : bytes) (s : usys) : list N :=
  map fst (filter (fun e => bytes_eqb (fst (snd e)) n) (u_live s)).

Lemma w_lookup_del_other : forall l w v, v <> w -> w_lookup v (w_del w l) = w_lookup v l.
Proof.
  induction l as [|[u x] l IH]; intros w v H; cbn [w_del filter w_lookup fst]; [reflexivity|].
  destruct (N.eqb_spec u w) as [->|Hn]; cbn [negb].
  - destruct (N.eqb_spec w v); [congruence|]. apply IH. exact H.
  - cbn [w_lookup]. destruct (u =? v); [reflexivity|]. apply IH. exact H.
Qed.

Lemma ustep_frame : forall s e n, touches n s e = false -> d_lookup n (u_dir (ustep s e)) = d_lookup n (u_dir s).
Proof.
  intros s e n H. destruct e as [w m cl|w c|w|w]; cbn [touches ustep] in *.
  - cbn [u_dir]. apply d_lookup_set_other. exact H.
  - destruct (w_lookup w (u_live s)) as [[m cl]|]; [|reflexivity]. cbn [u_dir]. apply d_lookup_set_other. exact H.
  - reflexivity.
  - destruct (w_lookup w (u_live s)) as [[m cl]|]; [|reflexivity]. cbn [u_dir].
    destruct cl; [apply d_lookup_del_other; exact H|reflexivity].
Qed.

(** Directories built by [d_set] from the empty one hold each name once; then deleting removes it. *)
Fixpoint nodup_names (d : dir) : Prop :=
  match d with [] => True | (m, _) :: r => d_lookup m r = None /\ nodup_names r end.

Lemma d_lookup_del_nodup : forall d n, nodup_names d -> d_lookup n (d_del n d) = None.
Proof.
  induction d as [|[m x] d IH]; intros n H; cbn [d_del d_lookup]; [reflexivity|].
  destruct H as [H1 H2]. destruct (bytes_eqb m n) eqn:E.
  - apply bytes_eqb_true in E. subst. exact H1.
  - cbn [d_lookup]. rewrite E. apply IH. exact H2.
Qed.

Lemma nodup_set : forall d n c, nodup_names d -> nodup_names (d_set n c d).
Proof.
  induction d as [|[m x] d IH]; intros n c H; cbn [d_set nodup_names]; [auto|].
  destruct H as [H1 H2]. destruct (bytes_eqb m n) eqn:E; cbn [nodup_names].
  - split; assumption.
  - split; [|apply IH; exact H2]. rewrite d_lookup_set_other; [exact H1|].
    rewrite bytes_eqb_sym. exact E.
Qed.

Lemma nodup_del : forall d n, nodup_names d -> nodup_names (d_del n d).
Proof.
  induction d as [|[m x] d IH]; intros n H; cbn [d_del nodup_names]; [auto|].
  destruct H as [H1 H2]. destruct (bytes_eqb m n) eqn:E; [exact H2|]. cbn [nodup_names].
  split; [|apply IH; exact H2]. rewrite d_lookup_del_other; [exact H1|]. rewrite bytes_eqb_sym. exact E.
Qed.

Lemma ustep_nodup : forall s e, nodup_names (u_dir s) -> nodup_names (u_dir (ustep s e)).
Proof.
  intros s e H. destruct e as [w m cl|w c|w|w]; cbn [ustep].
  - cbn [u_dir]. apply nodup_set. exact H.
  - destruct (w_lookup w (u_live s)) as [[m cl]|]; [|exact H]. cbn [u_dir]. apply nodup_set. exact H.
  - exact H.
  - destruct (w_lookup w (u_live s)) as [[m cl]|]; [|exact H]. cbn [u_dir]. destruct cl; [apply nodup_del|]; exact H.
Qed.

Theorem failed_upload_cleaned : forall s w n, nodup_names (u_dir s) -> w_lookup w (u_live s) = Some (n, true) ->
  d_lookup n (u_dir (ustep s (UFail w))) = None.
Proof. intros s w n Hd Hw. cbn [ustep]. rewrite Hw. cbn [u_dir]. apply d_lookup_del_nodup. exact Hd. Qed.

Theorem failed_upload_kept : forall s w n, w_lookup w (u_live s) = Some (n, false) ->
  u_dir (ustep s (UFail w)) = u_dir s.
Proof. intros s w n Hw. cbn [ustep]. rewrite Hw. reflexivity. Qed.

(** A history in which, from some point on, nothing concerns the name [n]. *)
Fixpoint untouched (n : bytes) (s : usys) (h : list uev) : Prop :=
  match h with [] => True | e :: r => touches n s e = false /\ untouched n (ustep s e) r end.

Lemma untouched_frame : forall h n s, untouched n s h -> d_lookup n (u_dir (urun s h)) = d_lookup n (u_dir s).
Proof.
  induction h as [|e h IH]; intros n s H; [reflexivity|]. destruct H as [H1 H2].
  unfold urun in *. cbn [fold_left]. rewrite IH by exact H2. apply ustep_frame. exact H1.
Qed.

(** C13, second sentence, for uploads that do not overlap on the name: after worker [w]
    flushed [c] and ended in success, and as long as no later event concerns the name - in
    particular no other upload of that name is in flight or accepted later - the file holds
    exactly [c], whatever other uploads (of other names) start, complete or fail meanwhile. *)
Theorem completed_upload_persists : forall s w n cl c h, w_lookup w (u_live s) = Some (n, cl) ->
  untouched n (ustep (ustep s (UWrite w c)) (UDone w)) h ->
  d_lookup n (u_dir (urun s (UWrite w c :: UDone w :: h))) = Some c.
Proof.
  intros s w n cl c h Hw Hu. unfold urun. cbn [fold_left]. fold (urun (ustep (ustep s (UWrite w c)) (UDone w)) h).
  rewrite untouched_frame by exact Hu. cbn [ustep]. rewrite Hw. cbn [u_dir]. apply d_lookup_set_same.
Qed.

(** With overlapping uploads of one name the statement is false (defect D6 of the code): the
    later failure of a transfer accepted earlier removes the completed upload. *)
Definition d6_history : list uev :=
  [UAccept 1 [120] true; UAccept 2 [120] true; UWrite 2 [112; 97; 121]; UDone 2; UFail 1].

Theorem overlapping_uploads_refuted :
  d_lookup [120] (u_dir (urun (mk_usys [] []) [UAccept 1 [120] true; UAccept 2 [120] true; UWrite 2 [112; 97; 121]; UDone 2]))
    = Some [112; 97; 121]
  /\ d_lookup [120] (u_dir (urun (mk_usys [] []) d6_history)) = None
  /\ ~ untouched [120] (urun (mk_usys [] []) [UAccept 1 [120] true; UAccept 2 [120] true; UWrite 2 [112; 97; 121]; UDone 2]) [UFail 1].
Proof.
  split; [vm_compute; reflexivity|]. split; [vm_compute; reflexivity|].
  intros [H _]. vm_compute in H. discriminate.
Qed.

(** * Isolation of concurrent transfers (C12) *)
From Tftp Require Import Model.Types Model.Consts Model.Codec Model.Window Model.Worker Model.Server Proofs.CodecP Proofs.SpecP.

Lemma y_get_put_other : forall l a b x, a <> b -> y_get a (y_put b x l) = y_get a l.
Proof.
  induction l as [|[k y] l IH]; intros a b x H; cbn [y_put y_get].
  - destruct (N.eqb_spec b a); [congruence|reflexivity].
  - destruct (N.eqb_spec k b) as [->|Hn]; cbn [y_get].
    + destruct (N.eqb_spec b a); [congruence|reflexivity].
    + destruct (k =? a); [reflexivity|apply IH; exact H].
Qed.

Lemma y_get_put_same : forall l a x, y_get a (y_put a x l) = Some x.
Proof.
  induction l as [|[k y] l IH]; intros a x; cbn [y_put y_get].
  - rewrite N.eqb_refl. reflexivity.
  - destruct (N.eqb_spec k a) as [->|Hn]; cbn [y_get]; [rewrite N.eqb_refl; reflexivity|].
    destruct (N.eqb_spec k a); [congruence|apply IH].
Qed.

Lemma apply_action_other : forall root src raw ws a i, i <> src ->
  y_get i (fst (apply_action root src raw ws a)) = y_get i ws /\
  Forall (fun d => fst d = src) (snd (apply_action root src raw ws a)).
Proof.
  intros root src raw ws a i Hi. destruct a as [l p|path o rep chk|path o rep cl|p]; cbn [apply_action].
  - cbn [fst snd]. split; [reflexivity|]. constructor; [reflexivity|constructor].
  - destruct (stat root path) as [[c|es]|]; try (cbn [fst snd]; split; [reflexivity|constructor]).
    destruct (send_init _ c) as [s0 out0]. cbn [fst snd]. split; [apply y_get_put_other; exact Hi|].
    rewrite Forall_map. apply Forall_forall. intros; reflexivity.
  - cbn [fst snd]. split; [apply y_get_put_other; exact Hi|constructor].
  - destruct (y_get src ws) as [[w inbox]|]; cbn [fst snd]; (split; [|constructor]); [apply y_get_put_other; exact Hi|reflexivity].
Qed.

Lemma apply_actions_other : forall root src raw acts ws i, i <> src ->
  y_get i (fst (apply_actions root src raw ws acts)) = y_get i ws /\
  Forall (fun d => fst d = src) (snd (apply_actions root src raw ws acts)).
Proof.
  intros root src raw acts. induction acts as [|a r IH]; intros ws i Hi; cbn [apply_actions].
  - split; [reflexivity|constructor].
  - destruct (apply_action root src raw ws a) as [ws1 o1] eqn:E1.
    destruct (apply_actions root src raw ws1 r) as [ws2 o2] eqn:E2. cbn [fst snd].
    destruct (apply_action_other root src raw ws a i Hi) as [A1 A2]. rewrite E1 in A1, A2. cbn [fst snd] in A1, A2.
    destruct (IH ws1 i Hi) as [B1 B2]. rewrite E2 in B1, B2. cbn [fst snd] in B1, B2.
    split; [congruence|apply Forall_app; split; assumption].
Qed.

Lemma work_dest : forall w e src, Forall (fun d => fst d = src) (snd (work w e src)).
Proof.
  intros w e src. destruct w as [c s|c r]; cbn [work].
  - destruct (send_step c s e) as [s' out]. cbn [snd]. rewrite Forall_map. apply Forall_forall. intros; reflexivity.
  - destruct (recv_step c r e) as [r' out]. cbn [snd]. rewrite Forall_map. apply Forall_forall. intros; reflexivity.
Qed.

(** Whatever happens for another endpoint - its requests, its data, its worker's steps and
    time-outs, garbage it sends - leaves the worker of endpoint [i] (its state and its inbox)
    exactly as it was, and every datagram the server emits in such a step is addressed to that
    other endpoint: nothing of [i]'s transfer leaks, nothing reaches [i]. *)
Theorem foreign_step_preserves_worker : forall cfg mem root y l i, label_src l <> i ->
  y_get i (y_ws (fst (sys_step cfg mem root y l))) = y_get i (y_ws y) /\
  Forall (fun d => fst d = label_src l) (snd (sys_step cfg mem root y l)).
Proof.
  intros cfg mem root y l i Hi. destruct l as [src raw|src raw|src|src]; cbn [label_src] in Hi; cbn [sys_step label_src].
  - destruct (listen_step cfg mem root (y_ls y) src raw) as [[ls' acts]|e| |]; try (cbn [fst snd]; split; [reflexivity|constructor]).
    destruct (apply_actions root src raw (y_ws y) acts) as [ws' out] eqn:E. cbn [fst snd y_ws].
    destruct (apply_actions_other root src raw acts (y_ws y) i ltac:(congruence)) as [A B]. rewrite E in A, B. exact (conj A B).
  - destruct (y_get src (y_ws y)) as [[w inbox]|]; cbn [fst snd y_ws]; (split; [|constructor]); [apply y_get_put_other; congruence|reflexivity].
  - destruct (y_get src (y_ws y)) as [[w [|raw inbox]]|]; try (cbn [fst snd]; split; [reflexivity|constructor]).
    destruct (work w (EvDgram 0 raw) src) as [w' out] eqn:E. cbn [fst snd y_ws]. split; [apply y_get_put_other; congruence|].
    pose proof (work_dest w (EvDgram 0 raw) src) as D. rewrite E in D. exact D.
  - destruct (y_get src (y_ws y)) as [[w [|raw inbox]]|]; try (cbn [fst snd]; split; [reflexivity|constructor]).
    destruct (work w (EvFail (wtimeout w)) src) as [w' out] eqn:E. cbn [fst snd y_ws]. split; [apply y_get_put_other; congruence|].
    pose proof (work_dest w (EvFail (wtimeout w)) src) as D. rewrite E in D. exact D.
Qed.

(** Run a label list; collect what is sent to each endpoint. *)
Fixpoint sys_run (cfg : srvcfg) (mem : N) (root : node) (y : sys) (ls : list label) : sys * list (N * bytes) :=
  match ls with
  | [] => (y, [])
  | l :: r => let '(y1, o1) := sys_step cfg mem root y l in
              let '(y2, o2) := sys_run cfg mem root y1 r in (y2, o1 ++ o2)
  end.

(** Any interleaving of steps of other endpoints - any number of clients, any schedule - leaves
    the worker of [i] untouched and sends nothing to [i]. *)
Theorem foreign_run_preserves_worker : forall cfg mem root ls y i, Forall (fun l => label_src l <> i) ls ->
  y_get i (y_ws (fst (sys_run cfg mem root y ls))) = y_get i (y_ws y) /\
  Forall (fun d => fst d <> i) (snd (sys_run cfg mem root y ls)).
Proof.
  intros cfg mem root ls. induction ls as [|l r IH]; intros y i H; cbn [sys_run].
  - split; [reflexivity|constructor].
  - inversion H as [|? ? Hl Hr]; subst.
    destruct (sys_step cfg mem root y l) as [y1 o1] eqn:E1. destruct (sys_run cfg mem root y1 r) as [y2 o2] eqn:E2.
    cbn [fst snd]. destruct (foreign_step_preserves_worker cfg mem root y l i Hl) as [A B]. rewrite E1 in A, B. cbn [fst snd] in A, B.
    destruct (IH y1 i Hr) as [C D]. rewrite E2 in C, D. cbn [fst snd] in C, D.
    split; [congruence|]. apply Forall_app. split; [|exact D].
    eapply Forall_impl; [|exact B]. intros d Hd. cbn beta in Hd. congruence.
Qed.

(** A worker's own step depends on nothing but its own state and inbox (by construction of
    [sys_step]: stated as a computation rule). *)
Theorem own_step_is_local : forall cfg mem root y i w raw inbox,
  y_get i (y_ws y) = Some (w, raw :: inbox) ->
  sys_step cfg mem root y (LWork i) =
    (mk_sys (y_ls y) (y_put i (fst (work w (EvDgram 0 raw) i), inbox) (y_ws y)), snd (work w (EvDgram 0 raw) i)).
Proof.
  intros cfg mem root y i w raw inbox H. cbn [sys_step]. rewrite H.
  destruct (work w (EvDgram 0 raw) i) as [w' out]. reflexivity.
Qed.

(** Well-formed non-request packets from an endpoint that owns no transfer, sent to the
    listening port: answered with ERROR 4 from the listening port; nothing else happens. *)
Theorem foreign_nonrequest_answered : forall cfg mem root st src raw p, listener_inv st -> 65468 <= mem ->
  memN src (l_clients st) = false ->
  decode (takeN ((if v_single cfg then l_largest st else max_request_packet_size) + 4) raw) = Ok p ->
  (forall f m os, p <> Rrq f m os) -> (forall f m os, p <> Wrq f m os) ->
  listen_step cfg mem root st src raw = Ok (st, [AReply true (Error EIllegalOperation msg_invalid_request)]).
Proof.
  intros cfg mem root st src raw p Hi Hm Hc Hd Hr Hw. unfold listen_step.
  set (size := if v_single cfg then l_largest st else max_request_packet_size) in *.
  assert (Hs : size + 4 <= 65468).
  { unfold size. destruct (v_single cfg); [unfold listener_inv, max_blk in Hi; lia|unfold max_request_packet_size; lia]. }
  destruct (N.ltb_spec isize_max (size + 4)); [unfold isize_max in *; lia|].
  destruct (N.ltb_spec mem (size + 4)); [lia|]. rewrite Hd.
  destruct p as [f m os|f m os|n d|n|c m|os]; try (exfalso; eapply Hr; reflexivity); try (exfalso; eapply Hw; reflexivity);
    rewrite Hc, andb_false_r; reflexivity.
Qed.

(** Single-port mode: a non-request packet is handed to the worker that owns its source
    address - routing is by source, never by content. *)
Theorem routing_by_source : forall cfg mem root st src raw p, listener_inv st -> 65468 <= mem ->
  v_single cfg = true -> memN src (l_clients st) = true ->
  decode (takeN (l_largest st + 4) raw) = Ok p ->
  (forall f m os, p <> Rrq f m os) -> (forall f m os, p <> Wrq f m os) ->
  listen_step cfg mem root st src raw = Ok (st, [ARoute p]).
Proof.
  intros cfg mem root st src raw p Hi Hm Hs Hc Hd Hr Hw. unfold listen_step. rewrite Hs.
  assert (Hsz : l_largest st + 4 <= 65468) by (unfold listener_inv, max_blk in Hi; lia).
  destruct (N.ltb_spec isize_max (l_largest st + 4)); [unfold isize_max in *; lia|].
  destruct (N.ltb_spec mem (l_largest st + 4)); [lia|]. rewrite Hd.
  destruct p as [f m os|f m os|n d|n|c m|os]; try (exfalso; eapply Hr; reflexivity); try (exfalso; eapply Hw; reflexivity);
    rewrite Hc; reflexivity.
Qed.

(** The size of the shared receive buffer - the one thing other clients' requests can change -
    does not matter for a datagram that fits: whatever others negotiated, it is decoded alike. *)
Theorem buffer_growth_harmless : forall (raw : bytes) a b, lenN raw <= a + 4 -> a <= b -> takeN (b + 4) raw = takeN (a + 4) raw.
Proof. intros raw a b H1 H2. rewrite !Proofs.SpecP.takeN_all by lia. reflexivity. Qed.
