(** Proofs about the listener model (Model/Server.v): C03 confinement, C05 availability of the
    listener logic, C06 access policy, C09 option negotiation. *)
From Coq Require Import ZArith Lia ZifyBool ZifyNat ZifyN.
From Tftp Require Import Base.Prelude Base.Utf8 Base.Decimal Model.Types Model.Consts Model.Codec Model.Window Model.Worker
  Model.Monitors Model.Server Proofs.ListAux Proofs.CodecP Proofs.SpecP.
Local Open Scope N_scope.

(** * Byte-string equality *)

Lemma bytes_eqb_refl : forall a, bytes_eqb a a = true.
Proof. induction a as [|x a IH]; [reflexivity|]. cbn [bytes_eqb]. rewrite N.eqb_refl. exact IH. Qed.

Lemma bytes_eqb_true : forall a b, bytes_eqb a b = true -> a = b.
Proof.
  induction a as [|x a IH]; intros [|y b] H; try discriminate; [reflexivity|].
  cbn [bytes_eqb] in H. apply andb_true_iff in H. destruct H as [H1 H2]. apply N.eqb_eq in H1. subst y.
  f_equal. apply IH. exact H2.
Qed.

Lemma bytes_eqb_sym : forall a b, bytes_eqb a b = bytes_eqb b a.
Proof.
  induction a as [|x a IH]; intros [|y b]; try reflexivity. cbn [bytes_eqb]. rewrite N.eqb_sym, IH. reflexivity.
Qed.

Lemma bytes_eqb_sym_false : forall a b, bytes_eqb a b = false -> bytes_eqb b a = false.
Proof. intros a b H. rewrite bytes_eqb_sym. exact H. Qed.

(** * Paths (C03) *)

(** [convert_file_path] always yields a relative name without backslashes. *)
Lemma trim_not_sep : forall s, match trim_leading_seps s with c :: _ => (c =? slash) = false /\ (c =? backslash) = false | [] => True end.
Proof.
  induction s as [|c r IH]; [exact I|]. cbn [trim_leading_seps].
  destruct (c =? slash) eqn:E1; cbn [orb]; [exact IH|]. destruct (c =? backslash) eqn:E2; [exact IH|]. split; assumption.
Qed.

Theorem convert_is_relative : forall name,
  is_absolute (convert_file_path name) = false /\ ~ In backslash (convert_file_path name).
Proof.
  intros name. unfold convert_file_path. split.
  - pose proof (trim_not_sep name) as H. destruct (trim_leading_seps name) as [|c r]; [reflexivity|].
    destruct H as [H1 H2]. cbn [map is_absolute]. rewrite H2. exact H1.
  - intros Hin. apply in_map_iff in Hin. destruct Hin as (c & Hc & _).
    destruct (N.eqb_spec c backslash) as [E|Hn]; [discriminate Hc|]. congruence.
Qed.

(** Splitting distributes over a '/' boundary. *)
Lemma split_slash_app : forall a cur b,
  split_slash cur (a ++ slash :: b) = split_slash cur a ++ split_slash [] b.
Proof.
  induction a as [|c a IH]; intros cur b; cbn [app split_slash].
  - rewrite N.eqb_refl. reflexivity.
  - destruct (c =? slash); [cbn [app]; f_equal; apply IH|apply IH].
Qed.

Lemma split_slash_snoc_slash : forall a cur, split_slash cur (a ++ [slash]) = split_slash cur a ++ [[]].
Proof. intros a cur. rewrite split_slash_app. reflexivity. Qed.

Definition normal (s : bytes) : bool := negb (is_empty_seg s) && negb (is_dot s).

Lemma kernel_segs_app : forall a b, kernel_segs (a ++ slash :: b) = kernel_segs a ++ kernel_segs b.
Proof. intros. unfold kernel_segs. rewrite split_slash_app, filter_app. reflexivity. Qed.

(** A path that ends with '/' contributes the same components as without it. *)
Lemma kernel_segs_trailing : forall a b, ends_with_slash a = true -> kernel_segs (a ++ b) = kernel_segs a ++ kernel_segs b.
Proof.
  intros a b H. unfold ends_with_slash in H. destruct (rev a) as [|c r] eqn:E; [discriminate|].
  apply N.eqb_eq in H. subst c. assert (Ha : a = rev r ++ [slash]).
  { rewrite <- (rev_involutive a), E. reflexivity. }
  rewrite Ha, <- app_assoc. cbn [app]. rewrite kernel_segs_app.
  unfold kernel_segs at 3. rewrite split_slash_snoc_slash, filter_app. cbn [filter is_empty_seg negb andb].
  rewrite app_nil_r. reflexivity.
Qed.

(** Components of a joined path: those of the directory, then those of the (relative) name. *)
Theorem join_segs : forall dir name, is_absolute name = false -> dir <> [] ->
  kernel_segs (join dir name) = kernel_segs dir ++ kernel_segs name.
Proof.
  intros dir name Hr Hd. unfold join. rewrite Hr. destruct dir as [|d0 dr]; [congruence|].
  destruct (ends_with_slash (d0 :: dr)) eqn:E; [apply kernel_segs_trailing; exact E|apply kernel_segs_app].
Qed.

(** No ".." substring, no ".." component. *)
Lemma has_dotdot_app_r : forall pre p, has_dotdot p = true -> has_dotdot (pre ++ p) = true.
Proof.
  induction pre as [|c pre IH]; intros p H; [exact H|]. cbn [app].
  specialize (IH p H). destruct (pre ++ p) as [|b r] eqn:E; [discriminate|].
  change (has_dotdot (c :: b :: r)) with (((c =? dotc) && (b =? dotc)) || has_dotdot (b :: r)).
  rewrite IH. apply orb_true_r.
Qed.

Lemma has_dotdot_prefix : forall r, has_dotdot (dotc :: dotc :: r) = true.
Proof.
  intros. change (has_dotdot (dotc :: dotc :: r)) with (((dotc =? dotc) && (dotc =? dotc)) || has_dotdot (dotc :: r)).
  rewrite N.eqb_refl. reflexivity.
Qed.

Lemma seg_is_substring : forall p cur seg, In seg (split_slash cur p) ->
  exists pre post, rev cur ++ p = pre ++ seg ++ post.
Proof.
  induction p as [|c p IH]; intros cur seg H; cbn [split_slash] in H.
  - destruct H as [<-|[]]. exists [], []. rewrite app_nil_r. reflexivity.
  - destruct (c =? slash) eqn:E.
    + destruct H as [<-|H].
      * exists [], (c :: p). reflexivity.
      * destruct (IH [] seg H) as (pre & post & Hp). cbn [rev app] in Hp. exists (rev cur ++ c :: pre), post.
        rewrite Hp, <- app_assoc. reflexivity.
    + destruct (IH (c :: cur) seg H) as (pre & post & Hp). cbn [rev] in Hp. rewrite <- app_assoc in Hp.
      exists pre, post. exact Hp.
Qed.

Theorem no_dotdot_component : forall p seg, has_dotdot p = false -> In seg (split_slash [] p) -> is_dotdot seg = false.
Proof.
  intros p seg Hn Hin. destruct (is_dotdot seg) eqn:E; [|reflexivity]. exfalso.
  destruct seg as [|a [|b [|c r]]]; try discriminate. cbn [is_dotdot] in E. apply andb_true_iff in E.
  destruct E as [Ea Eb]. apply N.eqb_eq in Ea, Eb. subst a b.
  destruct (seg_is_substring _ _ _ Hin) as (pre & post & Hp). cbn [rev app] in Hp.
  rewrite Hp in Hn. rewrite has_dotdot_app_r in Hn; [discriminate|]. apply has_dotdot_prefix.
Qed.

(** Walking a concatenation of component lists. *)
Lemma walk_app : forall a nd b, walk nd (a ++ b) = match walk nd a with Some d => walk d b | None => None end.
Proof.
  induction a as [|s a IH]; intros nd b; [reflexivity|]. cbn [app walk].
  destruct nd as [c|es]; [reflexivity|]. destruct (lookup_entry s es); [apply IH|reflexivity].
Qed.

(** Confinement (C03): a path that passes validation is the served directory followed by
    components none of which is "..", "." or empty - so the kernel resolves it inside the
    directory: whatever [stat] finds is reached by walking down from the directory's node. *)
Theorem validate_confines : forall dir name root, dir <> [] ->
  validate_file_path (join dir (convert_file_path name)) dir = true ->
  let p := join dir (convert_file_path name) in
  let rel := kernel_segs (convert_file_path name) in
  kernel_segs p = kernel_segs dir ++ rel /\
  Forall (fun s => is_dotdot s = false /\ normal s = true) rel /\
  (forall nd, stat root p = Some nd ->
     exists d, walk root (kernel_segs dir) = Some d /\ walk d rel = Some nd).
Proof.
  intros dir name root Hd Hv p rel. destruct (convert_is_relative name) as [Hrel _].
  unfold validate_file_path in Hv. apply andb_true_iff in Hv. destruct Hv as [Hdd _].
  apply negb_true_iff in Hdd. fold p in Hdd.
  assert (Hs : kernel_segs p = kernel_segs dir ++ rel) by (apply join_segs; assumption).
  split; [exact Hs|]. split.
  - apply Forall_forall. intros s Hin. split.
    + assert (Hin2 : In s (kernel_segs p)) by (rewrite Hs; apply in_or_app; right; exact Hin).
      unfold kernel_segs in Hin2. apply filter_In in Hin2. destruct Hin2 as [Hin2 _].
      eapply no_dotdot_component; eassumption.
    + unfold rel, kernel_segs in Hin. apply filter_In in Hin. exact (proj2 Hin).
  - intros nd Hst. unfold stat in Hst. destruct (name_too_long p); [discriminate|].
    rewrite Hs, walk_app in Hst. destruct (walk root (kernel_segs dir)) as [d|]; [|discriminate].
    exists d. split; [reflexivity|]. destruct (walk d rel) as [x|]; [|discriminate].
    destruct x; [destruct (wants_dir p); [discriminate|]|]; exact Hst.
Qed.

(** Writing below a directory leaves every path that does not pass through it unchanged. *)
Lemma lookup_set_other : forall es s t x, bytes_eqb t s = false -> lookup_entry t (set_entry s x es) = lookup_entry t es.
Proof.
  induction es as [|[n y] es IH]; intros s t x H; cbn [set_entry lookup_entry].
  - rewrite bytes_eqb_sym_false by exact H. reflexivity.
  - destruct (bytes_eqb n s) eqn:E; cbn [lookup_entry].
    + destruct (bytes_eqb n t) eqn:E2; [|reflexivity]. exfalso.
      apply bytes_eqb_true in E. apply bytes_eqb_true in E2. subst. rewrite bytes_eqb_refl in H. discriminate.
    + destruct (bytes_eqb n t); [reflexivity|apply IH; exact H].
Qed.

Lemma lookup_set_same : forall es s x, lookup_entry s (set_entry s x es) = Some x.
Proof.
  induction es as [|[n y] es IH]; intros s x; cbn [set_entry lookup_entry].
  - rewrite bytes_eqb_refl. reflexivity.
  - destruct (bytes_eqb n s) eqn:E; cbn [lookup_entry]; rewrite E; [reflexivity|apply IH].
Qed.

(** [diverges a b]: the two component lists differ at some position before either ends. *)
Fixpoint diverges (a b : list bytes) : bool :=
  match a, b with
  | x :: a', y :: b' => if bytes_eqb x y then diverges a' b' else true
  | _, _ => false
  end.

Theorem write_frame : forall segs nd c nd' other, write_file nd segs c = Some nd' ->
  diverges other segs = true -> walk nd' other = walk nd other.
Proof.
  induction segs as [|s segs IH]; intros nd c nd' other Hw Hd; [discriminate|].
  destruct other as [|t other]; [discriminate|]. cbn [diverges] in Hd.
  destruct nd as [fc|es]; [destruct segs; discriminate|].
  assert (Hcase : exists x', nd' = NDir (set_entry s x' es) /\
            (forall x, lookup_entry s es = Some x -> segs <> [] -> write_file x segs c = Some x')).
  { cbn [write_file] in Hw. destruct segs as [|s2 segs'].
    - destruct (lookup_entry s es) as [[|]|]; inversion Hw; eexists; split; try reflexivity; intros; congruence.
    - destruct (lookup_entry s es) as [x|]; [|discriminate].
      destruct (write_file x (s2 :: segs') c) as [x'|] eqn:W; [|discriminate]. inversion Hw; subst.
      exists x'. split; [reflexivity|]. intros x0 Hx _. inversion Hx; subst. exact W. }
  destruct Hcase as (x' & -> & Hsub). cbn [walk].
  destruct (bytes_eqb t s) eqn:E.
  - apply bytes_eqb_true in E. subst t. rewrite lookup_set_same.
    destruct (lookup_entry s es) as [x|] eqn:L.
    + destruct segs as [|s2 segs']; [destruct other; discriminate|].
      eapply IH; [apply Hsub; [reflexivity|discriminate]|exact Hd].
    + destruct segs as [|s2 segs']; [destruct other; discriminate|].
      cbn [write_file] in Hw. rewrite L in Hw. discriminate.
  - rewrite lookup_set_other by exact E. reflexivity.
Qed.

(** * Option negotiation (C09) *)

Definition opts_in_range (o : wopts) : Prop :=
  min_blk <= wo_blk o <= max_blk /\ 1 <= wo_tmo_s o <= max_timeout_s /\ 1 <= wo_ws o <= max_ws.

Lemma default_wopts_in_range : opts_in_range default_wopts.
Proof. vm_compute. repeat split; discriminate. Qed.

(** What the OACK may say about one requested option. *)
Definition echo_ok (read_size : option N) (o o' : topt) : Prop :=
  o_type o' = o_type o /\
  match o_type o with
  | OTSize => o_val o' = match read_size with Some sz => sz | None => o_val o end
  | OBlkSize => o_val o' = o_val o /\ min_blk <= o_val o <= max_blk
  | OTimeout => o_val o' = o_val o /\ 1 <= o_val o <= max_timeout_s
  | OWindowSize => o_val o' = o_val o /\ 1 <= o_val o <= max_ws
  end.

(** The last value of an option in a list, or a default. *)
Fixpoint last_val (ty : opt_type) (os : list topt) (d : N) : N :=
  match os with
  | [] => d
  | o :: r => last_val ty r (if opt_type_eqb (o_type o) ty then o_val o else d)
  end.

Theorem parse_options_spec : forall os rs acc w os', parse_options os rs acc = Some (w, os') ->
  Forall2 (echo_ok rs) os os' /\
  wo_blk w = last_val OBlkSize os' (wo_blk acc) /\
  wo_tmo_s w = last_val OTimeout os' (wo_tmo_s acc) /\
  wo_ws w = last_val OWindowSize os' (wo_ws acc) /\
  wo_tsize w = last_val OTSize os' (wo_tsize acc) /\
  (opts_in_range acc -> opts_in_range w).
Proof.
  induction os as [|o os IH]; intros rs acc w os' H; cbn [parse_options] in H.
  - inversion H; subst. split; [constructor|]. cbn [last_val]. auto.
  - destruct (o_type o) eqn:Ty.
    + destruct (N.ltb_spec (o_val o) min_blk); cbn [orb] in H; [discriminate|].
      destruct (N.ltb_spec max_blk (o_val o)); [discriminate|].
      destruct (parse_options os rs _) as [[w1 os1]|] eqn:R; [|discriminate]. inversion H; subst.
      destruct (IH _ _ _ _ R) as (F & A & B & C & D & G). cbn [wo_blk wo_tsize wo_tmo_s wo_ws] in *.
      cbn [last_val]. rewrite Ty. cbn [opt_type_eqb].
      split; [constructor; [unfold echo_ok; rewrite Ty; repeat split; lia|exact F]|].
      split; [exact A|]. split; [exact B|]. split; [exact C|]. split; [exact D|].
      intros Hr. apply G. unfold opts_in_range in *. cbn [wo_blk wo_tmo_s wo_ws]. lia.
    + destruct rs as [sz|].
      * destruct (parse_options os (Some sz) _) as [[w1 os1]|] eqn:R; [|discriminate]. inversion H; subst.
        destruct (IH _ _ _ _ R) as (F & A & B & C & D & G). cbn [wo_blk wo_tsize wo_tmo_s wo_ws] in *.
        cbn [last_val o_type o_val opt_type_eqb].
        split; [constructor; [unfold echo_ok; rewrite Ty; split; reflexivity|exact F]|].
        split; [exact A|]. split; [exact B|]. split; [exact C|]. split; [exact D|].
        intros Hr. apply G. exact Hr.
      * destruct (parse_options os None _) as [[w1 os1]|] eqn:R; [|discriminate]. inversion H; subst.
        destruct (IH _ _ _ _ R) as (F & A & B & C & D & G). cbn [wo_blk wo_tsize wo_tmo_s wo_ws] in *.
        cbn [last_val]. rewrite Ty. cbn [opt_type_eqb].
        split; [constructor; [unfold echo_ok; rewrite Ty; split; reflexivity|exact F]|].
        split; [exact A|]. split; [exact B|]. split; [exact C|]. split; [exact D|].
        intros Hr. apply G. exact Hr.
    + destruct (N.eqb_spec (o_val o) 0); cbn [orb] in H; [discriminate|].
      destruct (N.ltb_spec max_timeout_s (o_val o)); [discriminate|].
      destruct (parse_options os rs _) as [[w1 os1]|] eqn:R; [|discriminate]. inversion H; subst.
      destruct (IH _ _ _ _ R) as (F & A & B & C & D & G). cbn [wo_blk wo_tsize wo_tmo_s wo_ws] in *.
      cbn [last_val]. rewrite Ty. cbn [opt_type_eqb].
      split; [constructor; [unfold echo_ok; rewrite Ty; repeat split; lia|exact F]|].
      split; [exact A|]. split; [exact B|]. split; [exact C|]. split; [exact D|].
      intros Hr. apply G. unfold opts_in_range in *. cbn [wo_blk wo_tmo_s wo_ws]. lia.
    + destruct (N.eqb_spec (o_val o) 0); cbn [orb] in H; [discriminate|].
      destruct (N.ltb_spec max_ws (o_val o)); [discriminate|].
      destruct (parse_options os rs _) as [[w1 os1]|] eqn:R; [|discriminate]. inversion H; subst.
      destruct (IH _ _ _ _ R) as (F & A & B & C & D & G). cbn [wo_blk wo_tsize wo_tmo_s wo_ws] in *.
      cbn [last_val]. rewrite Ty. cbn [opt_type_eqb].
      split; [constructor; [unfold echo_ok; rewrite Ty; repeat split; lia|exact F]|].
      split; [exact A|]. split; [exact B|]. split; [exact C|]. split; [exact D|].
      intros Hr. apply G. unfold opts_in_range in *. cbn [wo_blk wo_tmo_s wo_ws]. lia.
Qed.

(** Values the server cannot honour are never acknowledged: with such a value anywhere in the
    request no option list comes back at all (and the handlers then send nothing). *)
Theorem unhonourable_never_acked : forall os rs acc, existsb unhonourable os = true -> parse_options os rs acc = None.
Proof.
  induction os as [|o os IH]; intros rs acc H; [discriminate|]. cbn [existsb] in H. cbn [parse_options].
  unfold unhonourable in H. destruct (o_type o) eqn:Ty.
  - change min_blk with 8. change max_blk with 65464.
    destruct ((o_val o <? 8) || (65464 <? o_val o)); [reflexivity|]. cbn [orb] in H. rewrite (IH _ _ H). reflexivity.
  - cbn [orb] in H. destruct rs; rewrite (IH _ _ H); reflexivity.
  - change max_timeout_s with 255.
    destruct ((o_val o =? 0) || (255 <? o_val o)); [reflexivity|]. cbn [orb] in H. rewrite (IH _ _ H). reflexivity.
  - change max_ws with 65535.
    destruct ((o_val o =? 0) || (65535 <? o_val o)); [reflexivity|]. cbn [orb] in H. rewrite (IH _ _ H). reflexivity.
Qed.

(** Conversely every honourable request is parsed. *)
Theorem honourable_parsed : forall os rs acc, existsb unhonourable os = false -> exists w os', parse_options os rs acc = Some (w, os').
Proof.
  induction os as [|o os IH]; intros rs acc H; [eexists; eexists; reflexivity|]. cbn [existsb] in H.
  apply orb_false_iff in H. destruct H as [H1 H2]. cbn [parse_options]. unfold unhonourable in H1.
  destruct (o_type o) eqn:Ty.
  - change min_blk with 8. change max_blk with 65464. rewrite H1.
    destruct (IH rs (mk_wopts (o_val o) (wo_tsize acc) (wo_tmo_s acc) (wo_ws acc)) H2) as (w & os' & ->). eexists; eexists; reflexivity.
  - destruct rs as [sz|].
    + destruct (IH (Some sz) (mk_wopts (wo_blk acc) sz (wo_tmo_s acc) (wo_ws acc)) H2) as (w & os' & ->). eexists; eexists; reflexivity.
    + destruct (IH None (mk_wopts (wo_blk acc) (o_val o) (wo_tmo_s acc) (wo_ws acc)) H2) as (w & os' & ->). eexists; eexists; reflexivity.
  - change max_timeout_s with 255. rewrite H1.
    destruct (IH rs (mk_wopts (wo_blk acc) (wo_tsize acc) (o_val o) (wo_ws acc)) H2) as (w & os' & ->). eexists; eexists; reflexivity.
  - change max_ws with 65535. rewrite H1.
    destruct (IH rs (mk_wopts (wo_blk acc) (wo_tsize acc) (wo_tmo_s acc) (o_val o)) H2) as (w & os' & ->). eexists; eexists; reflexivity.
Qed.

(** * The listener: one datagram (C05, C06, C09) *)

Definition listener_inv (st : lstate) : Prop := default_blk <= l_largest st <= max_blk.

Lemma lstate_init_inv : listener_inv lstate_init.
Proof. vm_compute. split; discriminate. Qed.

(** A handler's effect on the listener state and the shape of its actions. *)
Lemma accept_spec : forall cfg st src o os' w, opts_in_range o -> listener_inv st ->
  listener_inv (fst (accept cfg st src o os' w)) /\
  (forall a, In a (snd (accept cfg st src o os' w)) ->
     a = AReply (v_single cfg) (Oack os') /\ os' <> [] \/ a = AReply (v_single cfg) (Ack 0) /\ os' = [] /\ w = true).
Proof.
  intros cfg st src o os' w Hr Hi. unfold accept. cbn [fst snd]. split.
  - destruct (v_single cfg); [|exact Hi]. unfold listener_inv in *. cbn [l_largest].
    destruct Hr as (Hb & _). unfold default_blk, max_blk, min_blk in *. lia.
  - intros a Ha. destruct os' as [|x r].
    + destruct w; [|contradiction]. destruct Ha as [<-|[]]. right. auto.
    + destruct Ha as [<-|[]]. left. split; [reflexivity|discriminate].
Qed.

Theorem handle_rrq_spec : forall cfg root st src name os st' acts, listener_inv st ->
  handle_rrq cfg root st src name os = (st', acts) ->
  let path := join (v_sdir cfg) (convert_file_path name) in
  listener_inv st' /\
  match check_file_exists root path (v_sdir cfg) with
  | ChkViolation => st' = st /\ acts = [AReply true (Error EAccessViolation (msg_access_pre ++ path))]
  | ChkMissing => st' = st /\ acts = [AReply true (Error EFileNotFound (msg_not_found_pre ++ path ++ msg_not_found_post))]
  | ChkExists k =>
    let size := match k with FkFile n => n | _ => 0 end in
    match parse_options os (Some size) default_wopts with
    | None => st' = st /\ acts = []
    | Some (o, os') =>
      opts_in_range o /\
      acts = (match os' with [] => [] | _ => [AReply (v_single cfg) (Oack os')] end)
             ++ [ASpawnSend path o (v_dup cfg + 1) (match os' with [] => false | _ => true end)]
    end
  end.
Proof.
  intros cfg root st src name os st' acts Hi H path. unfold handle_rrq in H. fold path in H.
  destruct (check_file_exists root path (v_sdir cfg)) as [| |k].
  - inversion H; subst. auto.
  - inversion H; subst. auto.
  - cbv zeta. destruct (parse_options os _ default_wopts) as [[o os']|] eqn:P.
    + destruct (parse_options_spec _ _ _ _ _ P) as (_ & _ & _ & _ & _ & G). specialize (G default_wopts_in_range).
      destruct (accept cfg st src o os' false) as [st2 first] eqn:A. inversion H; subst.
      pose proof (accept_spec cfg st src o os' false G Hi) as [I1 _]. rewrite A in I1. cbn [fst] in I1.
      split; [exact I1|]. split; [exact G|]. unfold accept in A. inversion A; subst. destruct os'; reflexivity.
    + inversion H; subst. auto.
Qed.

Theorem handle_wrq_spec : forall cfg root st src name os st' acts, listener_inv st ->
  handle_wrq cfg root st src name os = (st', acts) ->
  let path := join (v_rdir cfg) (convert_file_path name) in
  let init_ok :=
    match parse_options os None default_wopts with
    | None => st' = st /\ acts = []
    | Some (o, os') =>
      opts_in_range o /\
      acts = [AReply (v_single cfg) (match os' with [] => Ack 0 | _ => Oack os' end);
              ASpawnRecv path o (v_dup cfg + 1) (v_clean cfg)]
    end in
  listener_inv st' /\
  match check_file_exists root path (v_rdir cfg) with
  | ChkViolation => st' = st /\ acts = [AReply true (Error EAccessViolation (msg_access_pre ++ path))]
  | ChkMissing => init_ok
  | ChkExists _ => if v_over cfg then init_ok else st' = st /\ acts = [AReply true (Error EFileExists msg_exists)]
  end.
Proof.
  intros cfg root st src name os st' acts Hi H path init_ok. unfold handle_wrq in H. fold path in H.
  assert (Hinit : forall st' acts,
     match parse_options os None default_wopts with
     | None => (st, [])
     | Some (o, os') => let '(st', first) := accept cfg st src o os' true in
                        (st', first ++ [ASpawnRecv path o (v_dup cfg + 1) (v_clean cfg)])
     end = (st', acts) ->
     listener_inv st' /\
     match parse_options os None default_wopts with
     | None => st' = st /\ acts = []
     | Some (o, os') => opts_in_range o /\
        acts = [AReply (v_single cfg) (match os' with [] => Ack 0 | _ => Oack os' end);
                ASpawnRecv path o (v_dup cfg + 1) (v_clean cfg)]
     end).
  { intros st2 acts2 H2. destruct (parse_options os None default_wopts) as [[o os']|] eqn:P.
    - destruct (parse_options_spec _ _ _ _ _ P) as (_ & _ & _ & _ & _ & G). specialize (G default_wopts_in_range).
      destruct (accept cfg st src o os' true) as [st3 first] eqn:A. inversion H2; subst.
      pose proof (accept_spec cfg st src o os' true G Hi) as [I1 _]. rewrite A in I1. cbn [fst] in I1.
      split; [exact I1|]. split; [exact G|]. unfold accept in A. inversion A; subst. destruct os'; reflexivity.
    - inversion H2; subst. auto. }
  destruct (check_file_exists root path (v_rdir cfg)) as [| |k].
  - inversion H; subst. auto.
  - apply Hinit. exact H.
  - destruct (v_over cfg); [apply Hinit; exact H|]. inversion H; subst. auto.
Qed.

(** C05: under the invariant no datagram makes the listener panic or abort (the receive buffer
    is at most 65468 bytes), and the invariant is preserved; undecodable datagrams are dropped. *)
Theorem listen_step_total : forall cfg mem root st src raw, listener_inv st -> 65468 <= mem ->
  exists st' acts, listen_step cfg mem root st src raw = Ok (st', acts) /\ listener_inv st'.
Proof.
  intros cfg mem root st src raw Hi Hm. unfold listen_step.
  set (size := if v_single cfg then l_largest st else max_request_packet_size).
  assert (Hs : size + 4 <= 65468).
  { unfold size. destruct (v_single cfg); [unfold listener_inv, max_blk in Hi; lia|unfold max_request_packet_size; lia]. }
  destruct (N.ltb_spec isize_max (size + 4)); [unfold isize_max in *; lia|].
  destruct (N.ltb_spec mem (size + 4)); [lia|].
  destruct (decode_never_panics (takeN (size + 4) raw)) as (D1 & D2 & _).
  destruct (decode (takeN (size + 4) raw)) as [p|e| |]; try congruence.
  - destruct p as [f m os|f m os|n d|n|c m|os].
    + destruct (handle_rrq cfg root st src f os) as [st' acts] eqn:E.
      exists st', acts. split; [reflexivity|]. exact (proj1 (handle_rrq_spec _ _ _ _ _ _ _ _ Hi E)).
    + destruct (v_ro cfg); [eexists; eexists; split; [reflexivity|exact Hi]|].
      destruct (handle_wrq cfg root st src f os) as [st' acts] eqn:E.
      exists st', acts. split; [reflexivity|]. exact (proj1 (handle_wrq_spec _ _ _ _ _ _ _ _ Hi E)).
    + destruct (v_single cfg && memN src (l_clients st)); eexists; eexists; split; try reflexivity; exact Hi.
    + destruct (v_single cfg && memN src (l_clients st)); eexists; eexists; split; try reflexivity; exact Hi.
    + destruct (v_single cfg && memN src (l_clients st)); eexists; eexists; split; try reflexivity; exact Hi.
    + destruct (v_single cfg && memN src (l_clients st)); eexists; eexists; split; try reflexivity; exact Hi.
  - eexists; eexists; split; [reflexivity|exact Hi].
Qed.

(** Every reachable listener state satisfies the invariant: no history of datagrams - from any
    sources, over any evolution of the file system - terminates the listener. *)
Fixpoint listen_run (cfg : srvcfg) (mem : N) (roots : nat -> node) (st : lstate) (h : list (N * bytes)) (i : nat)
  : res lstate :=
  match h with
  | [] => Ok st
  | (src, raw) :: r =>
    match listen_step cfg mem (roots i) st src raw with
    | Ok (st', _) => listen_run cfg mem roots (worker_ended st' src) r (S i)
    | Err e => Err e | Panic => Panic | Abort => Abort
    end
  end.

Theorem listener_never_dies : forall cfg mem roots h st i, listener_inv st -> 65468 <= mem ->
  exists st', listen_run cfg mem roots st h i = Ok st' /\ listener_inv st'.
Proof.
  intros cfg mem roots h. induction h as [|[src raw] h IH]; intros st i Hi Hm; cbn [listen_run].
  - exists st. auto.
  - destruct (listen_step_total cfg mem (roots i) st src raw Hi Hm) as (st' & acts & -> & Hi').
    apply IH; [|exact Hm]. unfold listener_inv, worker_ended in *. cbn [l_largest]. exact Hi'.
Qed.

(** In multi-port mode the reply to a datagram does not depend on the listener state at all;
    in single-port mode only through the receive-buffer size (at least 516 bytes) and the routing table:
    earlier datagrams cannot change how a later valid request is answered. *)
Theorem multi_port_stateless : forall cfg mem root st1 st2 src raw, v_single cfg = false ->
  match listen_step cfg mem root st1 src raw, listen_step cfg mem root st2 src raw with
  | Ok (_, a1), Ok (_, a2) => a1 = a2
  | Panic, Panic | Abort, Abort => True
  | Err _, Err _ => True
  | _, _ => False
  end.
Proof.
  intros cfg mem root st1 st2 src raw Hs. unfold listen_step. rewrite Hs. cbn [andb].
  destruct (isize_max <? max_request_packet_size + 4); [exact I|].
  destruct (mem <? max_request_packet_size + 4); [exact I|].
  destruct (decode (takeN (max_request_packet_size + 4) raw)) as [p|e| |]; try exact I; try reflexivity.
  destruct p as [f m os|f m os|n d|n|c m|os]; try reflexivity.
  - unfold handle_rrq. destruct (check_file_exists _ _ _); try reflexivity.
    destruct (parse_options _ _ _) as [[o os']|]; [|reflexivity]. unfold accept. rewrite Hs. reflexivity.
  - destruct (v_ro cfg); [reflexivity|]. unfold handle_wrq.
    destruct (check_file_exists _ _ _); try reflexivity;
      try (destruct (v_over cfg); [|reflexivity]);
      (destruct (parse_options _ _ _) as [[o os']|]; [|reflexivity]); unfold accept; rewrite Hs; reflexivity.
Qed.

(** C06: the decision table. *)
Theorem read_only_refuses_wrq : forall cfg mem root st src raw f m os, v_ro cfg = true ->
  (let size := if v_single cfg then l_largest st else max_request_packet_size in
   isize_max <? size + 4 = false /\ mem <? size + 4 = false /\ decode (takeN (size + 4) raw) = Ok (Wrq f m os)) ->
  listen_step cfg mem root st src raw = Ok (st, [AReply true (Error EAccessViolation msg_read_only)]).
Proof.
  intros cfg mem root st src raw f m os Hro (H1 & H2 & H3). unfold listen_step. rewrite H1, H2, H3, Hro. reflexivity.
Qed.

Theorem no_overwrite_refuses_existing : forall cfg root st src name os k, v_over cfg = false ->
  check_file_exists root (join (v_rdir cfg) (convert_file_path name)) (v_rdir cfg) = ChkExists k ->
  handle_wrq cfg root st src name os = (st, [AReply true (Error EFileExists msg_exists)]).
Proof. intros cfg root st src name os k Ho Hc. unfold handle_wrq. rewrite Hc, Ho. reflexivity. Qed.

Theorem rrq_missing_refused : forall cfg root st src name os,
  check_file_exists root (join (v_sdir cfg) (convert_file_path name)) (v_sdir cfg) = ChkMissing ->
  handle_rrq cfg root st src name os =
    (st, [AReply true (Error EFileNotFound (msg_not_found_pre ++ join (v_sdir cfg) (convert_file_path name) ++ msg_not_found_post))]).
Proof. intros cfg root st src name os Hc. unfold handle_rrq. rewrite Hc. reflexivity. Qed.

Theorem violation_refused : forall cfg root st src name os,
  validate_file_path (join (v_sdir cfg) (convert_file_path name)) (v_sdir cfg) = false ->
  handle_rrq cfg root st src name os =
    (st, [AReply true (Error EAccessViolation (msg_access_pre ++ join (v_sdir cfg) (convert_file_path name)))]).
Proof.
  intros cfg root st src name os Hv. unfold handle_rrq, check_file_exists. rewrite Hv. reflexivity.
Qed.

Theorem violation_refused_wrq : forall cfg root st src name os,
  validate_file_path (join (v_rdir cfg) (convert_file_path name)) (v_rdir cfg) = false ->
  handle_wrq cfg root st src name os =
    (st, [AReply true (Error EAccessViolation (msg_access_pre ++ join (v_rdir cfg) (convert_file_path name)))]).
Proof.
  intros cfg root st src name os Hv. unfold handle_wrq, check_file_exists. rewrite Hv. reflexivity.
Qed.

(** A reply list that contains an ERROR contains nothing else: refusals start no transfer,
    leave the state alone and come from the listening port. *)
Definition is_error_reply (a : action) : bool := match a with AReply _ (Error _ _) => true | _ => false end.

Theorem refusals_start_nothing : forall cfg mem root st src raw st' acts, listener_inv st ->
  listen_step cfg mem root st src raw = Ok (st', acts) -> existsb is_error_reply acts = true ->
  st' = st /\ exists c m, acts = [AReply true (Error c m)].
Proof.
  intros cfg mem root st src raw st' acts Hi H He. unfold listen_step in H.
  destruct (isize_max <? _); [discriminate|]. destruct (mem <? _); [discriminate|].
  destruct (decode _) as [p|e| |]; try discriminate.
  - destruct p as [f m os|f m os|n d|n|c m|os].
    + inversion H as [E]. destruct (handle_rrq cfg root st src f os) as [s2 a2] eqn:R. inversion E; subst.
      pose proof (handle_rrq_spec _ _ _ _ _ _ _ _ Hi R) as [_ Hs]. cbv zeta in Hs.
      destruct (check_file_exists _ _ _) as [| |k].
      * destruct Hs as [-> ->]. split; [reflexivity|]. eexists; eexists; reflexivity.
      * destruct Hs as [-> ->]. split; [reflexivity|]. eexists; eexists; reflexivity.
      * destruct (parse_options _ _ _) as [[o os']|].
        -- destruct Hs as [_ ->]. exfalso. destruct os'; cbn in He; discriminate.
        -- destruct Hs as [-> ->]. discriminate.
    + destruct (v_ro cfg).
      * inversion H; subst. split; [reflexivity|]. eexists; eexists; reflexivity.
      * inversion H as [E]. destruct (handle_wrq cfg root st src f os) as [s2 a2] eqn:R. inversion E; subst.
        pose proof (handle_wrq_spec _ _ _ _ _ _ _ _ Hi R) as [_ Hs]. cbv zeta in Hs.
        assert (Hinit : match parse_options os None default_wopts with
                        | None => st' = st /\ acts = []
                        | Some (o, os') => opts_in_range o /\
                           acts = [AReply (v_single cfg) (match os' with [] => Ack 0 | _ => Oack os' end);
                                   ASpawnRecv (join (v_rdir cfg) (convert_file_path f)) o (v_dup cfg + 1) (v_clean cfg)]
                        end -> False).
        { intros X. destruct (parse_options os None default_wopts) as [[o os']|].
          - destruct X as [_ ->]. destruct os'; cbn in He; discriminate.
          - destruct X as [_ ->]. discriminate. }
        destruct (check_file_exists _ _ _) as [| |k].
        -- destruct Hs as [-> ->]. split; [reflexivity|]. eexists; eexists; reflexivity.
        -- exfalso. exact (Hinit Hs).
        -- destruct (v_over cfg); [exfalso; exact (Hinit Hs)|].
           destruct Hs as [-> ->]. split; [reflexivity|]. eexists; eexists; reflexivity.
    + destruct (v_single cfg && memN src (l_clients st)); inversion H; subst; [discriminate|]. split; [reflexivity|]. eexists; eexists; reflexivity.
    + destruct (v_single cfg && memN src (l_clients st)); inversion H; subst; [discriminate|]. split; [reflexivity|]. eexists; eexists; reflexivity.
    + destruct (v_single cfg && memN src (l_clients st)); inversion H; subst; [discriminate|]. split; [reflexivity|]. eexists; eexists; reflexivity.
    + destruct (v_single cfg && memN src (l_clients st)); inversion H; subst; [discriminate|]. split; [reflexivity|]. eexists; eexists; reflexivity.
  - inversion H; subst. discriminate.
Qed.
