(** Closed system over loss-free FIFO channels: the sending loop against a lock-step
    acknowledging peer, the receiving loop against a lock-step sending peer (C04 layer 1, C14). *)
From Coq Require Import ZArith Lia ZifyBool ZifyNat ZifyN.
From Tftp Require Import Base.Prelude Model.Types Model.Consts Model.Codec Model.Window Model.Worker Model.Spec
  Model.Server Proofs.ListAux Proofs.CodecP Proofs.SpecP Proofs.WindowP Proofs.SendP Proofs.RecvP.
Local Open Scope N_scope.
Ltac Zify.zify_post_hook ::= Z.div_mod_to_equations.

(** * What the socket layer makes of the peer's datagrams *)

Lemma data_dgram_chunk : forall blk F k, data_dgram blk F k = encode (Data (k mod 65536) (chunk blk F k)).
Proof. reflexivity. Qed.

Lemma encode_data_len : forall n p, lenN (encode (Data n p)) = 4 + lenN p.
Proof. intros. rewrite encode_layout. cbn [Rfc.rfc_layout]. rewrite !lenN_cons. lia. Qed.

Lemma receive_data_dgram : forall blk F k d,
  receive blk (EvDgram d (data_dgram blk F k)) = RPacket (Data (k mod 65536) (chunk blk F k)).
Proof.
  intros blk F k d. unfold receive. rewrite data_dgram_chunk, takeN_all.
  - rewrite decode_encode; [reflexivity|]. cbn [wf]. unfold wf_u16. lia.
  - rewrite encode_data_len. pose proof (chunk_len_le blk F k). lia.
Qed.

Lemma receive_ack_dgram : forall n d,
  receive max_request_packet_size (EvDgram d (ack_dgram n)) = RPacket (Ack (n mod 65536)).
Proof.
  intros n d. unfold receive, ack_dgram. rewrite takeN_all.
  - rewrite decode_encode; [reflexivity|]. cbn [wf]. unfold wf_u16. lia.
  - rewrite encode_layout. cbn [Rfc.rfc_layout]. vm_compute. discriminate.
Qed.

(** * Upload: the receiving loop against a peer that sends blocks 1..nblk in order *)

Lemma recv_ideal : forall cfg F n k st hist, wf_params (r_blk cfg) (r_ws cfg) -> r_fails cfg = [] -> 1 <= r_rep cfg ->
  RInv cfg hist st -> r_phase st = RRun -> 1 <= k -> r_cnt st + 1 = k ->
  concat (accepted (r_blk cfg) 0 hist) = takeN ((k - 1) * r_blk cfg) F ->
  N.of_nat n + k = nblk (r_blk cfg) F + 1 -> (1 <= n)%nat ->
  exists st' outs, recv_steps cfg st (ideal_datas (r_blk cfg) F k n) = (st', outs) /\
    r_phase st' = RDone OutOk /\ written_bytes (w_file (r_w st')) = F.
Proof.
  intros cfg F n. induction n as [|n IH]; intros k st hist Hwf Hnf Hrep Hi Hp Hk Hcnt Hacc Hn Hn1; [lia|].
  cbn [ideal_datas recv_steps]. pose proof (proj1 Hwf) as Hb.
  set (e := EvDgram 0 (data_dgram (r_blk cfg) F k)).
  pose proof (receive_data_dgram (r_blk cfg) F k 0) as Hr. fold e in Hr.
  pose proof Hi as (A & B & C & D & E & G & G2 & I & J & K).
  assert (Hseq : k mod 65536 = wadd16 (r_bn st) 1) by (unfold wadd16; rewrite E; lia).
  destruct (recv_step cfg st e) as [st1 out] eqn:E1.
  destruct (recv_step_spec _ _ _ _ _ _ Hwf Hi Hp E1) as [Hi1 _].
  (* the block is accepted *)
  assert (Hacc1 : accepted (r_blk cfg) 0 (hist ++ [e]) = accepted (r_blk cfg) 0 hist ++ [chunk (r_blk cfg) F k]).
  { rewrite accepted_snoc. unfold accepts. rewrite (I Hp), Hr, N.add_0_l, <- D.
    replace ((r_cnt st + 1) mod 65536) with (k mod 65536) by (f_equal; lia). rewrite N.eqb_refl. reflexivity. }
  assert (Hacc2 : concat (accepted (r_blk cfg) 0 (hist ++ [e])) = takeN (k * r_blk cfg) F).
  { rewrite Hacc1, concat_app, Hacc. cbn [concat]. rewrite app_nil_r. apply chunk_append. exact Hk. }
  rewrite (step_data_in cfg hist st e _ _ Hwf Hi Hp Hr Hseq) in E1. cbv zeta in E1.
  destruct (N.eq_dec k (nblk (r_blk cfg) F)) as [Hlast|Hnot].
  - (* the final block *)
    assert (n = 0)%nat by lia. subst n. cbn [ideal_datas recv_steps].
    pose proof (chunk_last_short (r_blk cfg) F Hb) as Hs. rewrite <- Hlast in Hs.
    destruct (N.ltb_spec (lenN (chunk (r_blk cfg) F k)) (r_blk cfg)); [|lia]. cbn [orb] in E1.
    destruct (r_ack_copies cfg _ _ _ _ Hrep ltac:(rewrite Hnf; reflexivity) E1) as (_ & _ & Hph).
    exists st1, [out]. split; [reflexivity|]. split; [exact Hph|].
    destruct (r_ack_spec _ _ _ _ _ E1) as (_ & F2 & _).
    destruct Hi1 as (_ & _ & _ & _ & _ & _ & _ & _ & J1 & _). rewrite F2 in J1. cbn [r_w w_elems concat] in J1.
    rewrite app_nil_r in J1. rewrite F2. cbn [r_w]. unfold written_bytes in *. cbn [w_file] in *.
    rewrite J1, Hacc2, Hlast. apply takeN_all.
    assert (Hnn : ~ (nblk (r_blk cfg) F < nblk (r_blk cfg) F)) by lia. rewrite lt_nblk_iff in Hnn by assumption. lia.
  - (* a full block: buffered, or flushed and acknowledged; the loop goes on *)
    assert (Hfull : lenN (chunk (r_blk cfg) F k) = r_blk cfg) by (apply chunk_full; [assumption|assumption|lia]).
    destruct (N.ltb_spec (lenN (chunk (r_blk cfg) F k)) (r_blk cfg)); [lia|]. cbn [orb] in E1.
    assert (Hst1 : r_phase st1 = RRun /\ r_cnt st1 = r_cnt st + 1).
    { destruct (lenN (w_elems (r_w st)) + 1 =? r_ws cfg).
      - destruct (r_ack_copies cfg _ _ _ _ Hrep ltac:(rewrite Hnf; reflexivity) E1) as (_ & _ & Hph).
        destruct (r_ack_spec _ _ _ _ _ E1) as (_ & _ & _ & F4 & _). split; [exact Hph|exact F4].
      - inversion E1; subst. split; reflexivity. }
    destruct Hst1 as [Hp1 Hc1].
    destruct (IH (k + 1) st1 (hist ++ [e]) Hwf Hnf Hrep Hi1 Hp1 ltac:(lia) ltac:(lia)) as (st' & outs & Hrun & Hok & Hfile).
    + replace (k + 1 - 1) with k by lia. exact Hacc2.
    + lia.
    + lia.
    + rewrite Hrun. exists st', (out :: outs). split; [reflexivity|]. split; assumption.
Qed.

(** An upload from a conformant, loss-free, lock-step client completes and stores exactly the
    client's file - for every file length (block numbers wrap as often as needed), block size,
    window size and repeat count. *)
Theorem upload_completes : forall cfg F, wf_params (r_blk cfg) (r_ws cfg) -> r_fails cfg = [] -> 1 <= r_rep cfg ->
  let nb := nblk (r_blk cfg) F in
  exists st outs, run_recv cfg (ideal_datas (r_blk cfg) F 1 (N.to_nat nb)) = (st, outs) /\
    r_phase st = RDone OutOk /\ written_bytes (w_file (r_w st)) = F.
Proof.
  intros cfg F Hwf Hnf Hrep nb. unfold run_recv. pose proof (nblk_pos (r_blk cfg) F).
  apply (recv_ideal cfg F (N.to_nat nb) 1 (recv_init cfg) []); try assumption; try reflexivity; try lia.
  all: try (apply recv_init_inv; exact Hwf). all: try (subst nb; lia).
Qed.

(** * Download: the sending loop against a peer that acknowledges every window *)

(** After the top of the outer loop the window is full unless the end of file was read. *)
Definition tight (cfg : scfg) (st : sstate) : Prop :=
  lenN (w_elems (s_w st)) = s_ws cfg \/ s_filled st = false.

Lemma fill_tight : forall cfg F st w' full, wf_params (s_blk cfg) (s_ws cfg) -> SCore cfg F st -> s_filled st = true ->
  fill (s_w st) = WOk (w', full) -> full = true -> lenN (w_elems w') = s_ws cfg.
Proof.
  intros cfg F st w' full Hwf Hc Hf Hfill Hfull.
  pose proof (SCore_WInv _ _ _ Hwf Hc) as Hw. destruct Hc as (A & B & C & _).
  destruct (fill_spec (s_w st) Hw ltac:(congruence)) as (cs & full' & w'' & F1 & _ & _ & _ & _ & _ & _ & _ & T & _).
  rewrite F1 in Hfill. inversion Hfill; subst. destruct (T eq_refl) as [T1 _]. rewrite T1, A. reflexivity.
Qed.

Lemma outer_top_tight : forall cfg F st st' out, wf_params (s_blk cfg) (s_ws cfg) -> s_fails cfg = [] ->
  SCore cfg F st -> (s_filled st = true -> lenN (w_elems (s_w st)) < s_ws cfg) ->
  (s_filled st = false -> w_elems (s_w st) <> []) ->
  s_outer_top cfg st = (st', out) ->
  SInv cfg F st' /\ s_phase st' = SInWindow /\ tight cfg st' /\ s_abs st' = s_abs st.
Proof.
  intros cfg F st st' out Hwf Hnf Hc Hlt Hne H.
  destruct (outer_top_spec cfg F st st' out Hwf Hc Hlt Hne H) as (Hi & _ & Habs & _ & Hph & _ & _ & Hkeep).
  split; [exact Hi|]. split.
  - destruct Hph as [Hph|Hph]; [exact Hph|]. exfalso.
    (* no send fails *)
    unfold s_outer_top in H. destruct (s_filled st).
    + destruct (fill (s_w st)) as [[w' full]|]; [|inversion H; subst; discriminate].
      unfold s_inner_top in H. cbn [s_since s_bn s_w s_nsent] in H.
      destruct (s_tmo cfg <=? s_tmo cfg + timeout_buffer_ns); [|inversion H; subst; discriminate].
      rewrite Hnf in H. destruct (send_window [] _ _ _ _) as [[o n] ok] eqn:W.
      rewrite (send_window_nofail_ok _ _ _ _ _ _ _ W) in H. inversion H; subst. discriminate.
    + unfold s_inner_top in H. cbn [s_since s_bn s_w s_nsent] in H.
      destruct (s_tmo cfg <=? s_tmo cfg + timeout_buffer_ns); [|inversion H; subst; discriminate].
      rewrite Hnf in H. destruct (send_window [] _ _ _ _) as [[o n] ok] eqn:W.
      rewrite (send_window_nofail_ok _ _ _ _ _ _ _ W) in H. inversion H; subst. discriminate.
  - split; [|exact Habs]. unfold tight. destruct (s_filled st) eqn:Hf.
    + unfold s_outer_top in H. rewrite Hf in H. destruct (fill (s_w st)) as [[w' full]|] eqn:Fl.
      * destruct (inner_top_fields _ _ _ _ H) as (_ & E2 & E3 & _). cbn [s_w s_filled] in E2, E3.
        destruct full; [left; rewrite E2; eapply fill_tight; eauto|right; exact E3].
      * destruct (fill_send _ _ _ Hwf Hc Hf) as (w' & full & Fl2 & _). congruence.
    + right. exact (proj2 (Hkeep eq_refl)).
Qed.

Lemma send_steps_done : forall cfg l st o, s_phase st = SDone o -> send_steps cfg st l = (st, map (fun _ => []) l).
Proof.
  intros cfg l. induction l as [|x l IH]; intros st o H; [reflexivity|].
  cbn [send_steps map]. rewrite (step_done _ _ _ _ H), (IH _ _ H). reflexivity.
Qed.

Lemma send_ideal : forall cfg F fuel st, wf_params (s_blk cfg) (s_ws cfg) -> s_fails cfg = [] ->
  SInv cfg F st -> s_phase st = SInWindow -> tight cfg st ->
  (nblk (s_blk cfg) F + 1 - s_abs st <= N.of_nat fuel) ->
  exists st' outs, send_steps cfg st (ideal_acks fuel (s_ws cfg) (nblk (s_blk cfg) F) (s_abs st - 1)) = (st', outs) /\
    s_phase st' = SDone OutOk.
Proof.
  intros cfg F fuel. induction fuel as [|fuel IH]; intros st Hwf Hnf Hi Hp Ht Hfuel.
  - exfalso. destruct Hi as [(A & B & C & D & E & G & I & J & K & L) [_ Hne]]. specialize (Hne Hp).
    assert (lenN (w_elems (s_w st)) <> 0) by (intros Z; apply lenN_0_nil in Z; congruence).
    destruct (s_filled st); lia.
  - pose proof Hi as [Hc [_ Hne]]. specialize (Hne Hp).
    pose proof Hc as (A & B & C & D & E & G & I & J & K & L).
    assert (Hlen : lenN (w_elems (s_w st)) <> 0) by (intros Z; apply lenN_0_nil in Z; congruence).
    set (len := lenN (w_elems (s_w st))) in *. set (nb := nblk (s_blk cfg) F) in *.
    assert (Hwin : s_abs st + len <= nb + 1) by (destruct (s_filled st); lia).
    cbn [ideal_acks]. destruct (N.leb_spec nb (s_abs st - 1)); [lia|].
    (* the acknowledged block is the last one of the window *)
    assert (Hhi : N.min (s_abs st - 1 + s_ws cfg) nb = s_abs st + len - 1).
    { destruct Ht as [Ht|Ht]; [fold len in Ht; lia|]. rewrite Ht in K. fold len nb in K. lia. }
    rewrite Hhi. cbn [send_steps].
    set (e := EvDgram 0 (ack_dgram (s_abs st + len - 1))).
    pose proof (receive_ack_dgram (s_abs st + len - 1) 0) as Hr. fold e in Hr.
    assert (Hd : wsub16 ((s_abs st + len - 1) mod 65536) (s_bn st) = len - 1).
    { rewrite E. destruct Hwf as (_ & _ & Hw). fold len in G.
      rewrite (wsub16_in_window (s_abs st) (s_abs st + len - 1) len) by lia. lia. }
    destruct (step_ack_in cfg F st e _ Hwf Hi Hp Hr ltac:(rewrite Hd; lia)) as (w' & Hrm & Hel & Hc2 & Hstep).
    rewrite Hd in *. replace (len - 1 + 1) with len in * by lia.
    assert (Hemp : w_is_empty w' = true).
    { apply w_is_empty_iff. apply lenN_0_nil. rewrite Hel, lenN_dropN. fold len. lia. }
    rewrite Hstep, Hemp, andb_true_r.
    destruct (s_filled st) eqn:Hf; cbn [negb].
    + (* more of the file to send *)
      set (st2 := mk_sstate (wadd16 ((s_abs st + len - 1) mod 65536) 1) w' true (s_retry st) (s_since st + ev_delay e)
                            (s_nsent st) SInWindow (s_abs st + (len - 1) + 1)) in *.
      destruct (s_outer_top cfg st2) as [st3 out] eqn:Eo.
      destruct (outer_top_tight cfg F st2 st3 out Hwf Hnf Hc2) as (Hi3 & Hp3 & Ht3 & Ha3); try exact Eo.
      * intros _. unfold st2. cbn [s_w]. apply w_is_empty_iff in Hemp. rewrite Hemp. cbn. destruct Hwf as (_ & ? & _). lia.
      * unfold st2. cbn [s_filled]. discriminate.
      * assert (Habs3 : s_abs st3 = s_abs st + len) by (rewrite Ha3; unfold st2; cbn [s_abs]; lia).
        destruct (IH st3 Hwf Hnf Hi3 Hp3 Ht3) as (st' & outs & Hrun & Hok).
        -- rewrite Habs3. fold nb. lia.
        -- rewrite Habs3 in Hrun. replace (s_abs st + len - 1) with (s_abs st + len - 1) by lia. fold nb in Hrun.
           rewrite Hrun. exists st', (out :: outs). split; [reflexivity|exact Hok].
    + (* that was the final block *)
      match goal with |- context[send_steps cfg (s_done ?x OutOk) ?l] =>
        rewrite (send_steps_done cfg l (s_done x OutOk) OutOk eq_refl) end.
      eexists. eexists. split; [reflexivity|reflexivity].
Qed.

(** A download to a conformant, loss-free, lock-step client completes: the sender ends in
    success having emitted (by C01) exactly the blocks of the file. *)
Theorem download_completes : forall cfg F, wf_params (s_blk cfg) (s_ws cfg) -> s_fails cfg = [] -> s_check cfg = false ->
  let nb := nblk (s_blk cfg) F in
  exists st outs, run_send cfg F (ideal_acks (S (N.to_nat nb)) (s_ws cfg) nb 0) = (st, outs) /\ s_phase st = SDone OutOk.
Proof.
  intros cfg F Hwf Hnf Hck nb. unfold run_send, send_init. rewrite Hck.
  set (st0 := mk_sstate 1 (window_new (s_ws cfg) (s_blk cfg) (file_for_read F)) true 0 0 0 SInWindow 1).
  assert (Hc0 : SCore cfg F st0).
  { pose proof (send_init_spec cfg F) as X. unfold send_init in X. rewrite Hck in X.
    unfold SCore, st0. cbn [s_w s_bn s_abs s_filled s_retry window_new w_elems w_size w_chunk w_file
                            file_for_read f_mode f_rest length chunks_from].
    rewrite lenN_nil. destruct Hwf as (Hb & Hw1 & Hw2). pose proof (nblk_pos (s_blk cfg) F).
    repeat split; try reflexivity; try lia. }
  destruct (s_outer_top cfg st0) as [st1 out0] eqn:E0.
  destruct (outer_top_tight cfg F st0 st1 out0 Hwf Hnf Hc0) as (Hi1 & Hp1 & Ht1 & Ha1); try exact E0.
  - intros _. unfold st0. cbn [s_w window_new w_elems]. rewrite lenN_nil. destruct Hwf as (_ & ? & _). lia.
  - discriminate.
  - assert (Habs : s_abs st1 = 1) by (rewrite Ha1; reflexivity).
    destruct (send_ideal cfg F (S (N.to_nat nb)) st1 Hwf Hnf Hi1 Hp1 Ht1) as (st' & outs & Hrun & Hok).
    + rewrite Habs. fold nb. lia.
    + rewrite Habs in Hrun. replace (1 - 1) with 0 in Hrun by lia. fold nb in Hrun. rewrite Hrun.
      exists st', (out0 :: outs). split; [reflexivity|exact Hok].
Qed.

(** * Every single fault on small transfers (finite domain, decided by computation) *)
From Tftp Require Import Model.Net.

Definition bytes_list_eqb (a b : bytes) : bool := bytes_eqb a b.

(** One fault of kind [k] on the [i]-th datagram of one direction: the receiver ends in success
    holding exactly [F]; the sender ends in success too, except when the very last ACK is lost. *)
Definition single_fault_ok (ws : N) (F : bytes) (to_receiver : bool) (i : N) (k : fault) : bool :=
  let sc := mk_scfg 8 ws 1000000000 1 false [] in
  let rc := mk_rcfg 8 ws 1000000000 1 true [] in
  let f1 := if to_receiver then [(i, k)] else [] in
  let f2 := if to_receiver then [] else [(i, k)] in
  let p := pair_run sc rc f1 f2 400 (pair_init sc rc f1 F) in
  let r_ok := match r_phase (p_r p) with RDone OutOk => true | _ => false end in
  let file_ok := match recv_final_file rc (p_r p) with Some w => bytes_eqb (concat (rev w)) F | None => false end in
  let s_ok := match s_phase (p_s p) with SDone OutOk => true | _ => false end in
  let s_gave_up := match s_phase (p_s p) with SDone OutTimeout => true | _ => false end in
  let last_ack_lost := negb to_receiver && (i + 1 =? ch_n (p_rs p)) && match k with NfDup => false | _ => true end in
  r_ok && file_ok && (s_ok || (s_gave_up && last_ack_lost)).

Definition pattern_file (len : nat) : bytes := map (fun i => N.of_nat (i * 7 + 3) mod 256) (seq 0 len).
Definition small_sizes : list nat := [0; 5; 8; 9; 16; 17; 24; 31; 40]%nat.
Definition small_windows : list N := [1; 2; 3].
Definition all_kinds : list fault := [NfDeliver; NfDrop; NfDup; NfHold].
Definition positions : list N := [0; 1; 2; 3; 4; 5; 6; 7; 8; 9; 10; 11].

Definition all_single_faults_ok : bool :=
  forallb (fun ws => forallb (fun len => forallb (fun dir => forallb (fun i => forallb (fun k =>
    single_fault_ok ws (pattern_file len) dir i k) all_kinds) positions) [true; false]) small_sizes) small_windows.

Theorem single_fault_small_exhaustive : all_single_faults_ok = true.
Proof. vm_compute. reflexivity. Qed.

(** Lifted: for block size 8, window sizes 1..3, the nine file lengths 0..40 around block and
    window boundaries, either direction, every position 0..11 and every kind of fault. *)
Theorem single_fault_small : forall ws len dir i k,
  In ws small_windows -> In len small_sizes -> In i positions -> In k all_kinds ->
  single_fault_ok ws (pattern_file len) dir i k = true.
Proof.
  intros ws len dir i k Hws Hlen Hi Hk. pose proof single_fault_small_exhaustive as H.
  unfold all_single_faults_ok in H. rewrite forallb_forall in H. specialize (H _ Hws).
  rewrite forallb_forall in H. specialize (H _ Hlen). rewrite forallb_forall in H.
  assert (Hd : In dir [true; false]) by (destruct dir; cbn; auto). specialize (H _ Hd).
  rewrite forallb_forall in H. specialize (H _ Hi). rewrite forallb_forall in H. exact (H _ Hk).
Qed.

(** * A window that does not fit the receiver's buffer (finding D8) *)

(** Block size 8, window 3, a file of 6 blocks, a receiver whose buffer takes two datagrams of
    every burst: the sender goes back to the start of the window at every time-out, the same two
    blocks arrive again and are ignored, nothing is ever acknowledged; both sides give up and the
    partial file is removed.  The state reached is final. *)
Definition capacity_witness : pair_state :=
  let sc := mk_scfg 8 3 1000000000 1 false [] in
  let rc := mk_rcfg 8 3 1000000000 1 true [] in
  pair_run_cap sc rc 2 200 (pair_init_cap sc rc 2 (pattern_file 40)).

Theorem capacity_livelock :
  let sc := mk_scfg 8 3 1000000000 1 false [] in
  let rc := mk_rcfg 8 3 1000000000 1 true [] in
  s_phase (p_s capacity_witness) = SDone OutTimeout /\ r_phase (p_r capacity_witness) = RDone OutTimeout /\
  recv_final_file rc (p_r capacity_witness) = None /\ pair_step_cap sc rc 2 capacity_witness = None.
Proof. vm_compute. repeat split; reflexivity. Qed.

(** The same transfer through a buffer that takes the whole window completes. *)
Theorem capacity_sufficient :
  let sc := mk_scfg 8 3 1000000000 1 false [] in
  let rc := mk_rcfg 8 3 1000000000 1 true [] in
  let p := pair_run_cap sc rc 3 200 (pair_init_cap sc rc 3 (pattern_file 40)) in
  s_phase (p_s p) = SDone OutOk /\ r_phase (p_r p) = RDone OutOk /\
  match recv_final_file rc (p_r p) with Some w => concat (rev w) = pattern_file 40 | None => False end.
Proof. vm_compute. repeat split; reflexivity. Qed.
