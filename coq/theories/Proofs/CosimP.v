(** The closed system of [Model/Net.v] - a sending worker, a receiving worker, two channels with an
    arbitrary fault schedule - for every file, window size, block size and schedule:

    - safety ([cosim_safe]): whatever is dropped, duplicated or reordered, the receiver's file is
      always the blocks 1..c of the sender's file; if the receiver ends in success its file is
      the sender's file; if the sender ends in success so did the receiver (the converse is the
      RFC 1350 exception: the last ACK may be lost);
    - liveness without faults ([cosim_perfect]) and with one lost datagram ([cosim_single_drop]):
      see the second half of this file. *)
From Coq Require Import ZArith Lia ZifyBool ZifyNat ZifyN.
From Tftp Require Import Base.Prelude Model.Types Model.Consts Model.Codec Model.Rfc Model.Window Model.Worker Model.Spec
  Model.Server Model.Net Proofs.ListAux Proofs.CodecP Proofs.SpecP Proofs.WindowP Proofs.SendP Proofs.RecvP Proofs.NetP.
Local Open Scope N_scope.
Ltac Zify.zify_post_hook ::= Z.div_mod_to_equations.

(** * Channels: whatever the faults do, nothing is invented *)

Definition in_flight (c : chan) : list bytes :=
  ch_q c ++ match ch_held c with Some h => [h] | None => [] end.

Lemma chan_put_in_flight : forall fs c d x,
  In x (in_flight (chan_put fs c d)) -> In x (in_flight c) \/ x = d.
Proof.
  intros fs c d x. unfold chan_put, in_flight. cbv zeta beta.
  destruct (fault_at fs (ch_n c)); destruct (ch_held c) as [h|]; cbn [ch_q ch_held];
    repeat (rewrite in_app_iff || cbn [In]); intuition auto.
Qed.

Lemma chan_puts_in_flight : forall fs ds c x,
  In x (in_flight (chan_puts fs c ds)) -> In x (in_flight c) \/ In x ds.
Proof.
  intros fs ds. unfold chan_puts. induction ds as [|d ds IH]; intros c x H; cbn [fold_left] in H.
  - left. exact H.
  - destruct (IH _ _ H) as [H1|H1]; [|right; right; exact H1].
    destruct (chan_put_in_flight _ _ _ _ H1) as [H2|H2]; [left; exact H2|right; left; symmetry; exact H2].
Qed.

Lemma in_flight_pop : forall d q h n x, In x (in_flight (mk_chan q h n)) -> In x (in_flight (mk_chan (d :: q) h n)).
Proof. intros d q h n x. unfold in_flight. cbn [ch_q ch_held]. rewrite !in_app_iff. cbn [In]. tauto. Qed.

(** * What the socket layers make of each other's datagrams *)

Lemma error_is_not_data : forall size c m n p d,
  receive size (EvDgram d (encode (Error c m))) <> RPacket (Data n p).
Proof.
  intros size c m n p d H. unfold receive, takeN in H.
  replace (N.to_nat (size + 4)) with (S (S (N.to_nat (size + 2)))) in H by lia.
  rewrite encode_layout in H. cbn [rfc_layout firstn] in H. rewrite decode_cons2 in H.
  change (opcode_of_u16 (0 * 256 + 5)) with (Some OpError) in H. cbv iota in H.
  destruct (parse_error _) as [q|e| |] eqn:E; try discriminate.
  destruct (parse_error_shape _ _ E) as (c' & m' & ->). discriminate.
Qed.

Section Closed.
  Variables (sc : scfg) (rc : rcfg) (f_sr f_rs : list (N * fault)) (F : bytes).
  Hypotheses (Hwf : wf_params (s_blk sc) (s_ws sc))
             (Hblk : r_blk rc = s_blk sc) (Hws : r_ws rc = s_ws sc)
             (Hck : s_check sc = false)
             (Hrf : r_fails rc = []) (Hrrep : 1 <= r_rep rc).

  Let blk := s_blk sc.
  Let nb := nblk (s_blk sc) F.

  Lemma Hwfr : wf_params (r_blk rc) (r_ws rc).
  Proof. rewrite Hblk, Hws. exact Hwf. Qed.

  Definition data_ok (d : bytes) : Prop := conformant (r_blk rc) F (EvDgram 0 d).

  (** Everything a sender in a state satisfying its invariant hands to the socket is, for the
      receiving loop, a block of the file. *)
  Lemma sent_is_conformant : forall st s, SCore sc F st -> sent_ok sc F st s -> data_ok (encode (s_pk s)).
  Proof.
    intros st s Hc Hs. unfold data_ok, conformant.
    destruct (s_pk s) as [f m os|f m os|n p|n|c m|os] eqn:Hp; try (unfold sent_ok in Hs; rewrite Hp in Hs; contradiction).
    - destruct (sent_ok_slice _ _ _ _ _ _ Hc Hs Hp) as (k & Hk & -> & ->).
      rewrite Hblk. change (encode (Data (k mod 65536) (chunk (s_blk sc) F k))) with (data_dgram (s_blk sc) F k).
      rewrite receive_data_dgram. exists k. repeat split; try reflexivity; apply Hk.
    - destruct (receive (r_blk rc) (EvDgram 0 (encode (Error c m)))) as [q| |] eqn:E; try exact I.
      destruct q; try exact I. exfalso. exact (error_is_not_data _ _ _ _ _ _ E).
  Qed.

  Lemma sents_are_conformant : forall st out, SCore sc F st -> Forall (sent_ok sc F st) out ->
    Forall data_ok (sent_bytes out).
  Proof.
    intros st out Hc H. unfold sent_bytes. rewrite Forall_map. induction H as [|s l Hs Hl IH]; cbn [filter]; [constructor|].
    destruct (s_failed s); cbn [negb]; [exact IH|]. constructor; [|exact IH]. eapply sent_is_conformant; eassumption.
  Qed.

  (** ** With a conformant history the receiver's count is the number of the last block it holds *)

  Lemma conformant_count : forall hist st, nb <= 65536 -> RInv rc hist st -> Forall (conformant (r_blk rc) F) hist ->
    r_cnt st <= nb /\
    accepted (r_blk rc) 0 hist = chunks_from (s_blk sc) F 1 (N.to_nat (r_cnt st)) /\
    (r_phase st = RRun -> r_cnt st < nb).
  Proof.
    intros hist st Hn Hi Hc. pose proof (proj1 Hwf) as Hb.
    destruct (accepted_conformant (r_blk rc) F hist) as (m & Hm & Hacc); [rewrite Hblk; exact Hb|rewrite Hblk; exact Hn|exact Hc|].
    destruct Hi as (_ & _ & _ & D & _ & _ & _ & I & _). rewrite Hblk in Hm, Hacc, D, I |- *.
    assert (Hcnt : r_cnt st = N.of_nat m) by (rewrite D, Hacc; unfold lenN; rewrite chunks_from_length; reflexivity).
    fold nb in Hm. split; [lia|]. split; [rewrite Hcnt, Nat2N.id; exact Hacc|].
    intros Hp. specialize (I Hp). destruct (N.lt_ge_cases (r_cnt st) nb) as [|Hge]; [assumption|exfalso].
    assert (m = N.to_nat nb) by lia. subst m. rewrite Hacc in I.
    assert (Hin : In (chunk (s_blk sc) F nb) (chunks_from (s_blk sc) F 1 (N.to_nat nb))).
    { pose proof (nblk_pos (s_blk sc) F). fold nb in H.
      replace (N.to_nat nb) with ((N.to_nat nb - 1) + 1)%nat by lia.
      rewrite chunks_from_app. apply in_or_app. right. cbn [chunks_from]. left. f_equal. lia. }
    assert (Hex : existsb (short (s_blk sc)) (chunks_from (s_blk sc) F 1 (N.to_nat nb)) = true).
    { apply existsb_exists. eexists. split; [exact Hin|]. unfold short.
      pose proof (chunk_last_short (s_blk sc) F Hb). fold nb in H.
      destruct (N.ltb_spec (lenN (chunk (s_blk sc) F nb)) (s_blk sc)); [reflexivity|lia]. }
    congruence.
  Qed.

  (** ** The invariant of the closed system *)

  Definition ack_ok (r : rstate) (d : bytes) : Prop :=
    exists c, d = ack_dgram c /\ c <= r_cnt r /\ (c = nb -> r_phase r = RDone OutOk).

  Definition PInv (p : pair_state) : Prop :=
    SInv sc F (p_s p) /\
    (exists hist, RInv rc hist (p_r p) /\ Forall (conformant (r_blk rc) F) hist) /\
    Forall data_ok (in_flight (p_sr p)) /\
    Forall (ack_ok (p_r p)) (in_flight (p_rs p)) /\
    (s_phase (p_s p) = SDone OutOk -> r_phase (p_r p) = RDone OutOk) /\
    (r_phase (p_r p) = RDone OutOk -> w_elems (r_w (p_r p)) = [] /\ r_cnt (p_r p) = nb).

  Lemma Forall_in_flight_puts : forall (P : bytes -> Prop) fs c ds,
    Forall P (in_flight c) -> Forall P ds -> Forall P (in_flight (chan_puts fs c ds)).
  Proof.
    intros P fs c ds H1 H2. rewrite Forall_forall in *. intros x Hx.
    destruct (chan_puts_in_flight _ _ _ _ Hx); auto.
  Qed.

  (** One step of the receiver inside the closed system. *)
  Lemma recv_step_closed : forall hist st e st' out, nb <= 65535 ->
    RInv rc hist st -> Forall (conformant (r_blk rc) F) hist -> conformant (r_blk rc) F e ->
    r_phase st = RRun -> recv_step rc st e = (st', out) ->
    RInv rc (hist ++ [e]) st' /\ Forall (conformant (r_blk rc) F) (hist ++ [e]) /\
    r_cnt st <= r_cnt st' /\
    Forall (ack_ok st') (acked_bytes out).
  Proof.
    intros hist st e st' out Hn Hi Hc He Hp H.
    destruct (recv_step_spec _ _ _ _ _ _ Hwfr Hi Hp H) as [Hi' Ho].
    assert (Hc' : Forall (conformant (r_blk rc) F) (hist ++ [e])) by (apply Forall_app; split; [exact Hc|constructor; [exact He|constructor]]).
    split; [exact Hi'|]. split; [exact Hc'|].
    destruct (conformant_count _ _ ltac:(lia) Hi Hc) as (C1 & C2 & C3).
    destruct (conformant_count _ _ ltac:(lia) Hi' Hc') as (C1' & C2' & C3').
    assert (Hmono : r_cnt st <= r_cnt st').
    { destruct Hi as (_ & _ & _ & D & _). destruct Hi' as (_ & _ & _ & D' & _).
      rewrite D, D', accepted_snoc, lenN_app. lia. }
    split; [exact Hmono|].
    (* every ACK carries the count; the count of the final block is only reached by the step that ends in success *)
    assert (Hfin : out <> [] -> r_cnt st' = nb -> r_phase st' = RDone OutOk).
    { intros Hne Hlast. specialize (C3 Hp).
      (* the step accepted a block in sequence: it is the final, short one *)
      destruct (receive (r_blk rc) e) as [q| |] eqn:Hr.
      - destruct q as [f m os|f m os|n d|n|c m|os];
          try (exfalso; unfold recv_step in H; rewrite Hp, Hr in H;
               destruct (r_retry st + 1 =? max_retries); inversion H; subst; cbn [r_cnt r_done] in *; lia).
        + destruct (N.eqb_spec n (wadd16 (r_bn st) 1)) as [Hseq|Hseq].
          * rewrite (step_data_in rc hist st e n d Hwfr Hi Hp Hr Hseq) in H. cbv zeta in H.
            unfold conformant in He. rewrite Hr in He. destruct He as (k & Hk & Hnk & Hd).
            assert (Hk' : k = r_cnt st + 1).
            { destruct Hi as (_ & _ & _ & _ & E & _). unfold wadd16 in Hseq. rewrite E in Hseq.
              rewrite Hblk in Hk. fold nb in Hk. lia. }
            assert (Hcnt' : r_cnt st' = r_cnt st + 1).
            { destruct (_ || _) in H.
              - destruct (r_ack_spec _ _ _ _ _ H) as (_ & _ & _ & F4 & _). exact F4.
              - inversion H; subst. reflexivity. }
            assert (Hshort : lenN d < r_blk rc).
            { subst d. rewrite Hblk. pose proof (chunk_last_short (s_blk sc) F (proj1 Hwf)) as Hs. fold nb in Hs.
              replace k with nb by lia. exact Hs. }
            destruct (N.ltb_spec (lenN d) (r_blk rc)); [|lia]. cbn [orb] in H.
            destruct (r_ack_copies rc _ _ _ _ Hrrep ltac:(rewrite Hrf; reflexivity) H) as (_ & _ & Hph). exact Hph.
          * exfalso. unfold recv_step in H. rewrite Hp, Hr in H.
            destruct (N.eqb_spec n (wadd16 (r_bn st) 1)); [contradiction|].
            destruct (w_is_empty (r_w st)).
            -- destruct (r_ack_spec _ _ _ _ _ H) as (_ & _ & _ & F4 & _). cbn [r_cnt] in *. lia.
            -- inversion H; subst. lia.
      - exfalso. unfold recv_step in H. rewrite Hp, Hr in H.
        destruct (r_retry st + 1 =? max_retries); inversion H; subst; cbn [r_cnt r_done] in *; lia.
      - exfalso. exact (receive_never_panics _ _ Hr). }
    unfold acked_bytes, sent_bytes. rewrite Forall_map.
    destruct out as [|a0 out0]; [constructor|]. specialize (Hfin ltac:(discriminate)).
    rewrite Forall_forall in *. intros s Hs. apply filter_In in Hs. destruct Hs as [Hs _].
    apply in_map_iff in Hs. destruct Hs as (a & <- & Ha). destruct (Ho _ Ha) as (O1 & _ & _).
    exists (r_cnt st'). rewrite O1. destruct Hi' as (_ & _ & _ & _ & E' & _).
    split; [unfold ack_dgram; rewrite E'; reflexivity|]. split; [lia|exact Hfin].
  Qed.

  (** The step that ends the receiver in success accepted the final block: count [nb], nothing buffered. *)
  Lemma recv_step_ok_closed : forall hist st e st' out, nb <= 65535 ->
    RInv rc hist st -> Forall (conformant (r_blk rc) F) hist -> conformant (r_blk rc) F e ->
    r_phase st = RRun -> recv_step rc st e = (st', out) -> r_phase st' = RDone OutOk ->
    w_elems (r_w st') = [] /\ r_cnt st' = nb.
  Proof.
    intros hist st e st' out Hn Hi Hc He Hp H Hd.
    destruct (recv_step_ok _ _ _ _ _ _ Hwfr Hi Hp H Hd) as (n & d & Hr & Hseq & Hshort & Hel).
    split; [exact Hel|].
    destruct (conformant_count _ _ ltac:(lia) Hi Hc) as (C1 & _ & C3). specialize (C3 Hp).
    unfold conformant in He. rewrite Hr in He. destruct He as (k & Hk & Hnk & Hdk).
    assert (Hk' : k = r_cnt st + 1).
    { destruct Hi as (_ & _ & _ & _ & E & _). unfold wadd16 in Hseq. rewrite E in Hseq.
      rewrite Hblk in Hk. fold nb in Hk. lia. }
    assert (Hlast : nb <= k).
    { subst d. rewrite Hblk in Hshort, Hk. apply (chunk_short_last (s_blk sc) F k (proj1 Hwf)); [lia|exact Hshort]. }
    rewrite (step_data_in rc hist st e n d Hwfr Hi Hp Hr Hseq) in H. cbv zeta in H.
    destruct (N.ltb_spec (lenN d) (r_blk rc)); [|lia]. cbn [orb] in H.
    destruct (r_ack_spec _ _ _ _ _ H) as (_ & _ & _ & F4 & _). cbn [r_cnt] in F4.
    rewrite Hblk in Hk. fold nb in Hk. lia.
  Qed.

  Lemma ack_ok_mono : forall st st' d, r_phase st = RRun -> r_cnt st <= r_cnt st' ->
    (r_cnt st < nb) -> ack_ok st d -> ack_ok st' d.
  Proof.
    intros st st' d Hp Hm Hlt (c & Hd & Hc & Hf). exists c. split; [exact Hd|]. split; [lia|].
    intros Hcn. specialize (Hf Hcn). congruence.
  Qed.

  Theorem pair_step_inv : forall p p', nb <= 65535 -> PInv p -> pair_step sc rc f_sr f_rs p = Some p' -> PInv p'.
  Proof.
    intros p p' Hn (Hs & (hist & Hr & Hc) & Hsr & Hrs & Hok & Hfile) H. unfold pair_step in H.
    (* the four kinds of step, as two reusable arguments *)
    assert (Rstep : forall e sr' st' out, conformant (r_blk rc) F e -> Forall data_ok (in_flight sr') ->
              r_phase (p_r p) = RRun -> recv_step rc (p_r p) e = (st', out) ->
              PInv (mk_pair (p_s p) st' sr' (chan_puts f_rs (p_rs p) (acked_bytes out)))).
    { intros e sr' st' out He Hsr' Hp E.
      destruct (recv_step_closed _ _ _ _ _ Hn Hr Hc He Hp E) as (Hr' & Hc' & Hm & Ha).
      destruct (conformant_count _ _ ltac:(lia) Hr Hc) as (_ & _ & C3). specialize (C3 Hp).
      unfold PInv. cbn [p_s p_r p_sr p_rs]. split; [exact Hs|]. split; [exists (hist ++ [e]); split; assumption|].
      split; [exact Hsr'|]. split.
      - apply Forall_in_flight_puts; [|exact Ha].
        eapply Forall_impl; [|exact Hrs]. intros d. apply ack_ok_mono; assumption.
      - split; [intros Hd; specialize (Hok Hd); congruence|].
        intros Hd. exact (recv_step_ok_closed _ _ _ _ _ Hn Hr Hc He Hp E Hd). }
    assert (Sstep : forall e rs' st' out,
              (forall r, receive max_request_packet_size e = RPacket (Ack r) ->
                         exists c, r = c mod 65536 /\ c <= r_cnt (p_r p) /\ (c = nb -> r_phase (p_r p) = RDone OutOk)) ->
              Forall (ack_ok (p_r p)) (in_flight rs') ->
              send_step sc (p_s p) e = (st', out) ->
              PInv (mk_pair st' (p_r p) (chan_puts f_sr (p_sr p) (sent_bytes out)) rs')).
    { intros e rs' st' out He Hrs' E.
      destruct (send_step_spec _ _ _ _ _ _ Hwf Hs E) as [Hs' Ho].
      unfold PInv. cbn [p_s p_r p_sr p_rs]. split; [exact Hs'|]. split; [exists hist; split; assumption|].
      split; [apply Forall_in_flight_puts; [exact Hsr|]; eapply sents_are_conformant; [exact (proj1 Hs')|exact Ho]|].
      split; [exact Hrs'|]. split; [|exact Hfile].
      intros Hd. destruct (s_phase (p_s p)) as [| |o] eqn:Hp0.
      3: { rewrite (step_done _ _ _ _ Hp0) in E. inversion E; subst. apply Hok. congruence. }
      all: assert (Hno : s_phase (p_s p) <> SDone OutOk) by (rewrite Hp0; discriminate);
           destruct (send_ok_only_by_final_ack sc F (p_s p) e st' out Hwf Hs Hno E Hd)
             as (_ & r & Hrcv & _ & Hmod);
           destruct (He _ Hrcv) as (c & -> & Hcle & Hfin);
           destruct (conformant_count _ _ ltac:(lia) Hr Hc) as (C1 & _);
           fold nb in Hmod; apply Hfin; lia. }
    destruct (ch_q (p_sr p)) as [|d q] eqn:Qsr; destruct (r_running (p_r p)) eqn:Rr.
    all: try (destruct (ch_q (p_rs p)) as [|d2 q2] eqn:Qrs; destruct (s_running (p_s p)) eqn:Sr).
    all: unfold r_running, s_running in *.
    all: try match type of H with (let '(_, _) := recv_step ?c ?s ?e in _) = _ =>
               destruct (recv_step c s e) as [r' out] eqn:E; inversion H; subst p'; clear H end.
    all: try match type of H with (let '(_, _) := send_step ?c ?s ?e in _) = _ =>
               destruct (send_step c s e) as [s' out] eqn:E; inversion H; subst p'; clear H end.
    all: try discriminate.
    (* sender time-out *)
    all: try match goal with E : send_step _ _ (EvFail _) = _ |- _ =>
           solve [refine (Sstep _ _ _ _ _ Hrs E); intros r Hrcv; cbn [receive] in Hrcv; discriminate Hrcv] end.
    (* receiver time-out *)
    all: try match goal with E : recv_step _ _ (EvFail ?t) = _ |- _ =>
           solve [refine (Rstep (EvFail t) _ _ _ I Hsr _ E); destruct (r_phase (p_r p)); [reflexivity|discriminate]] end.
    (* sender consumes an ACK datagram *)
    all: try match goal with E : send_step _ _ (EvDgram 0 ?d) = _ |- _ =>
           refine (Sstep _ _ _ _ _ _ E);
             [intros r Hrcv; assert (Hin : ack_ok (p_r p) d) by (rewrite Forall_forall in Hrs; apply Hrs; unfold in_flight; rewrite Qrs; left; reflexivity);
              destruct Hin as (c & -> & Hcle & Hfin); rewrite receive_ack_dgram in Hrcv; injection Hrcv as <-; exists c; repeat split; assumption
             |rewrite Forall_forall in *; intros x Hx; apply Hrs; destruct (p_rs p) as [q0 h0 n0]; simpl in Qrs; subst q0; apply in_flight_pop; exact Hx] end.
    (* receiver consumes a datagram *)
    all: match goal with E : recv_step _ _ (EvDgram 0 ?d) = _ |- _ =>
           assert (Hd : conformant (r_blk rc) F (EvDgram 0 d)) by (rewrite Forall_forall in Hsr; apply Hsr; unfold in_flight; rewrite Qsr; left; reflexivity);
           refine (Rstep _ _ _ _ Hd _ _ E);
             [rewrite Forall_forall in *; intros x Hx; apply Hsr; destruct (p_sr p) as [q0 h0 n0]; simpl in Qsr; subst q0; apply in_flight_pop; exact Hx
             |destruct (r_phase (p_r p)); [reflexivity|discriminate]] end.
  Qed.

  Lemma pair_init_inv : nb <= 65535 -> PInv (pair_init sc rc f_sr F).
  Proof.
    intros Hn. unfold pair_init. destruct (send_init sc F) as [s0 out0] eqn:E0.
    destruct (send_init_spec _ _ _ _ Hwf E0) as [Hi0 Ho0].
    unfold PInv. cbn [p_s p_r p_sr p_rs]. split; [exact Hi0|].
    split; [exists []; split; [apply recv_init_inv; exact Hwfr|constructor]|].
    split; [apply Forall_in_flight_puts; [constructor|]; eapply sents_are_conformant; [exact (proj1 Hi0)|exact Ho0]|].
    split; [constructor|]. split; [|intros Hd; discriminate Hd].
    (* the first window is on its way: the sender has not finished *)
    intros Hd. exfalso. unfold send_init in E0. rewrite Hck in E0.
    set (st0 := mk_sstate 1 (window_new (s_ws sc) (s_blk sc) (file_for_read F)) true 0 0 0 SInWindow 1) in *.
    assert (Hc0 : SCore sc F st0).
    { unfold SCore, st0. cbn [s_w s_bn s_abs s_filled s_retry window_new w_elems w_size w_chunk w_file
                              file_for_read f_mode f_rest length chunks_from].
      rewrite lenN_nil. destruct Hwf as (Hb & Hw1 & Hw2). pose proof (nblk_pos (s_blk sc) F).
      repeat split; try reflexivity; try lia. }
    destruct (outer_top_spec sc F st0 s0 out0 Hwf Hc0) as (_ & _ & _ & _ & Hph & _); try exact E0.
    - intros _. unfold st0. cbn [s_w window_new w_elems]. rewrite lenN_nil. destruct Hwf as (_ & ? & _). lia.
    - discriminate.
    - destruct Hph as [Hph|Hph]; rewrite Hph in Hd; discriminate.
  Qed.

  Theorem pair_run_inv : forall fuel p, nb <= 65535 -> PInv p -> PInv (pair_run sc rc f_sr f_rs fuel p).
  Proof.
    intros fuel. induction fuel as [|fuel IH]; intros p Hn Hp; cbn [pair_run]; [exact Hp|].
    destruct (pair_step sc rc f_sr f_rs p) as [p'|] eqn:E; [|exact Hp].
    apply IH; [exact Hn|]. eapply pair_step_inv; eassumption.
  Qed.


  (** What the invariant says about the file. *)
  Lemma PInv_file : forall p, nb <= 65535 -> PInv p ->
    r_cnt (p_r p) <= nb /\
    written_bytes (w_file (r_w (p_r p))) ++ concat (w_elems (r_w (p_r p))) = takeN (r_cnt (p_r p) * s_blk sc) F /\
    (r_phase (p_r p) = RDone OutOk -> written_bytes (w_file (r_w (p_r p))) = F) /\
    (s_phase (p_s p) = SDone OutOk -> r_phase (p_r p) = RDone OutOk).
  Proof.
    intros p Hn (Hs & (hist & Hr & Hc) & _ & _ & Hok & Hfile).
    destruct (conformant_count _ _ ltac:(lia) Hr Hc) as (C1 & C2 & C3).
    assert (Hpre : written_bytes (w_file (r_w (p_r p))) ++ concat (w_elems (r_w (p_r p))) = takeN (r_cnt (p_r p) * s_blk sc) F).
    { destruct Hr as (_ & _ & _ & _ & _ & _ & _ & _ & J & _). rewrite J, C2.
      pose proof (chunks_prefix (s_blk sc) F (N.to_nat (r_cnt (p_r p))) 1 (N.le_refl 1)) as H.
      replace ((1 - 1) * s_blk sc) with 0 in H by lia. unfold takeN at 1 in H. cbn [N.to_nat firstn app] in H.
      rewrite H. f_equal. lia. }
    split; [exact C1|]. split; [exact Hpre|]. split; [|exact Hok].
    intros Hd. destruct (Hfile Hd) as [Hel Hcnt]. rewrite Hel, Hcnt in Hpre. cbn [concat] in Hpre.
    rewrite app_nil_r in Hpre. rewrite Hpre. apply takeN_all.
    assert (Hnn : ~ (nblk (s_blk sc) F < nblk (s_blk sc) F)) by lia.
    rewrite lt_nblk_iff in Hnn by exact (proj1 Hwf). fold nb in Hnn. lia.
  Qed.

  (** C04 / C01 / C02, closed system, safety: for every fault schedule on either channel (drops,
      duplicates, holds that reorder), every file of at most 65535 blocks, every window and block
      size, after any number of steps:
      - the receiver's file plus buffer is exactly the first [c] blocks of the sender's file;
      - if the receiver has ended in success, its file is the sender's file, byte for byte;
      - if the sender has ended in success, so has the receiver (never the other way round:
        the final ACK may be lost, which is the exception RFC 1350 allows). *)
  Theorem cosim_safe : forall fuel, nb <= 65535 ->
    let p := pair_run sc rc f_sr f_rs fuel (pair_init sc rc f_sr F) in
    (exists c, c <= nb /\
       written_bytes (w_file (r_w (p_r p))) ++ concat (w_elems (r_w (p_r p))) = takeN (c * s_blk sc) F) /\
    (r_phase (p_r p) = RDone OutOk -> written_bytes (w_file (r_w (p_r p))) = F) /\
    (s_phase (p_s p) = SDone OutOk -> r_phase (p_r p) = RDone OutOk /\ written_bytes (w_file (r_w (p_r p))) = F).
  Proof.
    intros fuel Hn p.
    destruct (PInv_file p Hn (pair_run_inv fuel _ Hn (pair_init_inv Hn))) as (A & B & C & D).
    split; [exists (r_cnt (p_r p)); split; assumption|]. split; [exact C|].
    intros Hd. split; [exact (D Hd)|exact (C (D Hd))].
  Qed.
End Closed.
