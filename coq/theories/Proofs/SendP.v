(** Proofs about the sending loop ([Worker::send_file]): C01, C07, C08, C15, C16 (sender side). *)
From Coq Require Import ZArith Lia ZifyBool ZifyNat ZifyN.
From Tftp Require Import Base.Prelude Model.Types Model.Consts Model.Codec Model.Window Model.Worker Model.Spec
  Proofs.ListAux Proofs.CodecP Proofs.SpecP Proofs.WindowP.
Local Open Scope N_scope.
Ltac Zify.zify_post_hook ::= Z.div_mod_to_equations.

(** Side conditions on the constants generated from the source. *)
Lemma max_retries_pos : 0 < max_retries.
Proof. reflexivity. Qed.

(** * The invariant of the sending loop *)

(** The part that does not mention the phase: the window holds the blocks
    [abs, abs + len) of the file, the file offset is right behind them, the 16-bit
    counter is the unbounded one modulo 65536. *)
Definition SCore (cfg : scfg) (F : bytes) (st : sstate) : Prop :=
  let w := s_w st in
  let len := lenN (w_elems w) in
  w_size w = s_ws cfg /\ w_chunk w = s_blk cfg /\ f_mode (w_file w) = FRead /\
  1 <= s_abs st /\
  s_bn st = s_abs st mod 65536 /\
  len <= s_ws cfg /\
  w_elems w = chunks_from (s_blk cfg) F (s_abs st) (length (w_elems w)) /\
  f_rest (w_file w) = dropN ((s_abs st + len - 1) * s_blk cfg) F /\
  (if s_filled st then s_abs st + len <= nblk (s_blk cfg) F
   else s_abs st + len = nblk (s_blk cfg) F + 1) /\
  s_retry st < max_retries.

Definition SInv (cfg : scfg) (F : bytes) (st : sstate) : Prop :=
  SCore cfg F st /\
  (s_phase st = SAwaitOack -> w_elems (s_w st) = [] /\ s_abs st = 1 /\ s_filled st = true) /\
  (s_phase st = SInWindow -> w_elems (s_w st) <> []).

Lemma SCore_WInv : forall cfg F st, wf_params (s_blk cfg) (s_ws cfg) -> SCore cfg F st -> WInv (s_w st).
Proof.
  intros cfg F st [_ [_ Hws]] (A & _ & _ & _ & _ & B & _). split; rewrite A; [exact B|exact Hws].
Qed.

(** Under the invariant the u16 length of the window is its true length. *)
Theorem w_len_exact_send : forall cfg F st, wf_params (s_blk cfg) (s_ws cfg) -> SCore cfg F st ->
  w_len (s_w st) = lenN (w_elems (s_w st)).
Proof. intros. apply w_len_exact. eapply SCore_WInv; eassumption. Qed.

(** [SCore] only reads five fields. *)
Lemma SCore_ext : forall cfg F st st',
  s_bn st' = s_bn st -> s_w st' = s_w st -> s_filled st' = s_filled st -> s_abs st' = s_abs st ->
  s_retry st' < max_retries -> SCore cfg F st -> SCore cfg F st'.
Proof.
  intros cfg F st st' E1 E2 E3 E4 Hr H. unfold SCore in *. rewrite E1, E2, E3, E4.
  destruct H as (A & B & C & D & E & G & I & J & K & _). repeat split; assumption.
Qed.

(** * Sending a window *)

Lemma send_copies_pk : forall fails p n idx, Forall (fun s => s_pk s = p) (send_copies fails p n idx).
Proof. intros fails p n. induction n as [|n IH]; intros idx; cbn [send_copies]; constructor; auto. Qed.

Lemma send_packet_pk : forall fails rep p nsent out n ok,
  send_packet fails rep p nsent = (out, n, ok) -> Forall (fun s => s_pk s = p) out.
Proof.
  intros fails rep p nsent out n ok H. unfold send_packet in H.
  destruct (rep =? 0); [inversion H; constructor|].
  destruct (memN nsent fails); inversion H; subst.
  - constructor; [reflexivity|constructor].
  - constructor; [reflexivity|apply send_copies_pk].
Qed.

Lemma chunks_from_nth : forall blk F n a i, (i < n)%nat ->
  nth i (chunks_from blk F a n) [] = chunk blk F (a + N.of_nat i).
Proof.
  intros blk F n. induction n as [|n IH]; intros a i Hi; [lia|].
  cbn [chunks_from]. destruct i as [|i]; cbn [nth].
  - f_equal. lia.
  - rewrite IH by lia. f_equal. lia.
Qed.

(** Every datagram of one transmission of the window is DATA numbered [(a + i) mod 65536]
    carrying the [i]-th buffered piece. *)
Lemma send_window_sent : forall fails rep win bn a nsent out n ok,
  bn = a mod 65536 ->
  send_window fails rep bn win nsent = (out, n, ok) ->
  Forall (fun s => exists i, (i < length win)%nat /\
                             s_pk s = Data ((a + N.of_nat i) mod 65536) (nth i win [])) out.
Proof.
  intros fails rep win. induction win as [|c r IH]; intros bn a nsent out n ok Hbn H; cbn [send_window] in H.
  - inversion H. constructor.
  - destruct (send_packet fails rep (Data bn c) nsent) as [[o1 n1] ok1] eqn:P1.
    pose proof (send_packet_pk _ _ _ _ _ _ _ P1) as Hp.
    assert (H1 : Forall (fun s => exists i, (i < length (c :: r))%nat /\
                   s_pk s = Data ((a + N.of_nat i) mod 65536) (nth i (c :: r) [])) o1).
    { eapply Forall_impl; [|exact Hp]. intros s Hs. exists O. cbn [length nth]. split; [lia|].
      rewrite Hs, Hbn. f_equal. f_equal. lia. }
    destruct ok1.
    + destruct (send_window fails rep (wadd16 bn 1) r n1) as [[o2 n2] ok2] eqn:P2.
      inversion H; subst. apply Forall_app. split; [exact H1|].
      assert (Hbn' : wadd16 (a mod 65536) 1 = (a + 1) mod 65536) by (unfold wadd16; lia).
      pose proof (IH _ (a + 1) _ _ _ _ Hbn' P2) as H2.
      eapply Forall_impl; [|exact H2]. intros s [i [Hi Hs]]. exists (S i). cbn [length nth].
      split; [lia|]. rewrite Hs. f_equal. f_equal. lia.
    + inversion H; subst. exact H1.
Qed.

(** A send call made while the window of [st] is current: DATA carries block [k] of
    the window, numbered [k mod 65536], with exactly that block's bytes; the only
    other packet ever sent is the refusal of a bad reply to the OACK. *)
Definition sent_ok (cfg : scfg) (F : bytes) (st : sstate) (s : sent) : Prop :=
  match s_pk s with
  | Data n p => exists k, s_abs st <= k < s_abs st + lenN (w_elems (s_w st)) /\
                          n = k mod 65536 /\ p = chunk (s_blk cfg) F k
  | Error c m => c = EIllegalOperation /\ m = invalid_oack_msg
  | _ => False
  end.

Lemma sent_ok_ext : forall cfg F st st' s, s_abs st' = s_abs st -> s_w st' = s_w st ->
  sent_ok cfg F st s -> sent_ok cfg F st' s.
Proof. intros cfg F st st' s E1 E2 H. unfold sent_ok in *. rewrite E1, E2. exact H. Qed.

Lemma send_window_sent_ok : forall cfg F st out n ok, SCore cfg F st ->
  send_window (s_fails cfg) (s_rep cfg) (s_bn st) (w_elems (s_w st)) (s_nsent st) = (out, n, ok) ->
  Forall (sent_ok cfg F st) out.
Proof.
  intros cfg F st out n ok (A & B & C & D & E & G & I & J & K & L) H.
  pose proof (send_window_sent _ _ _ _ (s_abs st) _ _ _ _ E H) as Hs.
  eapply Forall_impl; [|exact Hs]. intros s [i [Hi Hp]]. unfold sent_ok. rewrite Hp.
  exists (s_abs st + N.of_nat i). split; [unfold lenN; lia|]. split; [reflexivity|].
  rewrite I. apply chunks_from_nth. exact Hi.
Qed.

(** * The two loop heads *)

Lemma inner_top_fields : forall cfg st st' out, s_inner_top cfg st = (st', out) ->
  s_bn st' = s_bn st /\ s_w st' = s_w st /\ s_filled st' = s_filled st /\ s_retry st' = s_retry st /\
  s_abs st' = s_abs st /\ (s_phase st' = s_phase st \/ s_phase st' = SDone OutSendFail).
Proof.
  intros cfg st st' out H. unfold s_inner_top in H. destruct (s_tmo cfg <=? s_since st).
  - destruct (send_window _ _ _ _ _) as [[o n] ok]. destruct ok; inversion H; subst;
      cbn [s_bn s_w s_filled s_retry s_abs s_phase]; repeat split; auto.
  - inversion H; subst. repeat split; auto.
Qed.

Lemma inner_top_out : forall cfg F st st' out, SCore cfg F st -> s_inner_top cfg st = (st', out) ->
  Forall (sent_ok cfg F st') out.
Proof.
  intros cfg F st st' out Hc H. destruct (inner_top_fields _ _ _ _ H) as (E1 & E2 & _ & _ & E5 & _).
  unfold s_inner_top in H. destruct (s_tmo cfg <=? s_since st).
  - destruct (send_window _ _ _ _ _) as [[o n] ok] eqn:W.
    pose proof (send_window_sent_ok _ _ _ _ _ _ Hc W) as Hs.
    assert (out = o) by (destruct ok; inversion H; reflexivity). subst o.
    eapply Forall_impl; [|exact Hs]. intros s. apply sent_ok_ext; assumption.
  - inversion H. constructor.
Qed.

Lemma inner_top_inv : forall cfg F st st' out, SInv cfg F st -> s_phase st = SInWindow ->
  s_inner_top cfg st = (st', out) -> SInv cfg F st'.
Proof.
  intros cfg F st st' out [Hc [_ Hn]] Hp H.
  destruct (inner_top_fields _ _ _ _ H) as (E1 & E2 & E3 & E4 & E5 & E6).
  split; [|split].
  - eapply SCore_ext; try eassumption. rewrite E4. destruct Hc as (_ & _ & _ & _ & _ & _ & _ & _ & _ & L). exact L.
  - intros Hq. destruct E6 as [E6|E6]; rewrite E6 in Hq; [rewrite Hp in Hq|]; discriminate.
  - intros _. rewrite E2. exact (Hn Hp).
Qed.

(** [fill] at the top of the outer loop, relative to the file. *)
Lemma fill_send : forall cfg F st, wf_params (s_blk cfg) (s_ws cfg) -> SCore cfg F st -> s_filled st = true ->
  exists w' full, fill (s_w st) = WOk (w', full) /\
    (forall r since nsent ph, r < max_retries ->
       SCore cfg F (mk_sstate (s_bn st) w' full r since nsent ph (s_abs st))) /\
    (lenN (w_elems (s_w st)) < s_ws cfg -> w_elems w' <> []).
Proof.
  intros cfg F st Hwf Hc Hf. pose proof (w_len_exact_send _ _ _ Hwf Hc) as Hlen.
  destruct Hc as (A & B & C & D & E & G & I & J & K & L). rewrite Hf in K.
  destruct Hwf as (Hb & Hw1 & Hw2).
  unfold fill. rewrite Hlen, C, A, B, J.
  destruct (read_chunks (N.to_nat (s_ws cfg - lenN (w_elems (s_w st)))) (s_blk cfg)
              (dropN ((s_abs st + lenN (w_elems (s_w st)) - 1) * s_blk cfg) F)) as [[cs rest'] full] eqn:R.
  destruct (read_chunks_spec _ _ _ (s_abs st + lenN (w_elems (s_w st))) _ _ _ Hb ltac:(lia) K R)
    as (R1 & R2 & R3 & R4 & R5).
  eexists. exists full. split; [reflexivity|]. split.
  - intros r since nsent ph Hr. unfold SCore.
    cbn [s_w s_bn s_abs s_filled s_retry w_elems w_size w_chunk w_file f_mode f_rest].
    rewrite lenN_app, app_length.
    assert (Hl : lenN cs <= s_ws cfg - lenN (w_elems (s_w st))) by (unfold lenN in *; lia).
    split; [reflexivity|]. split; [reflexivity|]. split; [reflexivity|]. split; [exact D|].
    split; [exact E|]. split; [lia|]. split.
    { rewrite chunks_from_app. f_equal; [exact I|]. rewrite R1 at 1. f_equal. }
    split.
    { rewrite R2. f_equal. f_equal. lia. }
    split; [|exact Hr].
    destruct full.
    + destruct (R4 eq_refl). lia.
    + destruct (R5 eq_refl). lia.
  - intros Hlt. cbn [w_elems]. intros Hnil. apply app_eq_nil in Hnil. destruct Hnil as [_ Hnil].
    subst cs. cbn [length] in *. destruct full.
    + destruct (R4 eq_refl). lia.
    + destruct (R5 eq_refl). lia.
Qed.

(** The top of the outer loop: the window is topped up (unless the end of file was seen)
    and transmitted at once. *)
Lemma outer_top_spec : forall cfg F st st' out, wf_params (s_blk cfg) (s_ws cfg) ->
  SCore cfg F st ->
  (s_filled st = true -> lenN (w_elems (s_w st)) < s_ws cfg) ->
  (s_filled st = false -> w_elems (s_w st) <> []) ->
  s_outer_top cfg st = (st', out) ->
  SInv cfg F st' /\ Forall (sent_ok cfg F st') out /\ s_abs st' = s_abs st /\ s_bn st' = s_bn st /\
  (s_phase st' = SInWindow \/ s_phase st' = SDone OutSendFail) /\
  w_elems (s_w st') <> [] /\ s_retry st' = 0 /\
  (s_filled st = false -> s_w st' = s_w st /\ s_filled st' = false).
Proof.
  intros cfg F st st' out Hwf Hc Hfull Hne H. unfold s_outer_top in H.
  destruct (s_filled st) eqn:Hf.
  - destruct (fill_send _ _ _ Hwf Hc Hf) as (w' & full & Fl & Hcore & Hnon). rewrite Fl in H.
    set (st1 := mk_sstate (s_bn st) w' full 0 (s_tmo cfg + timeout_buffer_ns) (s_nsent st) SInWindow (s_abs st)) in *.
    assert (Hc1 : SCore cfg F st1) by (apply Hcore; exact max_retries_pos).
    assert (Hi1 : SInv cfg F st1).
    { split; [exact Hc1|]. split; [discriminate|]. intros _. apply Hnon. apply Hfull. reflexivity. }
    destruct (inner_top_fields _ _ _ _ H) as (E1 & E2 & E3 & E4 & E5 & E6).
    split; [eapply inner_top_inv; [exact Hi1|reflexivity|exact H]|].
    split; [eapply inner_top_out; eassumption|].
    split; [rewrite E5; reflexivity|]. split; [rewrite E1; reflexivity|].
    split; [exact E6|]. split; [rewrite E2; apply Hnon; apply Hfull; reflexivity|].
    split; [rewrite E4; reflexivity|]. discriminate.
  - set (st1 := mk_sstate (s_bn st) (s_w st) false 0 (s_tmo cfg + timeout_buffer_ns) (s_nsent st) SInWindow (s_abs st)) in *.
    assert (Hc1 : SCore cfg F st1).
    { apply (SCore_ext cfg F st st1);
        [reflexivity|reflexivity|unfold st1; cbn [s_filled]; symmetry; exact Hf|reflexivity|exact max_retries_pos|exact Hc]. }
    assert (Hi1 : SInv cfg F st1).
    { split; [exact Hc1|]. split; [discriminate|]. intros _. apply Hne. reflexivity. }
    destruct (inner_top_fields _ _ _ _ H) as (E1 & E2 & E3 & E4 & E5 & E6).
    split; [eapply inner_top_inv; [exact Hi1|reflexivity|exact H]|].
    split; [eapply inner_top_out; eassumption|].
    split; [rewrite E5; reflexivity|]. split; [rewrite E1; reflexivity|].
    split; [exact E6|]. split; [rewrite E2; apply Hne; reflexivity|].
    split; [rewrite E4; reflexivity|]. intros _. split; [rewrite E2|rewrite E3]; reflexivity.
Qed.

(** * One step *)

Lemma send_init_spec : forall cfg F st out, wf_params (s_blk cfg) (s_ws cfg) ->
  send_init cfg F = (st, out) -> SInv cfg F st /\ Forall (sent_ok cfg F st) out.
Proof.
  intros cfg F st out Hwf H. unfold send_init in H.
  set (st0 := mk_sstate 1 (window_new (s_ws cfg) (s_blk cfg) (file_for_read F)) true 0 0 0
                        (if s_check cfg then SAwaitOack else SInWindow) 1) in *.
  assert (Hc0 : SCore cfg F st0).
  { unfold SCore, st0. cbn [s_w s_bn s_abs s_filled s_retry window_new w_elems w_size w_chunk w_file
                            file_for_read f_mode f_rest length chunks_from].
    rewrite lenN_nil. destruct Hwf as (Hb & Hw1 & Hw2). pose proof (nblk_pos (s_blk cfg) F).
    repeat split; try reflexivity; try lia. }
  destruct (s_check cfg) eqn:Hck.
  - inversion H; subst. split; [|constructor]. split; [exact Hc0|]. split; [|discriminate].
    intros _. repeat split; reflexivity.
  - destruct (outer_top_spec cfg F st0 st out Hwf Hc0) as (A & B & _); try exact H.
    + intros _. unfold st0. cbn [s_w window_new w_elems]. rewrite lenN_nil. destruct Hwf as (_ & ? & _). lia.
    + discriminate.
    + split; assumption.
Qed.

Lemma s_done_inv : forall cfg F st o, SCore cfg F st -> SInv cfg F (s_done st o).
Proof.
  intros cfg F st o Hc. split; [|split; discriminate].
  eapply SCore_ext; [..|exact Hc]; try reflexivity.
  destruct Hc as (_ & _ & _ & _ & _ & _ & _ & _ & _ & L). exact L.
Qed.

Definition with_since (st : sstate) (d : N) : sstate :=
  mk_sstate (s_bn st) (s_w st) (s_filled st) (s_retry st) (s_since st + d) (s_nsent st) (s_phase st) (s_abs st).

Lemma with_since_inv : forall cfg F st d, SInv cfg F st -> SInv cfg F (with_since st d).
Proof.
  intros cfg F st d [Hc [H1 H2]]. split; [|split; [exact H1|exact H2]].
  eapply SCore_ext; [..|exact Hc]; try reflexivity.
  destruct Hc as (_ & _ & _ & _ & _ & _ & _ & _ & _ & L). exact L.
Qed.

(** What an ACK inside the window does (everything up to the refill). *)
Lemma ack_removes : forall cfg F st r, wf_params (s_blk cfg) (s_ws cfg) -> SCore cfg F st ->
  let diff := wsub16 r (s_bn st) in
  diff < lenN (w_elems (s_w st)) ->
  diff + 1 <= 65535 /\
  exists w', remove (s_w st) (diff + 1) = WOk w' /\
    w_elems w' = dropN (diff + 1) (w_elems (s_w st)) /\
    forall since nsent ph,
      SCore cfg F (mk_sstate (wadd16 r 1) w' (s_filled st) (s_retry st) since nsent ph (s_abs st + diff + 1)).
Proof.
  intros cfg F st r Hwf Hc diff Hd.
  pose proof (SCore_WInv _ _ _ Hwf Hc) as Hw.
  destruct Hc as (A & B & C & D & E & G & I & J & K & L). destruct Hwf as (Hb & Hw1 & Hw2).
  split; [lia|].
  destruct (remove_exact (s_w st) (diff + 1) Hw) as [R1 _]. rewrite R1 by lia.
  eexists. split; [reflexivity|]. split; [reflexivity|].
  intros since nsent ph. unfold SCore.
  cbn [s_w s_bn s_abs s_filled s_retry w_elems w_size w_chunk w_file].
  rewrite lenN_dropN.
  split; [exact A|]. split; [exact B|]. split; [exact C|]. split; [lia|].
  split; [unfold wadd16; subst diff; unfold wsub16 in *; rewrite E in *; lia|].
  split; [lia|]. split.
  { rewrite I at 1. unfold dropN. rewrite chunks_from_skipn by (unfold lenN in *; lia).
    rewrite skipn_length. f_equal. unfold lenN in *. lia. }
  split.
  { rewrite J. f_equal. f_equal. lia. }
  split; [|exact L].
  destruct (s_filled st); lia.
Qed.

(** The step function preserves the invariant, and everything it sends is a block of
    the current window (or the refusal of a bad reply to the OACK). *)
Theorem send_step_spec : forall cfg F st e st' out, wf_params (s_blk cfg) (s_ws cfg) ->
  SInv cfg F st -> send_step cfg st e = (st', out) ->
  SInv cfg F st' /\ Forall (sent_ok cfg F st') out.
Proof.
  intros cfg F st e st' out Hwf Hi H. unfold send_step in H.
  fold (with_since st (ev_delay e)) in H.
  destruct (s_phase st) eqn:Hp.
  - (* SAwaitOack *)
    destruct Hi as [Hc [Ha _]]. destruct (Ha Hp) as (Ha1 & Ha2 & Ha3).
    assert (Houter : forall st' out, s_outer_top cfg st = (st', out) ->
                       SInv cfg F st' /\ Forall (sent_ok cfg F st') out).
    { intros st2 out2 H2. destruct (outer_top_spec cfg F st st2 out2 Hwf Hc) as (A & B & _); try exact H2.
      - intros _. rewrite Ha1, lenN_nil. destruct Hwf as (_ & ? & _). lia.
      - rewrite Ha3. discriminate.
      - split; assumption. }
    destruct (receive max_request_packet_size e) as [p| |].
    + destruct p as [f m os|f m os|n d|n|c m|os]; try (apply Houter; exact H).
      * destruct (n =? 0); [apply Houter; exact H|]. inversion H; subst. split.
        -- split; [|split; discriminate]. eapply SCore_ext; [..|exact Hc]; try reflexivity.
           destruct Hc as (_ & _ & _ & _ & _ & _ & _ & _ & _ & L). exact L.
        -- constructor; [|constructor]. unfold sent_ok. cbn [s_pk]. split; reflexivity.
      * inversion H; subst. split; [apply s_done_inv; exact Hc|constructor].
    + inversion H; subst. split; [apply s_done_inv; exact Hc|constructor].
    + inversion H; subst. split; [apply s_done_inv; exact Hc|constructor].
  - (* SInWindow *)
    pose proof (with_since_inv cfg F st (ev_delay e) Hi) as Hi1.
    set (st1 := with_since st (ev_delay e)) in *.
    assert (Hp1 : s_phase st1 = SInWindow) by exact Hp.
    destruct Hi1 as [Hc1 [Hq1 Hn1]].
    assert (Hfail : forall st' out,
      (let r := s_retry st1 + 1 in
       if r =? max_retries then (s_done st1 OutTimeout, [])
       else s_inner_top cfg (mk_sstate (s_bn st1) (s_w st1) (s_filled st1) r (s_since st1) (s_nsent st1)
                                       (s_phase st1) (s_abs st1))) = (st', out) ->
      SInv cfg F st' /\ Forall (sent_ok cfg F st') out).
    { intros st2 out2 H2. cbv zeta in H2. destruct (N.eqb_spec (s_retry st1 + 1) max_retries) as [Er|Er].
      - inversion H2; subst. split; [apply s_done_inv; exact Hc1|constructor].
      - set (st3 := mk_sstate (s_bn st1) (s_w st1) (s_filled st1) (s_retry st1 + 1) (s_since st1) (s_nsent st1)
                              (s_phase st1) (s_abs st1)) in *.
        assert (Hc3 : SCore cfg F st3).
        { eapply SCore_ext; [..|exact Hc1]; try reflexivity. unfold st3. cbn [s_retry].
          destruct Hc1 as (_ & _ & _ & _ & _ & _ & _ & _ & _ & L). lia. }
        split.
        + apply (inner_top_inv cfg F st3 st2 out2); [|exact Hp1|exact H2].
          split; [exact Hc3|]. split; [exact Hq1|exact Hn1].
        + apply (inner_top_out cfg F st3 st2 out2); assumption. }
    destruct (receive max_request_packet_size e) as [p| |].
    + destruct p as [f m os|f m os|n d|r|c m|os]; try (apply Hfail; exact H).
      * (* ACK *)
        destruct (N.ltb_spec (wsub16 r (s_bn st1)) (w_len (s_w st1))) as [Hin|Hout].
        -- rewrite (w_len_exact_send _ _ _ Hwf Hc1) in Hin.
           destruct (ack_removes cfg F st1 r Hwf Hc1 Hin) as (Hov & w' & Hr & Hel & Hcore).
           destruct (N.ltb_spec 65535 (wsub16 r (s_bn st1) + 1)) as [Hx|_]; [lia|].
           rewrite Hr in H.
           set (st2 := mk_sstate (wadd16 r 1) w' (s_filled st1) (s_retry st1) (s_since st1) (s_nsent st1)
                                 (s_phase st1) (s_abs st1 + wsub16 r (s_bn st1) + 1)) in *.
           assert (Hc2 : SCore cfg F st2) by apply Hcore.
           destruct (negb (s_filled st1) && w_is_empty w') eqn:Hend.
           ++ inversion H; subst. split; [apply s_done_inv; exact Hc2|constructor].
           ++ destruct (outer_top_spec cfg F st2 st' out Hwf Hc2) as (A & B & _); try exact H.
              ** intros _. unfold st2. cbn [s_w]. rewrite Hel, lenN_dropN.
                 destruct Hc1 as (_ & _ & _ & _ & _ & G & _). lia.
              ** intros Hf. unfold st2 in Hf. cbn [s_filled] in Hf. rewrite Hf in Hend. cbn [negb andb] in Hend.
                 unfold st2. cbn [s_w]. intros Hnil. apply w_is_empty_iff in Hnil. congruence.
              ** split; assumption.
        -- split.
           ++ apply (inner_top_inv cfg F st1 st' out); [|exact Hp1|exact H].
              split; [exact Hc1|]. split; [exact Hq1|exact Hn1].
           ++ apply (inner_top_out cfg F st1 st' out); assumption.
      * inversion H; subst. split; [apply s_done_inv; exact Hc1|constructor].
    + apply Hfail; exact H.
    + inversion H; subst. split; [apply s_done_inv; exact Hc1|constructor].
  - inversion H; subst. split; [exact Hi|constructor].
Qed.

Theorem send_init_inv : forall cfg F, wf_params (s_blk cfg) (s_ws cfg) ->
  SInv cfg F (fst (send_init cfg F)).
Proof. intros cfg F Hwf. destruct (send_init cfg F) as [st out] eqn:E. exact (proj1 (send_init_spec _ _ _ _ Hwf E)). Qed.

Theorem send_step_inv : forall cfg F st e, wf_params (s_blk cfg) (s_ws cfg) ->
  SInv cfg F st -> SInv cfg F (fst (send_step cfg st e)).
Proof.
  intros cfg F st e Hwf Hi. destruct (send_step cfg st e) as [st' out] eqn:E.
  exact (proj1 (send_step_spec _ _ _ _ _ _ Hwf Hi E)).
Qed.

Lemma send_steps_inv : forall cfg F evs st, wf_params (s_blk cfg) (s_ws cfg) ->
  SInv cfg F st -> SInv cfg F (fst (send_steps cfg st evs)).
Proof.
  intros cfg F evs. induction evs as [|e evs IH]; intros st Hwf Hi; cbn [send_steps]; [exact Hi|].
  destruct (send_step cfg st e) as [st1 out] eqn:E1. destruct (send_steps cfg st1 evs) as [st2 outs] eqn:E2.
  cbn [fst]. replace st2 with (fst (send_steps cfg st1 evs)) by (rewrite E2; reflexivity).
  apply IH; [exact Hwf|]. exact (proj1 (send_step_spec _ _ _ _ _ _ Hwf Hi E1)).
Qed.

(** Every state reached by a run satisfies the invariant. *)
Theorem send_run_inv : forall cfg F evs, wf_params (s_blk cfg) (s_ws cfg) ->
  SInv cfg F (fst (run_send cfg F evs)).
Proof.
  intros cfg F evs Hwf. unfold run_send. destruct (send_init cfg F) as [st0 out0] eqn:E0.
  destruct (send_steps cfg st0 evs) as [st outs] eqn:E1. cbn [fst].
  replace st with (fst (send_steps cfg st0 evs)) by (rewrite E1; reflexivity).
  apply send_steps_inv; [exact Hwf|]. exact (proj1 (send_init_spec _ _ _ _ Hwf E0)).
Qed.

(** * What is emitted (C01) *)

(** Blocks in the window are blocks of the file: between 1 and nblk. *)
Theorem window_blocks_valid : forall cfg F st k, SCore cfg F st ->
  s_abs st <= k < s_abs st + lenN (w_elems (s_w st)) -> 1 <= k <= nblk (s_blk cfg) F.
Proof.
  intros cfg F st k (A & B & C & D & E & G & I & J & K & L) Hk. destruct (s_filled st); lia.
Qed.

Lemma sent_ok_slice : forall cfg F st s n p, SCore cfg F st -> sent_ok cfg F st s -> s_pk s = Data n p ->
  exists k, 1 <= k <= nblk (s_blk cfg) F /\ n = k mod 65536 /\ p = chunk (s_blk cfg) F k.
Proof.
  intros cfg F st s n p Hc Hs Hp. unfold sent_ok in Hs. rewrite Hp in Hs.
  destruct Hs as (k & Hk & Hn & Hd). exists k. split; [|split; assumption].
  eapply window_blocks_valid; eassumption.
Qed.

Lemma send_steps_slices : forall cfg F evs st st' outs, wf_params (s_blk cfg) (s_ws cfg) -> SInv cfg F st ->
  send_steps cfg st evs = (st', outs) ->
  forall burst s n p, In burst outs -> In s burst -> s_pk s = Data n p ->
  exists k, 1 <= k <= nblk (s_blk cfg) F /\ n = k mod 65536 /\ p = chunk (s_blk cfg) F k.
Proof.
  intros cfg F evs. induction evs as [|e evs IH]; intros st st' outs Hwf Hi H burst s n p Hb Hs Hp;
    cbn [send_steps] in H.
  - inversion H; subst. contradiction.
  - destruct (send_step cfg st e) as [st1 out] eqn:E1. destruct (send_steps cfg st1 evs) as [st2 outs2] eqn:E2.
    inversion H; subst. destruct (send_step_spec _ _ _ _ _ _ Hwf Hi E1) as [Hi1 Ho].
    destruct Hb as [<-|Hb].
    + rewrite Forall_forall in Ho. eapply sent_ok_slice; [exact (proj1 Hi1)|apply Ho; exact Hs|exact Hp].
    + eapply IH; eassumption.
Qed.

(** C01, first sentence, for every file, configuration and event list (ACKs are just
    events: bogus ones included): every DATA datagram ever handed to the socket carries
    block number [k mod 65536] and exactly the bytes of block [k] of the file, for a
    [k] between 1 and the number of the final block - so no block beyond the final one
    is ever emitted. *)
Theorem send_data_is_slice : forall cfg F evs st outs, wf_params (s_blk cfg) (s_ws cfg) ->
  run_send cfg F evs = (st, outs) ->
  forall burst s n p, In burst outs -> In s burst -> s_pk s = Data n p ->
  exists k, 1 <= k <= nblk (s_blk cfg) F /\ n = k mod 65536 /\ p = chunk (s_blk cfg) F k.
Proof.
  intros cfg F evs st outs Hwf H burst s n p Hb Hs Hp. unfold run_send in H.
  destruct (send_init cfg F) as [st0 out0] eqn:E0. destruct (send_steps cfg st0 evs) as [st1 outs1] eqn:E1.
  inversion H; subst. destruct (send_init_spec _ _ _ _ Hwf E0) as [Hi0 Ho0].
  destruct Hb as [<-|Hb].
  - rewrite Forall_forall in Ho0. eapply sent_ok_slice; [exact (proj1 Hi0)|apply Ho0; exact Hs|exact Hp].
  - eapply send_steps_slices; eassumption.
Qed.

(** The only non-DATA packet a sender ever emits is the refusal of a bad OACK reply. *)
Lemma sent_ok_kind : forall cfg F st s, sent_ok cfg F st s ->
  (exists n p, s_pk s = Data n p) \/ s_pk s = Error EIllegalOperation invalid_oack_msg.
Proof.
  intros cfg F st s Hs. unfold sent_ok in Hs. destruct (s_pk s); try contradiction.
  - left. eauto.
  - right. destruct Hs as [-> ->]. reflexivity.
Qed.

Lemma send_steps_kinds : forall cfg F evs st st' outs, wf_params (s_blk cfg) (s_ws cfg) -> SInv cfg F st ->
  send_steps cfg st evs = (st', outs) ->
  forall burst s, In burst outs -> In s burst ->
  (exists n p, s_pk s = Data n p) \/ s_pk s = Error EIllegalOperation invalid_oack_msg.
Proof.
  intros cfg F evs. induction evs as [|e evs IH]; intros st st' outs Hwf Hi H burst s Hb Hs;
    cbn [send_steps] in H.
  - inversion H; subst. contradiction.
  - destruct (send_step cfg st e) as [st1 out] eqn:E1. destruct (send_steps cfg st1 evs) as [st2 outs2] eqn:E2.
    inversion H; subst. destruct (send_step_spec _ _ _ _ _ _ Hwf Hi E1) as [Hi1 Ho].
    destruct Hb as [<-|Hb].
    + rewrite Forall_forall in Ho. eapply sent_ok_kind. apply Ho. exact Hs.
    + eapply IH; eassumption.
Qed.

Theorem send_only_data_or_refusal : forall cfg F evs st outs, wf_params (s_blk cfg) (s_ws cfg) ->
  run_send cfg F evs = (st, outs) ->
  forall burst s, In burst outs -> In s burst ->
  (exists n p, s_pk s = Data n p) \/ s_pk s = Error EIllegalOperation invalid_oack_msg.
Proof.
  intros cfg F evs st outs Hwf H burst s Hb Hs. unfold run_send in H.
  destruct (send_init cfg F) as [st0 out0] eqn:E0. destruct (send_steps cfg st0 evs) as [st1 outs1] eqn:E1.
  inversion H; subst. destruct (send_init_spec _ _ _ _ Hwf E0) as [Hi0 Ho0].
  destruct Hb as [<-|Hb].
  - rewrite Forall_forall in Ho0. eapply sent_ok_kind. apply Ho0. exact Hs.
  - eapply send_steps_kinds; eassumption.
Qed.

(** Shape of a transmission when no send call fails. *)
Lemma send_copies_nofail : forall p n idx, send_copies [] p n idx = repeat (mk_sent p false) n.
Proof. intros p n. induction n as [|n IH]; intros idx; cbn [send_copies repeat memN existsb]; [reflexivity|]. rewrite IH. reflexivity. Qed.

Lemma send_packet_nofail : forall rep p nsent,
  send_packet [] rep p nsent = (repeat (mk_sent p false) (N.to_nat rep), nsent + rep, true).
Proof.
  intros rep p nsent. unfold send_packet. destruct (N.eqb_spec rep 0) as [->|Hr].
  - cbn [N.to_nat repeat]. rewrite N.add_0_r. reflexivity.
  - cbn [memN existsb]. rewrite send_copies_nofail.
    replace (N.to_nat rep) with (S (N.to_nat (rep - 1))) by lia. reflexivity.
Qed.

Lemma send_window_nofail : forall rep win a nsent,
  send_window [] rep (a mod 65536) win nsent =
    (window_tx (N.to_nat rep) a win, nsent + rep * lenN win, true).
Proof.
  intros rep win. induction win as [|c r IH]; intros a nsent; cbn [send_window window_tx].
  - rewrite lenN_nil, N.mul_0_r, N.add_0_r. reflexivity.
  - rewrite send_packet_nofail.
    replace (wadd16 (a mod 65536) 1) with ((a + 1) mod 65536) by (unfold wadd16; lia).
    rewrite IH. rewrite lenN_cons. f_equal. f_equal. lia.
Qed.

(** Every burst is empty, or one transmission of the whole current window in order, each
    block [rep] times, numbered consecutively from the window front (C01, C08, C16). *)
Theorem send_step_burst_shape : forall cfg F st e st' out, wf_params (s_blk cfg) (s_ws cfg) ->
  s_fails cfg = [] -> SInv cfg F st -> send_step cfg st e = (st', out) ->
  out = [] \/ out = window_tx (N.to_nat (s_rep cfg)) (s_abs st') (w_elems (s_w st'))
  \/ (s_phase st = SAwaitOack /\ out = [mk_sent (Error EIllegalOperation invalid_oack_msg) false]).
Proof.
  intros cfg F st e st' out Hwf Hnf Hi H.
  assert (Hinner : forall st st' out, SCore cfg F st -> s_inner_top cfg st = (st', out) ->
            out = [] \/ out = window_tx (N.to_nat (s_rep cfg)) (s_abs st') (w_elems (s_w st'))).
  { intros sa sb o Hc Hs. destruct (inner_top_fields _ _ _ _ Hs) as (E1 & E2 & _ & _ & E5 & _).
    unfold s_inner_top in Hs. destruct (s_tmo cfg <=? s_since sa); [|inversion Hs; left; reflexivity].
    destruct Hc as (_ & _ & _ & _ & Hbn & _). rewrite Hnf, Hbn, send_window_nofail in Hs.
    inversion Hs; subst. right. cbn [s_abs s_w]. reflexivity. }
  assert (Houter : forall st st' out, SCore cfg F st ->
            (s_filled st = true -> lenN (w_elems (s_w st)) < s_ws cfg) ->
            s_outer_top cfg st = (st', out) ->
            out = [] \/ out = window_tx (N.to_nat (s_rep cfg)) (s_abs st') (w_elems (s_w st'))).
  { intros sa sb o Hc Hlt Hs. unfold s_outer_top in Hs. destruct (s_filled sa) eqn:Hf.
    - destruct (fill_send _ _ _ Hwf Hc Hf) as (w' & full & Fl & Hcore & _). rewrite Fl in Hs.
      eapply Hinner; [|exact Hs]. apply Hcore. exact max_retries_pos.
    - eapply Hinner; [|exact Hs]. eapply SCore_ext; [..|exact Hc]; try reflexivity.
      all: try (cbn [s_filled]; symmetry; exact Hf). all: try exact max_retries_pos. }
  unfold send_step in H. fold (with_since st (ev_delay e)) in H.
  destruct (s_phase st) eqn:Hp.
  - destruct Hi as [Hc [Ha _]]. destruct (Ha Hp) as (Ha1 & Ha2 & Ha3).
    assert (Hlt : s_filled st = true -> lenN (w_elems (s_w st)) < s_ws cfg).
    { intros _. rewrite Ha1, lenN_nil. destruct Hwf as (_ & ? & _). lia. }
    destruct (receive max_request_packet_size e) as [p| |]; try (inversion H; left; reflexivity).
    destruct p as [f m os|f m os|n d|n|c m|os];
      try (destruct (Houter _ _ _ Hc Hlt H) as [X|X]; [left|right; left]; exact X).
    + destruct (n =? 0).
      * destruct (Houter _ _ _ Hc Hlt H) as [X|X]; [left|right; left]; exact X.
      * inversion H; subst. right. right. split; [reflexivity|]. rewrite Hnf. reflexivity.
    + inversion H. left. reflexivity.
  - pose proof (with_since_inv cfg F st (ev_delay e) Hi) as [Hc1 [Hq1 Hn1]].
    set (st1 := with_since st (ev_delay e)) in *.
    assert (Hfail : forall st' out,
      (let r := s_retry st1 + 1 in
       if r =? max_retries then (s_done st1 OutTimeout, [])
       else s_inner_top cfg (mk_sstate (s_bn st1) (s_w st1) (s_filled st1) r (s_since st1) (s_nsent st1)
                                       (s_phase st1) (s_abs st1))) = (st', out) ->
      out = [] \/ out = window_tx (N.to_nat (s_rep cfg)) (s_abs st') (w_elems (s_w st'))).
    { intros st2 out2 H2. cbv zeta in H2. destruct (N.eqb_spec (s_retry st1 + 1) max_retries) as [Er|Er].
      - inversion H2. left. reflexivity.
      - eapply Hinner; [|exact H2]. eapply SCore_ext; [..|exact Hc1]; try reflexivity. cbn [s_retry].
        destruct Hc1 as (_ & _ & _ & _ & _ & _ & _ & _ & _ & L). lia. }
    destruct (receive max_request_packet_size e) as [p| |]; try (inversion H; left; reflexivity).
    + destruct p as [f m os|f m os|n d|r|c m|os];
        try (destruct (Hfail _ _ H) as [X|X]; [left|right; left]; exact X).
      * destruct (N.ltb_spec (wsub16 r (s_bn st1)) (w_len (s_w st1))) as [Hin|Hout].
        -- rewrite (w_len_exact_send _ _ _ Hwf Hc1) in Hin.
           destruct (ack_removes cfg F st1 r Hwf Hc1 Hin) as (Hov & w' & Hr & Hel & Hcore).
           destruct (N.ltb_spec 65535 (wsub16 r (s_bn st1) + 1)) as [Hx|_]; [lia|].
           rewrite Hr in H.
           destruct (negb (s_filled st1) && w_is_empty w'); [inversion H; left; reflexivity|].
           destruct (Houter _ _ _ (Hcore _ _ _) ltac:(intros _; cbn [s_w]; rewrite Hel, lenN_dropN;
               destruct Hc1 as (_ & _ & _ & _ & _ & G & _); lia) H) as [X|X]; [left|right; left]; exact X.
        -- destruct (Hinner _ _ _ Hc1 H) as [X|X]; [left|right; left]; exact X.
      * inversion H. left. reflexivity.
    + destruct (Hfail _ _ H) as [X|X]; [left|right; left]; exact X.
  - inversion H. left. reflexivity.
Qed.

(** A burst never holds more than [ws] distinct blocks: the window transmitted is the
    current one, whose length is bounded by the invariant. *)
Theorem outstanding_le_ws : forall cfg F st, SInv cfg F st -> lenN (w_elems (s_w st)) <= s_ws cfg.
Proof. intros cfg F st [(_ & _ & _ & _ & _ & G & _) _]. exact G. Qed.

(** * Computation rules of one step *)

Lemma step_done : forall cfg st e o, s_phase st = SDone o -> send_step cfg st e = (st, []).
Proof. intros cfg st e o H. unfold send_step. rewrite H. reflexivity. Qed.

(** An ACK inside the window: the acknowledged blocks leave the window, the counters
    follow; the transfer ends if that was the final block, otherwise the next window goes out. *)
Lemma step_ack_in : forall cfg F st e r, wf_params (s_blk cfg) (s_ws cfg) ->
  SInv cfg F st -> s_phase st = SInWindow ->
  receive max_request_packet_size e = RPacket (Ack r) ->
  wsub16 r (s_bn st) < lenN (w_elems (s_w st)) ->
  exists w', remove (s_w st) (wsub16 r (s_bn st) + 1) = WOk w' /\
    w_elems w' = dropN (wsub16 r (s_bn st) + 1) (w_elems (s_w st)) /\
    let st2 := mk_sstate (wadd16 r 1) w' (s_filled st) (s_retry st) (s_since st + ev_delay e) (s_nsent st)
                         SInWindow (s_abs st + wsub16 r (s_bn st) + 1) in
    SCore cfg F st2 /\
    send_step cfg st e =
      if negb (s_filled st) && w_is_empty w' then (s_done st2 OutOk, []) else s_outer_top cfg st2.
Proof.
  intros cfg F st e r Hwf Hi Hp Hr Hin.
  pose proof (with_since_inv cfg F st (ev_delay e) Hi) as [Hc1 _].
  destruct (ack_removes cfg F (with_since st (ev_delay e)) r Hwf Hc1 Hin) as (Hov & w' & Hrm & Hel & Hcore).
  cbn [with_since s_bn s_w] in Hov, Hrm, Hel.
  exists w'. split; [exact Hrm|]. split; [exact Hel|]. cbv zeta. split.
  { specialize (Hcore (s_since st + ev_delay e) (s_nsent st) SInWindow).
    cbn [with_since s_bn s_w s_filled s_retry s_abs] in Hcore. exact Hcore. }
  unfold send_step. rewrite Hp, Hr. cbn [s_bn s_w s_filled s_retry s_since s_nsent s_phase s_abs].
  rewrite (w_len_exact_send _ _ _ Hwf (proj1 Hi)).
  destruct (N.ltb_spec (wsub16 r (s_bn st)) (lenN (w_elems (s_w st)))) as [_|X]; [|lia].
  destruct (N.ltb_spec 65535 (wsub16 r (s_bn st) + 1)) as [X|_]; [lia|].
  rewrite Hrm. reflexivity.
Qed.

(** An ACK outside the window: nothing but the clock moves; the window goes out again
    only if the timeout has elapsed since the last transmission. *)
Lemma step_ack_out : forall cfg F st e r, wf_params (s_blk cfg) (s_ws cfg) ->
  SInv cfg F st -> s_phase st = SInWindow ->
  receive max_request_packet_size e = RPacket (Ack r) ->
  ~ (wsub16 r (s_bn st) < lenN (w_elems (s_w st))) ->
  send_step cfg st e = s_inner_top cfg (with_since st (ev_delay e)).
Proof.
  intros cfg F st e r Hwf Hi Hp Hr Hout. unfold send_step. rewrite Hp, Hr.
  cbn [s_bn s_w s_filled s_retry s_since s_nsent s_phase s_abs].
  rewrite (w_len_exact_send _ _ _ Hwf (proj1 Hi)).
  destruct (N.ltb_spec (wsub16 r (s_bn st)) (lenN (w_elems (s_w st)))) as [X|_]; [lia|].
  unfold with_since. rewrite Hp. reflexivity.
Qed.

(** A failed receive attempt (timeout, I/O error, undecodable or unexpected datagram). *)
Definition is_failed_attempt (r : rcv) : Prop :=
  match r with
  | RNone => True
  | RPacket (Ack _) | RPacket (Error _ _) => False
  | RPacket _ => True
  | RPanic => False
  end.

Lemma step_failed_attempt : forall cfg st e, s_phase st = SInWindow ->
  is_failed_attempt (receive max_request_packet_size e) ->
  send_step cfg st e =
    if s_retry st + 1 =? max_retries then (s_done (with_since st (ev_delay e)) OutTimeout, [])
    else s_inner_top cfg (mk_sstate (s_bn st) (s_w st) (s_filled st) (s_retry st + 1) (s_since st + ev_delay e)
                                    (s_nsent st) SInWindow (s_abs st)).
Proof.
  intros cfg st e Hp Hf. unfold send_step. rewrite Hp.
  cbn [s_bn s_w s_filled s_retry s_since s_nsent s_phase s_abs]. unfold with_since. rewrite Hp.
  destruct (receive max_request_packet_size e) as [p| |]; [|reflexivity|contradiction].
  destruct p; try contradiction; reflexivity.
Qed.

(** * Termination (C07, sender side) *)

Theorem send_done_absorbing : forall cfg st e o, s_phase st = SDone o -> send_step cfg st e = (st, []).
Proof. exact step_done. Qed.

Theorem send_error_stops : forall cfg st e c m st' out,
  (forall o, s_phase st <> SDone o) ->
  receive max_request_packet_size e = RPacket (Error c m) ->
  send_step cfg st e = (st', out) -> out = [] /\ s_phase st' = SDone OutPeer.
Proof.
  intros cfg st e c m st' out Hnd Hr H. unfold send_step in H. rewrite Hr in H.
  destruct (s_phase st) eqn:Hp; [| |exfalso; eapply Hnd; reflexivity]; inversion H; split; reflexivity.
Qed.

(** A rejected option acknowledgement (ERROR, non-zero ACK, failed receive): no DATA is ever sent. *)
Theorem send_oack_refusal_stops : forall cfg st e st' out,
  s_phase st = SAwaitOack ->
  (receive max_request_packet_size e = RNone \/
   (exists c m, receive max_request_packet_size e = RPacket (Error c m)) \/
   (exists n, n <> 0 /\ receive max_request_packet_size e = RPacket (Ack n))) ->
  send_step cfg st e = (st', out) ->
  (exists o, s_phase st' = SDone o) /\ data_packets out = [].
Proof.
  intros cfg st e st' out Hp Hr H. unfold send_step in H. rewrite Hp in H.
  destruct Hr as [Hr|[(c & m & Hr)|(n & Hn & Hr)]]; rewrite Hr in H.
  - inversion H; subst. split; [eexists; reflexivity|reflexivity].
  - inversion H; subst. split; [eexists; reflexivity|reflexivity].
  - destruct (N.eqb_spec n 0); [contradiction|]. inversion H; subst. split; [eexists; reflexivity|reflexivity].
Qed.

(** In a window of at most 65535 blocks the 16-bit distance of an in-window block number
    from the window front is its true distance. *)
Lemma wsub16_in_window : forall abs j len, abs <= j < abs + len -> len <= 65535 ->
  wsub16 (j mod 65536) (abs mod 65536) = j - abs.
Proof. intros abs j len Hj Hl. unfold wsub16. lia. Qed.

(** The ACK of the final block ends the transfer at once, silently. *)
Theorem send_final_ack_ends : forall cfg F st e r j, wf_params (s_blk cfg) (s_ws cfg) ->
  SInv cfg F st -> s_phase st = SInWindow ->
  receive max_request_packet_size e = RPacket (Ack r) ->
  s_abs st <= j < s_abs st + lenN (w_elems (s_w st)) -> j mod 65536 = r -> j = nblk (s_blk cfg) F ->
  exists st', send_step cfg st e = (st', []) /\ s_phase st' = SDone OutOk.
Proof.
  intros cfg F st e r j Hwf Hi Hp Hr Hj Hjr Hjn.
  destruct Hi as [Hc Hi2]. pose proof Hc as (A & B & C & D & E & G & I & J & K & L).
  destruct Hwf as (Hb & Hw1 & Hw2).
  assert (Hd : wsub16 r (s_bn st) = j - s_abs st) by (rewrite <- Hjr, E; eapply wsub16_in_window; [eassumption|lia]).
  destruct (step_ack_in cfg F st e r (conj Hb (conj Hw1 Hw2)) (conj Hc Hi2) Hp Hr ltac:(lia))
    as (w' & Hrm & Hel & Hc2 & Hstep).
  rewrite Hstep. assert (Hf : s_filled st = false) by (destruct (s_filled st); [lia|reflexivity]).
  rewrite Hf in *. assert (He : w_is_empty w' = true).
  { apply w_is_empty_iff. apply lenN_0_nil. rewrite Hel, lenN_dropN. lia. }
  rewrite He. cbn [negb andb]. eexists. split; reflexivity.
Qed.

(** ... and success is reached in no other way: only the step that accepts an ACK whose
    number names the final block, with the final block in the window, ends in success. *)
Theorem send_ok_only_by_final_ack : forall cfg F st e st' out, wf_params (s_blk cfg) (s_ws cfg) ->
  SInv cfg F st -> s_phase st <> SDone OutOk ->
  send_step cfg st e = (st', out) -> s_phase st' = SDone OutOk ->
  out = [] /\ exists r, receive max_request_packet_size e = RPacket (Ack r) /\
    s_abs st <= nblk (s_blk cfg) F < s_abs st + lenN (w_elems (s_w st)) /\
    nblk (s_blk cfg) F mod 65536 = r mod 65536.
Proof.
  intros cfg F st e st' out Hwf Hi Hno H Hok.
  assert (Hinner : forall sa sb o, s_phase sa <> SDone OutOk -> s_inner_top cfg sa = (sb, o) ->
             s_phase sb <> SDone OutOk).
  { intros sa sb o Hn Hs. destruct (inner_top_fields _ _ _ _ Hs) as (_ & _ & _ & _ & _ & [E|E]); rewrite E;
      [exact Hn|discriminate]. }
  assert (Houter : forall sa sb o, s_outer_top cfg sa = (sb, o) -> s_phase sb <> SDone OutOk).
  { intros sa sb o Hs. unfold s_outer_top in Hs. destruct (s_filled sa).
    - destruct (fill (s_w sa)) as [[w' full]|err]; [|inversion Hs; discriminate].
      eapply Hinner; [|exact Hs]. discriminate.
    - eapply Hinner; [|exact Hs]. discriminate. }
  destruct (s_phase st) eqn:Hp.
  - (* SAwaitOack: ends in success never *)
    exfalso. unfold send_step in H. rewrite Hp in H.
    destruct (receive max_request_packet_size e) as [p| |]; try (inversion H; subst; discriminate).
    destruct p as [f m os|f m os|n d|n|c m|os]; try (eapply Houter; eassumption).
    + destruct (n =? 0); [eapply Houter; eassumption|]. inversion H; subst. cbn [s_phase] in Hok.
      destruct (memN _ _); discriminate.
    + inversion H; subst. discriminate.
  - destruct (receive max_request_packet_size e) as [p| |] eqn:Hr.
    + destruct p as [f m os|f m os|n d|r|c m|os];
        try (exfalso; rewrite step_failed_attempt in H by (rewrite ?Hr; auto; exact I);
             destruct (s_retry st + 1 =? max_retries); [inversion H; subst; discriminate|eapply Hinner; [|exact H|exact Hok]; discriminate]).
      * (* ACK *)
        destruct (N.lt_ge_cases (wsub16 r (s_bn st)) (lenN (w_elems (s_w st)))) as [Hin|Hout].
        -- destruct (step_ack_in cfg F st e r Hwf Hi Hp Hr Hin) as (w' & Hrm & Hel & Hc2 & Hstep).
           rewrite Hstep in H.
           destruct (negb (s_filled st) && w_is_empty w') eqn:Hend; [|exfalso; eapply Houter; eassumption].
           inversion H; subst. split; [reflexivity|]. exists r. split; [reflexivity|].
           apply andb_true_iff in Hend. destruct Hend as [Hf He].
           apply negb_true_iff in Hf. apply w_is_empty_iff in He.
           destruct Hi as [(A & B & C & D & E & G & I & J & K & L) _]. rewrite Hf in K.
           assert (Hl : lenN (w_elems w') = 0) by (rewrite He; reflexivity).
           rewrite Hel, lenN_dropN in Hl. destruct Hwf as (Hb & Hw1 & Hw2).
           split; [lia|]. unfold wsub16 in *. rewrite E in *. lia.
        -- exfalso. rewrite (step_ack_out cfg F st e r Hwf Hi Hp Hr) in H by lia.
           eapply Hinner; [|exact H|exact Hok]. cbn [with_since s_phase]. rewrite Hp. discriminate.
      * exfalso. unfold send_step in H. rewrite Hp, Hr in H. inversion H; subst. discriminate.
    + exfalso. rewrite step_failed_attempt in H by (rewrite ?Hr; auto; exact I).
      destruct (s_retry st + 1 =? max_retries); [inversion H; subst; discriminate|eapply Hinner; [|exact H|exact Hok]; discriminate].
    + exfalso. unfold send_step in H. rewrite Hp, Hr in H. inversion H; subst. discriminate.
  - rewrite (step_done _ _ _ _ Hp) in H. inversion H; subst. congruence.
Qed.

Lemma send_window_nofail_ok : forall rep win bn nsent o n ok,
  send_window [] rep bn win nsent = (o, n, ok) -> ok = true.
Proof.
  intros rep win. induction win as [|c r IH]; intros bn nsent o n ok H; cbn [send_window] in H.
  - inversion H. reflexivity.
  - rewrite send_packet_nofail in H.
    destruct (send_window [] rep (wadd16 bn 1) r (nsent + rep)) as [[o2 n2] ok2] eqn:E.
    inversion H; subst. eapply IH. exact E.
Qed.

(** A silent peer: at every point of every transfer the sender gives up after at
    most [max_retries - retry] further failed receives. *)
Theorem send_silence_bounded : forall cfg n st d,
  s_phase st = SInWindow -> s_retry st < max_retries ->
  max_retries - s_retry st <= N.of_nat n ->
  exists o, s_phase (fst (send_steps cfg st (repeat (EvFail d) n))) = SDone o /\
            (s_fails cfg = [] -> o = OutTimeout).
Proof.
  intros cfg n. induction n as [|n IH]; intros st d Hp Hr Hn; [lia|].
  cbn [repeat send_steps].
  destruct (send_step cfg st (EvFail d)) as [st1 out] eqn:E1.
  destruct (send_steps cfg st1 (repeat (EvFail d) n)) as [st2 outs] eqn:E2. cbn [fst].
  replace st2 with (fst (send_steps cfg st1 (repeat (EvFail d) n))) by (rewrite E2; reflexivity).
  assert (Hdone : forall o, s_phase st1 = SDone o ->
            s_phase (fst (send_steps cfg st1 (repeat (EvFail d) n))) = SDone o).
  { intros o Ho. clear -Ho. induction n as [|n IHn]; cbn [repeat send_steps]; [exact Ho|].
    rewrite (step_done _ _ _ _ Ho). destruct (send_steps cfg st1 (repeat (EvFail d) n)) as [a b] eqn:E.
    cbn [fst] in *. exact IHn. }
  rewrite step_failed_attempt in E1 by (auto; exact I).
  destruct (N.eqb_spec (s_retry st + 1) max_retries) as [Eq|Ne].
  - inversion E1; subst. exists OutTimeout. split; [apply Hdone; reflexivity|auto].
  - destruct (inner_top_fields _ _ _ _ E1) as (_ & _ & _ & F4 & _ & F6). cbn [s_retry s_phase] in F4, F6.
    destruct F6 as [F6|F6].
    + apply IH; [exact F6|lia|lia].
    + exists OutSendFail. split; [apply Hdone; exact F6|].
      intros Hnf. exfalso. unfold s_inner_top in E1. cbn [s_since s_bn s_w s_nsent s_filled s_retry s_phase s_abs] in E1.
      match type of E1 with context[if ?c then _ else _] => destruct c end.
      * rewrite Hnf in E1.
        destruct (send_window [] (s_rep cfg) (s_bn st) (w_elems (s_w st)) (s_nsent st)) as [[o n1] ok] eqn:W.
        rewrite (send_window_nofail_ok _ _ _ _ _ _ _ W) in E1. inversion E1; subst. discriminate.
      * inversion E1; subst. discriminate.
Qed.

(** No panic, no window misuse, no file error in any reachable step. *)
Theorem send_step_no_internal_error : forall cfg F st e st', wf_params (s_blk cfg) (s_ws cfg) ->
  SInv cfg F st -> (forall o, s_phase st <> SDone o) -> st' = fst (send_step cfg st e) ->
  receive max_request_packet_size e <> RPanic ->
  s_phase st' <> SDone OutPanic /\ s_phase st' <> SDone OutWinRemove /\
  s_phase st' <> SDone OutWinAdd /\ s_phase st' <> SDone OutIo.
Proof.
  intros cfg F st e st' Hwf Hi Hnd -> Hnp.
  set (bad := fun o => o = OutPanic \/ o = OutWinRemove \/ o = OutWinAdd \/ o = OutIo).
  assert (Hgoal : forall sb, (forall o, s_phase sb = SDone o -> ~ bad o) ->
            s_phase sb <> SDone OutPanic /\ s_phase sb <> SDone OutWinRemove /\
            s_phase sb <> SDone OutWinAdd /\ s_phase sb <> SDone OutIo).
  { intros sb Hb. unfold bad in Hb. repeat split; intros X; eapply Hb; eauto. }
  apply Hgoal.
  assert (Hinner : forall sa sb o, (forall o, s_phase sa = SDone o -> ~ bad o) -> s_inner_top cfg sa = (sb, o) ->
             forall o, s_phase sb = SDone o -> ~ bad o).
  { intros sa sb o Hn Hs o' Ho. destruct (inner_top_fields _ _ _ _ Hs) as (_ & _ & _ & _ & _ & [E|E]).
    - apply Hn. rewrite <- E. exact Ho.
    - rewrite E in Ho. inversion Ho; subst. unfold bad. intuition discriminate. }
  assert (Houter : forall sa sb o, SCore cfg F sa -> s_outer_top cfg sa = (sb, o) ->
             forall o, s_phase sb = SDone o -> ~ bad o).
  { intros sa sb o Hc Hs. unfold s_outer_top in Hs. destruct (s_filled sa) eqn:Hf.
    - destruct (fill_send _ _ _ Hwf Hc Hf) as (w' & full & Fl & _). rewrite Fl in Hs.
      eapply Hinner; [|exact Hs]. intros o' Ho'. discriminate.
    - eapply Hinner; [|exact Hs]. intros o' Ho'. discriminate. }
  destruct (send_step cfg st e) as [st' out] eqn:H. cbn [fst].
  destruct (s_phase st) eqn:Hp; [| |exfalso; eapply Hnd; reflexivity].
  - unfold send_step in H. rewrite Hp in H.
    destruct (receive max_request_packet_size e) as [p| |]; [| |congruence].
    + destruct p as [f m os|f m os|n d|n|c m|os]; try (eapply Houter; [exact (proj1 Hi)|exact H]).
      * destruct (n =? 0); [eapply Houter; [exact (proj1 Hi)|exact H]|].
        inversion H; subst. intros o Ho. cbn [s_phase] in Ho. unfold bad.
        destruct (memN _ _); inversion Ho; subst; intuition discriminate.
      * inversion H; subst. intros o Ho. inversion Ho; subst. unfold bad. intuition discriminate.
    + inversion H; subst. intros o Ho. inversion Ho; subst. unfold bad. intuition discriminate.
  - destruct (receive max_request_packet_size e) as [p| |] eqn:Hr; [| |congruence].
    + destruct p as [f m os|f m os|n d|r|c m|os];
        try (rewrite step_failed_attempt in H by (rewrite ?Hr; auto; exact I);
             destruct (s_retry st + 1 =? max_retries);
             [inversion H; subst; intros o Ho; inversion Ho; subst; unfold bad; intuition discriminate
             |eapply Hinner; [|exact H]; intros o Ho; discriminate]).
      * destruct (N.lt_ge_cases (wsub16 r (s_bn st)) (lenN (w_elems (s_w st)))) as [Hin|Hout].
        -- destruct (step_ack_in cfg F st e r Hwf Hi Hp Hr Hin) as (w' & Hrm & Hel & Hc2 & Hstep).
           rewrite Hstep in H. destruct (negb (s_filled st) && w_is_empty w').
           ++ inversion H; subst. intros o Ho. inversion Ho; subst. unfold bad. intuition discriminate.
           ++ eapply Houter; [exact Hc2|exact H].
        -- rewrite (step_ack_out cfg F st e r Hwf Hi Hp Hr) in H by lia.
           eapply Hinner; [|exact H]. intros o Ho. cbn [with_since s_phase] in Ho. congruence.
      * unfold send_step in H. rewrite Hp, Hr in H. inversion H; subst.
        intros o Ho. inversion Ho; subst. unfold bad. intuition discriminate.
    + rewrite step_failed_attempt in H by (rewrite ?Hr; auto; exact I).
      destruct (s_retry st + 1 =? max_retries);
        [inversion H; subst; intros o Ho; inversion Ho; subst; unfold bad; intuition discriminate
        |eapply Hinner; [|exact H]; intros o Ho; discriminate].
Qed.

(** * Flow control (C08) and attribution of ACK numbers (C15) *)

(** An ACK number is accepted iff it names a block of the window; that block is unique:
    no acknowledgement is ever attributed to a block 65536 positions away. *)
Theorem ack_attribution_unique : forall cfg F st r, wf_params (s_blk cfg) (s_ws cfg) ->
  SCore cfg F st -> r < 65536 ->
  let diff := wsub16 r (s_bn st) in
  (diff < lenN (w_elems (s_w st)) -> (s_abs st + diff) mod 65536 = r) /\
  (forall j, s_abs st <= j < s_abs st + lenN (w_elems (s_w st)) -> j mod 65536 = r ->
             j = s_abs st + diff /\ diff < lenN (w_elems (s_w st))).
Proof.
  intros cfg F st r (Hb & Hw1 & Hw2) (A & B & C & D & E & G & I & J & K & L) Hr diff.
  subst diff. unfold wsub16. rewrite E. split.
  - intros Hd. lia.
  - intros j Hj Hm. lia.
Qed.

(** Acknowledgements are cumulative: an accepted ACK for block [abs + diff] moves the
    window front to the block after it, and the 16-bit counter follows. *)
Theorem acks_cumulative : forall cfg F st e r st' out, wf_params (s_blk cfg) (s_ws cfg) ->
  SInv cfg F st -> s_phase st = SInWindow ->
  receive max_request_packet_size e = RPacket (Ack r) ->
  wsub16 r (s_bn st) < lenN (w_elems (s_w st)) ->
  send_step cfg st e = (st', out) ->
  s_abs st' = s_abs st + wsub16 r (s_bn st) + 1 /\ s_bn st' = s_abs st' mod 65536.
Proof.
  intros cfg F st e r st' out Hwf Hi Hp Hr Hin H.
  destruct (step_ack_in cfg F st e r Hwf Hi Hp Hr Hin) as (w' & Hrm & Hel & Hc2 & Hstep).
  rewrite Hstep in H. pose proof Hc2 as (_ & _ & _ & _ & E2 & _). cbn [s_bn s_abs] in E2.
  destruct (negb (s_filled st) && w_is_empty w') eqn:Hend.
  - inversion H; subst. cbn [s_done s_set_phase s_abs s_bn]. split; [reflexivity|exact E2].
  - destruct (outer_top_spec cfg F _ st' out Hwf Hc2) as (_ & _ & E5 & E1 & _); try exact H.
    + intros _. cbn [s_w]. rewrite Hel, lenN_dropN. destruct Hi as [(_ & _ & _ & _ & _ & G & _) _]. lia.
    + cbn [s_filled s_w]. intros Hf. rewrite Hf in Hend. cbn [negb andb] in Hend.
      intros Hnil. apply w_is_empty_iff in Hnil. congruence.
    + cbn [s_abs s_bn] in E5, E1. rewrite E5, E1. split; [reflexivity|exact E2].
Qed.

(** A duplicate, stale or foreign ACK inside the timeout is inert: nothing is sent,
    nothing changes but the clock reading - for every window size up to 65535.  In
    particular it neither triggers a retransmission nor ends the transfer nor counts
    as a failed attempt. *)
Theorem stale_ack_is_inert : forall cfg F st e r, wf_params (s_blk cfg) (s_ws cfg) ->
  SInv cfg F st -> s_phase st = SInWindow ->
  receive max_request_packet_size e = RPacket (Ack r) ->
  ~ (wsub16 r (s_bn st) < lenN (w_elems (s_w st))) ->
  s_since st + ev_delay e < s_tmo cfg ->
  send_step cfg st e = (with_since st (ev_delay e), []).
Proof.
  intros cfg F st e r Hwf Hi Hp Hr Hout Ht.
  rewrite (step_ack_out cfg F st e r Hwf Hi Hp Hr Hout). unfold s_inner_top. cbn [with_since s_since].
  destruct (N.leb_spec (s_tmo cfg) (s_since st + ev_delay e)); [lia|reflexivity].
Qed.

(** A burst has exactly two possible causes: an accepted ACK, or the timeout elapsed
    since the last transmission. *)
Theorem burst_causes : forall cfg F st e st' out, wf_params (s_blk cfg) (s_ws cfg) ->
  SInv cfg F st -> s_phase st = SInWindow ->
  send_step cfg st e = (st', out) -> out <> [] ->
  (exists r, receive max_request_packet_size e = RPacket (Ack r) /\
             wsub16 r (s_bn st) < lenN (w_elems (s_w st)))
  \/ s_tmo cfg <= s_since st + ev_delay e.
Proof.
  intros cfg F st e st' out Hwf Hi Hp H Hne.
  assert (Hinner : forall sa sb o, s_since sa = s_since st + ev_delay e -> s_inner_top cfg sa = (sb, o) -> o <> [] ->
            s_tmo cfg <= s_since st + ev_delay e).
  { intros sa sb o Hs Hi2 Ho. unfold s_inner_top in Hi2. rewrite Hs in Hi2.
    destruct (N.leb_spec (s_tmo cfg) (s_since st + ev_delay e)); [assumption|]. inversion Hi2; subst. congruence. }
  destruct (receive max_request_packet_size e) as [p| |] eqn:Hr.
  - destruct p as [f m os|f m os|n d|r|c m|os];
      try (right; rewrite step_failed_attempt in H by (rewrite ?Hr; auto; exact I);
           destruct (s_retry st + 1 =? max_retries); [inversion H; subst; congruence|];
           eapply Hinner; [|exact H|exact Hne]; reflexivity).
    + destruct (N.lt_ge_cases (wsub16 r (s_bn st)) (lenN (w_elems (s_w st)))) as [Hin|Hout].
      * left. exists r. split; [reflexivity|exact Hin].
      * right. rewrite (step_ack_out cfg F st e r Hwf Hi Hp Hr) in H by lia.
        eapply Hinner; [|exact H|exact Hne]. reflexivity.
    + exfalso. unfold send_step in H. rewrite Hp, Hr in H. inversion H; subst. congruence.
  - right. rewrite step_failed_attempt in H by (rewrite ?Hr; auto; exact I).
    destruct (s_retry st + 1 =? max_retries); [inversion H; subst; congruence|].
    eapply Hinner; [|exact H|exact Hne]. reflexivity.
  - exfalso. unfold send_step in H. rewrite Hp, Hr in H. inversion H; subst. congruence.
Qed.

(** Only a failed receive attempt increments the retry counter; an accepted ACK resets it. *)
Theorem retry_counts_failures : forall cfg F st e st' out, wf_params (s_blk cfg) (s_ws cfg) ->
  SInv cfg F st -> s_phase st = SInWindow -> send_step cfg st e = (st', out) ->
  (forall o, s_phase st' <> SDone o) ->
  (is_failed_attempt (receive max_request_packet_size e) -> s_retry st' = s_retry st + 1) /\
  (forall r, receive max_request_packet_size e = RPacket (Ack r) ->
     if wsub16 r (s_bn st) <? lenN (w_elems (s_w st)) then s_retry st' = 0 else s_retry st' = s_retry st).
Proof.
  intros cfg F st e st' out Hwf Hi Hp H Hnd. split.
  - intros Hf. rewrite step_failed_attempt in H by assumption.
    destruct (s_retry st + 1 =? max_retries); [inversion H; subst; exfalso; eapply Hnd; reflexivity|].
    destruct (inner_top_fields _ _ _ _ H) as (_ & _ & _ & F4 & _). exact F4.
  - intros r Hr. destruct (N.ltb_spec (wsub16 r (s_bn st)) (lenN (w_elems (s_w st)))) as [Hin|Hout].
    + destruct (step_ack_in cfg F st e r Hwf Hi Hp Hr Hin) as (w' & Hrm & Hel & Hc2 & Hstep).
      rewrite Hstep in H. destruct (negb (s_filled st) && w_is_empty w') eqn:Hend.
      * inversion H; subst. exfalso. eapply Hnd. reflexivity.
      * destruct (outer_top_spec cfg F _ st' out Hwf Hc2) as (_ & _ & _ & _ & _ & _ & R0 & _); try exact H; [| |exact R0].
        -- intros _. cbn [s_w]. rewrite Hel, lenN_dropN. destruct Hi as [(_ & _ & _ & _ & _ & G & _) _]. lia.
        -- cbn [s_filled s_w]. intros Hf. rewrite Hf in Hend. cbn [negb andb] in Hend.
           intros Hnil. apply w_is_empty_iff in Hnil. congruence.
    + rewrite (step_ack_out cfg F st e r Hwf Hi Hp Hr) in H by lia.
      destruct (inner_top_fields _ _ _ _ H) as (_ & _ & _ & F4 & _). exact F4.
Qed.

(** * The reference client never assembles a corrupted copy (C01, second sentence) *)

Definition dgram (blk : N) (F : bytes) (k : N) : N * bytes := (k mod 65536, chunk blk F k).

(** Datagram-lifetime condition inherent in 16-bit block numbers: a block that arrives
    while the client expects block [e] is less than 65536 blocks away from [e].  (It
    constrains the network, not the server, and is vacuous for files of at most 65536 blocks.) *)
Fixpoint fresh (blk : N) (F : bytes) (e : N) (ks : list N) : Prop :=
  match ks with
  | [] => True
  | k :: r => 1 <= k <= nblk blk F /\ k < e + 65536 /\ e < k + 65536 /\
              if k =? e then (if lenN (chunk blk F k) <? blk then True else fresh blk F (e + 1) r)
              else fresh blk F e r
  end.

Lemma chunk_append : forall blk F e, 1 <= e ->
  takeN ((e - 1) * blk) F ++ chunk blk F e = takeN (e * blk) F.
Proof.
  intros blk F e He. pose proof (chunks_prefix blk F 1 e He) as H. cbn [chunks_from concat] in H.
  rewrite app_nil_r in H. rewrite H. f_equal. f_equal. lia.
Qed.

Theorem client_copy_exact_gen : forall blk F ks e acc, 0 < blk -> 1 <= e <= nblk blk F ->
  acc = takeN ((e - 1) * blk) F -> fresh blk F e ks ->
  forall acc' done, ref_client blk e acc (map (dgram blk F) ks) = (acc', done) ->
  (done = true -> acc' = F) /\ (exists m, acc' = takeN m F).
Proof.
  intros blk F ks. induction ks as [|k r IH]; intros e acc Hb He Hacc Hf acc' done H; cbn [map ref_client] in H.
  - inversion H; subst. split; [discriminate|eexists; reflexivity].
  - cbn [fresh] in Hf. destruct Hf as (Hk & Hk1 & Hk2 & Hf). unfold dgram in H at 1.
    destruct (N.eqb_spec (k mod 65536) (e mod 65536)) as [Em|Em].
    + assert (k = e) by lia. subst k. rewrite N.eqb_refl in Hf.
      destruct (N.ltb_spec (lenN (chunk blk F e)) blk) as [Hs|Hfull].
      * inversion H; subst. assert (e = nblk blk F) by (pose proof (chunk_short_last blk F e Hb ltac:(lia) Hs); lia).
        subst e. rewrite chunk_append by lia.
        assert (HF : takeN (nblk blk F * blk) F = F).
        { apply takeN_all. assert (Hn : ~ (nblk blk F < nblk blk F)) by lia.
          rewrite lt_nblk_iff in Hn by assumption. lia. }
        rewrite HF. split; [reflexivity|]. exists (lenN F). symmetry. apply takeN_all. lia.
      * assert (e < nblk blk F).
        { destruct (N.eq_dec e (nblk blk F)) as [->|]; [|lia]. pose proof (chunk_last_short blk F Hb). lia. }
        eapply (IH (e + 1)); [exact Hb|lia| |exact Hf|exact H].
        rewrite Hacc, chunk_append by lia. f_equal. f_equal. lia.
    + destruct (N.eqb_spec k e) as [->|Ne]; [congruence|].
      eapply (IH e); eassumption.
Qed.

Lemma fresh_small : forall blk F ks e, 0 < blk -> nblk blk F <= 65536 ->
  Forall (fun k => 1 <= k <= nblk blk F) ks -> 1 <= e <= nblk blk F -> fresh blk F e ks.
Proof.
  intros blk F ks. induction ks as [|k r IH]; intros e Hb Hn Hks He; [exact I|].
  inversion Hks as [|? ? Hk Hr]; subst. cbn [fresh]. split; [exact Hk|]. split; [lia|]. split; [lia|].
  destruct (N.eqb_spec k e) as [->|Ne]; [|apply IH; assumption].
  destruct (N.ltb_spec (lenN (chunk blk F e)) blk) as [Hs|Hfull]; [exact I|].
  apply IH; try assumption.
  destruct (N.eq_dec e (nblk blk F)) as [->|]; [|lia]. pose proof (chunk_last_short blk F Hb). lia.
Qed.

Lemma arrivals_as_indices : forall blk F (arrivals : list (N * bytes)),
  Forall (fun a => exists k, 1 <= k <= nblk blk F /\ fst a = k mod 65536 /\ snd a = chunk blk F k) arrivals ->
  exists ks, arrivals = map (dgram blk F) ks /\ Forall (fun k => 1 <= k <= nblk blk F) ks.
Proof.
  intros blk F arrivals H. induction H as [|a l (k & Hk & H1 & H2) _ (ks & -> & Hks)].
  - exists []. split; [reflexivity|constructor].
  - exists (k :: ks). split; [|constructor; assumption]. cbn [map]. f_equal.
    destruct a as [n p]. cbn [fst snd] in *. subst. reflexivity.
Qed.

(** Arrivals drawn - in any order, with any multiplicity and any omissions - from
    datagrams [(k mod 65536, chunk k)], [1 <= k <= nblk], for a file of at most 65536
    blocks (no block number is reused, so no lifetime assumption is needed): the copy
    is the file when completed, and always a prefix of it. *)
Theorem client_copy_exact : forall blk F arrivals, 0 < blk -> nblk blk F <= 65536 ->
  Forall (fun a => exists k, 1 <= k <= nblk blk F /\ fst a = k mod 65536 /\ snd a = chunk blk F k) arrivals ->
  forall acc done, ref_client blk 1 [] arrivals = (acc, done) ->
  (done = true -> acc = F) /\ (exists m, acc = takeN m F).
Proof.
  intros blk F arrivals Hb Hn Ha acc done H.
  destruct (arrivals_as_indices _ _ _ Ha) as (ks & -> & Hks).
  eapply (client_copy_exact_gen blk F ks 1 []); try eassumption.
  - pose proof (nblk_pos blk F). lia.
  - reflexivity.
  - apply fresh_small; try assumption. pose proof (nblk_pos blk F). lia.
Qed.

(** C01, second sentence, end to end: whatever the peer acknowledges ([evs] arbitrary)
    and whatever the network does to the emitted DATA datagrams (any sub-multiset in any
    order), a client reassembling in-order blocks ends with the file or with a prefix. *)
Theorem download_never_corrupted : forall cfg F evs st outs arrivals, wf_params (s_blk cfg) (s_ws cfg) ->
  nblk (s_blk cfg) F <= 65536 ->
  run_send cfg F evs = (st, outs) ->
  Forall (fun a => exists burst s, In burst outs /\ In s burst /\ s_pk s = Data (fst a) (snd a)) arrivals ->
  forall acc done, ref_client (s_blk cfg) 1 [] arrivals = (acc, done) ->
  (done = true -> acc = F) /\ (exists m, acc = takeN m F).
Proof.
  intros cfg F evs st outs arrivals Hwf Hn Hrun Ha acc done H.
  eapply client_copy_exact; [exact (proj1 Hwf)|exact Hn| |exact H].
  eapply Forall_impl; [|exact Ha]. intros a (burst & s & Hb & Hs & Hp).
  eapply send_data_is_slice; eassumption.
Qed.

(** * The timer drives recovery (C04's mechanism, the "if" direction of [burst_causes])

    Once the timeout has elapsed since the last transmission, a receive that brings no progress - a
    failed attempt inside the retry budget, or an acknowledgement outside the window - is followed by
    the whole window again: every block of it, in order, [rep] times each, and the timer restarts. *)
Lemma inner_top_fires_gen : forall cfg F st, s_fails cfg = [] -> SCore cfg F st -> s_tmo cfg <= s_since st ->
  s_inner_top cfg st =
    (mk_sstate (s_bn st) (s_w st) (s_filled st) (s_retry st) 0 (s_nsent st + s_rep cfg * lenN (w_elems (s_w st)))
               (s_phase st) (s_abs st),
     window_tx (N.to_nat (s_rep cfg)) (s_abs st) (w_elems (s_w st))).
Proof.
  intros cfg F st Hsf Hc Ht. unfold s_inner_top. destruct (N.leb_spec (s_tmo cfg) (s_since st)); [|lia].
  destruct Hc as (_ & _ & _ & _ & Hbn & _). rewrite Hsf, Hbn, send_window_nofail. reflexivity.
Qed.

Theorem timer_drives_recovery : forall cfg F st e st' out, wf_params (s_blk cfg) (s_ws cfg) -> s_fails cfg = [] ->
  SInv cfg F st -> s_phase st = SInWindow -> send_step cfg st e = (st', out) ->
  s_tmo cfg <= s_since st + ev_delay e ->
  ((is_failed_attempt (receive max_request_packet_size e) /\ s_retry st + 1 <> max_retries) \/
   (exists r, receive max_request_packet_size e = RPacket (Ack r) /\ ~ (wsub16 r (s_bn st) < lenN (w_elems (s_w st))))) ->
  out = window_tx (N.to_nat (s_rep cfg)) (s_abs st) (w_elems (s_w st)) /\ w_elems (s_w st) <> [] /\
  s_since st' = 0 /\ s_phase st' = SInWindow /\ s_w st' = s_w st /\ s_abs st' = s_abs st.
Proof.
  intros cfg F st e st' out Hwf Hsf Hi Hp E Ht Hcase.
  pose proof Hi as [Hc [_ Hne]]. specialize (Hne Hp).
  destruct Hcase as [[Hf Hr]|(r & Hr & Hout)].
  - rewrite step_failed_attempt in E by assumption.
    destruct (N.eqb_spec (s_retry st + 1) max_retries) as [Heq|_]; [contradiction|].
    rewrite (inner_top_fires_gen cfg F) in E.
    + inversion E; subst. cbn [s_since s_phase s_w s_abs]. repeat split; auto.
    + exact Hsf.
    + eapply SCore_ext; [..|exact Hc]; try reflexivity. cbn [s_retry].
      destruct Hc as (_ & _ & _ & _ & _ & _ & _ & _ & _ & L). pose proof max_retries_pos. lia.
    + cbn [s_since]. lia.
  - rewrite (step_ack_out cfg F st e r Hwf Hi Hp Hr Hout) in E.
    rewrite (inner_top_fires_gen cfg F) in E.
    + inversion E; subst. cbn [with_since s_since s_phase s_w s_abs]. repeat split; auto.
    + exact Hsf.
    + apply with_since_inv with (d := ev_delay e) in Hi. exact (proj1 Hi).
    + cbn [with_since s_since]. lia.
Qed.
