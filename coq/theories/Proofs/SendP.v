(** Proofs about the sending loop ([Worker::send_file]): C01, C07, C08, C15 (sender side). *)
From Coq Require Import ZArith Lia ZifyBool ZifyNat ZifyN.
From Tftp Require Import Base.Prelude Model.Types Model.Consts Model.Codec Model.Window Model.Worker Model.Spec
  Proofs.ListAux Proofs.CodecP.
Local Open Scope N_scope.

(** * Blocks of a file *)

Theorem chunk_full : forall blk F k, 0 < blk -> 1 <= k -> k < nblk blk F -> lenN (chunk blk F k) = blk.
Admitted.

Theorem chunk_last : forall blk F, 0 < blk -> lenN (chunk blk F (nblk blk F)) = lenN F mod blk.
Admitted.

Theorem chunk_last_short : forall blk F, 0 < blk -> lenN (chunk blk F (nblk blk F)) < blk.
Admitted.

Theorem chunk_beyond : forall blk F k, 0 < blk -> nblk blk F < k -> chunk blk F k = [].
Admitted.

(** The blocks 1..nblk, concatenated, are the file. *)
Theorem chunks_concat : forall blk F, 0 < blk ->
  concat (chunks_from blk F 1 (N.to_nat (nblk blk F))) = F.
Admitted.

(** * The invariant of the sending loop *)

Definition SInv (cfg : scfg) (F : bytes) (st : sstate) : Prop :=
  let w := s_w st in
  let len := lenN (w_elems w) in
  w_size w = s_ws cfg /\ w_chunk w = s_blk cfg /\ f_mode (w_file w) = FRead /\
  1 <= s_abs st /\
  s_bn st = s_abs st mod 65536 /\
  len <= s_ws cfg /\
  w_elems w = chunks_from (s_blk cfg) F (s_abs st) (length (w_elems w)) /\
  f_rest (w_file w) = dropN ((s_abs st + len - 1) * s_blk cfg) F /\
  (if s_filled st then s_abs st + len <= nblk (s_blk cfg) F
   else s_abs st + len = nblk (s_blk cfg) F + 1) /\
  s_retry st < max_retries /\
  (s_phase st = SAwaitOack -> w_elems w = [] /\ s_abs st = 1 /\ s_filled st = true) /\
  (s_phase st = SInWindow -> w_elems w <> []).

Theorem send_init_inv : forall cfg F, wf_params (s_blk cfg) (s_ws cfg) ->
  SInv cfg F (fst (send_init cfg F)).
Admitted.

Theorem send_step_inv : forall cfg F st e, wf_params (s_blk cfg) (s_ws cfg) ->
  SInv cfg F st -> SInv cfg F (fst (send_step cfg st e)).
Admitted.

(** Every state reached by a run satisfies the invariant. *)
Theorem send_run_inv : forall cfg F evs, wf_params (s_blk cfg) (s_ws cfg) ->
  SInv cfg F (fst (run_send cfg F evs)).
Admitted.

(** Under the invariant the u16 length of the window is its true length. *)
Theorem w_len_exact : forall cfg F st, wf_params (s_blk cfg) (s_ws cfg) -> SInv cfg F st ->
  w_len (s_w st) = lenN (w_elems (s_w st)).
Admitted.

(** Blocks in the window are blocks of the file: between 1 and nblk. *)
Theorem window_blocks_valid : forall cfg F st k, wf_params (s_blk cfg) (s_ws cfg) -> SInv cfg F st ->
  s_abs st <= k < s_abs st + lenN (w_elems (s_w st)) -> 1 <= k <= nblk (s_blk cfg) F.
Admitted.

(** * What is emitted (C01) *)

(** A send call made while the window of [st] is current: DATA carries block [k] of
    the window, numbered [k mod 65536], with exactly that block's bytes; the only
    other packet ever sent is the refusal of a bad reply to the OACK. *)
Definition sent_ok (cfg : scfg) (F : bytes) (st : sstate) (s : sent) : Prop :=
  match s_pk s with
  | Data n p => exists k, s_abs st <= k < s_abs st + lenN (w_elems (s_w st)) /\
                          n = k mod 65536 /\ p = chunk (s_blk cfg) F k
  | Error c m => c = EIllegalOperation /\ m = invalid_oack_msg
  | _ => False
  end.

Theorem send_init_output : forall cfg F st out, wf_params (s_blk cfg) (s_ws cfg) ->
  send_init cfg F = (st, out) -> Forall (sent_ok cfg F st) out.
Admitted.

Theorem send_step_output : forall cfg F st e st' out, wf_params (s_blk cfg) (s_ws cfg) ->
  SInv cfg F st -> send_step cfg st e = (st', out) -> Forall (sent_ok cfg F st') out.
Admitted.

(** C01, first sentence, for every file, configuration and event list (ACKs are just
    events: bogus ones included). *)
Theorem send_data_is_slice : forall cfg F evs st outs, wf_params (s_blk cfg) (s_ws cfg) ->
  run_send cfg F evs = (st, outs) ->
  forall burst s n p, In burst outs -> In s burst -> s_pk s = Data n p ->
  exists k, 1 <= k <= nblk (s_blk cfg) F /\ n = k mod 65536 /\ p = chunk (s_blk cfg) F k.
Admitted.

(** Shape of a burst when no send call fails: nothing, or one transmission of the
    whole current window in order, each block [rep] times. *)
Theorem send_step_burst_shape : forall cfg F st e st' out, wf_params (s_blk cfg) (s_ws cfg) ->
  s_fails cfg = [] -> SInv cfg F st -> send_step cfg st e = (st', out) ->
  out = [] \/ out = window_tx (N.to_nat (s_rep cfg)) (s_abs st') (w_elems (s_w st'))
  \/ (s_phase st = SAwaitOack /\ out = [mk_sent (Error EIllegalOperation invalid_oack_msg) false]).
Admitted.

(** * Termination (C07, sender side) *)

Theorem send_done_absorbing : forall cfg st e o, s_phase st = SDone o -> send_step cfg st e = (st, []).
Admitted.

Theorem send_error_stops : forall cfg st e c m st' out,
  (forall o, s_phase st <> SDone o) ->
  receive max_request_packet_size e = RPacket (Error c m) ->
  send_step cfg st e = (st', out) -> out = [] /\ s_phase st' = SDone OutPeer.
Admitted.

(** A rejected option acknowledgement (ERROR, non-zero ACK, failed receive): no DATA is ever sent. *)
Theorem send_oack_refusal_stops : forall cfg st e st' out,
  s_phase st = SAwaitOack ->
  (receive max_request_packet_size e = RNone \/
   (exists c m, receive max_request_packet_size e = RPacket (Error c m)) \/
   (exists n, n <> 0 /\ receive max_request_packet_size e = RPacket (Ack n))) ->
  send_step cfg st e = (st', out) ->
  (exists o, s_phase st' = SDone o) /\ data_packets out = [].
Admitted.

(** The ACK of the final block ends the transfer at once, silently. *)
Theorem send_final_ack_ends : forall cfg F st e r j, wf_params (s_blk cfg) (s_ws cfg) ->
  SInv cfg F st -> s_phase st = SInWindow ->
  receive max_request_packet_size e = RPacket (Ack r) ->
  s_abs st <= j < s_abs st + lenN (w_elems (s_w st)) -> j mod 65536 = r -> j = nblk (s_blk cfg) F ->
  exists st', send_step cfg st e = (st', []) /\ s_phase st' = SDone OutOk.
Admitted.

(** ... and success is reached in no other way. *)
Theorem send_ok_only_by_final_ack : forall cfg F st e st' out, wf_params (s_blk cfg) (s_ws cfg) ->
  SInv cfg F st -> s_phase st <> SDone OutOk ->
  send_step cfg st e = (st', out) -> s_phase st' = SDone OutOk ->
  out = [] /\ exists r, receive max_request_packet_size e = RPacket (Ack r) /\
    s_abs st <= nblk (s_blk cfg) F < s_abs st + lenN (w_elems (s_w st)) /\
    nblk (s_blk cfg) F mod 65536 = r mod 65536.
Admitted.

(** A silent peer: at every point of every transfer the sender gives up after at
    most [max_retries - retry] further failed receives. *)
Theorem send_silence_bounded : forall cfg F st d n, wf_params (s_blk cfg) (s_ws cfg) ->
  SInv cfg F st -> s_phase st = SInWindow ->
  max_retries - s_retry st <= N.of_nat n ->
  exists o, s_phase (fst (send_steps cfg st (repeat (EvFail d) n))) = SDone o /\
            (s_fails cfg = [] -> o = OutTimeout).
Admitted.

(** No panic, no window misuse, no file error in any reachable step. *)
Theorem send_step_no_internal_error : forall cfg F st e st', wf_params (s_blk cfg) (s_ws cfg) ->
  SInv cfg F st -> (forall o, s_phase st <> SDone o) -> st' = fst (send_step cfg st e) ->
  s_phase st' <> SDone OutPanic /\ s_phase st' <> SDone OutWinRemove /\
  s_phase st' <> SDone OutWinAdd /\ s_phase st' <> SDone OutIo.
Admitted.

(** * Flow control (C08) and attribution of ACK numbers (C15) *)

(** An ACK number is accepted iff it names a block of the window; that block is unique. *)
Theorem ack_attribution_unique : forall cfg F st r, wf_params (s_blk cfg) (s_ws cfg) ->
  SInv cfg F st -> r < 65536 ->
  let diff := wsub16 r (s_bn st) in
  (diff < lenN (w_elems (s_w st)) -> (s_abs st + diff) mod 65536 = r) /\
  (forall j, s_abs st <= j < s_abs st + lenN (w_elems (s_w st)) -> j mod 65536 = r ->
             j = s_abs st + diff /\ diff < lenN (w_elems (s_w st))).
Admitted.

(** Acknowledgements are cumulative: an accepted ACK for block [abs + diff] moves the
    window front to the block after it, and the 16-bit counter follows. *)
Theorem acks_cumulative : forall cfg F st e r st' out, wf_params (s_blk cfg) (s_ws cfg) ->
  SInv cfg F st -> s_phase st = SInWindow -> r < 65536 ->
  receive max_request_packet_size e = RPacket (Ack r) ->
  wsub16 r (s_bn st) < lenN (w_elems (s_w st)) ->
  send_step cfg st e = (st', out) ->
  s_abs st' = s_abs st + wsub16 r (s_bn st) + 1 /\ s_bn st' = s_abs st' mod 65536.
Admitted.

(** A duplicate, stale or foreign ACK inside the timeout is inert: nothing is sent,
    nothing changes but the clock reading - for every window size up to 65535. *)
Theorem stale_ack_is_inert : forall cfg F st e r, wf_params (s_blk cfg) (s_ws cfg) ->
  SInv cfg F st -> s_phase st = SInWindow ->
  receive max_request_packet_size e = RPacket (Ack r) ->
  ~ (wsub16 r (s_bn st) < lenN (w_elems (s_w st))) ->
  s_since st + ev_delay e < s_tmo cfg ->
  send_step cfg st e =
    (mk_sstate (s_bn st) (s_w st) (s_filled st) (s_retry st) (s_since st + ev_delay e) (s_nsent st)
               (s_phase st) (s_abs st), []).
Admitted.

(** A burst has exactly two possible causes: an accepted ACK, or the timeout elapsed. *)
Theorem burst_causes : forall cfg F st e st' out, wf_params (s_blk cfg) (s_ws cfg) ->
  SInv cfg F st -> s_phase st = SInWindow ->
  send_step cfg st e = (st', out) -> out <> [] ->
  (exists r, receive max_request_packet_size e = RPacket (Ack r) /\
             wsub16 r (s_bn st) < lenN (w_elems (s_w st)))
  \/ s_tmo cfg <= s_since st + ev_delay e.
Admitted.

(** * The reference client never assembles a corrupted copy (C01, second sentence) *)

(** Arrivals drawn - in any order, with any multiplicity and any omissions - from
    datagrams [(k mod 65536, chunk k)], [1 <= k <= nblk], for a file of at most 65536
    blocks (no block number is reused, so no staleness assumption is needed). *)
Theorem client_copy_exact : forall blk F arrivals, 0 < blk -> nblk blk F <= 65536 ->
  Forall (fun a => exists k, 1 <= k <= nblk blk F /\ fst a = k mod 65536 /\ snd a = chunk blk F k) arrivals ->
  forall acc done, ref_client blk 1 [] arrivals = (acc, done) ->
  (done = true -> acc = F) /\ (exists m, acc = takeN m F).
Admitted.
