(** The bundled client against the server (C14): the request the client builds is answered with
    an OACK echoing its values, both sides then run with the same block and window size, and
    each side's loop completes against the other's loss-free behaviour. *)
From Coq Require Import ZArith Lia ZifyBool ZifyNat ZifyN.
From Tftp Require Import Base.Prelude Model.Types Model.Consts Model.Codec Model.Window Model.Worker Model.Spec
  Model.Server Model.Client Proofs.ListAux Proofs.CodecP Proofs.SpecP Proofs.WindowP Proofs.SendP Proofs.RecvP
  Proofs.ServerP Proofs.NetP.
Local Open Scope N_scope.
Ltac Zify.zify_post_hook ::= Z.div_mod_to_equations.

Definition valid_choice (blk ws tmo : N) : Prop := 8 <= blk <= 65464 /\ 1 <= ws <= 65535 /\ 1 <= tmo <= 255.

(** The server accepts every valid option choice of the client and echoes it. *)
Theorem server_echoes_client_options : forall blk ws tmo tsize rs, valid_choice blk ws tmo ->
  parse_options (client_opts blk ws tmo tsize) rs default_wopts =
    Some (mk_wopts blk (match rs with Some sz => sz | None => tsize end) tmo ws,
          client_opts blk ws tmo (match rs with Some sz => sz | None => tsize end)).
Proof.
  intros blk ws tmo tsize rs (Hb & Hw & Ht). unfold client_opts. cbn [parse_options o_type o_val].
  change min_blk with 8. change max_blk with 65464. change max_ws with 65535. change max_timeout_s with 255.
  destruct (N.ltb_spec blk 8); [lia|]. destruct (N.ltb_spec 65464 blk); [lia|]. cbn [orb].
  destruct (N.eqb_spec ws 0); [lia|]. destruct (N.ltb_spec 65535 ws); [lia|]. cbn [orb].
  destruct (N.eqb_spec tmo 0); [lia|]. destruct (N.ltb_spec 255 tmo); [lia|]. cbn [orb].
  destruct rs; reflexivity.
Qed.

(** The client adopts exactly what it asked for: both sides run with the same parameters. *)
Theorem client_params_agree : forall blk ws tmo tsize b0 w0, ws < 65536 ->
  adopt (client_opts blk ws tmo tsize) b0 w0 = (blk, ws).
Proof. intros. unfold client_opts. cbn [adopt o_type o_val]. rewrite N.mod_small by assumption. reflexivity. Qed.

(** When the server refuses, the client starts no transfer (and so creates no file). *)
Theorem refusal_creates_nothing : forall c m blk ws,
  on_first_reply_download (Error c m) blk ws = FrRefused c /\ on_first_reply_upload (Error c m) blk ws = FrRefused c.
Proof. intros. split; reflexivity. Qed.

(** The sending loop after an option handshake: the reply ACK 0 starts the first window. *)
Theorem download_completes_with_handshake : forall cfg F, wf_params (s_blk cfg) (s_ws cfg) -> s_fails cfg = [] -> s_check cfg = true ->
  let nb := nblk (s_blk cfg) F in
  exists st outs, run_send cfg F (EvDgram 0 (ack_dgram 0) :: ideal_acks (S (N.to_nat nb)) (s_ws cfg) nb 0) = (st, outs) /\
                  s_phase st = SDone OutOk.
Proof.
  intros cfg F Hwf Hnf Hck nb. unfold run_send, send_init. rewrite Hck. cbn [send_steps].
  set (st0 := mk_sstate 1 (window_new (s_ws cfg) (s_blk cfg) (file_for_read F)) true 0 0 0 SAwaitOack 1).
  assert (Hc0 : SCore cfg F st0).
  { unfold SCore, st0. cbn [s_w s_bn s_abs s_filled s_retry window_new w_elems w_size w_chunk w_file
                            file_for_read f_mode f_rest length chunks_from].
    rewrite lenN_nil. destruct Hwf as (Hb & Hw1 & Hw2). pose proof (nblk_pos (s_blk cfg) F).
    repeat split; try reflexivity; try lia. }
  assert (Hstep : send_step cfg st0 (EvDgram 0 (ack_dgram 0)) = s_outer_top cfg st0).
  { unfold send_step. cbn [s_phase st0]. rewrite receive_ack_dgram. reflexivity. }
  rewrite Hstep. destruct (s_outer_top cfg st0) as [st1 out0] eqn:E0.
  destruct (outer_top_tight cfg F st0 st1 out0 Hwf Hnf Hc0) as (Hi1 & Hp1 & Ht1 & Ha1); try exact E0.
  - intros _. unfold st0. cbn [s_w window_new w_elems]. rewrite lenN_nil. destruct Hwf as (_ & ? & _). lia.
  - discriminate.
  - assert (Habs : s_abs st1 = 1) by (rewrite Ha1; reflexivity).
    destruct (send_ideal cfg F (S (N.to_nat nb)) st1 Hwf Hnf Hi1 Hp1 Ht1) as (st' & outs & Hrun & Hok).
    + rewrite Habs. fold nb. lia.
    + rewrite Habs in Hrun. replace (1 - 1) with 0 in Hrun by lia. fold nb in Hrun. rewrite Hrun.
      exists st', ([] :: out0 :: outs). split; [reflexivity|exact Hok].
Qed.

(** Download, end to end over loss-free FIFO channels, for every file and every valid option
    choice, both port modes, any duplicate count: the server answers the client's request with
    an OACK echoing the values (tsize = file size); the client adopts the same block and window
    size; the server's sending loop completes; the client's receiving loop, fed the blocks of
    the file, completes holding exactly the file. *)
Theorem interop_download : forall cfg root st src name blk ws tmo F, listener_inv st -> valid_choice blk ws tmo ->
  let path := join (v_sdir cfg) (convert_file_path name) in
  validate_file_path path (v_sdir cfg) = true -> stat root path = Some (NFile F) ->
  (* the listener's answer *)
  handle_rrq cfg root st src name (client_opts blk ws tmo 0) =
    (fst (handle_rrq cfg root st src name (client_opts blk ws tmo 0)),
     [AReply (v_single cfg) (Oack (client_opts blk ws tmo (lenN F)));
      ASpawnSend path (mk_wopts blk (lenN F) tmo ws) (v_dup cfg + 1) true]) /\
  (* the client's reaction *)
  on_first_reply_download (Oack (client_opts blk ws tmo (lenN F))) blk ws = FrTransfer blk ws true /\
  (* the server's worker completes *)
  (exists s outs, run_send (mk_scfg blk ws (tmo * 1000000000) (v_dup cfg + 1) true []) F
       (EvDgram 0 (ack_dgram 0) :: ideal_acks (S (N.to_nat (nblk blk F))) ws (nblk blk F) 0) = (s, outs) /\ s_phase s = SDone OutOk) /\
  (* the client's worker completes with the file *)
  (exists r outs, run_recv (client_rcfg blk ws) (ideal_datas blk F 1 (N.to_nat (nblk blk F))) = (r, outs) /\
       r_phase r = RDone OutOk /\ written_bytes (w_file (r_w r)) = F).
Proof.
  intros cfg root st src name blk ws tmo F Hi Hv path Hval Hst.
  pose proof Hv as (Hb & Hw & Ht).
  assert (Hwf : wf_params blk ws) by (unfold wf_params; lia).
  split; [|split; [|split]].
  - unfold handle_rrq. fold path. unfold check_file_exists. rewrite Hval. cbn [negb].
    unfold kind_of. rewrite Hst. rewrite (server_echoes_client_options blk ws tmo 0 (Some (lenN F)) Hv).
    unfold accept. cbn [fst snd app client_opts]. reflexivity.
  - unfold on_first_reply_download. rewrite client_params_agree by lia. reflexivity.
  - apply (download_completes_with_handshake (mk_scfg blk ws (tmo * 1000000000) (v_dup cfg + 1) true []) F); auto.
  - apply (upload_completes (client_rcfg blk ws) F); auto. cbn. lia.
Qed.

(** Upload, end to end: the request names the base name of the local file; the server answers
    with an OACK echoing the client's values; its receiving loop completes holding exactly the
    client's file at [receive_dir / basename]; the client's sending loop completes. *)
Theorem interop_upload : forall cfg root st src local base blk ws tmo F, listener_inv st -> valid_choice blk ws tmo ->
  file_name local = Some base ->
  let path := join (v_rdir cfg) (convert_file_path base) in
  check_file_exists root path (v_rdir cfg) = ChkMissing ->
  upload_request local blk ws tmo (lenN F) = Some (Wrq base octet (client_opts blk ws tmo (lenN F))) /\
  handle_wrq cfg root st src base (client_opts blk ws tmo (lenN F)) =
    (fst (handle_wrq cfg root st src base (client_opts blk ws tmo (lenN F))),
     [AReply (v_single cfg) (Oack (client_opts blk ws tmo (lenN F)));
      ASpawnRecv path (mk_wopts blk (lenN F) tmo ws) (v_dup cfg + 1) (v_clean cfg)]) /\
  on_first_reply_upload (Oack (client_opts blk ws tmo (lenN F))) blk ws = FrTransfer blk ws false /\
  (exists r outs, run_recv (mk_rcfg blk ws (tmo * 1000000000) (v_dup cfg + 1) (v_clean cfg) []) (ideal_datas blk F 1 (N.to_nat (nblk blk F))) = (r, outs) /\
       r_phase r = RDone OutOk /\ written_bytes (w_file (r_w r)) = F) /\
  (exists s outs, run_send (client_scfg blk ws) F (ideal_acks (S (N.to_nat (nblk blk F))) ws (nblk blk F) 0) = (s, outs) /\ s_phase s = SDone OutOk).
Proof.
  intros cfg root st src local base blk ws tmo F Hi Hv Hfn path Hchk.
  pose proof Hv as (Hb & Hw & Ht).
  assert (Hwf : wf_params blk ws) by (unfold wf_params; lia).
  split; [|split; [|split; [|split]]].
  - unfold upload_request. rewrite Hfn. reflexivity.
  - unfold handle_wrq. fold path. rewrite Hchk.
    rewrite (server_echoes_client_options blk ws tmo (lenN F) None Hv). unfold accept. cbn [fst snd app client_opts]. reflexivity.
  - unfold on_first_reply_upload. rewrite client_params_agree by lia. reflexivity.
  - apply (upload_completes (mk_rcfg blk ws (tmo * 1000000000) (v_dup cfg + 1) (v_clean cfg) []) F); auto. cbn [r_rep]. lia.
  - apply (download_completes (client_scfg blk ws) F); auto.
Qed.
