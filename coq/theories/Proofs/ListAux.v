(** Generic list / NUL-search / UTF-8 helper lemmas used by CodecP.v. *)
From Coq Require Import List NArith Arith Lia Bool.
From Tftp Require Import Base.Prelude Base.Utf8.
Local Open Scope N_scope.

(** Normalise [length] of concatenations / conses so that [lia] can finish. *)
Ltac len := repeat (rewrite app_length || (progress (cbn [length]))).
Ltac len_in H := repeat (rewrite app_length in H || (progress (cbn [length] in H))).

Lemma skipn_skipn' {A} : forall (a b : nat) (l : list A),
  skipn a (skipn b l) = skipn (a + b) l.
Proof.
  intros a b; revert a. induction b as [|b IH]; intros a l.
  - rewrite Nat.add_0_r. reflexivity.
  - rewrite Nat.add_succ_r. destruct l as [|x l].
    + rewrite !skipn_nil. reflexivity.
    + cbn [skipn]. apply IH.
Qed.

Lemma skipn_app_exact {A} : forall (pre l : list A) n,
  n = length pre -> skipn n (pre ++ l) = l.
Proof.
  intros pre l n ->. rewrite skipn_app, skipn_all, Nat.sub_diag. reflexivity.
Qed.

Lemma firstn_app_exact {A} : forall (s l : list A) n,
  n = length s -> firstn n (s ++ l) = s.
Proof.
  intros s l n ->. rewrite firstn_app, firstn_all, Nat.sub_diag, firstn_O, app_nil_r.
  reflexivity.
Qed.

(** * nonul *)

Lemma nonulb_sound : forall l, nonulb l = true -> nonul l.
Proof.
  induction l as [|b l IH]; intros H.
  - intros [].
  - cbn [nonulb] in H. apply andb_true_iff in H. destruct H as [Hb Hl].
    intros [E|Hin].
    + subst b. discriminate Hb.
    + exact (IH Hl Hin).
Qed.

Lemma nonul_cons_inv : forall b l, nonul (b :: l) -> b <> 0 /\ nonul l.
Proof.
  intros b l H. split.
  - intros E. apply H. left. exact E.
  - intros Hin. apply H. right. exact Hin.
Qed.

Lemma nonul_Forall : forall (P : N -> Prop) l,
  (forall b, P b -> b <> 0) -> Forall P l -> nonul l.
Proof.
  intros P l HP HF Hin. rewrite Forall_forall in HF.
  exact (HP 0 (HF 0 Hin) eq_refl).
Qed.

(** * find_zero *)

Lemma find_zero_app : forall s post,
  nonul s -> find_zero (s ++ 0 :: post) = Some (length s).
Proof.
  induction s as [|a s IH]; intros post Hn.
  - reflexivity.
  - destruct (nonul_cons_inv _ _ Hn) as [Ha Hs].
    cbn [app find_zero length].
    destruct (N.eqb_spec a 0) as [E|_]; [contradiction|].
    rewrite (IH post Hs). reflexivity.
Qed.

Lemma find_zero_some : forall l i, find_zero l = Some i ->
  (i < length l)%nat /\ nonul (firstn i l) /\ skipn i l = 0 :: skipn (S i) l.
Proof.
  induction l as [|a l IH]; intros i H.
  - discriminate H.
  - cbn [find_zero] in H. destruct (N.eqb_spec a 0) as [E|E].
    + injection H as <-. subst a. cbn [length firstn skipn].
      split; [lia|]. split; [intros []|reflexivity].
    + destruct (find_zero l) as [j|] eqn:Ej; [|discriminate H].
      injection H as <-.
      destruct (IH j eq_refl) as (H1 & H2 & H3).
      cbn [length firstn skipn]. split; [lia|]. split.
      * intros [Hin|Hin]; [congruence|]. exact (H2 Hin).
      * exact H3.
Qed.

(** * UTF-8 *)

Lemma utf8_valid_ascii : forall s, Forall (fun b => b < 128) s -> utf8_valid s = true.
Proof.
  induction 1 as [|b s Hb _ IH]; [reflexivity|].
  cbn [utf8_valid]. destruct (N.ltb_spec b 128) as [_|Hge]; [exact IH|lia].
Qed.
