(** Duplicate-packets mode in the closed system: a sender that emits every DATA [s_rep] times and a
    receiver that emits every ACK [r_rep] times, over undisturbed channels, complete with exactly
    the file - for every file, block size, window size and every pair of repeat counts (C16:
    "the server's own sender and receiver facing such duplicates still complete with
    byte-identical content"). *)
From Coq Require Import ZArith Lia ZifyBool ZifyNat ZifyN.
From Tftp Require Import Base.Prelude Model.Types Model.Consts Model.Codec Model.Window Model.Worker Model.Spec
  Model.Server Model.Net Proofs.ListAux Proofs.CodecP Proofs.SpecP Proofs.WindowP Proofs.SendP Proofs.RecvP Proofs.NetP
  Proofs.CosimP Proofs.CosimLive.
Local Open Scope N_scope.
Ltac Zify.zify_post_hook ::= Z.div_mod_to_equations.

Lemma sent_bytes_app : forall a b, sent_bytes (a ++ b) = sent_bytes a ++ sent_bytes b.
Proof. intros a b. unfold sent_bytes. rewrite filter_app, map_app. reflexivity. Qed.

Lemma sent_bytes_repeat : forall p n, sent_bytes (repeat (mk_sent p false) n) = repeat (encode p) n.
Proof. intros p n. induction n as [|n IH]; [reflexivity|]. cbn [repeat]. unfold sent_bytes in *. cbn [filter s_failed negb map s_pk]. rewrite IH. reflexivity. Qed.

Section Dup.
  Variables (sc : scfg) (rc : rcfg) (F : bytes).
  Hypotheses (Hwf : wf_params (s_blk sc) (s_ws sc))
             (Hblk : r_blk rc = s_blk sc) (Hws : r_ws rc = s_ws sc)
             (Hck : s_check sc = false)
             (Hsf : s_fails sc = []) (Hrf : r_fails rc = [])
             (Hsrep : 1 <= s_rep sc) (Hrrep : 1 <= r_rep rc)
             (Htmo : 0 < s_tmo sc).

  Local Notation blk := (s_blk sc).
  Local Notation ws := (s_ws sc).
  Local Notation nb := (nblk (s_blk sc) F).
  Local Notation rsn := (N.to_nat (s_rep sc)).
  Local Notation rrn := (N.to_nat (r_rep rc)).
  Local Notation SS := (CosimLive.SS sc F).
  Local Notation RS := (CosimLive.RS sc rc F).
  Local Notation step := (pair_step sc rc [] []).
  Local Notation run := (pair_run sc rc [] []).

  Lemma Hwfr : wf_params (r_blk rc) (r_ws rc).
  Proof. rewrite Hblk, Hws. exact Hwf. Qed.

  (** Blocks [k, k+n), every one [s_rep] times. *)
  Fixpoint datasR (k : N) (n : nat) : list bytes :=
    match n with
    | O => []
    | S n' => repeat (data_dgram blk F k) rsn ++ datasR (k + 1) n'
    end.

  Lemma window_tx_datasR : forall n a, sent_bytes (window_tx rsn a (chunks_from blk F a n)) = datasR a n.
  Proof.
    intros n. induction n as [|n IH]; intros a; cbn [chunks_from window_tx datasR]; [reflexivity|].
    rewrite sent_bytes_app, sent_bytes_repeat, IH. reflexivity.
  Qed.

  (** * The receiver *)

  Lemma r_ack_rep : forall st next st' out, r_ack rc st next = (st', out) ->
    acked_bytes out = repeat (encode (Ack (r_bn st))) rrn /\ r_phase st' = next /\ r_bn st' = r_bn st /\
    r_w st' = r_w st /\ r_cnt st' = r_cnt st /\ r_retry st' = r_retry st.
  Proof.
    intros st next st' out H. unfold r_ack in H. rewrite Hrf, send_packet_nofail in H. inversion H; subst.
    cbn [r_phase r_bn r_w r_cnt r_retry]. split; [|repeat split; reflexivity].
    unfold acked_bytes, tag_file. rewrite map_map. cbn [a_sent]. rewrite map_id. apply sent_bytes_repeat.
  Qed.

  Lemma receive_data : forall k d,
    receive (r_blk rc) (EvDgram d (data_dgram blk F k)) = RPacket (Data (k mod 65536) (chunk blk F k)).
  Proof. intros k d. rewrite Hblk. apply receive_data_dgram. Qed.

  Lemma recv_in_seqR : forall hist st c j, RS hist st c j -> c + 1 <= nb ->
    let e := EvDgram 0 (data_dgram blk F (c + 1)) in
    exists st' out, recv_step rc st e = (st', out) /\
      if (c + 1 =? nb) || (j + 1 =? ws) then
        acked_bytes out = repeat (ack_dgram (c + 1)) rrn /\
        (if c + 1 =? nb then r_phase st' = RDone OutOk /\ written_bytes (w_file (r_w st')) = F
         else RS (hist ++ [e]) st' (c + 1) 0)
      else out = [] /\ RS (hist ++ [e]) st' (c + 1) (j + 1).
  Proof.
    intros hist st c j (Hi & Hp & Hc & Hj & Hacc) Hle e.
    pose proof (proj1 Hwf) as Hb. pose proof Hwfr as Hwr.
    pose proof (receive_data (c + 1) 0) as Hr. fold e in Hr.
    pose proof Hi as (A & B & C & D & E & G & G2 & I & J & K).
    assert (Hseq : (c + 1) mod 65536 = wadd16 (r_bn st) 1) by (unfold wadd16; rewrite E, Hc; lia).
    destruct (recv_step rc st e) as [st1 out] eqn:E1.
    destruct (recv_step_spec _ _ _ _ _ _ Hwr Hi Hp E1) as [Hi1 _].
    assert (Hacc1 : accepted (r_blk rc) 0 (hist ++ [e]) = accepted (r_blk rc) 0 hist ++ [chunk blk F (c + 1)]).
    { rewrite accepted_snoc. unfold accepts. rewrite (I Hp), Hr, N.add_0_l, <- D, Hc. rewrite N.eqb_refl. reflexivity. }
    assert (Hacc2 : concat (accepted (r_blk rc) 0 (hist ++ [e])) = takeN ((c + 1) * blk) F).
    { rewrite Hacc1, concat_app, Hacc. cbn [concat]. rewrite app_nil_r.
      replace (c * blk) with ((c + 1 - 1) * blk) by (f_equal; lia). apply chunk_append. lia. }
    rewrite (step_data_in rc hist st e _ _ Hwr Hi Hp Hr Hseq) in E1. cbv zeta in E1.
    rewrite Hj, Hws in E1. exists st1, out. split; [reflexivity|].
    destruct (N.eqb_spec (c + 1) nb) as [Hlast|Hnot].
    - cbn [orb]. pose proof (chunk_last_short blk F Hb) as Hs. rewrite <- Hlast in Hs.
      rewrite Hblk in E1.
      destruct (N.ltb_spec (lenN (chunk blk F (c + 1))) blk); [|lia]. cbn [orb] in E1.
      destruct (r_ack_rep _ _ _ _ E1) as (O1 & O2 & O3 & O4 & O5 & O6). cbn [r_bn] in O1.
      split; [exact O1|]. split; [exact O2|].
      destruct Hi1 as (_ & _ & _ & _ & _ & _ & _ & _ & J1 & _). rewrite O4 in J1 |- *. cbn [r_w w_elems concat w_file] in J1 |- *.
      rewrite app_nil_r in J1. unfold written_bytes in *. cbn [w_file] in *. rewrite J1, Hacc2, Hlast. apply takeN_all.
      assert (Hnn : ~ (nblk blk F < nblk blk F)) by lia. rewrite lt_nblk_iff in Hnn by assumption. lia.
    - assert (Hfull : lenN (chunk blk F (c + 1)) = blk) by (apply chunk_full; [assumption|lia|lia]).
      rewrite Hblk in E1.
      destruct (N.ltb_spec (lenN (chunk blk F (c + 1))) blk); [lia|]. cbn [orb] in E1 |- *.
      destruct (N.eqb_spec (j + 1) ws) as [Hfl|Hnf].
      + destruct (r_ack_rep _ _ _ _ E1) as (O1 & O2 & O3 & O4 & O5 & O6). cbn [r_bn r_cnt] in O1, O5.
        split; [exact O1|]. unfold CosimLive.RS. split; [exact Hi1|]. split; [exact O2|]. split; [rewrite O5, Hc; reflexivity|].
        split; [rewrite O4; reflexivity|exact Hacc2].
      + inversion E1; subst st1 out. split; [reflexivity|]. unfold CosimLive.RS. split; [exact Hi1|].
        cbn [r_phase r_cnt r_w w_elems]. split; [reflexivity|]. split; [rewrite Hc; reflexivity|].
        split; [rewrite lenN_app, Hj; reflexivity|exact Hacc2].
  Qed.

  Lemma recv_out_seqR : forall hist st c j k, RS hist st c j -> k mod 65536 <> (c + 1) mod 65536 ->
    let e := EvDgram 0 (data_dgram blk F k) in
    exists st' out, recv_step rc st e = (st', out) /\ RS (hist ++ [e]) st' c j /\
      acked_bytes out = if j =? 0 then repeat (ack_dgram c) rrn else [].
  Proof.
    intros hist st c j k (Hi & Hp & Hc & Hj & Hacc) Hne e. pose proof Hwfr as Hwr.
    pose proof (receive_data k 0) as Hr. fold e in Hr.
    pose proof Hi as (A & B & C & D & E & G & G2 & I & J & K).
    assert (Hn : k mod 65536 <> wadd16 (r_bn st) 1) by (unfold wadd16; rewrite E, Hc; lia).
    destruct (recv_out_of_sequence rc st e _ _ Hp Hr Hn) as (st' & out & E1 & F1 & F2 & F3 & F4 & F5 & F6 & F7).
    exists st', out. split; [exact E1|].
    destruct (recv_step_spec _ _ _ _ _ _ Hwr Hi Hp E1) as [Hi1 _].
    assert (Hacc1 : accepted (r_blk rc) 0 (hist ++ [e]) = accepted (r_blk rc) 0 hist).
    { rewrite accepted_snoc. unfold accepts. rewrite (I Hp), Hr, N.add_0_l, <- D, Hc.
      destruct (N.eqb_spec (k mod 65536) ((c + 1) mod 65536)); [contradiction|]. apply app_nil_r. }
    destruct (N.eqb_spec j 0) as [Hz|Hnz].
    - assert (Hnil : w_elems (r_w st) = []) by (apply lenN_0_nil; lia).
      unfold recv_step in E1. rewrite Hp, Hr in E1.
      destruct (N.eqb_spec (k mod 65536) (wadd16 (r_bn st) 1)); [contradiction|].
      rewrite (proj2 (w_is_empty_iff _) Hnil) in E1.
      destruct (r_ack_rep _ _ _ _ E1) as (O1 & O2 & O3 & O4 & O5 & O6).
      split; [|rewrite O1, E, Hc; reflexivity].
      unfold CosimLive.RS. split; [exact Hi1|]. split; [exact O2|]. split; [rewrite O5; exact Hc|].
      split; [rewrite O4; exact Hj|rewrite Hacc1; exact Hacc].
    - assert (Hne2 : w_elems (r_w st) <> []) by (intros Z; rewrite Z in Hj; cbn in Hj; lia).
      destruct (F6 Hne2) as [-> ->]. split; [|reflexivity].
      unfold CosimLive.RS. split; [exact Hi1|]. split; [exact Hp|]. split; [exact Hc|]. split; [exact Hj|rewrite Hacc1; exact Hacc].
  Qed.

  (** * The sender *)

  Lemma SS_windowR : forall st a r, SS st a r ->
    sent_bytes (window_tx rsn (s_abs st) (w_elems (s_w st))) = datasR (a + 1) (N.to_nat (wlen st)).
  Proof.
    intros st a r ((Hc & _) & _ & _ & Ha & _). destruct Hc as (_ & _ & _ & _ & _ & _ & I & _).
    rewrite I, Ha. unfold wlen, lenN. rewrite Nat2N.id. apply window_tx_datasR.
  Qed.

  Lemma inner_top_firesR : forall st, SCore sc F st -> s_tmo sc <= s_since st ->
    s_inner_top sc st =
      (mk_sstate (s_bn st) (s_w st) (s_filled st) (s_retry st) 0 (s_nsent st + s_rep sc * lenN (w_elems (s_w st)))
                 (s_phase st) (s_abs st),
       window_tx rsn (s_abs st) (w_elems (s_w st))).
  Proof.
    intros st Hc Ht. unfold s_inner_top. destruct (N.leb_spec (s_tmo sc) (s_since st)); [|lia].
    destruct Hc as (_ & _ & _ & _ & Hbn & _). rewrite Hsf, Hbn, send_window_nofail. reflexivity.
  Qed.

  Lemma outer_top_outR : forall st st' out, SCore sc F st ->
    (s_filled st = true -> lenN (w_elems (s_w st)) < ws) ->
    (s_filled st = false -> w_elems (s_w st) <> []) ->
    s_outer_top sc st = (st', out) ->
    SS st' (s_abs st - 1) 0 /\ out = window_tx rsn (s_abs st') (w_elems (s_w st')).
  Proof.
    intros st st' out Hc Hlt Hne H.
    destruct (outer_top_tight sc F st st' out Hwf Hsf Hc Hlt Hne H) as (Hi & Hp & Ht & Ha).
    assert (Habs : 1 <= s_abs st) by (destruct Hc as (_ & _ & _ & D & _); exact D).
    assert (X : s_since st' = 0 /\ s_retry st' = 0 /\ out = window_tx rsn (s_abs st') (w_elems (s_w st'))).
    { unfold s_outer_top in H. destruct (s_filled st) eqn:Hf.
      - destruct (fill_send _ _ _ Hwf Hc Hf) as (w' & full & Fl & Hcore & _). rewrite Fl in H.
        rewrite inner_top_firesR in H by (try apply Hcore; try exact max_retries_pos; cbn [s_since]; lia).
        inversion H; subst. cbn [s_since s_retry s_abs s_w]. repeat split; reflexivity.
      - rewrite inner_top_firesR in H.
        + inversion H; subst. cbn [s_since s_retry s_abs s_w]. repeat split; reflexivity.
        + eapply SCore_ext; [..|exact Hc]; try reflexivity; try exact max_retries_pos. cbn [s_filled]. symmetry. exact Hf.
        + cbn [s_since]. lia. }
    destruct X as (X1 & X2 & X3). split; [|exact X3].
    unfold CosimLive.SS. split; [exact Hi|]. split; [exact Hp|]. split; [exact Ht|]. split; [rewrite Ha; lia|]. split; assumption.
  Qed.

  Lemma send_ack_windowR : forall st a r, SS st a r ->
    let e := EvDgram 0 (ack_dgram (a + wlen st)) in
    exists st' out, send_step sc st e = (st', out) /\
      if a + wlen st =? nb then out = [] /\ s_phase st' = SDone OutOk
      else SS st' (a + wlen st) 0 /\ sent_bytes out = datasR (a + wlen st + 1) (N.to_nat (wlen st')).
  Proof.
    intros st a r Hss e. pose proof (SS_len sc rc F Hblk Hws Htmo _ _ _ Hss) as (Ha & Hlen & Hpos).
    destruct Hss as (Hi & Hp & Ht & Habs & Hsince & Hretry). unfold wlen in *.
    pose proof Hi as [Hc [_ Hne]]. specialize (Hne Hp).
    pose proof Hc as (A & B & C & D & E & G & I & J & K & L).
    set (len := lenN (w_elems (s_w st))) in *.
    pose proof (receive_ack_dgram (a + len) 0) as Hr. fold e in Hr.
    assert (Hd : wsub16 ((a + len) mod 65536) (s_bn st) = len - 1).
    { rewrite E. destruct Hwf as (_ & _ & Hw). rewrite (wsub16_in_window (s_abs st) (a + len) len) by lia. lia. }
    destruct (step_ack_in sc F st e _ Hwf Hi Hp Hr ltac:(rewrite Hd; lia)) as (w' & Hrm & Hel & Hc2 & Hstep).
    rewrite Hd in *. replace (len - 1 + 1) with len in * by lia.
    assert (Hemp : w_is_empty w' = true).
    { apply w_is_empty_iff. apply lenN_0_nil. rewrite Hel, lenN_dropN. fold len. lia. }
    rewrite Hstep, Hemp, andb_true_r.
    destruct (s_filled st) eqn:Hf; cbn [negb].
    - destruct (N.eqb_spec (a + len) nb) as [Hx|_]; [lia|].
      match goal with |- exists st' out, s_outer_top sc ?x = _ /\ _ => set (st2 := x) in * end.
      destruct (s_outer_top sc st2) as [st3 out] eqn:Eo. exists st3, out. split; [reflexivity|].
      destruct (outer_top_outR st2 st3 out Hc2) as [Hss3 Hout]; try exact Eo.
      + intros _. unfold st2. cbn [s_w]. apply w_is_empty_iff in Hemp. rewrite Hemp. cbn. destruct Hwf as (_ & ? & _). lia.
      + unfold st2. cbn [s_filled]. discriminate.
      + replace (s_abs st2 - 1) with (a + len) in Hss3 by (unfold st2; cbn [s_abs]; lia).
        split; [exact Hss3|]. rewrite Hout. rewrite (SS_windowR _ _ _ Hss3). reflexivity.
    - destruct (N.eqb_spec (a + len) nb) as [_|Hx]; [|lia].
      eexists. eexists. split; [reflexivity|]. split; reflexivity.
  Qed.

  (** * The closed system *)

  Lemma clean_nil : forall lo hi, clean [] lo hi.
  Proof. intros lo hi i _. reflexivity. Qed.

  Lemma puts_nil : forall ds q n, chan_puts [] (mk_chan q None n) ds = mk_chan (q ++ ds) None (n + lenN ds).
  Proof. intros. apply (chan_puts_clean sc rc Hblk Hws Htmo). apply clean_nil. Qed.

  (** [n] copies of a block that is not the next one. *)
  Lemma drain_copies : forall n k hist r c j s q h nn rs, RS hist r c j -> k mod 65536 <> (c + 1) mod 65536 ->
    exists r' hist', run n (mk_pair s r (mk_chan (repeat (data_dgram blk F k) n ++ q) h nn) rs) =
        mk_pair s r' (mk_chan q h nn) (chan_puts [] rs (if j =? 0 then repeat (ack_dgram c) (n * rrn) else [])) /\
      RS hist' r' c j.
  Proof.
    intros n. induction n as [|n IH]; intros k hist r c j s q h nn rs Hrs Hne.
    - cbn [repeat app pair_run Nat.mul]. exists r, hist. split; [|exact Hrs]. destruct (j =? 0); reflexivity.
    - cbn [repeat app pair_run]. rewrite step_recv by apply Hrs.
      destruct (recv_out_seqR hist r c j k Hrs Hne) as (st' & out & E & Hst & Hout). rewrite E. cbn [fst snd]. rewrite Hout.
      destruct (IH k _ st' c j s q h nn (chan_puts [] rs (if j =? 0 then repeat (ack_dgram c) rrn else [])) Hst Hne)
        as (r' & hist' & Hrun & Hfin).
      exists r', hist'. split; [|exact Hfin]. rewrite Hrun. f_equal.
      destruct (j =? 0); [|reflexivity]. rewrite <- chan_puts_app, <- repeat_app. reflexivity.
  Qed.

  (** One block, all its copies, not the one that closes the window: buffered once, ignored afterwards. *)
  Lemma block_buffered : forall hist r c j s q h nn rs, RS hist r c j -> c + 1 < nb -> j + 1 < ws ->
    exists r' hist', run rsn (mk_pair s r (mk_chan (repeat (data_dgram blk F (c + 1)) rsn ++ q) h nn) rs) =
        mk_pair s r' (mk_chan q h nn) rs /\ RS hist' r' (c + 1) (j + 1).
  Proof.
    intros hist r c j s q h nn rs Hrs Hc Hj.
    assert (Hpos : (1 <= rsn)%nat) by lia. remember rsn as R eqn:HR. destruct R as [|R']; [lia|]. clear HR Hpos.
    cbn [repeat app pair_run]. rewrite step_recv by apply Hrs.
    destruct (recv_in_seqR hist r c j Hrs ltac:(lia)) as (st' & out & E & Hres). rewrite E. cbn [fst snd].
    assert (Hfl : (c + 1 =? nb) || (j + 1 =? ws) = false) by lia. rewrite Hfl in Hres. destruct Hres as [-> Hst].
    cbn [acked_bytes sent_bytes map filter]. change (chan_puts [] rs []) with rs.
    destruct (drain_copies R' (c + 1) _ st' (c + 1) (j + 1) s q h nn rs Hst) as (r' & hist' & Hrun & Hfin).
    { pose proof Hwf as (_ & _ & Hw). lia. }
    exists r', hist'. split; [|exact Hfin]. rewrite Hrun. replace (j + 1 =? 0) with false by lia. reflexivity.
  Qed.

  Lemma window_buffered : forall n hist r c j s q h nn rs, RS hist r c j -> c + N.of_nat n < nb -> j + N.of_nat n < ws ->
    exists r' hist', run (n * rsn) (mk_pair s r (mk_chan (datasR (c + 1) n ++ q) h nn) rs) =
        mk_pair s r' (mk_chan q h nn) rs /\ RS hist' r' (c + N.of_nat n) (j + N.of_nat n).
  Proof.
    intros n. induction n as [|n IH]; intros hist r c j s q h nn rs Hrs Hc Hj.
    - cbn [datasR app pair_run Nat.mul]. exists r, hist. split; [reflexivity|].
      replace (c + N.of_nat 0) with c by lia. replace (j + N.of_nat 0) with j by lia. exact Hrs.
    - cbn [datasR Nat.mul]. rewrite <- app_assoc, run_add.
      destruct (block_buffered hist r c j s (datasR (c + 1 + 1) n ++ q) h nn rs Hrs ltac:(lia) ltac:(lia)) as (r1 & hist1 & Hrun1 & Hrs1).
      rewrite Hrun1.
      destruct (IH hist1 r1 (c + 1) (j + 1) s q h nn rs Hrs1 ltac:(lia) ltac:(lia)) as (r' & hist' & Hrun & Hfin).
      exists r', hist'. split; [exact Hrun|].
      replace (c + N.of_nat (S n)) with (c + 1 + N.of_nat n) by lia.
      replace (j + N.of_nat (S n)) with (j + 1 + N.of_nat n) by lia. exact Hfin.
  Qed.

  (** The block that closes the window (not the final one of the file): flushed and acknowledged at its first
      copy; every further copy finds nothing buffered and is answered with the same ACK again. *)
  Lemma block_closing : forall hist r c j s q h nn qrs n2, RS hist r c j -> c + 1 < nb -> j + 1 = ws ->
    exists r' hist', run rsn (mk_pair s r (mk_chan (repeat (data_dgram blk F (c + 1)) rsn ++ q) h nn) (mk_chan qrs None n2)) =
        mk_pair s r' (mk_chan q h nn) (mk_chan (qrs ++ repeat (ack_dgram (c + 1)) (rsn * rrn)) None (n2 + N.of_nat (rsn * rrn))) /\
      RS hist' r' (c + 1) 0.
  Proof.
    intros hist r c j s q h nn qrs n2 Hrs Hc Hj.
    assert (Hpos : (1 <= rsn)%nat) by lia. remember rsn as R eqn:HR. destruct R as [|R']; [lia|]. clear HR Hpos.
    cbn [repeat app pair_run]. rewrite step_recv by apply Hrs.
    destruct (recv_in_seqR hist r c j Hrs ltac:(lia)) as (st' & out & E & Hres). rewrite E. cbn [fst snd].
    assert (Hfl : (c + 1 =? nb) || (j + 1 =? ws) = true) by lia. rewrite Hfl in Hres. destruct Hres as [Hout Hst].
    replace (c + 1 =? nb) with false in Hst by lia. rewrite Hout, puts_nil.
    replace (c + 1) with (c + 1 + 0) in Hst at 2 by lia.
    destruct (drain_copies R' (c + 1) _ st' (c + 1) 0 s q h nn
                (mk_chan (qrs ++ repeat (ack_dgram (c + 1)) rrn) None (n2 + lenN (repeat (ack_dgram (c + 1)) rrn)))
                ltac:(replace (c + 1 + 0) with (c + 1) in Hst by lia; exact Hst)) as (r' & hist' & Hrun & Hfin).
    { pose proof Hwf as (_ & _ & Hw). lia. }
    exists r', hist'. split; [|exact Hfin]. rewrite Hrun. change (0 =? 0) with true. cbv iota. rewrite puts_nil.
    rewrite <- app_assoc, <- repeat_app. unfold lenN. rewrite !repeat_length.
    replace (S R' * rrn)%nat with (rrn + R' * rrn)%nat by lia. f_equal. f_equal. lia.
  Qed.

  (** The final block of the file: its first copy ends the receiver; the other copies are never read. *)
  Lemma block_final : forall hist r c j s q h nn qrs n2, RS hist r c j -> c + 1 = nb ->
    exists r', run 1 (mk_pair s r (mk_chan (repeat (data_dgram blk F (c + 1)) rsn ++ q) h nn) (mk_chan qrs None n2)) =
        mk_pair s r' (mk_chan (repeat (data_dgram blk F (c + 1)) (rsn - 1) ++ q) h nn)
                (mk_chan (qrs ++ repeat (ack_dgram (c + 1)) rrn) None (n2 + N.of_nat rrn)) /\
      r_phase r' = RDone OutOk /\ written_bytes (w_file (r_w r')) = F.
  Proof.
    intros hist r c j s q h nn qrs n2 Hrs Hc.
    assert (Hpos : (1 <= rsn)%nat) by lia. remember rsn as R eqn:HR. destruct R as [|R']; [lia|]. clear HR Hpos.
    replace (S R' - 1)%nat with R' by lia. cbn [repeat app pair_run]. rewrite step_recv by apply Hrs.
    destruct (recv_in_seqR hist r c j Hrs ltac:(lia)) as (st' & out & E & Hres). rewrite E. cbn [fst snd].
    assert (Hfl : (c + 1 =? nb) || (j + 1 =? ws) = true) by lia. rewrite Hfl in Hres. destruct Hres as [Hout Hst].
    replace (c + 1 =? nb) with true in Hst by lia. rewrite Hout, puts_nil. unfold lenN. rewrite repeat_length.
    exists st'. split; [reflexivity|exact Hst].
  Qed.

  (** ** Rounds *)

  Definition syncR (s : sstate) (r : rstate) (a n1 n2 : N) (stale : nat) : pair_state :=
    mk_pair s r (mk_chan (datasR (a + 1) (N.to_nat (wlen s))) None n1) (mk_chan (repeat (ack_dgram a) stale) None n2).

  Lemma datasR_app : forall n m k, datasR k (n + m) = datasR k n ++ datasR (k + N.of_nat n) m.
  Proof.
    intros n. induction n as [|n IH]; intros m k.
    - cbn [datasR app Nat.add]. f_equal. lia.
    - cbn [datasR Nat.add]. rewrite IH, <- app_assoc. f_equal. f_equal. f_equal. lia.
  Qed.

  Lemma datasR_length : forall n k, length (datasR k n) = (n * rsn)%nat.
  Proof. intros n. induction n as [|n IH]; intros k; cbn [datasR length Nat.mul]; [reflexivity|]. rewrite app_length, repeat_length, IH. reflexivity. Qed.

  Lemma roundR : forall s r a r0 stale hist n1 n2, SS s a r0 -> RS hist r a 0 ->
    exists fuel p', run fuel (syncR s r a n1 n2 stale) = p' /\
      if a + wlen s =? nb then Final F p'
      else exists s' r' hist' n1' n2' stale', p' = syncR s' r' (a + wlen s) n1' n2' stale' /\
             SS s' (a + wlen s) 0 /\ RS hist' r' (a + wlen s) 0.
  Proof.
    intros s r a r0 stale hist n1 n2 Hss Hrs. unfold syncR.
    pose proof (SS_len sc rc F Hblk Hws Htmo _ _ _ Hss) as (Ha & Hlen & Hpos). set (m := wlen s) in *.
    replace (N.to_nat m) with ((N.to_nat m - 1) + 1)%nat by lia. rewrite datasR_app. cbn [datasR]. rewrite app_nil_r.
    (* all blocks but the last of the window are buffered *)
    destruct (window_buffered (N.to_nat m - 1) hist r a 0 s (repeat (data_dgram blk F (a + 1 + N.of_nat (N.to_nat m - 1))) rsn) None n1
                (mk_chan (repeat (ack_dgram a) stale) None n2) Hrs ltac:(lia) ltac:(lia)) as (r1 & hist1 & Hrun1 & Hrs1).
    replace (a + 1 + N.of_nat (N.to_nat m - 1)) with (a + N.of_nat (N.to_nat m - 1) + 1) in * by lia.
    rewrite <- (app_nil_r (repeat (data_dgram blk F (a + N.of_nat (N.to_nat m - 1) + 1)) rsn)) in Hrun1.
    destruct (N.eq_dec (a + m) nb) as [Hlast|Hnot].
    - (* the window ends the file *)
      destruct (block_final hist1 r1 (a + N.of_nat (N.to_nat m - 1)) (0 + N.of_nat (N.to_nat m - 1)) s [] None n1
                  (repeat (ack_dgram a) stale) n2 Hrs1 ltac:(lia)) as (r2 & Hrun2 & Hp2 & Hfile2).
      replace (a + N.of_nat (N.to_nat m - 1) + 1) with (a + m) in * by lia.
      assert (Hrrn : repeat (ack_dgram (a + m)) rrn = ack_dgram (a + m) :: repeat (ack_dgram (a + m)) (rrn - 1)).
      { destruct rrn eqn:Hz; [lia|]. cbn [repeat Nat.sub]. rewrite Nat.sub_0_r. reflexivity. }
      exists ((N.to_nat m - 1) * rsn + (1 + (stale + 1)))%nat. eexists. split; [reflexivity|].
      rewrite <- (app_nil_r (repeat (data_dgram blk F (a + m)) rsn)), run_add, Hrun1, run_add, Hrun2.
      destruct (N.eqb_spec (a + m) nb) as [_|]; [|contradiction].
      (* the sender reads the stale ACKs, then the first copy of the final ACK *)
      destruct (drain_stale_done sc rc F Hwf Hblk Hws Htmo [] [] stale s a r0 r2 OutOk
                  (mk_chan (repeat (data_dgram blk F (a + m)) (rsn - 1) ++ []) None n1)
                  (repeat (ack_dgram (a + m)) rrn) None (n2 + N.of_nat rrn) Hp2 Hss) as (s3 & Hrun3 & Hss3 & Hl3).
      rewrite run_add, Hrun3. rewrite Hrrn. cbn [pair_run].
      rewrite (step_send_done sc rc [] [] s3 r2 OutOk) by (try exact Hp2; apply Hss3).
      fold m in Hl3. rewrite <- Hl3. destruct (send_ack_windowR s3 a r0 Hss3) as (s4 & out & E & Hres). rewrite E. cbn [fst snd].
      rewrite Hl3 in Hres. destruct (N.eqb_spec (a + m) nb) as [_|]; [|contradiction].
      destruct Hres as [-> Hd]. unfold Final. cbn [p_r p_s]. repeat split; assumption.
    - (* the window is closed by a full block: every copy of it is acknowledged *)
      destruct (block_closing hist1 r1 (a + N.of_nat (N.to_nat m - 1)) (0 + N.of_nat (N.to_nat m - 1)) s [] None n1
                  (repeat (ack_dgram a) stale) n2 Hrs1 ltac:(lia) ltac:(lia)) as (r2 & hist2 & Hrun2 & Hrs2).
      replace (a + N.of_nat (N.to_nat m - 1) + 1) with (a + m) in * by lia.
      assert (Hx : repeat (ack_dgram (a + m)) (rsn * rrn) = ack_dgram (a + m) :: repeat (ack_dgram (a + m)) (rsn * rrn - 1)).
      { destruct (rsn * rrn)%nat eqn:Hz; [nia|]. cbn [repeat Nat.sub]. rewrite Nat.sub_0_r. reflexivity. }
      destruct (drain_stale sc rc F Hwf Hblk Hws Htmo [] [] stale s a r0 r2 None n1
                  (repeat (ack_dgram (a + m)) (rsn * rrn)) None (n2 + N.of_nat (rsn * rrn)) Hss) as (s3 & Hrun3 & Hss3 & Hl3).
      fold m in Hl3. destruct (send_ack_windowR s3 a r0 Hss3) as (s4 & out & E & Hres). rewrite Hl3 in E, Hres.
      destruct (N.eqb_spec (a + m) nb) as [|_]; [contradiction|]. destruct Hres as [Hss4 Hout4].
      exists ((N.to_nat m - 1) * rsn + (rsn + (stale + 1)))%nat. eexists. split; [reflexivity|].
      rewrite <- (app_nil_r (repeat (data_dgram blk F (a + m)) rsn)), run_add, Hrun1, run_add, Hrun2, run_add, Hrun3.
      rewrite Hx. cbn [pair_run]. rewrite step_send by apply Hss3. rewrite E. cbn [fst snd]. rewrite Hout4, puts_nil.
      exists s4, r2, hist2, (n1 + lenN (datasR (a + m + 1) (N.to_nat (wlen s4)))), (n2 + N.of_nat (rsn * rrn)), (rsn * rrn - 1)%nat.
      split; [|split; assumption]. unfold syncR. cbn [app]. reflexivity.
  Qed.

  Lemma perfect_from_syncR : forall k s r a r0 stale hist n1 n2, nb - a <= N.of_nat k -> SS s a r0 -> RS hist r a 0 ->
    exists fuel, Final F (run fuel (syncR s r a n1 n2 stale)).
  Proof.
    intros k. induction k as [|k IH]; intros s r a r0 stale hist n1 n2 Hk Hss Hrs;
      pose proof (SS_len sc rc F Hblk Hws Htmo _ _ _ Hss) as (Ha & Hlen & Hpos); [lia|].
    destruct (roundR s r a r0 stale hist n1 n2 Hss Hrs) as (fuel & p' & Hrun & Hres).
    destruct (N.eqb_spec (a + wlen s) nb) as [Hlast|Hnot].
    - exists fuel. rewrite Hrun. exact Hres.
    - destruct Hres as (s' & r' & hist' & n1' & n2' & stale' & -> & Hss' & Hrs').
      destruct (IH s' r' (a + wlen s) 0 stale' hist' n1' n2' ltac:(lia) Hss' Hrs') as (fuel2 & Hfin).
      exists (fuel + fuel2)%nat. rewrite run_add, Hrun. exact Hfin.
  Qed.

  (** C16, closed system: both workers in duplicate-packets mode (any repeat counts), undisturbed channels -
      both complete, the receiver holds exactly the file. *)
  Theorem cosim_perfect_dup : exists fuel,
    let p := pair_run sc rc [] [] fuel (pair_init sc rc [] F) in
    r_phase (p_r p) = RDone OutOk /\ written_bytes (w_file (r_w (p_r p))) = F /\ s_phase (p_s p) = SDone OutOk.
  Proof.
    unfold pair_init. destruct (send_init sc F) as [s0 out0] eqn:E0. unfold send_init in E0. rewrite Hck in E0.
    set (st0 := mk_sstate 1 (window_new (s_ws sc) (s_blk sc) (file_for_read F)) true 0 0 0 SInWindow 1) in *.
    assert (Hc0 : SCore sc F st0).
    { unfold SCore, st0. cbn [s_w s_bn s_abs s_filled s_retry window_new w_elems w_size w_chunk w_file
                              file_for_read f_mode f_rest length chunks_from].
      rewrite lenN_nil. destruct Hwf as (Hb & Hw1 & Hw2). pose proof (nblk_pos (s_blk sc) F).
      repeat split; try reflexivity; try lia. }
    destruct (outer_top_outR st0 s0 out0 Hc0) as [Hss Hout]; try exact E0.
    - intros _. unfold st0. cbn [s_w window_new w_elems]. rewrite lenN_nil. destruct Hwf as (_ & ? & _). lia.
    - discriminate.
    - change (s_abs st0 - 1) with 0 in Hss. rewrite Hout, (SS_windowR _ _ _ Hss). unfold chan_empty. rewrite puts_nil. cbn [app].
      destruct (perfect_from_syncR (N.to_nat nb) s0 (recv_init rc) 0 0 O [] (0 + lenN (datasR (0 + 1) (N.to_nat (wlen s0)))) 0
                  ltac:(lia) Hss (recv_init_RS sc rc F Hwf Hblk Hws)) as (fuel & Hfin).
      exists fuel. exact Hfin.
  Qed.

  (** * Within the receiver's capacity nothing is lost (the positive side of finding D8)

      If the receiver's buffer takes a whole window burst ([s_rep] copies of [windowsize] blocks), the
      capacity rule of [pair_step_cap] never drops anything: the run is the undisturbed one, and the
      transfer completes - for every file, block size, window size and repeat counts. *)

  Lemma window_tx_length : forall rep a elems, length (window_tx rep a elems) = (rep * length elems)%nat.
  Proof.
    intros rep a elems. revert a. induction elems as [|c r IH]; intros a; cbn [window_tx length]; [lia|].
    rewrite app_length, repeat_length, IH. lia.
  Qed.

  Lemma sent_bytes_length : forall l, (length (sent_bytes l) <= length l)%nat.
  Proof.
    intros l. unfold sent_bytes. rewrite map_length. induction l as [|x l IH]; cbn [filter length]; [lia|].
    destruct (negb (s_failed x)); cbn [length]; lia.
  Qed.

  Lemma burst_bound : forall st e st' out, SInv sc F st -> send_step sc st e = (st', out) ->
    (length (sent_bytes out) <= rsn * N.to_nat ws)%nat.
  Proof.
    intros st e st' out Hi H. pose proof (sent_bytes_length out) as Hl.
    destruct (send_step_spec _ _ _ _ _ _ Hwf Hi H) as [Hi' _].
    destruct (send_step_burst_shape sc F st e st' out Hwf Hsf Hi H) as [->|[->|[_ ->]]].
    - cbn. lia.
    - rewrite window_tx_length in Hl. pose proof (outstanding_le_ws sc F st' Hi') as Hw. unfold lenN in Hw.
      assert (length (w_elems (s_w st')) <= N.to_nat ws)%nat by lia. nia.
    - cbn in *. pose proof Hwf as (_ & Hw & _). nia.
  Qed.

  Lemma firstn_all_le : forall {A} (l : list A) n, (length l <= n)%nat -> firstn n l = l.
  Proof. intros A l n H. apply firstn_all2. exact H. Qed.

  Section Cap.
  Variable cap : nat.
  Hypothesis Hcap : (rsn * N.to_nat ws <= cap)%nat.

  Lemma cap_step_eq : forall p, SInv sc F (p_s p) -> pair_step_cap sc rc cap p = pair_step sc rc [] [] p.
  Proof.
    intros p Hi. unfold pair_step_cap, pair_step.
    destruct (ch_q (p_sr p)) as [|d q]; destruct (r_running (p_r p)); try reflexivity.
    all: destruct (ch_q (p_rs p)) as [|d2 q2]; destruct (s_running (p_s p)); try reflexivity.
    all: try (destruct (send_step sc (p_s p) (EvDgram 0 d2)) as [s' out] eqn:E;
              rewrite (firstn_all_le _ _ (Nat.le_trans _ _ _ (burst_bound _ _ _ _ Hi E) Hcap)); reflexivity).
    all: try (destruct (send_step sc (p_s p) (EvFail (s_tmo sc))) as [s' out] eqn:E;
              rewrite (firstn_all_le _ _ (Nat.le_trans _ _ _ (burst_bound _ _ _ _ Hi E) Hcap)); reflexivity).
  Qed.

  Lemma step_keeps_SInv : forall p p', SInv sc F (p_s p) -> pair_step sc rc [] [] p = Some p' -> SInv sc F (p_s p').
  Proof.
    intros p p' Hi H. unfold pair_step in H.
    destruct (ch_q (p_sr p)) as [|d q]; destruct (r_running (p_r p)).
    all: try (destruct (recv_step rc (p_r p) (EvDgram 0 d)) as [r' out] eqn:E; inversion H; subst; exact Hi).
    all: destruct (ch_q (p_rs p)) as [|d2 q2]; destruct (s_running (p_s p)).
    all: try (destruct (send_step sc (p_s p) (EvDgram 0 d2)) as [s' out] eqn:E; inversion H; subst; cbn [p_s];
              exact (proj1 (send_step_spec _ _ _ _ _ _ Hwf Hi E))).
    all: try (destruct (send_step sc (p_s p) (EvFail (s_tmo sc))) as [s' out] eqn:E; inversion H; subst; cbn [p_s];
              exact (proj1 (send_step_spec _ _ _ _ _ _ Hwf Hi E))).
    all: try (destruct (recv_step rc (p_r p) (EvFail (r_tmo rc))) as [r' out] eqn:E; inversion H; subst; exact Hi).
    all: try discriminate.
  Qed.

  Lemma cap_run_eq : forall fuel p, SInv sc F (p_s p) -> pair_run_cap sc rc cap fuel p = pair_run sc rc [] [] fuel p.
  Proof.
    intros fuel. induction fuel as [|fuel IH]; intros p Hi; cbn [pair_run_cap pair_run]; [reflexivity|].
    rewrite (cap_step_eq p Hi). destruct (pair_step sc rc [] [] p) as [p'|] eqn:E; [|reflexivity].
    apply IH. eapply step_keeps_SInv; eassumption.
  Qed.

  Lemma cap_init_eq : pair_init_cap sc rc cap F = pair_init sc rc [] F /\ SInv sc F (p_s (pair_init sc rc [] F)).
  Proof.
    unfold pair_init_cap, pair_init. destruct (send_init sc F) as [s0 out0] eqn:E0.
    destruct (send_init_spec _ _ _ _ Hwf E0) as [Hi0 _]. split; [|exact Hi0].
    unfold send_init in E0. rewrite Hck in E0.
    set (st0 := mk_sstate 1 (window_new (s_ws sc) (s_blk sc) (file_for_read F)) true 0 0 0 SInWindow 1) in *.
    assert (Hc0 : SCore sc F st0).
    { unfold SCore, st0. cbn [s_w s_bn s_abs s_filled s_retry window_new w_elems w_size w_chunk w_file
                              file_for_read f_mode f_rest length chunks_from].
      rewrite lenN_nil. destruct Hwf as (Hb & Hw1 & Hw2). pose proof (nblk_pos (s_blk sc) F).
      repeat split; try reflexivity; try lia. }
    destruct (outer_top_outR st0 s0 out0 Hc0) as [Hss Hout]; try exact E0.
    - intros _. unfold st0. cbn [s_w window_new w_elems]. rewrite lenN_nil. destruct Hwf as (_ & ? & _). lia.
    - discriminate.
    - rewrite firstn_all_le; [reflexivity|].
      pose proof (sent_bytes_length out0) as Hl. rewrite Hout, window_tx_length in Hl.
      pose proof (outstanding_le_ws sc F s0 Hi0) as Hw. unfold lenN in Hw.
      assert (length (w_elems (s_w s0)) <= N.to_nat ws)%nat by lia. rewrite Hout. nia.
  Qed.

  Theorem cosim_cap_sufficient : exists fuel,
    let p := pair_run_cap sc rc cap fuel (pair_init_cap sc rc cap F) in
    r_phase (p_r p) = RDone OutOk /\ written_bytes (w_file (r_w (p_r p))) = F /\ s_phase (p_s p) = SDone OutOk.
  Proof.
    destruct cosim_perfect_dup as (fuel & Hfin). exists fuel. cbv zeta.
    destruct cap_init_eq as [-> Hi]. rewrite (cap_run_eq fuel _ Hi). exact Hfin.
  Qed.
  End Cap.
End Dup.
