(** Duplicate-packets mode in the closed system: a sender that emits every DATA [s_rep] times and a
    receiver that emits every ACK [r_rep] times, over undisturbed channels, complete with exactly
    the file - for every file, block size, window size and every pair of repeat counts (C16:
    "the server's own sender and receiver facing such duplicates still complete with
    byte-identical content"). *)
From Coq Require Import ZArith Lia ZifyBool ZifyNat ZifyN.
From Tftp Require Import Base.Prelude Model.Types Model.Consts Model.Codec Model.Window Model.Worker Model.Spec
  Model.Server Model.Net Proofs.ListAux Proofs.CodecP Proofs.SpecP Proofs.WindowP Proofs.SendP Proofs.RecvP Proofs.NetP
  Proofs.CosimP Proofs.CosimLive.
Local Open Scope N_scope.
Ltac Zify.zify_post_hook ::= Z.div_mod_to_equations.

Lemma sent_bytes_app : forall a b, sent_bytes (a ++ b) = sent_bytes a ++ sent_bytes b.
Proof. intros a b. unfold sent_bytes. rewrite filter_app, map_app. reflexivity. Qed.

Lemma sent_bytes_repeat : forall p n, sent_bytes (repeat (mk_sent p false) n) = repeat (encode p) n.
Proof. intros p n. induction n as [|n IH]; [reflexivity|]. cbn [repeat]. unfold sent_bytes in *. cbn [filter s_failed negb map s_pk]. rewrite IH. reflexivity. Qed.

Section Dup.
  Variables (sc : scfg) (rc : rcfg) (F : bytes).
  Hypotheses (Hwf : wf_params (s_blk sc) (s_ws sc))
             (Hblk : r_blk rc = s_blk sc) (Hws : r_ws rc = s_ws sc)
             (Hck : s_check sc = false)
             (Hsf : s_fails sc = []) (Hrf : r_fails rc = [])
             (Hsrep : 1 <= s_rep sc) (Hrrep : 1 <= r_rep rc)
             (Htmo : 0 < s_tmo sc).

  Local Notation blk := (s_blk sc).
  Local Notation ws := (s_ws sc).
  Local Notation nb := (nblk (s_blk sc) F).
  Local Notation rsn := (N.to_nat (s_rep sc)).
  Local Notation rrn := (N.to_nat (r_rep rc)).
  Local Notation SS := (CosimLive.SS sc F).
  Local Notation RS := (CosimLive.RS sc rc F).
  Local Notation step := (pair_step sc rc [] []).
  Local Notation run := (pair_run sc rc [] []).

  Lemma Hwfr : wf_params (r_blk rc) (r_ws rc).
  Proof. rewrite Hblk, Hws. exact Hwf. Qed.

  (** Blocks [k, k+n), every one [s_rep] times. *)
  Fixpoint datasR (k : N) (n : nat) : list bytes :=
    match n with
    | O => []
    | S n' => repeat (data_dgram blk F k) rsn ++ datasR (k + 1) n'
    end.

  Lemma window_tx_datasR : forall n a, sent_bytes (window_tx rsn a (chunks_from blk F a n)) = datasR a n.
  Proof.
    intros n. induction n as [|n IH]; intros a; cbn [chunks_from window_tx datasR]; [reflexivity|].
    rewrite sent_bytes_app, sent_bytes_repeat, IH. reflexivity.
  Qed.

  (** * The receiver *)

  Lemma r_ack_rep : forall st next st' out, r_ack rc st next = (st', out) ->
    acked_bytes out = repeat (encode (Ack (r_bn st))) rrn /\ r_phase st' = next /\ r_bn st' = r_bn st /\
    r_w st' = r_w st /\ r_cnt st' = r_cnt st /\ r_retry st' = r_retry st.
  Proof.
    intros st next st' out H. unfold r_ack in H. rewrite Hrf, send_packet_nofail in H. inversion H; subst.
    cbn [r_phase r_bn r_w r_cnt r_retry]. split; [|repeat split; reflexivity].
    unfold acked_bytes, tag_file. rewrite map_map. cbn [a_sent]. rewrite map_id. apply sent_bytes_repeat.
  Qed.

  Lemma receive_data : forall k d,
    receive (r_blk rc) (EvDgram d (data_dgram blk F k)) = RPacket (Data (k mod 65536) (chunk blk F k)).
  Proof. intros k d. rewrite Hblk. apply receive_data_dgram. Qed.

  Lemma recv_in_seqR : forall hist st c j, RS hist st c j -> c + 1 <= nb ->
    let e := EvDgram 0 (data_dgram blk F (c + 1)) in
    exists st' out, recv_step rc st e = (st', out) /\
      if (c + 1 =? nb) || (j + 1 =? ws) then
        acked_bytes out = repeat (ack_dgram (c + 1)) rrn /\
        (if c + 1 =? nb then r_phase st' = RDone OutOk /\ written_bytes (w_file (r_w st')) = F
         else RS (hist ++ [e]) st' (c + 1) 0)
      else out = [] /\ RS (hist ++ [e]) st' (c + 1) (j + 1).
  Proof.
    intros hist st c j (Hi & Hp & Hc & Hj & Hacc) Hle e.
    pose proof (proj1 Hwf) as Hb. pose proof Hwfr as Hwr.
    pose proof (receive_data (c + 1) 0) as Hr. fold e in Hr.
    pose proof Hi as (A & B & C & D & E & G & G2 & I & J & K).
    assert (Hseq : (c + 1) mod 65536 = wadd16 (r_bn st) 1) by (unfold wadd16; rewrite E, Hc; lia).
    destruct (recv_step rc st e) as [st1 out] eqn:E1.
    destruct (recv_step_spec _ _ _ _ _ _ Hwr Hi Hp E1) as [Hi1 _].
    assert (Hacc1 : accepted (r_blk rc) 0 (hist ++ [e]) = accepted (r_blk rc) 0 hist ++ [chunk blk F (c + 1)]).
    { rewrite accepted_snoc. unfold accepts. rewrite (I Hp), Hr, N.add_0_l, <- D, Hc. rewrite N.eqb_refl. reflexivity. }
    assert (Hacc2 : concat (accepted (r_blk rc) 0 (hist ++ [e])) = takeN ((c + 1) * blk) F).
    { rewrite Hacc1, concat_app, Hacc. cbn [concat]. rewrite app_nil_r.
      replace (c * blk) with ((c + 1 - 1) * blk) by (f_equal; lia). apply chunk_append. lia. }
    rewrite (step_data_in rc hist st e _ _ Hwr Hi Hp Hr Hseq) in E1. cbv zeta in E1.
    rewrite Hj, Hws in E1. exists st1, out. split; [reflexivity|].
    destruct (N.eqb_spec (c + 1) nb) as [Hlast|Hnot].
    - cbn [orb]. pose proof (chunk_last_short blk F Hb) as Hs. rewrite <- Hlast in Hs.
      rewrite Hblk in E1.
      destruct (N.ltb_spec (lenN (chunk blk F (c + 1))) blk); [|lia]. cbn [orb] in E1.
      destruct (r_ack_rep _ _ _ _ E1) as (O1 & O2 & O3 & O4 & O5 & O6). cbn [r_bn] in O1.
      split; [exact O1|]. split; [exact O2|].
      destruct Hi1 as (_ & _ & _ & _ & _ & _ & _ & _ & J1 & _). rewrite O4 in J1 |- *. cbn [r_w w_elems concat w_file] in J1 |- *.
      rewrite app_nil_r in J1. unfold written_bytes in *. cbn [w_file] in *. rewrite J1, Hacc2, Hlast. apply takeN_all.
      assert (Hnn : ~ (nblk blk F < nblk blk F)) by lia. rewrite lt_nblk_iff in Hnn by assumption. lia.
    - assert (Hfull : lenN (chunk blk F (c + 1)) = blk) by (apply chunk_full; [assumption|lia|lia]).
      rewrite Hblk in E1.
      destruct (N.ltb_spec (lenN (chunk blk F (c + 1))) blk); [lia|]. cbn [orb] in E1 |- *.
      destruct (N.eqb_spec (j + 1) ws) as [Hfl|Hnf].
      + destruct (r_ack_rep _ _ _ _ E1) as (O1 & O2 & O3 & O4 & O5 & O6). cbn [r_bn r_cnt] in O1, O5.
        split; [exact O1|]. unfold CosimLive.RS. split; [exact Hi1|]. split; [exact O2|]. split; [rewrite O5, Hc; reflexivity|].
        split; [rewrite O4; reflexivity|exact Hacc2].
      + inversion E1; subst st1 out. split; [reflexivity|]. unfold CosimLive.RS. split; [exact Hi1|].
        cbn [r_phase r_cnt r_w w_elems]. split; [reflexivity|]. split; [rewrite Hc; reflexivity|].
        split; [rewrite lenN_app, Hj; reflexivity|exact Hacc2].
  Qed.

  Lemma recv_out_seqR : forall hist st c j k, RS hist st c j -> k mod 65536 <> (c + 1) mod 65536 ->
    let e := EvDgram 0 (data_dgram blk F k) in
    exists st' out, recv_step rc st e = (st', out) /\ RS (hist ++ [e]) st' c j /\
      acked_bytes out = if j =? 0 then repeat (ack_dgram c) rrn else [].
  Proof.
    intros hist st c j k (Hi & Hp & Hc & Hj & Hacc) Hne e. pose proof Hwfr as Hwr.
    pose proof (receive_data k 0) as Hr. fold e in Hr.
    pose proof Hi as (A & B & C & D & E & G & G2 & I & J & K).
    assert (Hn : k mod 65536 <> wadd16 (r_bn st) 1) by (unfold wadd16; rewrite E, Hc; lia).
    destruct (recv_out_of_sequence rc st e _ _ Hp Hr Hn) as (st' & out & E1 & F1 & F2 & F3 & F4 & F5 & F6 & F7).
    exists st', out. split; [exact E1|].
    destruct (recv_step_spec _ _ _ _ _ _ Hwr Hi Hp E1) as [Hi1 _].
    assert (Hacc1 : accepted (r_blk rc) 0 (hist ++ [e]) = accepted (r_blk rc) 0 hist).
    { rewrite accepted_snoc. unfold accepts. rewrite (I Hp), Hr, N.add_0_l, <- D, Hc.
      destruct (N.eqb_spec (k mod 65536) ((c + 1) mod 65536)); [contradiction|]. apply app_nil_r. }
    destruct (N.eqb_spec j 0) as [Hz|Hnz].
    - assert (Hnil : w_elems (r_w st) = []) by (apply lenN_0_nil; lia).
      unfold recv_step in E1. rewrite Hp, Hr in E1.
      destruct (N.eqb_spec (k mod 65536) (wadd16 (r_bn st) 1)); [contradiction|].
      rewrite (proj2 (w_is_empty_iff _) Hnil) in E1.
      destruct (r_ack_rep _ _ _ _ E1) as (O1 & O2 & O3 & O4 & O5 & O6).
      split; [|rewrite O1, E, Hc; reflexivity].
      unfold CosimLive.RS. split; [exact Hi1|]. split; [exact O2|]. split; [rewrite O5; exact Hc|].
      split; [rewrite O4; exact Hj|rewrite Hacc1; exact Hacc].
    - assert (Hne2 : w_elems (r_w st) <> []) by (intros Z; rewrite Z in Hj; cbn in Hj; lia).
      destruct (F6 Hne2) as [-> ->]. split; [|reflexivity].
      unfold CosimLive.RS. split; [exact Hi1|]. split; [exact Hp|]. split; [exact Hc|]. split; [exact Hj|rewrite Hacc1; exact Hacc].
  Qed.

  (** * The sender *)

  Lemma SS_windowR : forall st a r, SS st a r ->
    sent_bytes (window_tx rsn (s_abs st) (w_elems (s_w st))) = datasR (a + 1) (N.to_nat (wlen st)).
  Proof.
    intros st a r ((Hc & _) & _ & _ & Ha & _). destruct Hc as (_ & _ & _ & _ & _ & _ & I & _).
    rewrite I, Ha. unfold wlen, lenN. rewrite Nat2N.id. apply window_tx_datasR.
  Qed.

  Lemma inner_top_firesR : forall st, SCore sc F st -> s_tmo sc <= s_since st ->
    s_inner_top sc st =
      (mk_sstate (s_bn st) (s_w st) (s_filled st) (s_retry st) 0 (s_nsent st + s_rep sc * lenN (w_elems (s_w st)))
                 (s_phase st) (s_abs st),
       window_tx rsn (s_abs st) (w_elems (s_w st))).
  Proof.
    intros st Hc Ht. unfold s_inner_top. destruct (N.leb_spec (s_tmo sc) (s_since st)); [|lia].
    destruct Hc as (_ & _ & _ & _ & Hbn & _). rewrite Hsf, Hbn, send_window_nofail. reflexivity.
  Qed.

  Lemma outer_top_outR : forall st st' out, SCore sc F st ->
    (s_filled st = true -> lenN (w_elems (s_w st)) < ws) ->
    (s_filled st = false -> w_elems (s_w st) <> []) ->
    s_outer_top sc st = (st', out) ->
    SS st' (s_abs st - 1) 0 /\ out = window_tx rsn (s_abs st') (w_elems (s_w st')).
  Proof.
    intros st st' out Hc Hlt Hne H.
    destruct (outer_top_tight sc F st st' out Hwf Hsf Hc Hlt Hne H) as (Hi & Hp & Ht & Ha).
    assert (Habs : 1 <= s_abs st) by (destruct Hc as (_ & _ & _ & D & _); exact D).
    assert (X : s_since st' = 0 /\ s_retry st' = 0 /\ out = window_tx rsn (s_abs st') (w_elems (s_w st'))).
    { unfold s_outer_top in H. destruct (s_filled st) eqn:Hf.
      - destruct (fill_send _ _ _ Hwf Hc Hf) as (w' & full & Fl & Hcore & _). rewrite Fl in H.
        rewrite inner_top_firesR in H by (try apply Hcore; try exact max_retries_pos; cbn [s_since]; lia).
        inversion H; subst. cbn [s_since s_retry s_abs s_w]. repeat split; reflexivity.
      - rewrite inner_top_firesR in H.
        + inversion H; subst. cbn [s_since s_retry s_abs s_w]. repeat split; reflexivity.
        + eapply SCore_ext; [..|exact Hc]; try reflexivity; try exact max_retries_pos. cbn [s_filled]. symmetry. exact Hf.
        + cbn [s_since]. lia. }
    destruct X as (X1 & X2 & X3). split; [|exact X3].
    unfold CosimLive.SS. split; [exact Hi|]. split; [exact Hp|]. split; [exact Ht|]. split; [rewrite Ha; lia|]. split; assumption.
  Qed.

  Lemma send_ack_windowR : forall st a r, SS st a r ->
    let e := EvDgram 0 (ack_dgram (a + wlen st)) in
    exists st' out, send_step sc st e = (st', out) /\
      if a + wlen st =? nb then out = [] /\ s_phase st' = SDone OutOk
      else SS st' (a + wlen st) 0 /\ sent_bytes out = datasR (a + wlen st + 1) (N.to_nat (wlen st')).
  Proof.
    intros st a r Hss e. pose proof (SS_len sc rc F Hblk Hws Htmo _ _ _ Hss) as (Ha & Hlen & Hpos).
    destruct Hss as (Hi & Hp & Ht & Habs & Hsince & Hretry). unfold wlen in *.
    pose proof Hi as [Hc [_ Hne]]. specialize (Hne Hp).
    pose proof Hc as (A & B & C & D & E & G & I & J & K & L).
    set (len := lenN (w_elems (s_w st))) in *.
    pose proof (receive_ack_dgram (a + len) 0) as Hr. fold e in Hr.
    assert (Hd : wsub16 ((a + len) mod 65536) (s_bn st) = len - 1).
    { rewrite E. destruct Hwf as (_ & _ & Hw). rewrite (wsub16_in_window (s_abs st) (a + len) len) by lia. lia. }
    destruct (step_ack_in sc F st e _ Hwf Hi Hp Hr ltac:(rewrite Hd; lia)) as (w' & Hrm & Hel & Hc2 & Hstep).
    rewrite Hd in *. replace (len - 1 + 1) with len in * by lia.
    assert (Hemp : w_is_empty w' = true).
    { apply w_is_empty_iff. apply lenN_0_nil. rewrite Hel, lenN_dropN. fold len. lia. }
    rewrite Hstep, Hemp, andb_true_r.
    destruct (s_filled st) eqn:Hf; cbn [negb].
    - destruct (N.eqb_spec (a + len) nb) as [Hx|_]; [lia|].
      match goal with |- exists st' out, s_outer_top sc ?x = _ /\ _ => set (st2 := x) in * end.
      destruct (s_outer_top sc st2) as [st3 out] eqn:Eo. exists st3, out. split; [reflexivity|].
      destruct (outer_top_outR st2 st3 out Hc2) as [Hss3 Hout]; try exact Eo.
      + intros _. unfold st2. cbn [s_w]. apply w_is_empty_iff in Hemp. rewrite Hemp. cbn. destruct Hwf as (_ & ? & _). lia.
      + unfold st2. cbn [s_filled]. discriminate.
      + replace (s_abs st2 - 1) with (a + len) in Hss3 by (unfold st2; cbn [s_abs]; lia).
        split; [exact Hss3|]. rewrite Hout. rewrite (SS_windowR _ _ _ Hss3). reflexivity.
    - destruct (N.eqb_spec (a + len) nb) as [_|Hx]; [|lia].
      eexists. eexists. split; [reflexivity|]. split; reflexivity.
  Qed.

  (** * The closed system *)

  Lemma clean_nil : forall lo hi, clean [] lo hi.
  Proof. intros lo hi i _. reflexivity. Qed.

  Lemma puts_nil : forall ds q n, chan_puts [] (mk_chan q None n) ds = mk_chan (q ++ ds) None (n + lenN ds).
  Proof. intros. apply (chan_puts_clean sc rc Hblk Hws Htmo). apply clean_nil. Qed.

  (** [n] copies of a block that is not the next one. *)
  Lemma drain_copies : forall n k hist r c j s q h nn rs, RS hist r c j -> k mod 65536 <> (c + 1) mod 65536 ->
    exists r' hist', run n (mk_pair s r (mk_chan (repeat (data_dgram blk F k) n ++ q) h nn) rs) =
        mk_pair s r' (mk_chan q h nn) (chan_puts [] rs (if j =? 0 then repeat (ack_dgram c) (n * rrn) else [])) /\
      RS hist' r' c j.
  Proof.
    intros n. induction n as [|n IH]; intros k hist r c j s q h nn rs Hrs Hne.
    - cbn [repeat app pair_run Nat.mul]. exists r, hist. split; [|exact Hrs]. destruct (j =? 0); reflexivity.
    - cbn [repeat app pair_run]. rewrite step_recv by apply Hrs.
      destruct (recv_out_seqR hist r c j k Hrs Hne) as (st' & out & E & Hst & Hout). rewrite E. cbn [fst snd]. rewrite Hout.
      destruct (IH k _ st' c j s q h nn (chan_puts [] rs (if j =? 0 then repeat (ack_dgram c) rrn else [])) Hst Hne)
        as (r' & hist' & Hrun & Hfin).
      exists r', hist'. split; [|exact Hfin]. rewrite Hrun. f_equal.
      destruct (j =? 0); [|reflexivity]. rewrite <- chan_puts_app, <- repeat_app. reflexivity.
  Qed.

  (** One block, all its copies, not the one that closes the window: buffered once, ignored afterwards. *)
  Lemma block_buffered : forall hist r c j s q h nn rs, RS hist r c j -> c + 1 < nb -> j + 1 < ws ->
    exists r' hist', run rsn (mk_pair s r (mk_chan (repeat (data_dgram blk F (c + 1)) rsn ++ q) h nn) rs) =
        mk_pair s r' (mk_chan q h nn) rs /\ RS hist' r' (c + 1) (j + 1).
  Proof.
    intros hist r c j s q h nn rs Hrs Hc Hj.
    assert (Hpos : (1 <= rsn)%nat) by lia. remember rsn as R eqn:HR. destruct R as [|R']; [lia|]. clear HR Hpos.
    cbn [repeat app pair_run]. rewrite step_recv by apply Hrs.
    destruct (recv_in_seqR hist r c j Hrs ltac:(lia)) as (st' & out & E & Hres). rewrite E. cbn [fst snd].
    assert (Hfl : (c + 1 =? nb) || (j + 1 =? ws) = false) by lia. rewrite Hfl in Hres. destruct Hres as [-> Hst].
    cbn [acked_bytes sent_bytes map filter]. change (chan_puts [] rs []) with rs.
    destruct (drain_copies R' (c + 1) _ st' (c + 1) (j + 1) s q h nn rs Hst) as (r' & hist' & Hrun & Hfin).
    { pose proof Hwf as (_ & _ & Hw). lia. }
    exists r', hist'. split; [|exact Hfin]. rewrite Hrun. replace (j + 1 =? 0) with false by lia. reflexivity.
  Qed.

  Lemma window_buffered : forall n hist r c j s q h nn rs, RS hist r c j -> c + N.of_nat n < nb -> j + N.of_nat n < ws ->
    exists r' hist', run (n * rsn) (mk_pair s r (mk_chan (datasR (c + 1) n ++ q) h nn) rs) =
        mk_pair s r' (mk_chan q h nn) rs /\ RS hist' r' (c + N.of_nat n) (j + N.of_nat n).
  Proof.
    intros n. induction n as [|n IH]; intros hist r c j s q h nn rs Hrs Hc Hj.
    - cbn [datasR app pair_run Nat.mul]. exists r, hist. split; [reflexivity|].
      replace (c + N.of_nat 0) with c by lia. replace (j + N.of_nat 0) with j by lia. exact Hrs.
    - cbn [datasR Nat.mul]. rewrite <- app_assoc, run_add.
      destruct (block_buffered hist r c j s (datasR (c + 1 + 1) n ++ q) h nn rs Hrs ltac:(lia) ltac:(lia)) as (r1 & hist1 & Hrun1 & Hrs1).
      rewrite Hrun1.
      destruct (IH hist1 r1 (c + 1) (j + 1) s q h nn rs Hrs1 ltac:(lia) ltac:(lia)) as (r' & hist' & Hrun & Hfin).
      exists r', hist'. split; [exact Hrun|].
      replace (c + N.of_nat (S n)) with (c + 1 + N.of_nat n) by lia.
      replace (j + N.of_nat (S n)) with (j + 1 + N.of_nat n) by lia. exact Hfin.
  Qed.

  (** The block that closes the window (not the final one of the file): flushed and acknowledged at its first
      copy; every further copy finds nothing buffered and is answered with the same ACK again. *)
  Lemma block_closing : forall hist r c j s q h nn qrs n2, RS hist r c j -> c + 1 < nb -> j + 1 = ws ->
    exists r' hist', run rsn (mk_pair s r (mk_chan (repeat (data_dgram blk F (c + 1)) rsn ++ q) h nn) (mk_chan qrs None n2)) =
        mk_pair s r' (mk_chan q h nn) (mk_chan (qrs ++ repeat (ack_dgram (c + 1)) (rsn * rrn)) None (n2 + N.of_nat (rsn * rrn))) /\
      RS hist' r' (c + 1) 0.
  Proof.
    intros hist r c j s q h nn qrs n2 Hrs Hc Hj.
    assert (Hpos : (1 <= rsn)%nat) by lia. remember rsn as R eqn:HR. destruct R as [|R']; [lia|]. clear HR Hpos.
    cbn [repeat app pair_run]. rewrite step_recv by apply Hrs.
    destruct (recv_in_seqR hist r c j Hrs ltac:(lia)) as (st' & out & E & Hres). rewrite E. cbn [fst snd].
    assert (Hfl : (c + 1 =? nb) || (j + 1 =? ws) = true) by lia. rewrite Hfl in Hres. destruct Hres as [Hout Hst].
    replace (c + 1 =? nb) with false in Hst by lia. rewrite Hout, puts_nil.
    replace (c + 1) with (c + 1 + 0) in Hst at 2 by lia.
    destruct (drain_copies R' (c + 1) _ st' (c + 1) 0 s q h nn
                (mk_chan (qrs ++ repeat (ack_dgram (c + 1)) rrn) None (n2 + lenN (repeat (ack_dgram (c + 1)) rrn)))
                ltac:(replace (c + 1 + 0) with (c + 1) in Hst by lia; exact Hst)) as (r' & hist' & Hrun & Hfin).
    { pose proof Hwf as (_ & _ & Hw). lia. }
    exists r', hist'. split; [|exact Hfin]. rewrite Hrun. change (0 =? 0) with true. cbv iota. rewrite puts_nil.
    rewrite <- app_assoc, <- repeat_app. unfold lenN. rewrite !repeat_length.
    replace (S R' * rrn)%nat with (rrn + R' * rrn)%nat by lia. f_equal. f_equal. lia.
  Qed.

  (** The final block of the file: its first copy ends the receiver; the other copies are never read. *)
  Lemma block_final : forall hist r c j s q h nn qrs n2, RS hist r c j -> c + 1 = nb ->
    exists r', run 1 (mk_pair s r (mk_chan (repeat (data_dgram blk F (c + 1)) rsn ++ q) h nn) (mk_chan qrs None n2)) =
        mk_pair s r' (mk_chan (repeat (data_dgram blk F (c + 1)) (rsn - 1) ++ q) h nn)
                (mk_chan (qrs ++ repeat (ack_dgram (c + 1)) rrn) None (n2 + N.of_nat rrn)) /\
      r_phase r' = RDone OutOk /\ written_bytes (w_file (r_w r')) = F.
  Proof.
    intros hist r c j s q h nn qrs n2 Hrs Hc.
    assert (Hpos : (1 <= rsn)%nat) by lia. remember rsn as R eqn:HR. destruct R as [|R']; [lia|]. clear HR Hpos.
    replace (S R' - 1)%nat with R' by lia. cbn [repeat app pair_run]. rewrite step_recv by apply Hrs.
    destruct (recv_in_seqR hist r c j Hrs ltac:(lia)) as (st' & out & E & Hres). rewrite E. cbn [fst snd].
    assert (Hfl : (c + 1 =? nb) || (j + 1 =? ws) = true) by lia. rewrite Hfl in Hres. destruct Hres as [Hout Hst].
    replace (c + 1 =? nb) with true in Hst by lia. rewrite Hout, puts_nil. unfold lenN. rewrite repeat_length.
    exists st'. split; [reflexivity|exact Hst].
  Qed.

  (** ** Rounds *)

  Definition syncR (s : sstate) (r : rstate) (a n1 n2 : N) (stale : nat) : pair_state :=
    mk_pair s r (mk_chan (datasR (a + 1) (N.to_nat (wlen s))) None n1) (mk_chan (repeat (ack_dgram a) stale) None n2).

  Lemma datasR_app : forall n m k, datasR k (n + m) = datasR k n ++ datasR (k + N.of_nat n) m.
  Proof.
    intros n. induction n as [|n IH]; intros m k.
    - cbn [datasR app Nat.add]. f_equal. lia.
    - cbn [datasR Nat.add]. rewrite IH, <- app_assoc. f_equal. f_equal. f_equal. lia.
  Qed.

  Lemma datasR_length : forall n k, length (datasR k n) = (n * rsn)%nat.
  Proof. intros n. induction n as [|n IH]; intros k; cbn [datasR length Nat.mul]; [reflexivity|]. rewrite app_length, repeat_length, IH. reflexivity. Qed.

  Lemma roundR : forall s r a r0 stale hist n1 n2, SS s a r0 -> RS hist r a 0 ->
    exists fuel p', run fuel (syncR s r a n1 n2 stale) = p' /\
      if a + wlen s =? nb then Final F p'
      else exists s' r' hist' n1' n2' stale', p' = syncR s' r' (a + wlen s) n1' n2' stale' /\
             SS s' (a + wlen s) 0 /\ RS hist' r' (a + wlen s) 0.
  Proof.
    intros s r a r0 stale hist n1 n2 Hss Hrs. unfold syncR.
    pose proof (SS_len sc rc F Hblk Hws Htmo _ _ _ Hss) as (Ha & Hlen & Hpos). set (m := wlen s) in *.
    replace (N.to_nat m) with ((N.to_nat m - 1) + 1)%nat by lia. rewrite datasR_app. cbn [datasR]. rewrite app_nil_r.
    (* all blocks but the last of the window are buffered *)
    destruct (window_buffered (N.to_nat m - 1) hist r a 0 s (repeat (data_dgram blk F (a + 1 + N.of_nat (N.to_nat m - 1))) rsn) None n1
                (mk_chan (repeat (ack_dgram a) stale) None n2) Hrs ltac:(lia) ltac:(lia)) as (r1 & hist1 & Hrun1 & Hrs1).
    replace (a + 1 + N.of_nat (N.to_nat m - 1)) with (a + N.of_nat (N.to_nat m - 1) + 1) in * by lia.
    rewrite <- (app_nil_r (repeat (data_dgram blk F (a + N.of_nat (N.to_nat m - 1) + 1)) rsn)) in Hrun1.
    destruct (N.eq_dec (a + m) nb) as [Hlast|Hnot].
    - (* the window ends the file *)
      destruct (block_final hist1 r1 (a + N.of_nat (N.to_nat m - 1)) (0 + N.of_nat (N.to_nat m - 1)) s [] None n1
                  (repeat (ack_dgram a) stale) n2 Hrs1 ltac:(lia)) as (r2 & Hrun2 & Hp2 & Hfile2).
      replace (a + N.of_nat (N.to_nat m - 1) + 1) with (a + m) in * by lia.
      assert (Hrrn : repeat (ack_dgram (a + m)) rrn = ack_dgram (a + m) :: repeat (ack_dgram (a + m)) (rrn - 1)).
      { destruct rrn eqn:Hz; [lia|]. cbn [repeat Nat.sub]. rewrite Nat.sub_0_r. reflexivity. }
      exists ((N.to_nat m - 1) * rsn + (1 + (stale + 1)))%nat. eexists. split; [reflexivity|].
      rewrite <- (app_nil_r (repeat (data_dgram blk F (a + m)) rsn)), run_add, Hrun1, run_add, Hrun2.
      destruct (N.eqb_spec (a + m) nb) as [_|]; [|contradiction].
      (* the sender reads the stale ACKs, then the first copy of the final ACK *)
      destruct (drain_stale_done sc rc F Hwf Hblk Hws Htmo [] [] stale s a r0 r2 OutOk
                  (mk_chan (repeat (data_dgram blk F (a + m)) (rsn - 1) ++ []) None n1)
                  (repeat (ack_dgram (a + m)) rrn) None (n2 + N.of_nat rrn) Hp2 Hss) as (s3 & Hrun3 & Hss3 & Hl3).
      rewrite run_add, Hrun3. rewrite Hrrn. cbn [pair_run].
      rewrite (step_send_done sc rc [] [] s3 r2 OutOk) by (try exact Hp2; apply Hss3).
      fold m in Hl3. rewrite <- Hl3. destruct (send_ack_windowR s3 a r0 Hss3) as (s4 & out & E & Hres). rewrite E. cbn [fst snd].
      rewrite Hl3 in Hres. destruct (N.eqb_spec (a + m) nb) as [_|]; [|contradiction].
      destruct Hres as [-> Hd]. unfold Final. cbn [p_r p_s]. repeat split; assumption.
    - (* the window is closed by a full block: every copy of it is acknowledged *)
      destruct (block_closing hist1 r1 (a + N.of_nat (N.to_nat m - 1)) (0 + N.of_nat (N.to_nat m - 1)) s [] None n1
                  (repeat (ack_dgram a) stale) n2 Hrs1 ltac:(lia) ltac:(lia)) as (r2 & hist2 & Hrun2 & Hrs2).
      replace (a + N.of_nat (N.to_nat m - 1) + 1) with (a + m) in * by lia.
      assert (Hx : repeat (ack_dgram (a + m)) (rsn * rrn) = ack_dgram (a + m) :: repeat (ack_dgram (a + m)) (rsn * rrn - 1)).
      { destruct (rsn * rrn)%nat eqn:Hz; [nia|]. cbn [repeat Nat.sub]. rewrite Nat.sub_0_r. reflexivity. }
      destruct (drain_stale sc rc F Hwf Hblk Hws Htmo [] [] stale s a r0 r2 None n1
                  (repeat (ack_dgram (a + m)) (rsn * rrn)) None (n2 + N.of_nat (rsn * rrn)) Hss) as (s3 & Hrun3 & Hss3 & Hl3).
      fold m in Hl3. destruct (send_ack_windowR s3 a r0 Hss3) as (s4 & out & E & Hres). rewrite Hl3 in E, Hres.
      destruct (N.eqb_spec (a + m) nb) as [|_]; [contradiction|]. destruct Hres as [Hss4 Hout4].
      exists ((N.to_nat m - 1) * rsn + (rsn + (stale + 1)))%nat. eexists. split; [reflexivity|].
      rewrite <- (app_nil_r (repeat (data_dgram blk F (a + m)) rsn)), run_add, Hrun1, run_add, Hrun2, run_add, Hrun3.
      rewrite Hx. cbn [pair_run]. rewrite step_send by apply Hss3. rewrite E. cbn [fst snd]. rewrite Hout4, puts_nil.
      exists s4, r2, hist2, (n1 + lenN (datasR (a + m + 1) (N.to_nat (wlen s4)))), (n2 + N.of_nat (rsn * rrn)), (rsn * rrn - 1)%nat.
      split; [|split; assumption]. unfold syncR. cbn [app]. reflexivity.
  Qed.

  Lemma perfect_from_syncR : forall k s r a r0 stale hist n1 n2, nb - a <= N.of_nat k -> SS s a r0 -> RS hist r a 0 ->
    exists fuel, Final F (run fuel (syncR s r a n1 n2 stale)).
  Proof.
    intros k. induction k as [|k IH]; intros s r a r0 stale hist n1 n2 Hk Hss Hrs;
      pose proof (SS_len sc rc F Hblk Hws Htmo _ _ _ Hss) as (Ha & Hlen & Hpos); [lia|].
    destruct (roundR s r a r0 stale hist n1 n2 Hss Hrs) as (fuel & p' & Hrun & Hres).
    destruct (N.eqb_spec (a + wlen s) nb) as [Hlast|Hnot].
    - exists fuel. rewrite Hrun. exact Hres.
    - destruct Hres as (s' & r' & hist' & n1' & n2' & stale' & -> & Hss' & Hrs').
      destruct (IH s' r' (a + wlen s) 0 stale' hist' n1' n2' ltac:(lia) Hss' Hrs') as (fuel2 & Hfin).
      exists (fuel + fuel2)%nat. rewrite run_add, Hrun. exact Hfin.
  Qed.

  (** C16, closed system: both workers in duplicate-packets mode (any repeat counts), undisturbed channels -
      both complete, the receiver holds exactly the file. *)
  Theorem cosim_perfect_dup : exists fuel,
    let p := pair_run sc rc [] [] fuel (pair_init sc rc [] F) in
    r_phase (p_r p) = RDone OutOk /\ written_bytes (w_file (r_w (p_r p))) = F /\ s_phase (p_s p) = SDone OutOk.
  Proof.
    unfold pair_init. destruct (send_init sc F) as [s0 out0] eqn:E0. unfold send_init in E0. rewrite Hck in E0.
    set (st0 := mk_sstate 1 (window_new (s_ws sc) (s_blk sc) (file_for_read F)) true 0 0 0 SInWindow 1) in *.
    assert (Hc0 : SCore sc F st0).
    { unfold SCore, st0. cbn [s_w s_bn s_abs s_filled s_retry window_new w_elems w_size w_chunk w_file
                              file_for_read f_mode f_rest length chunks_from].
      rewrite lenN_nil. destruct Hwf as (Hb & Hw1 & Hw2). pose proof (nblk_pos (s_blk sc) F).
      repeat split; try reflexivity; try lia. }
    destruct (outer_top_outR st0 s0 out0 Hc0) as [Hss Hout]; try exact E0.
    - intros _. unfold st0. cbn [s_w window_new w_elems]. rewrite lenN_nil. destruct Hwf as (_ & ? & _). lia.
    - discriminate.
    - change (s_abs st0 - 1) with 0 in Hss. rewrite Hout, (SS_windowR _ _ _ Hss). unfold chan_empty. rewrite puts_nil. cbn [app].
      destruct (perfect_from_syncR (N.to_nat nb) s0 (recv_init rc) 0 0 O [] (0 + lenN (datasR (0 + 1) (N.to_nat (wlen s0)))) 0
                  ltac:(lia) Hss (recv_init_RS sc rc F Hwf Hblk Hws)) as (fuel & Hfin).
      exists fuel. exact Hfin.
  Qed.

  (** * Within the receiver's capacity nothing is lost (the positive side of finding D8)

      If the receiver's buffer takes a whole window burst ([s_rep] copies of [windowsize] blocks), the
      capacity rule of [pair_step_cap] never drops anything: the run is the undisturbed one, and the
      transfer completes - for every file, block size, window size and repeat counts. *)

  Lemma window_tx_length : forall rep a elems, length (window_tx rep a elems) = (rep * length elems)%nat.
  Proof.
    intros rep a elems. revert a. induction elems as [|c r IH]; intros a; cbn [window_tx length]; [lia|].
    rewrite app_length, repeat_length, IH. lia.
  Qed.

  Lemma sent_bytes_length : forall l, (length (sent_bytes l) <= length l)%nat.
  Proof.
    intros l. unfold sent_bytes. rewrite map_length. induction l as [|x l IH]; cbn [filter length]; [lia|].
    destruct (negb (s_failed x)); cbn [length]; lia.
  Qed.

  Lemma burst_bound : forall st e st' out, SInv sc F st -> send_step sc st e = (st', out) ->
    (length (sent_bytes out) <= rsn * N.to_nat ws)%nat.
  Proof.
    intros st e st' out Hi H. pose proof (sent_bytes_length out) as Hl.
    destruct (send_step_spec _ _ _ _ _ _ Hwf Hi H) as [Hi' _].
    destruct (send_step_burst_shape sc F st e st' out Hwf Hsf Hi H) as [->|[->|[_ ->]]].
    - cbn. lia.
    - rewrite window_tx_length in Hl. pose proof (outstanding_le_ws sc F st' Hi') as Hw. unfold lenN in Hw.
      assert (length (w_elems (s_w st')) <= N.to_nat ws)%nat by lia. nia.
    - cbn in *. pose proof Hwf as (_ & Hw & _). nia.
  Qed.

  Lemma firstn_all_le : forall {A} (l : list A) n, (length l <= n)%nat -> firstn n l = l.
  Proof. intros A l n H. apply firstn_all2. exact H. Qed.

  Section Cap.
  Variable cap : nat.
  Hypothesis Hcap : (rsn * N.to_nat ws <= cap)%nat.

  Lemma cap_step_eq : forall p, SInv sc F (p_s p) -> pair_step_cap sc rc cap p = pair_step sc rc [] [] p.
  Proof.
    intros p Hi. unfold pair_step_cap, pair_step.
    destruct (ch_q (p_sr p)) as [|d q]; destruct (r_running (p_r p)); try reflexivity.
    all: destruct (ch_q (p_rs p)) as [|d2 q2]; destruct (s_running (p_s p)); try reflexivity.
    all: try (destruct (send_step sc (p_s p) (EvDgram 0 d2)) as [s' out] eqn:E;
              rewrite (firstn_all_le _ _ (Nat.le_trans _ _ _ (burst_bound _ _ _ _ Hi E) Hcap)); reflexivity).
    all: try (destruct (send_step sc (p_s p) (EvFail (s_tmo sc))) as [s' out] eqn:E;
              rewrite (firstn_all_le _ _ (Nat.le_trans _ _ _ (burst_bound _ _ _ _ Hi E) Hcap)); reflexivity).
  Qed.

  Lemma step_keeps_SInv : forall p p', SInv sc F (p_s p) -> pair_step sc rc [] [] p = Some p' -> SInv sc F (p_s p').
  Proof.
    intros p p' Hi H. unfold pair_step in H.
    destruct (ch_q (p_sr p)) as [|d q]; destruct (r_running (p_r p)).
    all: try (destruct (recv_step rc (p_r p) (EvDgram 0 d)) as [r' out] eqn:E; inversion H; subst; exact Hi).
    all: destruct (ch_q (p_rs p)) as [|d2 q2]; destruct (s_running (p_s p)).
    all: try (destruct (send_step sc (p_s p) (EvDgram 0 d2)) as [s' out] eqn:E; inversion H; subst; cbn [p_s];
              exact (proj1 (send_step_spec _ _ _ _ _ _ Hwf Hi E))).
    all: try (destruct (send_step sc (p_s p) (EvFail (s_tmo sc))) as [s' out] eqn:E; inversion H; subst; cbn [p_s];
              exact (proj1 (send_step_spec _ _ _ _ _ _ Hwf Hi E))).
    all: try (destruct (recv_step rc (p_r p) (EvFail (r_tmo rc))) as [r' out] eqn:E; inversion H; subst; exact Hi).
    all: try discriminate.
  Qed.

  Lemma cap_run_eq : forall fuel p, SInv sc F (p_s p) -> pair_run_cap sc rc cap fuel p = pair_run sc rc [] [] fuel p.
  Proof.
    intros fuel. induction fuel as [|fuel IH]; intros p Hi; cbn [pair_run_cap pair_run]; [reflexivity|].
    rewrite (cap_step_eq p Hi). destruct (pair_step sc rc [] [] p) as [p'|] eqn:E; [|reflexivity].
    apply IH. eapply step_keeps_SInv; eassumption.
  Qed.

  Lemma cap_init_eq : pair_init_cap sc rc cap F = pair_init sc rc [] F /\ SInv sc F (p_s (pair_init sc rc [] F)).
  Proof.
    unfold pair_init_cap, pair_init. destruct (send_init sc F) as [s0 out0] eqn:E0.
    destruct (send_init_spec _ _ _ _ Hwf E0) as [Hi0 _]. split; [|exact Hi0].
    unfold send_init in E0. rewrite Hck in E0.
    set (st0 := mk_sstate 1 (window_new (s_ws sc) (s_blk sc) (file_for_read F)) true 0 0 0 SInWindow 1) in *.
    assert (Hc0 : SCore sc F st0).
    { unfold SCore, st0. cbn [s_w s_bn s_abs s_filled s_retry window_new w_elems w_size w_chunk w_file
                              file_for_read f_mode f_rest length chunks_from].
      rewrite lenN_nil. destruct Hwf as (Hb & Hw1 & Hw2). pose proof (nblk_pos (s_blk sc) F).
      repeat split; try reflexivity; try lia. }
    destruct (outer_top_outR st0 s0 out0 Hc0) as [Hss Hout]; try exact E0.
    - intros _. unfold st0. cbn [s_w window_new w_elems]. rewrite lenN_nil. destruct Hwf as (_ & ? & _). lia.
    - discriminate.
    - rewrite firstn_all_le; [reflexivity|].
      pose proof (sent_bytes_length out0) as Hl. rewrite Hout, window_tx_length in Hl.
      pose proof (outstanding_le_ws sc F s0 Hi0) as Hw. unfold lenN in Hw.
      assert (length (w_elems (s_w s0)) <= N.to_nat ws)%nat by lia. rewrite Hout. nia.
  Qed.

  Theorem cosim_cap_sufficient : exists fuel,
    let p := pair_run_cap sc rc cap fuel (pair_init_cap sc rc cap F) in
    r_phase (p_r p) = RDone OutOk /\ written_bytes (w_file (r_w (p_r p))) = F /\ s_phase (p_s p) = SDone OutOk.
  Proof.
    destruct cosim_perfect_dup as (fuel & Hfin). exists fuel. cbv zeta.
    destruct cap_init_eq as [-> Hi]. rewrite (cap_run_eq fuel _ Hi). exact Hfin.
  Qed.
  End Cap.

  (** * Every fault schedule, any repeat counts

      The general invariant, the termination of every schedule and the recovery once the faults have
      stopped ([CosimLive], last part) carried over to duplicate-packets mode: the sender emits every
      DATA [s_rep] times, the receiver every ACK [r_rep] times, the channels lose, repeat and reorder
      at will.  The invariant [G], the descent and the recovery argument are the same; a receiver
      step now puts up to [r_rep] datagrams into the ACK channel, so a DATA datagram in flight weighs
      [r_rep + 1] in the measure. *)
  Section AnyDup.
  Variables (f_sr f_rs : list (N * fault)).
  Local Notation stepF := (pair_step sc rc f_sr f_rs).
  Local Notation runF := (pair_run sc rc f_sr f_rs).
  Local Notation G := (CosimLive.G sc rc F).
  Local Notation RG := (CosimLive.RG sc rc F).
  Local Notation dat_ok := (CosimLive.dat_ok sc F).
  Local Notation Pend := (CosimLive.Pend sc F).
  Local Notation LiveOK := (CosimLive.LiveOK sc F).
  Local Notation CL := (CosimLive.CL f_sr f_rs).
  Local Notation pend := (CosimLive.pend f_sr f_rs).
  Local Notation ended := (CosimLive.ended F).
  Local Notation Final := (CosimLive.Final F).
  Local Notation datas := (CosimLive.datas sc F).
  Local Notation SS_len := (CosimLive.SS_len sc rc F Hblk Hws Htmo).
  Local Notation SS_retry := (CosimLive.SS_retry sc F).
  Local Notation RG_idle_SS := (CosimLive.RG_idle_SS sc rc F).
  Local Notation RG_done := (CosimLive.RG_done sc rc F).
  Local Notation RG_top := (CosimLive.RG_top sc rc F Hblk Hws Htmo).
  Local Notation step_recv_gen := (CosimLive.step_recv_gen sc rc f_sr f_rs).
  Local Notation step_send_gen := (CosimLive.step_send_gen sc rc f_sr f_rs).
  Local Notation step_tmo_gen := (CosimLive.step_tmo_gen sc rc f_sr f_rs).
  Local Notation send_stale_gen := (CosimLive.send_stale_gen sc rc F Hwf Hblk Hws Htmo).
  Local Notation send_give_up := (CosimLive.send_give_up sc F).
  Local Notation run_add := (CosimLive.run_add sc rc f_sr f_rs).
  Local Notation sender_left_step := (CosimLive.sender_left_step sc rc f_sr f_rs).
  Local Notation chan_puts_weave_b := (CosimLive.chan_puts_weave_b sc rc Hblk Hws Htmo).
  Local Notation ch_n_puts := (CosimLive.ch_n_puts sc rc Hblk Hws Htmo).
  Local Notation clean_from_mono := (CosimLive.clean_from_mono sc rc Hblk Hws Htmo).
  Local Notation in_flight_weave_length := (CosimLive.in_flight_weave_length sc rc Hblk Hws Htmo).
  Local Notation pending_mono := (CosimLive.pending_mono sc rc Hblk Hws Htmo).
  Local Notation pending_cases := (CosimLive.pending_cases sc rc Hblk Hws Htmo).

  Lemma chan_puts_weaveF : forall fs q h n ds, clean_from fs n ->
    chan_puts fs (mk_chan q h n) ds =
      mk_chan (q ++ weave h ds) (match ds with [] => h | _ => None end) (n + lenN ds).
  Proof. intros fs q h n ds Hc. apply chan_puts_weave_b. intros i Hi. apply Hc. lia. Qed.

  Lemma In_datasR : forall m k0 x, In x (datasR k0 m) -> exists k, x = data_dgram blk F k /\ k0 <= k < k0 + N.of_nat m.
  Proof.
    intros m. induction m as [|m IH]; intros k0 x H; cbn [datasR] in H; [contradiction|].
    apply in_app_or in H. destruct H as [H|H].
    - apply repeat_spec in H. exists k0. split; [exact H|lia].
    - destruct (IH _ _ H) as (k & -> & Hk). exists k. split; [reflexivity|lia].
  Qed.

  Lemma datasR_sub : forall m k0, subseq (datas k0 m) (datasR k0 m).
  Proof.
    intros m. induction m as [|m IH]; intros k0; cbn [CosimLive.datas datasR]; [constructor|].
    destruct rsn as [|r] eqn:Er; [lia|]. cbn [repeat app]. apply subseq_take. apply subseq_app_l. apply IH.
  Qed.

  Lemma datasR_nonnil : forall m k0, (1 <= m)%nat -> datasR k0 m <> [].
  Proof. intros m k0 Hm. destruct m as [|m]; [lia|]. cbn [datasR]. destruct rsn as [|r] eqn:Er; [lia|]. discriminate. Qed.

  Lemma send_retxR : forall st a r, SS st a r -> r + 1 < max_retries ->
    exists st' out, send_step sc st (EvFail (s_tmo sc)) = (st', out) /\ SS st' a (r + 1) /\ wlen st' = wlen st /\
      sent_bytes out = datasR (a + 1) (N.to_nat (wlen st)).
  Proof.
    intros st a r Hss Hr. pose proof (SS_windowR _ _ _ Hss) as Hwin.
    destruct Hss as (Hi & Hp & Ht & Habs & Hsince & Hretry).
    rewrite step_failed_attempt by (auto; exact I). cbn [ev_delay].
    destruct (N.eqb_spec (s_retry st + 1) max_retries) as [Eq|Ne]; [lia|].
    pose proof Hi as [Hc [Hq Hn]].
    rewrite inner_top_firesR.
    - eexists. eexists. split; [reflexivity|]. cbn [s_abs s_w]. split; [|split; [reflexivity|exact Hwin]].
      unfold CosimLive.SS. cbn [s_phase s_abs s_since s_retry]. split.
      + split; [|split; [intros X; discriminate|intros _; apply Hn; exact Hp]].
        eapply SCore_ext; [..|exact Hc]; try reflexivity. cbn [s_retry]. lia.
      + split; [reflexivity|]. split; [exact Ht|]. split; [exact Habs|]. split; [reflexivity|lia].
    - eapply SCore_ext; [..|exact Hc]; try reflexivity. cbn [s_retry]. lia.
    - cbn [s_since]. lia.
  Qed.

  Lemma In_weave_repeat : forall x h n, (1 <= n)%nat -> In x (weave h (repeat x n)).
  Proof. intros x h n Hn. destruct n as [|n]; [lia|]. cbn [repeat]. destruct h; cbn [weave]; left; reflexivity. Qed.

  (** A DATA datagram in flight weighs [r_rep + 1]: the receiver may answer it with [r_rep] ACKs. *)
  Definition msrR (p : pair_state) : nat :=
    ((rrn + 1) * length (in_flight (p_sr p)) + length (in_flight (p_rs p)))%nat.

  Definition lexdecR (p : pair_state) (a r0 : N) (p' : pair_state) (a' r0' : N) : Prop :=
    (pend p' < pend p)%nat \/
    ((pend p' <= pend p)%nat /\ (a < a' \/ (a' = a /\ (r0 < r0' \/ (r0' = r0 /\ (msrR p' < msrR p)%nat))))).

  (** What the receiver makes of the datagram at the head of its queue. *)
  Lemma G_recv : forall s r d q h n rs a r0 c j, nb <= 65535 ->
    G (mk_pair s r (mk_chan (d :: q) h n) rs) a r0 c j -> r_phase r = RRun ->
    exists r' acks c' j',
      stepF (mk_pair s r (mk_chan (d :: q) h n) rs) = Some (mk_pair s r' (mk_chan q h n) (chan_puts f_rs rs acks)) /\
      G (mk_pair s r' (mk_chan q h n) (chan_puts f_rs rs acks)) a r0 c' j' /\
      ((d = data_dgram blk F (c + 1) /\ c = a + j /\ c' = c + 1 /\
          ((j + 1 < wlen s /\ acks = [] /\ j' = j + 1 /\ r_phase r' = RRun) \/
           (j + 1 = wlen s /\ acks = repeat (ack_dgram (c + 1)) rrn /\ j' = 0)))
       \/ (d <> data_dgram blk F (c + 1) /\ c' = c /\ j' = j /\ r_phase r' = RRun /\
           acks = if j =? 0 then repeat (ack_dgram c) rrn else [])).
  Proof.
    intros s r d q h n rs a r0 c j Hn (Hss & Hrg & Hsr & Hrs) Hp. cbn [p_s p_r p_sr p_rs] in *.
    pose proof (SS_len _ _ _ Hss) as (Ha & Hlen & Hpos). set (wl := wlen s) in *.
    destruct (in_flight_tail _ _ _ _ _ Hsr) as [(k & -> & Hk1 & Hk2) Hsr'].
    rewrite step_recv_gen by exact Hp.
    destruct Hrg as [[(hist & Hrs0) Hrel]|(Hd & _)]; [|congruence].
    destruct (N.eq_dec k (c + 1)) as [->|Hne].
    - (* the next block *)
      assert (Hc : c = a + j /\ j < wl) by (destruct Hrel as [?|(? & ? & ?)]; [assumption|lia]).
      destruct Hc as [Hc Hj].
      destruct (recv_in_seqR hist r c j Hrs0 ltac:(lia)) as (r' & out & E & Hres). rewrite E. cbn [fst snd].
      assert (Hflush : (c + 1 =? nb) || (j + 1 =? ws) = (j + 1 =? wl)) by lia.
      rewrite Hflush in Hres. destruct (N.eqb_spec (j + 1) wl) as [Hfl|Hnf].
      + destruct Hres as [Hout Hst]. exists r', (repeat (ack_dgram (c + 1)) rrn), (c + 1), 0. rewrite Hout.
        split; [reflexivity|]. split.
        * unfold G. cbn [p_s p_r p_sr p_rs]. fold wl. split; [exact Hss|]. split.
          -- unfold RG. destruct (N.eqb_spec (c + 1) nb) as [Hl|Hnl].
             ++ right. destruct Hst as [H1 H2]. repeat split; try assumption; lia.
             ++ left. split; [eexists; exact Hst|]. right. lia.
          -- split; [exact Hsr'|]. apply Forall_in_flight_puts.
             ++ eapply Forall_impl; [|exact Hrs]. intros x (c' & -> & Hx). exists c'. split; [reflexivity|]. lia.
             ++ rewrite Forall_forall. intros x Hx. apply repeat_spec in Hx. subst x.
                exists (c + 1). split; [reflexivity|]. right. lia.
        * left. repeat split; try reflexivity; try assumption. right. repeat split; try reflexivity. exact Hfl.
      + destruct Hres as [-> Hst]. exists r', [], (c + 1), (j + 1).
        cbn [acked_bytes sent_bytes map filter]. split; [reflexivity|]. split.
        * unfold G. cbn [p_s p_r p_sr p_rs]. fold wl. split; [exact Hss|]. split.
          -- left. split; [eexists; exact Hst|]. left. lia.
          -- split; [exact Hsr'|]. change (chan_puts f_rs rs []) with rs.
             eapply Forall_impl; [|exact Hrs]. intros x (c' & -> & Hx). exists c'. split; [reflexivity|]. lia.
        * left. repeat split; try reflexivity; try assumption. left. repeat split; try reflexivity; try lia. apply Hst.
    - (* any other block *)
      destruct (recv_out_seqR hist r c j k Hrs0 ltac:(lia)) as (r' & out & E & Hst & Hout). rewrite E. cbn [fst snd].
      exists r', (if j =? 0 then repeat (ack_dgram c) rrn else []), c, j. rewrite Hout.
      split; [reflexivity|]. split.
      + unfold G. cbn [p_s p_r p_sr p_rs]. fold wl. split; [exact Hss|]. split.
        * left. split; [eexists; exact Hst|exact Hrel].
        * split; [exact Hsr'|]. apply Forall_in_flight_puts; [exact Hrs|].
          destruct (N.eqb_spec j 0) as [Hz|_]; [|constructor]. rewrite Forall_forall. intros x Hx. apply repeat_spec in Hx. subst x.
          exists c. split; [reflexivity|]. destruct Hrel as [?|(? & ? & ?)]; [left; lia|right; lia].
      + right. split.
        * intros Heq. pose proof (receive_data k 0) as R1. pose proof (receive_data (c + 1) 0) as R2.
          rewrite Heq, R2 in R1. injection R1 as R1 _. lia.
        * repeat split; try reflexivity. apply Hst.
  Qed.

  (** What the sender makes of the datagram at the head of its queue. *)
  Lemma G_send : forall s r sr d q h n a r0 c j, nb <= 65535 ->
    G (mk_pair s r sr (mk_chan (d :: q) h n)) a r0 c j -> recv_idle r sr ->
    exists s' burst,
      stepF (mk_pair s r sr (mk_chan (d :: q) h n)) = Some (mk_pair s' r (chan_puts f_sr sr burst) (mk_chan q h n)) /\
      ((d <> ack_dgram (a + wlen s) /\ burst = [] /\ wlen s' = wlen s /\
        G (mk_pair s' r sr (mk_chan q h n)) a r0 c j)
       \/ (d = ack_dgram (a + wlen s) /\ c = a + wlen s /\ j = 0 /\
           ((c = nb /\ burst = [] /\ s_phase s' = SDone OutOk) \/
            (c < nb /\ burst = datasR (c + 1) (N.to_nat (wlen s')) /\
             G (mk_pair s' r (chan_puts f_sr sr burst) (mk_chan q h n)) c 0 c 0)))).
  Proof.
    intros s r sr d q h n a r0 c j Hn (Hss & Hrg & Hsr & Hrs) Hidle. cbn [p_s p_r p_sr p_rs] in *.
    pose proof (SS_len _ _ _ Hss) as (Ha & Hlen & Hpos). set (wl := wlen s) in *.
    destruct (in_flight_tail _ _ _ _ _ Hrs) as [(c' & -> & Hc') Hrs'].
    rewrite step_send_gen by (try exact Hidle; apply Hss).
    destruct Hc' as [Hle|[-> Hctop]].
    - (* an old ACK *)
      destruct (send_stale_gen s a r0 c' Hss Hle Hn) as (s' & E & Hss' & Hl'). rewrite E. cbn [fst snd sent_bytes map filter].
      exists s', []. split; [reflexivity|]. left. split.
      + intros Heq. pose proof (receive_ack_dgram c' 0) as R1. pose proof (receive_ack_dgram (a + wl) 0) as R2.
        rewrite Heq, R2 in R1. injection R1 as R1. lia.
      + split; [reflexivity|]. split; [exact Hl'|].
        unfold G. cbn [p_s p_r p_sr p_rs]. rewrite Hl'. fold wl.
        split; [exact Hss'|]. split; [exact Hrg|]. split; [exact Hsr|exact Hrs'].
    - (* the ACK of the whole window *)
      assert (Hj : j = 0).
      { destruct Hrg as [[_ [(? & ?)|(? & ? & ?)]]|(_ & _ & _ & _ & ?)]; [lia|assumption|assumption]. }
      destruct (send_ack_windowR s a r0 Hss) as (s' & out & E & Hres). fold wl in E, Hres. rewrite E. cbn [fst snd].
      exists s', (sent_bytes out). split; [reflexivity|]. right. split; [reflexivity|]. split; [exact Hctop|]. split; [exact Hj|].
      subst c j.
      destruct (N.eqb_spec (a + wl) nb) as [Hlast|Hnot].
      + destruct Hres as [-> Hd]. left. split; [lia|]. split; [reflexivity|exact Hd].
      + destruct Hres as [Hss' Hout]. right. split; [lia|]. rewrite Hout. split; [reflexivity|].
        pose proof (SS_len _ _ _ Hss') as (Ha' & Hlen' & Hpos').
        unfold G. cbn [p_s p_r p_sr p_rs]. split; [exact Hss'|]. split.
        * destruct Hrg as [[Hh [(? & ?)|(_ & _ & Hlt)]]|(_ & _ & ? & _)]; [lia| |lia].
          left. split; [exact Hh|]. left. lia.
        * split.
          -- apply Forall_in_flight_puts.
             ++ eapply Forall_impl; [|exact Hsr]. intros x (k & -> & Hk). exists k. split; [reflexivity|]. lia.
             ++ rewrite Forall_forall. intros x Hx. destruct (In_datasR _ _ _ Hx) as (k & -> & Hk).
                exists k. split; [reflexivity|]. lia.
          -- eapply Forall_impl; [|exact Hrs']. intros x (c'' & -> & Hx). exists c''. split; [reflexivity|]. left. lia.
  Qed.

  (** The sender's time-out. *)
  Lemma G_tmo : forall s r sr h n a r0 c j,
    G (mk_pair s r sr (mk_chan [] h n)) a r0 c j -> recv_idle r sr ->
    (r0 + 1 < max_retries /\
     exists s', stepF (mk_pair s r sr (mk_chan [] h n)) =
                  Some (mk_pair s' r (chan_puts f_sr sr (datasR (a + 1) (N.to_nat (wlen s)))) (mk_chan [] h n)) /\
                wlen s' = wlen s /\
                G (mk_pair s' r (chan_puts f_sr sr (datasR (a + 1) (N.to_nat (wlen s)))) (mk_chan [] h n)) a (r0 + 1) c j)
    \/ (r0 + 1 = max_retries /\
        exists s', stepF (mk_pair s r sr (mk_chan [] h n)) = Some (mk_pair s' r sr (mk_chan [] h n)) /\
                   s_phase s' = SDone OutTimeout).
  Proof.
    intros s r sr h n a r0 c j (Hss & Hrg & Hsr & Hrs) Hidle. cbn [p_s p_r p_sr p_rs] in *.
    pose proof (SS_retry _ _ _ Hss) as Hr0.
    rewrite step_tmo_gen by (try exact Hidle; apply Hss).
    destruct (N.eq_dec (r0 + 1) max_retries) as [Heq|Hne].
    - right. split; [exact Heq|]. destruct (send_give_up s a r0 Hss Heq) as (s' & E & Hd). rewrite E. cbn [fst snd sent_bytes map filter].
      exists s'. split; [reflexivity|exact Hd].
    - left. split; [lia|]. destruct (send_retxR s a r0 Hss ltac:(lia)) as (s' & out & E & Hss' & Hl' & Hout).
      rewrite E. cbn [fst snd]. rewrite Hout. exists s'. split; [reflexivity|]. split; [exact Hl'|].
      unfold G. cbn [p_s p_r p_sr p_rs]. rewrite Hl'. split; [exact Hss'|]. split; [exact Hrg|]. split; [|exact Hrs].
      apply Forall_in_flight_puts; [exact Hsr|]. rewrite Forall_forall. intros x Hx.
      destruct (In_datasR _ _ _ Hx) as (k & -> & Hk). exists k. split; [reflexivity|]. lia.
  Qed.

  Lemma init_emitR : exists s0,
    pair_init sc rc f_sr F = mk_pair s0 (recv_init rc) (chan_puts f_sr chan_empty (datasR (0 + 1) (N.to_nat (wlen s0)))) chan_empty /\ SS s0 0 0.
  Proof.
    unfold pair_init. destruct (send_init sc F) as [s0 out0] eqn:E0. unfold send_init in E0. rewrite Hck in E0.
    set (st0 := mk_sstate 1 (window_new (s_ws sc) (s_blk sc) (file_for_read F)) true 0 0 0 SInWindow 1) in *.
    assert (Hc0 : SCore sc F st0).
    { unfold SCore, st0. cbn [s_w s_bn s_abs s_filled s_retry window_new w_elems w_size w_chunk w_file
                              file_for_read f_mode f_rest length chunks_from].
      rewrite lenN_nil. destruct Hwf as (Hb & Hw1 & Hw2). pose proof (nblk_pos (s_blk sc) F).
      repeat split; try reflexivity; try lia. }
    destruct (outer_top_outR st0 s0 out0 Hc0) as [Hss Hout]; try exact E0.
    - intros _. unfold st0. cbn [s_w window_new w_elems]. rewrite lenN_nil. destruct Hwf as (_ & ? & _). lia.
    - discriminate.
    - change (s_abs st0 - 1) with 0 in Hss. exists s0. split; [|exact Hss].
      rewrite Hout, (SS_windowR _ _ _ Hss). reflexivity.
  Qed.

  (** [G] holds initially, whatever happens to the first window. *)
  Lemma G_init : exists a r0 c j, G (pair_init sc rc f_sr F) a r0 c j.
  Proof.
    destruct init_emitR as (s0 & -> & Hss). pose proof (SS_len _ _ _ Hss) as (Ha & Hlen & Hpos).
    exists 0, 0, 0, 0. unfold CosimLive.G. cbn [p_s p_r p_sr p_rs].
    split; [exact Hss|]. split.
    - left. split; [exists []; exact (recv_init_RS sc rc F Hwf Hblk Hws)|]. left. lia.
    - split; [|constructor]. apply Forall_in_flight_puts; [constructor|]. rewrite Forall_forall. intros x Hx.
      destruct (In_datasR _ _ _ Hx) as (k & -> & Hk). exists k. split; [reflexivity|]. lia.
  Qed.

  (** One step from a [G] state: [G] again, or the sender has ended. *)
  Lemma G_step : forall p p' a r0 c j, nb <= 65535 -> G p a r0 c j -> stepF p = Some p' ->
    (exists a' r0' c' j', G p' a' r0' c' j') \/ sender_left p'.
  Proof.
    intros [s r [q1 h1 n1] [q2 h2 n2]] p' a r0 c j Hn Hg Hstep.
    pose proof Hg as (Hss & Hrg & _). cbn [p_s p_r] in Hss, Hrg.
    destruct (RG_idle_SS _ _ _ _ _ Hrg) as [Hrun|Hdone].
    - destruct q1 as [|d q1].
      + assert (Hidle : recv_idle r (mk_chan [] h1 n1)) by (left; reflexivity).
        destruct q2 as [|d q2].
        * destruct (G_tmo _ _ _ _ _ _ _ _ _ Hg Hidle) as [(_ & s' & E & _ & Hg')|(_ & s' & E & Hd)];
            rewrite E in Hstep; injection Hstep as <-.
          -- left. eauto.
          -- right. unfold sender_left, s_running. cbn [p_s]. rewrite Hd. reflexivity.
        * destruct (G_send _ _ _ _ _ _ _ _ _ _ _ Hn Hg Hidle) as (s' & burst & E & Hres).
          rewrite E in Hstep. injection Hstep as <-.
          destruct Hres as [(_ & -> & _ & Hg')|(_ & _ & _ & [(_ & _ & Hd)|(_ & _ & Hg')])].
          -- left. eauto.
          -- right. unfold sender_left, s_running. cbn [p_s]. rewrite Hd. reflexivity.
          -- left. eauto.
      + assert (Hp : r_phase r = RRun) by (unfold r_running in Hrun; destruct (r_phase r); [reflexivity|discriminate]).
        destruct (G_recv _ _ _ _ _ _ _ _ _ _ _ Hn Hg Hp) as (r' & acks & c' & j' & E & Hg' & _).
        rewrite E in Hstep. injection Hstep as <-. left. eauto.
    - assert (Hidle : recv_idle r (mk_chan q1 h1 n1)) by (right; unfold r_running; rewrite Hdone; reflexivity).
      destruct q2 as [|d q2].
      + destruct (G_tmo _ _ _ _ _ _ _ _ _ Hg Hidle) as [(_ & s' & E & _ & Hg')|(_ & s' & E & Hd)];
          rewrite E in Hstep; injection Hstep as <-.
        * left. eauto.
        * right. unfold sender_left, s_running. cbn [p_s]. rewrite Hd. reflexivity.
      + destruct (G_send _ _ _ _ _ _ _ _ _ _ _ Hn Hg Hidle) as (s' & burst & E & Hres).
        rewrite E in Hstep. injection Hstep as <-.
        destruct Hres as [(_ & -> & _ & Hg')|(_ & _ & _ & [(_ & _ & Hd)|(_ & _ & Hg')])].
        * left. eauto.
        * right. unfold sender_left, s_running. cbn [p_s]. rewrite Hd. reflexivity.
        * left. eauto.
  Qed.

  (** [G] is an invariant of every run, under every fault schedule, until the sender ends. *)
  Lemma G_run : forall fuel p, nb <= 65535 -> (exists a r0 c j, G p a r0 c j) \/ sender_left p ->
    (exists a r0 c j, G (runF fuel p) a r0 c j) \/ sender_left (runF fuel p).
  Proof.
    intros fuel. induction fuel as [|fuel IH]; intros p Hn H; cbn [pair_run]; [exact H|].
    destruct (stepF p) as [p'|] eqn:E; [|exact H]. apply IH; [exact Hn|].
    destruct H as [(a & r0 & c & j & Hg)|Hl].
    - exact (G_step _ _ _ _ _ _ Hn Hg E).
    - right. exact (sender_left_step _ _ Hl E).
  Qed.

  (** One step with the faults over, away from quiescence: the transfer is finished, or the
      sender has moved to the next window, or something in flight has been consumed. *)
  Lemma clean_step : forall p a r0 c j, nb <= 65535 -> G p a r0 c j -> CL p -> LiveOK p -> ~ quiescent p ->
    exists p', stepF p = Some p' /\ CL p' /\
      (Final p'
       \/ (exists a', a < a' /\ G p' a' 0 a' 0 /\ LiveOK p')
       \/ (exists c' j', G p' a r0 c' j' /\ LiveOK p' /\ (msrR p' < msrR p)%nat /\ wlen (p_s p') = wlen (p_s p) /\
             (Pend p (a + wlen (p_s p)) c -> Pend p' (a + wlen (p_s p)) c'))).
  Proof.
    intros [s r [q1 h1 n1] [q2 h2 n2]] a r0 c j Hn Hg [Hc1 Hc2] Hlive Hnq.
    cbn [p_s p_r p_sr p_rs ch_n] in *.
    pose proof Hg as (Hss & Hrg & Hsr & Hrs). cbn [p_s p_r p_sr p_rs] in Hss, Hrg, Hsr, Hrs.
    pose proof (SS_len _ _ _ Hss) as (Ha & Hlen & Hpos). set (wl := wlen s) in *. set (top := a + wl) in *.
    assert (Hcase : (exists d q, q1 = d :: q /\ r_phase r = RRun) \/
                    (recv_idle r (mk_chan q1 h1 n1) /\ exists d q, q2 = d :: q)).
    { destruct q1 as [|d q1].
      - right. split; [left; reflexivity|]. destruct q2 as [|d q2]; [|eauto].
        exfalso. apply Hnq. split; [reflexivity|left; reflexivity].
      - destruct (r_phase r) eqn:Hp; [left; eauto|].
        right. split; [right; unfold r_running; rewrite Hp; reflexivity|]. destruct q2 as [|d2 q2]; [|eauto].
        exfalso. apply Hnq. split; [reflexivity|right; unfold r_running; cbn [p_r]; rewrite Hp; reflexivity]. }
    destruct Hcase as [(d & q & -> & Hp)|(Hidle & d & q & ->)].
    - (* the receiver takes a datagram *)
      destruct (G_recv _ _ _ _ _ _ _ _ _ _ _ Hn Hg Hp) as (r' & acks & c' & j' & E & Hg' & Hdesc).
      rewrite chan_puts_weaveF in E, Hg' by exact Hc2.
      eexists. split; [exact E|]. split.
      { split; cbn [p_sr p_rs ch_n]; [exact Hc1|]. eapply clean_from_mono; [|exact Hc2]. lia. }
      right. right. exists c', j'. split; [exact Hg'|].
      assert (Hacks : (length acks <= rrn)%nat).
      { destruct Hdesc as [(_ & _ & _ & [(_ & -> & _)|(_ & -> & _)])|(_ & _ & _ & _ & ->)]; rewrite ?repeat_length; cbn [length]; try lia.
        destruct (j =? 0); rewrite ?repeat_length; cbn [length]; lia. }
      split; [|split; [|split; [reflexivity|]]].
      + (* the receiver's last ACK is queued *)
        intros Hd. cbn [p_r p_rs ch_q] in *.
        destruct Hdesc as [(_ & Hcj & -> & [(_ & _ & _ & Hrun)|(Hfl & -> & _)])|(_ & _ & _ & Hrun & _)]; try congruence.
        destruct Hg' as (_ & Hrg' & _). cbn [p_r] in Hrg'.
        destruct (RG_done _ _ _ _ _ Hrg' Hd) as (_ & Hnb & _). rewrite Hnb.
        apply in_or_app. right. apply In_weave_repeat. lia.
      + unfold msrR. cbn [p_sr p_rs]. rewrite in_flight_weave_length. unfold in_flight. cbn [ch_q ch_held app length].
        rewrite Nat.mul_succ_r. lia.
      + (* what was pending still is *)
        fold wl. fold top. intros [P1 P2]. unfold Pend in *. cbn [p_s p_r p_sr p_rs ch_q] in *.
        destruct Hdesc as [(-> & Hcj & -> & [(Hnf & -> & -> & Hrun)|(Hfl & -> & ->)])|(Hne & -> & -> & Hrun & ->)].
        * split; [|intros Heq; unfold top in Heq; lia]. intros Hlt. specialize (P1 ltac:(lia)).
          replace (N.to_nat (top - c)) with (S (N.to_nat (top - (c + 1)))) in P1 by lia. cbn [CosimLive.datas] in P1.
          apply subseq_pop in P1. apply P1.
        * split; [intros Hlt; unfold top in Hlt; lia|]. intros _. left. apply in_or_app. right.
          replace top with (c + 1) by (unfold top; lia). apply In_weave_repeat. lia.
        * split.
          -- intros Hlt. specialize (P1 Hlt).
             replace (N.to_nat (top - c)) with (S (N.to_nat (top - (c + 1)))) in * by lia. cbn [CosimLive.datas] in *.
             apply subseq_pop in P1. apply P1. exact Hne.
          -- intros Heq. destruct (P2 Heq) as [Hin|_]; [left; apply in_or_app; left; exact Hin|].
             left. apply in_or_app. right.
             destruct (RG_top _ _ _ _ _ Hrg Hpos Heq) as (-> & _). cbn [N.eqb]. rewrite Heq.
             apply In_weave_repeat. lia.
    - (* the sender takes a datagram *)
      destruct (G_send _ _ _ _ _ _ _ _ _ _ _ Hn Hg Hidle) as (s' & burst & E & Hres).
      eexists. split; [exact E|].
      destruct Hres as [(Hne & -> & Hl' & Hg')|(-> & Hctop & -> & [(Hlast & -> & Hd)|(Hmore & -> & Hg')])].
      + (* an old ACK *)
        rewrite chan_puts_nil. split; [split; assumption|]. right. right. exists c, j. split; [exact Hg'|].
        split; [|split; [|split; [exact Hl'|]]].
        * intros Hd. cbn [p_r p_rs ch_q] in *. destruct (Hlive Hd) as [Heq|Hin]; [exfalso|exact Hin].
          destruct (RG_done _ _ _ _ _ Hrg Hd) as (_ & Hnb & Hct & _). apply Hne. rewrite Heq. fold wl. f_equal. lia.
        * unfold msrR, in_flight. cbn [p_sr p_rs ch_q ch_held app length]. lia.
        * fold wl. fold top. intros [P1 P2]. unfold Pend in *. cbn [p_s p_r p_sr p_rs ch_q] in *. split; [exact P1|].
          intros Heq. destruct (P2 Heq) as [[Hx|Hin]|Hr]; [exfalso; apply Hne; exact Hx|left; exact Hin|right; exact Hr].
      + (* the last ACK of the transfer *)
        rewrite chan_puts_nil. split; [split; assumption|]. left.
        fold wl in Hctop. destruct (RG_top _ _ _ _ _ Hrg Hpos Hctop) as (_ & Hfin & _). destruct (Hfin Hlast) as [H1 H2].
        unfold Final. cbn [p_s p_r]. split; [exact H1|]. split; [exact H2|exact Hd].
      + (* the ACK of the window: the next window goes out *)
        split.
        { split; cbn [p_sr p_rs ch_n]; [|exact Hc2]. rewrite ch_n_puts. eapply clean_from_mono; [|exact Hc1]. cbn [ch_n]. lia. }
        right. left. exists c. split; [fold wl in Hctop; lia|]. split; [exact Hg'|].
        intros Hd. cbn [p_r] in Hd. fold wl in Hctop.
        destruct (RG_top _ _ _ _ _ Hrg Hpos Hctop) as (_ & _ & Hrun). rewrite (Hrun Hmore) in Hd. discriminate.
  Qed.

  (** Everything in flight is consumed: the transfer is finished, or the sender has moved to the
      next window, or the system has fallen silent. *)
  Lemma drain : forall m p a r0 c j, (msrR p <= m)%nat -> nb <= 65535 -> G p a r0 c j -> CL p -> LiveOK p ->
    exists fuel p', runF fuel p = p' /\ CL p' /\
      (Final p'
       \/ (exists a', a < a' /\ G p' a' 0 a' 0 /\ LiveOK p')
       \/ (exists c' j', G p' a r0 c' j' /\ LiveOK p' /\ quiescent p' /\ wlen (p_s p') = wlen (p_s p) /\
             (Pend p (a + wlen (p_s p)) c -> Pend p' (a + wlen (p_s p)) c'))).
  Proof.
    intros m. induction m as [|m IH]; intros p a r0 c j Hm Hn Hg Hcl Hlive.
    all: destruct (quiescent_dec p) as [Hq|Hnq];
      [exists O, p; split; [reflexivity|]; split; [exact Hcl|]; right; right; exists c, j;
       split; [exact Hg|]; split; [exact Hlive|]; split; [exact Hq|]; split; [reflexivity|intros H; exact H]|].
    all: destruct (clean_step p a r0 c j Hn Hg Hcl Hlive Hnq) as (p1 & E & Hcl1 & Hres).
    all: destruct Hres as [Hfin|[Hadv|(c1 & j1 & Hg1 & Hlive1 & Hlt & Hwl1 & Hpend1)]];
      try (exists 1%nat, p1; cbn [pair_run]; rewrite E; split; [reflexivity|]; split; [exact Hcl1|]; tauto).
    - lia.
    - destruct (IH p1 a r0 c1 j1 ltac:(lia) Hn Hg1 Hcl1 Hlive1) as (fuel & p' & Hrun & Hcl' & Hres').
      exists (S fuel), p'. cbn [pair_run]. rewrite E. split; [exact Hrun|]. split; [exact Hcl'|].
      destruct Hres' as [Hfin|[Hadv|(c' & j' & Hg' & Hlive' & Hq' & Hwl' & Hpend')]]; [tauto|tauto|].
      right. right. exists c', j'. split; [exact Hg'|]. split; [exact Hlive'|]. split; [exact Hq'|].
      split; [congruence|]. intros HP. rewrite Hwl1 in Hpend'. apply Hpend'. apply Hpend1. exact HP.
  Qed.

  (** Silence, the faults over: the sender's timer fires, and the window it sends again holds
      everything the receiver still needs. *)
  Lemma clean_tmo : forall p a r0 c j, G p a r0 c j -> CL p -> LiveOK p -> quiescent p -> r0 + 1 < max_retries ->
    exists p', stepF p = Some p' /\ CL p' /\ G p' a (r0 + 1) c j /\ LiveOK p' /\ wlen (p_s p') = wlen (p_s p) /\
      Pend p' (a + wlen (p_s p)) c.
  Proof.
    intros [s r [q1 h1 n1] [q2 h2 n2]] a r0 c j Hg [Hc1 Hc2] Hlive [Hq2 Hidle] Hr0.
    cbn [p_s p_r p_sr p_rs ch_n ch_q] in *. subst q2.
    pose proof Hg as (Hss & Hrg & Hsr & Hrs). cbn [p_s p_r p_sr p_rs] in Hss, Hrg, Hsr, Hrs.
    pose proof (SS_len _ _ _ Hss) as (Ha & Hlen & Hpos). set (wl := wlen s) in *. set (top := a + wl) in *.
    assert (Hp : r_phase r = RRun).
    { destruct (RG_idle_SS _ _ _ _ _ Hrg) as [Hrun|Hd]; [unfold r_running in Hrun; destruct (r_phase r); [reflexivity|discriminate]|].
      destruct (Hlive Hd). }
    assert (Hq1 : q1 = []).
    { destruct Hidle as [H|H]; [exact H|]. unfold r_running in H. cbn [p_r] in H. rewrite Hp in H. discriminate. }
    subst q1.
    destruct (G_tmo _ _ _ _ _ _ _ _ _ Hg Hidle) as [(_ & s' & E & Hl' & Hg')|(Hx & _)]; [|lia].
    fold wl in E, Hg'. rewrite chan_puts_weaveF in E, Hg' by exact Hc1. cbn [app] in E, Hg'.
    eexists. split; [exact E|]. split.
    { split; cbn [p_sr p_rs ch_n]; [|exact Hc2]. eapply clean_from_mono; [|exact Hc1]. lia. }
    split; [exact Hg'|]. split; [intros Hd; cbn [p_r] in Hd; congruence|]. split; [exact Hl'|].
    unfold Pend. cbn [p_s p_r p_sr p_rs ch_q]. split.
    - intros Hlt. fold top in Hlt.
      assert (Hcj : c = a + j /\ j < wl).
      { destruct Hrg as [[_ [?|(? & ? & ?)]]|(Hd & _)]; [assumption|unfold top in Hlt; lia|congruence]. }
      destruct Hcj as [Hcj Hj]. apply subseq_weave.
      replace (N.to_nat wl) with (N.to_nat j + N.to_nat (top - c))%nat by (unfold top; lia).
      rewrite datasR_app. apply subseq_app_l.
      replace (a + 1 + N.of_nat (N.to_nat j)) with (c + 1) by lia. apply datasR_sub.
    - intros _. right. split; [unfold r_running; rewrite Hp; reflexivity|].
      pose proof (datasR_nonnil (N.to_nat wl) (a + 1) ltac:(lia)) as Hnn.
      destruct (datasR (a + 1) (N.to_nat wl)) as [|d0 ds0]; [contradiction|]. destruct h1; cbn [weave]; discriminate.
  Qed.

  (** From any state the system can be in, once the faults have stopped and the sender can still
      afford one time-out: the transfer finishes or the sender reaches the next window. *)
  Lemma recover_advance : forall p a r0 c j, nb <= 65535 -> G p a r0 c j -> CL p -> LiveOK p -> r0 + 1 < max_retries ->
    exists fuel p', runF fuel p = p' /\ CL p' /\ (Final p' \/ exists a', a < a' /\ G p' a' 0 a' 0 /\ LiveOK p').
  Proof.
    intros p a r0 c j Hn Hg Hcl Hlive Hr0.
    destruct (drain (msrR p) p a r0 c j (Nat.le_refl _) Hn Hg Hcl Hlive) as (f1 & p1 & Hrun1 & Hcl1 & Hres1).
    destruct Hres1 as [Hfin|[Hadv|(c1 & j1 & Hg1 & Hlive1 & Hq1 & Hwl1 & _)]];
      [exists f1, p1; tauto|exists f1, p1; tauto|].
    destruct (clean_tmo p1 a r0 c1 j1 Hg1 Hcl1 Hlive1 Hq1 Hr0) as (p2 & E2 & Hcl2 & Hg2 & Hlive2 & Hwl2 & Hpend2).
    destruct (drain (msrR p2) p2 a (r0 + 1) c1 j1 (Nat.le_refl _) Hn Hg2 Hcl2 Hlive2) as (f3 & p3 & Hrun3 & Hcl3 & Hres3).
    assert (Hrun : runF (f1 + (1 + f3)) p = p3).
    { rewrite run_add, Hrun1, run_add. cbn [pair_run]. rewrite E2. exact Hrun3. }
    exists (f1 + (1 + f3))%nat, p3. split; [exact Hrun|]. split; [exact Hcl3|].
    destruct Hres3 as [Hfin|[Hadv|(c3 & j3 & Hg3 & Hlive3 & Hq3 & Hwl3 & Hpend3)]]; [tauto|tauto|exfalso].
    rewrite Hwl2 in Hpend3. specialize (Hpend3 Hpend2). clear Hpend2.
    destruct Hg3 as (Hss3 & Hrg3 & _). pose proof (SS_len _ _ _ Hss3) as (_ & _ & Hpos3).
    rewrite Hwl3, Hwl2 in Hrg3, Hpos3. set (top := a + wlen (p_s p1)) in *.
    destruct Hq3 as [Hq3 Hidle3]. destruct Hpend3 as [P1 P2]. rewrite Hq3 in P2.
    destruct Hrg3 as [[(hist & (_ & Hp3 & _)) [(Hc & Hj)|(Hc & _ & _)]]|(Hd & _ & _ & Hc & _)].
    - (* inside the window: the blocks it needs were queued *)
      assert (Hidle : ch_q (p_sr p3) = []).
      { destruct Hidle3 as [H|H]; [exact H|]. unfold r_running in H. rewrite Hp3 in H. discriminate. }
      rewrite Hidle in P1. specialize (P1 ltac:(unfold top; lia)).
      destruct (N.to_nat (top - c3)) as [|m] eqn:Em; [unfold top in Em; lia|]. cbn [CosimLive.datas] in P1. inversion P1.
    - destruct (P2 Hc) as [[]|[Hrn Hne]]. destruct Hidle3 as [H|H]; [contradiction|congruence].
    - destruct (P2 Hc) as [[]|[Hrn _]]. unfold r_running in Hrn. rewrite Hd in Hrn. discriminate.
  Qed.

  Lemma recover_complete : forall k p a r0 c j, nb - a <= N.of_nat k -> nb <= 65535 ->
    G p a r0 c j -> CL p -> LiveOK p -> r0 + 1 < max_retries ->
    exists fuel, Final (runF fuel p).
  Proof.
    intros k. induction k as [|k IH]; intros p a r0 c j Hk Hn Hg Hcl Hlive Hr0;
      pose proof (SS_len _ _ _ (proj1 Hg)) as (Ha & _ & _); [lia|].
    destruct (recover_advance p a r0 c j Hn Hg Hcl Hlive Hr0) as (f1 & p1 & Hrun1 & Hcl1 & [Hfin|(a' & Hlt & Hg1 & Hlive1)]).
    - exists f1. rewrite Hrun1. exact Hfin.
    - destruct (IH p1 a' 0 a' 0 ltac:(lia) Hn Hg1 Hcl1 Hlive1 one_retry) as (f2 & Hfin).
      exists (f1 + f2)%nat. rewrite run_add, Hrun1. exact Hfin.
  Qed.

  (** Every fault schedule, any number of steps into the run: if from here on nothing more is
      disturbed, neither side has ended and the sender can afford one more time-out, the
      transfer completes on both sides with exactly the file. *)
  Lemma recovers_from_run : forall fuel0, nb <= 65535 ->
    let p := runF fuel0 (pair_init sc rc f_sr F) in
    CL p -> s_phase (p_s p) = SInWindow -> s_retry (p_s p) + 1 < max_retries -> r_phase (p_r p) = RRun ->
    exists fuel, Final (runF fuel p).
  Proof.
    intros fuel0 Hn p Hcl Hs Hr Hrr.
    destruct (G_run fuel0 (pair_init sc rc f_sr F) Hn (or_introl G_init)) as [(a & r0 & c & j & Hg)|Hl].
    - fold p in Hg. pose proof (proj1 Hg) as Hss. destruct Hss as (_ & _ & _ & _ & _ & Hr0).
      apply (recover_complete (N.to_nat nb) p a r0 c j); try assumption; try lia.
      intros Hd. congruence.
    - fold p in Hl. unfold sender_left, s_running in Hl. rewrite Hs in Hl. discriminate.
  Qed.

  Lemma any_step : forall p a r0 c j, nb <= 65535 -> G p a r0 c j ->
    exists p', stepF p = Some p' /\
      (ended p' \/ exists a' r0' c' j', G p' a' r0' c' j' /\ lexdecR p a r0 p' a' r0').
  Proof.
    intros [s r [q1 h1 n1] [q2 h2 n2]] a r0 c j Hn Hg.
    pose proof Hg as (Hss & Hrg & Hsr & Hrs). cbn [p_s p_r p_sr p_rs] in Hss, Hrg, Hsr, Hrs.
    pose proof (SS_len _ _ _ Hss) as (Ha & Hlen & Hpos).
    assert (Hcase : (exists d q, q1 = d :: q /\ r_phase r = RRun) \/ recv_idle r (mk_chan q1 h1 n1)).
    { destruct q1 as [|d q1]; [right; left; reflexivity|].
      destruct (r_phase r) eqn:Hp; [left; eauto|right; right; unfold r_running; rewrite Hp; reflexivity]. }
    destruct Hcase as [(d & q & -> & Hp)|Hidle].
    - (* the receiver takes a datagram *)
      destruct (G_recv _ _ _ _ _ _ _ _ _ _ _ Hn Hg Hp) as (r' & acks & c' & j' & E & Hg' & Hdesc).
      eexists. split; [exact E|]. right. exists a, r0, c', j'. split; [exact Hg'|].
      assert (Hacks : (length acks <= rrn)%nat).
      { destruct Hdesc as [(_ & _ & _ & [(_ & -> & _)|(_ & -> & _)])|(_ & _ & _ & _ & ->)]; rewrite ?repeat_length; cbn [length]; try lia.
        destruct (j =? 0); rewrite ?repeat_length; cbn [length]; lia. }
      unfold lexdecR, CosimLive.pend, msrR. cbn [p_sr p_rs ch_n]. rewrite ch_n_puts. cbn [ch_n].
      destruct (pending_cases f_rs n2 (n2 + lenN acks) ltac:(lia)) as [Hcl|Hhit]; [right|left; lia].
      split; [pose proof (pending_mono f_rs n2 (n2 + lenN acks) ltac:(lia)); lia|].
      right. split; [reflexivity|]. right. split; [reflexivity|].
      rewrite chan_puts_weave_b by exact Hcl. rewrite in_flight_weave_length.
      unfold in_flight. cbn [ch_q ch_held app length]. rewrite Nat.mul_succ_r. lia.
    - destruct q2 as [|d q2].
      + (* silence: the sender's timer fires *)
        destruct (G_tmo _ _ _ _ _ _ _ _ _ Hg Hidle) as [(Hr0 & s' & E & Hl' & Hg')|(_ & s' & E & Hd)].
        * eexists. split; [exact E|]. right. exists a, (r0 + 1), c, j. split; [exact Hg'|].
          unfold lexdecR, CosimLive.pend. cbn [p_sr p_rs ch_n]. rewrite ch_n_puts. cbn [ch_n]. right.
          split; [pose proof (pending_mono f_sr n1 (n1 + lenN (datasR (a + 1) (N.to_nat (wlen s)))) ltac:(lia)); lia|].
          right. split; [reflexivity|]. left. lia.
        * eexists. split; [exact E|]. left. right. exact Hd.
      + (* the sender takes a datagram *)
        destruct (G_send _ _ _ _ _ _ _ _ _ _ _ Hn Hg Hidle) as (s' & burst & E & Hres).
        eexists. split; [exact E|].
        destruct Hres as [(Hne & -> & Hl' & Hg')|(-> & Hctop & -> & [(Hlast & -> & Hd)|(Hmore & -> & Hg')])].
        * rewrite chan_puts_nil. right. exists a, r0, c, j. split; [exact Hg'|].
          unfold lexdecR, CosimLive.pend, msrR, in_flight. cbn [p_sr p_rs ch_n ch_q ch_held app length]. right. split; [lia|].
          right. split; [reflexivity|]. right. split; [reflexivity|]. lia.
        * left. left. destruct (RG_top _ _ _ _ _ Hrg Hpos Hctop) as (_ & Hfin & _). destruct (Hfin Hlast) as [H1 H2].
          unfold Final. cbn [p_s p_r]. split; [exact H1|]. split; [exact H2|exact Hd].
        * right. exists c, 0, c, 0. split; [exact Hg'|].
          unfold lexdecR, CosimLive.pend. cbn [p_sr p_rs ch_n]. rewrite ch_n_puts. cbn [ch_n]. right.
          split; [pose proof (pending_mono f_sr n1 (n1 + lenN (datasR (c + 1) (N.to_nat (wlen s')))) ltac:(lia)); lia|].
          left. lia.
  Qed.

  Lemma terminates_from : forall pf k t m p a r0 c j, nb <= 65535 -> G p a r0 c j ->
    (pend p <= pf)%nat -> nb - a <= N.of_nat k -> max_retries - r0 <= N.of_nat t -> (msrR p <= m)%nat ->
    exists fuel, ended (runF fuel p).
  Proof.
    intros pf. induction pf as [pf IHpf] using lt_wf_ind.
    intros k. induction k as [k IHk] using lt_wf_ind.
    intros t. induction t as [t IHt] using lt_wf_ind.
    intros m. induction m as [m IHm] using lt_wf_ind.
    intros p a r0 c j Hn Hg Hpf Hk Ht Hm.
    destruct (any_step p a r0 c j Hn Hg) as (p' & E & [He|(a' & r0' & c' & j' & Hg' & Hdec)]).
    - exists 1%nat. cbn [pair_run]. rewrite E. exact He.
    - assert (Hrec : exists fuel, ended (runF fuel p')).
      { pose proof (SS_len _ _ _ (proj1 Hg')) as (Ha' & _ & _). pose proof (SS_retry _ _ _ (proj1 Hg')) as Hr'.
        destruct Hdec as [H1|(H0 & [H2|(-> & [H3|(-> & H4)])])].
        - apply (IHpf (pend p') ltac:(lia) (N.to_nat (nb - a')) (N.to_nat (max_retries - r0')) (msrR p') p' a' r0' c' j'); try assumption; lia.
        - apply (IHk (N.to_nat (nb - a')) ltac:(lia) (N.to_nat (max_retries - r0')) (msrR p') p' a' r0' c' j'); try assumption; lia.
        - apply (IHt (N.to_nat (max_retries - r0')) ltac:(lia) (msrR p') p' a r0' c' j'); try assumption; lia.
        - apply (IHm (msrR p') ltac:(lia) p' a r0 c' j'); try assumption; lia. }
      destruct Hrec as (fuel & Hfin). exists (S fuel). cbn [pair_run]. rewrite E. exact Hfin.
  Qed.

  End AnyDup.

  (** C04 / C16, the general clause in duplicate-packets mode: a sender that repeats every DATA
      [s_rep] times, a receiver that repeats every ACK [r_rep] times, channels that lose, repeat and
      reorder at will - every schedule ends with the transfer completed on both sides and the file
      exact, or with the sender at the retry limit. *)
  Theorem cosim_terminates_dup : forall f_sr f_rs, nb <= 65535 ->
    exists fuel,
      let p := pair_run sc rc f_sr f_rs fuel (pair_init sc rc f_sr F) in
      (r_phase (p_r p) = RDone OutOk /\ written_bytes (w_file (r_w (p_r p))) = F /\ s_phase (p_s p) = SDone OutOk)
      \/ s_phase (p_s p) = SDone OutTimeout.
  Proof.
    intros f_sr f_rs Hn. destruct (G_init f_sr) as (a & r0 & c & j & Hg).
    destruct (terminates_from f_sr f_rs _ (N.to_nat (nb - a)) (N.to_nat (max_retries - r0)) _ _ a r0 c j Hn Hg
                (Nat.le_refl _) ltac:(lia) ltac:(lia) (Nat.le_refl _)) as (fuel & He).
    exists fuel. exact He.
  Qed.

  (** ... and from any state reachable under any faults, once nothing more is disturbed and the sender
      can afford one more time-out, the transfer completes. *)
  Theorem cosim_recovers_dup : forall f_sr f_rs fuel0, nb <= 65535 ->
    let p := pair_run sc rc f_sr f_rs fuel0 (pair_init sc rc f_sr F) in
    clean_from f_sr (ch_n (p_sr p)) -> clean_from f_rs (ch_n (p_rs p)) ->
    s_phase (p_s p) = SInWindow -> s_retry (p_s p) + 1 < max_retries -> r_phase (p_r p) = RRun ->
    exists fuel,
      let p' := pair_run sc rc f_sr f_rs fuel p in
      r_phase (p_r p') = RDone OutOk /\ written_bytes (w_file (r_w (p_r p'))) = F /\ s_phase (p_s p') = SDone OutOk.
  Proof.
    intros f_sr f_rs fuel0 Hn p Hc1 Hc2 Hs Hr Hrr.
    destruct (recovers_from_run f_sr f_rs fuel0 Hn (conj Hc1 Hc2) Hs Hr Hrr) as (fuel & Hfin).
    exists fuel. exact Hfin.
  Qed.
End Dup.

(** The general clause for every configuration the command line can produce: block size, window
    size, both repeat counts (duplicate-packets N gives N + 1), every file of at most 65535 blocks,
    EVERY fault schedule on both channels. *)
Theorem any_schedule_dup_statement_holds :
  forall (blk ws srep rrep : N) (F : bytes) (f1 f2 : list (N * fault)),
  0 < blk -> 1 <= ws <= 65535 -> 1 <= srep -> 1 <= rrep -> nblk blk F <= 65535 ->
  exists fuel,
    let sc := mk_scfg blk ws 1000000000 srep false [] in
    let rc := mk_rcfg blk ws 1000000000 rrep true [] in
    let p := pair_run sc rc f1 f2 fuel (pair_init sc rc f1 F) in
    (r_phase (p_r p) = RDone OutOk /\ written_bytes (w_file (r_w (p_r p))) = F /\ s_phase (p_s p) = SDone OutOk)
    \/ s_phase (p_s p) = SDone OutTimeout.
Proof.
  intros blk ws srep rrep F f1 f2 Hb Hw Hs Hr Hn.
  set (sc := mk_scfg blk ws 1000000000 srep false []). set (rc := mk_rcfg blk ws 1000000000 rrep true []).
  assert (Hwf : wf_params (s_blk sc) (s_ws sc)) by (split; assumption).
  exact (cosim_terminates_dup sc rc F Hwf eq_refl eq_refl eq_refl eq_refl eq_refl Hs Hr eq_refl f1 f2 Hn).
Qed.

Theorem quiet_after_faults_dup_statement_holds :
  forall (blk ws srep rrep : N) (F : bytes) (f1 f2 : list (N * fault)) (fuel0 : nat),
  0 < blk -> 1 <= ws <= 65535 -> 1 <= srep -> 1 <= rrep -> nblk blk F <= 65535 ->
  let sc := mk_scfg blk ws 1000000000 srep false [] in
  let rc := mk_rcfg blk ws 1000000000 rrep true [] in
  let p := pair_run sc rc f1 f2 fuel0 (pair_init sc rc f1 F) in
  clean_from f1 (ch_n (p_sr p)) -> clean_from f2 (ch_n (p_rs p)) ->
  s_phase (p_s p) = SInWindow -> s_retry (p_s p) + 1 < max_retries -> r_phase (p_r p) = RRun ->
  exists fuel,
    let p' := pair_run sc rc f1 f2 fuel p in
    r_phase (p_r p') = RDone OutOk /\ written_bytes (w_file (r_w (p_r p'))) = F /\ s_phase (p_s p') = SDone OutOk.
Proof.
  intros blk ws srep rrep F f1 f2 fuel0 Hb Hw Hs Hr Hn sc rc.
  assert (Hwf : wf_params (s_blk sc) (s_ws sc)) by (split; assumption).
  exact (cosim_recovers_dup sc rc F Hwf eq_refl eq_refl eq_refl eq_refl eq_refl Hs Hr eq_refl f1 f2 fuel0 Hn).
Qed.

(** Non-vacuity: duplicate-packets 2 on the sending side, 1 on the receiving side, faults of every
    kind on both channels, two time-outs on the count, the receiver one block into the file. *)
Example quiet_after_faults_dup_premises :
  let sc := mk_scfg 4 3 1000000000 3 false [] in
  let rc := mk_rcfg 4 3 1000000000 2 true [] in
  let F := map N.of_nat (seq 1 30) in
  let f1 := [(0, NfDrop); (1, NfDrop); (2, NfDrop); (4, NfHold); (7, NfDup); (9, NfDrop); (10, NfDrop); (11, NfDrop); (12, NfDrop)] in
  let f2 := [(0, NfDrop); (1, NfDup); (3, NfHold)] in
  let p := pair_run sc rc f1 f2 40 (pair_init sc rc f1 F) in
  clean_from f1 (ch_n (p_sr p)) /\ clean_from f2 (ch_n (p_rs p)) /\
  s_phase (p_s p) = SInWindow /\ s_retry (p_s p) + 1 < max_retries /\ r_phase (p_r p) = RRun.
Proof.
  cbv zeta. split; [apply clean_from_bound; vm_compute; reflexivity|].
  split; [apply clean_from_bound; vm_compute; reflexivity|]. vm_compute. repeat split; reflexivity.
Qed.

