(** Soundness of the codec monitors with respect to the codec model. *)
From Coq Require Import ZArith Lia ZifyBool ZifyNat ZifyN.
From Tftp Require Import Base.Prelude Base.Utf8 Base.Decimal Model.Types Model.Consts Model.Codec Model.Rfc
  Model.Monitors Proofs.ListAux Proofs.CodecP.
Local Open Scope N_scope.

Lemma find_zero_count : forall l i, find_zero l = Some i -> (1 <= count_nul l)%nat /\
  (count_nul (skipn (S i) l) = count_nul l - 1)%nat.
Proof.
  induction l as [|b r IH]; intros i H; cbn [find_zero] in H; [discriminate|].
  cbn [count_nul]. destruct (N.eqb_spec b 0) as [->|Hb].
  - inversion H; subst. cbn [skipn]. lia.
  - destruct (find_zero r) as [j|] eqn:E; [|discriminate]. inversion H; subst.
    destruct (IH j eq_refl) as [H1 H2]. cbn [skipn]. split; [lia|exact H2].
Qed.

Lemma to_string_ok_count : forall buf start s z,
  to_string buf start = Ok (s, z) ->
  (1 <= count_nul (skipn start buf))%nat /\ (count_nul (skipn (S z) buf) = count_nul (skipn start buf) - 1)%nat.
Proof.
  intros buf start s z H. unfold to_string, slice_from in H.
  destruct (Nat.ltb_spec (length buf) start) as [Hlt|Hle]; cbn [bind] in H; [discriminate|].
  destruct (find_zero (skipn start buf)) as [i|] eqn:E; [|discriminate].
  destruct (utf8_valid _); [|discriminate]. inversion H; subst.
  destruct (find_zero_count _ _ E) as [H1 H2]. split; [exact H1|].
  rewrite <- H2, skipn_skipn'. reflexivity.
Qed.

Lemma parse_rq_ok_count : forall buf op p,
  parse_rq buf op = Ok p -> (2 <= count_nul (skipn 2 buf))%nat.
Proof.
  intros buf op p H. unfold parse_rq in H.
  destruct (to_string buf 2) as [[f z]| | |] eqn:E1; cbn [bind] in H; try discriminate.
  destruct (to_string buf (z + 1)) as [[m z2]| | |] eqn:E2; cbn [bind] in H; try discriminate.
  destruct (to_string_ok_count _ _ _ _ E1) as [A1 A2].
  rewrite Nat.add_1_r in E2.
  destruct (to_string_ok_count _ _ _ _ E2) as [B1 _].
  lia.
Qed.

Lemma decode_cons2 : forall a b rest,
  decode (a :: b :: rest) =
  match opcode_of_u16 (a * 256 + b) with
  | None => Err EOpcode
  | Some OpRrq => parse_rq (a :: b :: rest) OpRrq
  | Some OpWrq => parse_rq (a :: b :: rest) OpWrq
  | Some OpData => parse_data (a :: b :: rest)
  | Some OpAck => parse_ack (a :: b :: rest)
  | Some OpOack => parse_oack (a :: b :: rest)
  | Some OpError => parse_error (a :: b :: rest)
  end.
Proof. intros. reflexivity. Qed.

Lemma u16_of_opcode_vals : forall o, u16_of_opcode o =
  match o with OpRrq => 1 | OpWrq => 2 | OpData => 3 | OpAck => 4 | OpError => 5 | OpOack => 6 end.
Proof. destruct o; reflexivity. Qed.

(** Whatever the property says must be rejected is rejected by the decoder model. *)
Theorem must_reject_sound : forall buf, must_reject buf = true -> exists e, decode buf = Err e.
Proof.
  intros buf H.
  destruct buf as [|a [|b rest]]; try (eexists; apply reject_short; cbn [length]; lia).
  cbn [must_reject] in H. cbv zeta in H.
  destruct ((a * 256 + b <? 1) || (6 <? a * 256 + b)) eqn:Eop.
  { exists EOpcode. apply reject_unknown_opcode.
    destruct (opcode_of_u16 (a * 256 + b)) eqn:E; [|reflexivity].
    assert (Hr : opcode_of_u16 (a * 256 + b) <> None) by (rewrite E; discriminate).
    apply opcode_accepted_range in Hr. lia. }
  assert (Hrange : 1 <= a * 256 + b <= 6) by lia.
  destruct (opcode_of_u16 (a * 256 + b)) as [o|] eqn:Eo.
  2:{ exfalso. apply opcode_accepted_range in Hrange. congruence. }
  pose proof (proj1 (opcode_inverse _ _) Eo) as Hinv. rewrite u16_of_opcode_vals in Hinv.
  destruct ((a * 256 + b =? 3) || (a * 256 + b =? 4)) eqn:E34.
  { exists EU16. eapply reject_short_header; [exact Eo| |apply Nat.ltb_lt; exact H].
    destruct o; auto; exfalso; lia. }
  destruct (a * 256 + b =? 5) eqn:E5.
  { assert (o = OpError) by (destruct o; auto; exfalso; lia). subst o.
    destruct rest as [|c [|d rest']].
    - exists EU16. eapply reject_short_header; [exact Eo|auto|cbn [length]; lia].
    - exists EU16. eapply reject_short_header; [exact Eo|auto|cbn [length]; lia].
    - exists EErrCode. apply reject_bad_errcode; [exact Eo|].
      destruct (errcode_of_u16 (c * 256 + d)) eqn:Ec; [|reflexivity].
      assert (Hr : errcode_of_u16 (c * 256 + d) <> None) by (rewrite Ec; discriminate).
      apply errcode_accepted_range in Hr. lia. }
  assert (Hlast : forall pre, a :: b :: rest = pre ++ [0] -> rest <> [] -> unterminated rest = false).
  { intros pre Hpre Hne. unfold unterminated.
    assert (Hl : last (a :: b :: rest) 1 = 0) by (rewrite Hpre; apply last_last).
    destruct rest as [|c rest']; [contradiction|]. cbn [last] in Hl. cbn [last]. rewrite Hl. reflexivity. }
  destruct ((a * 256 + b =? 1) || (a * 256 + b =? 2)) eqn:E12.
  - assert (Ho : o = OpRrq \/ o = OpWrq) by (destruct o; auto; exfalso; lia).
    destruct (decode_total (a :: b :: rest)) as [[p Hp]|[e [He _]]]; [|exists e; exact He].
    exfalso. rewrite decode_cons2, Eo in Hp.
    apply orb_prop in H. destruct H as [H|H].
    + apply Nat.ltb_lt in H.
      destruct Ho; subst o; apply parse_rq_ok_count in Hp; cbn [skipn] in Hp; lia.
    + assert (Hend : exists pre, a :: b :: rest = pre ++ [0]) by (destruct Ho; subst o; eapply parse_rq_end; exact Hp).
      destruct Hend as (pre & Hpre).
      destruct rest as [|c rest']; [|rewrite (Hlast pre Hpre) in H; [discriminate|discriminate]].
      destruct pre as [|x [|y pre']]; cbn [app] in Hpre; try discriminate.
      * injection Hpre as _ Hb. lia.
      * injection Hpre as _ _ Hnil. destruct pre'; discriminate.
  - assert (o = OpOack) by (destruct o; auto; exfalso; lia). subst o.
    destruct rest as [|c rest']; [discriminate|].
    destruct (decode_total (a :: b :: c :: rest')) as [[p Hp]|[e [He _]]]; [|exists e; exact He].
    exfalso. rewrite decode_cons2, Eo in Hp. unfold parse_oack in Hp.
    destruct (parse_opts (length (a :: b :: c :: rest')) (a :: b :: c :: rest') 1) as [os|e| |] eqn:E3; cbn [bind] in Hp; try discriminate.
    destruct (parse_opts_end _ _ _ _ E3 ltac:(cbn [length]; lia)) as [Hend|(pre & Hpre)]; [cbn [length] in Hend; lia|].
    rewrite (Hlast pre Hpre) in H; discriminate.
Qed.

(** The C10 monitor accepts every behaviour of the decoder model: for every byte
    string, the model neither panics nor accepts what must be rejected, and what
    it accepts is stable. *)
Theorem okC10_on_model : forall buf, all_bytes buf ->
  match decode buf with
  | Ok p => forall stable, (stable = true <-> decode (encode p) = Ok p) -> okC10 buf (DAccepted p stable) = true
  | Err _ => okC10 buf DRejected = true
  | Panic | Abort => False
  end.
Proof.
  intros buf Hb. destruct (decode buf) as [p|e| |] eqn:E.
  - intros stable Hs. cbn [okC10].
    assert (stable = true) as -> by (apply Hs; eapply decode_stable; eauto).
    destruct (must_reject buf) eqn:Em; [|reflexivity].
    destruct (must_reject_sound _ Em) as [e He]. congruence.
  - reflexivity.
  - destruct (decode_never_panics buf) as [H _]. congruence.
  - destruct (decode_never_panics buf) as [_ [H _]]. congruence.
Qed.

(** The C11 monitor accepts the encoder model on every well-formed packet. *)
Lemma str_ok_wf : forall s, str_ok s = true -> wf_str s.
Proof.
  intros s H. unfold str_ok in H. apply andb_true_iff in H as [H1 H2].
  split; [exact H1|apply nonulb_sound; exact H2].
Qed.

Theorem okC11_enc_on_model : forall p, wf p -> okC11_enc p (encode p) true = true.
Proof.
  intros p _. unfold okC11_enc. rewrite encode_layout, orb_true_l, andb_true_r.
  generalize (rfc_layout p). intros l. induction l as [|x l IH]; [reflexivity|].
  cbn [bytes_eqb]. rewrite N.eqb_refl. exact IH.
Qed.

Theorem okC11_conv_opcode_on_model : forall v, v < 65536 ->
  okC11_conv 1 6 v (match opcode_of_u16 v with Some o => Some (u16_be (u16_of_opcode o)) | None => None end) = true.
Proof.
  intros v Hv. unfold okC11_conv. destruct (opcode_of_u16 v) as [o|] eqn:E.
  - pose proof (proj1 (opcode_inverse _ _) E) as Hi. rewrite Hi.
    assert (Hr : opcode_of_u16 v <> None) by (rewrite E; discriminate).
    apply opcode_accepted_range in Hr. unfold u16_be. cbn [bytes_eqb]. rewrite !N.eqb_refl.
    destruct (N.leb_spec 1 v), (N.leb_spec v 6); try lia; try reflexivity.
  - destruct (N.leb_spec 1 v), (N.leb_spec v 6); try reflexivity.
    exfalso. assert (Hr : 1 <= v <= 6) by lia. apply opcode_accepted_range in Hr. congruence.
Qed.

Theorem okC11_conv_errcode_on_model : forall v, v < 65536 ->
  okC11_conv 0 7 v (match errcode_of_u16 v with Some o => Some (u16_be (u16_of_errcode o)) | None => None end) = true.
Proof.
  intros v Hv. unfold okC11_conv. destruct (errcode_of_u16 v) as [o|] eqn:E.
  - pose proof (proj1 (errcode_inverse _ _) E) as Hi. rewrite Hi.
    assert (Hr : errcode_of_u16 v <> None) by (rewrite E; discriminate).
    apply errcode_accepted_range in Hr. unfold u16_be. cbn [bytes_eqb]. rewrite !N.eqb_refl.
    destruct (N.leb_spec 0 v), (N.leb_spec v 7); try lia; try reflexivity.
  - destruct (N.leb_spec 0 v), (N.leb_spec v 7); try reflexivity.
    exfalso. assert (Hr : v <= 7) by lia. apply errcode_accepted_range in Hr. congruence.
Qed.
