(** Arithmetic of blocks of a file: [chunk], [nblk], [chunks_from] (Model/Spec.v). *)
From Coq Require Import ZArith Lia ZifyBool ZifyNat ZifyN.
From Tftp Require Import Base.Prelude Model.Types Model.Consts Model.Codec Model.Window Model.Worker Model.Spec
  Proofs.ListAux.
Local Open Scope N_scope.
Ltac Zify.zify_post_hook ::= Z.div_mod_to_equations.

(** * takeN / dropN *)

Lemma lenN_takeN {A} : forall n (l : list A), lenN (takeN n l) = N.min n (lenN l).
Proof. intros. unfold lenN, takeN. rewrite firstn_length. lia. Qed.

Lemma lenN_dropN {A} : forall n (l : list A), lenN (dropN n l) = lenN l - n.
Proof. intros. unfold lenN, dropN. rewrite skipn_length. lia. Qed.

Lemma dropN_dropN {A} : forall a b (l : list A), dropN a (dropN b l) = dropN (a + b) l.
Proof. intros. unfold dropN. rewrite skipn_skipn'. f_equal. lia. Qed.

Lemma takeN_dropN {A} : forall n (l : list A), takeN n l ++ dropN n l = l.
Proof. intros. apply firstn_skipn. Qed.

Lemma dropN_0 {A} : forall (l : list A), dropN 0 l = l.
Proof. reflexivity. Qed.

Lemma dropN_all {A} : forall n (l : list A), lenN l <= n -> dropN n l = [].
Proof. intros n l H. unfold dropN. apply skipn_all2. unfold lenN in H. lia. Qed.

Lemma takeN_all {A} : forall n (l : list A), lenN l <= n -> takeN n l = l.
Proof. intros n l H. unfold takeN. apply firstn_all2. unfold lenN in H. lia. Qed.

Lemma takeN_nil {A} : forall n, takeN n (@nil A) = [].
Proof. intros. unfold takeN. apply firstn_nil. Qed.

Lemma lenN_app {A} : forall (a b : list A), lenN (a ++ b) = lenN a + lenN b.
Proof. intros. unfold lenN. rewrite app_length. lia. Qed.

Lemma lenN_nil {A} : lenN (@nil A) = 0.
Proof. reflexivity. Qed.

Lemma lenN_cons {A} : forall (x : A) l, lenN (x :: l) = lenN l + 1.
Proof. intros. unfold lenN. cbn [length]. lia. Qed.

Lemma lenN_0_nil {A} : forall (l : list A), lenN l = 0 -> l = [].
Proof. intros [|x l] H; [reflexivity|]. rewrite lenN_cons in H. lia. Qed.

Lemma firstn_add' {A} : forall a b (l : list A),
  firstn (a + b) l = firstn a l ++ firstn b (skipn a l).
Proof.
  induction a as [|a IH]; intros b l; [reflexivity|].
  destruct l as [|x l]; cbn [Nat.add firstn skipn app].
  - rewrite firstn_nil. reflexivity.
  - rewrite IH. reflexivity.
Qed.

Lemma takeN_takeN_dropN {A} : forall a b (l : list A),
  takeN a l ++ takeN b (dropN a l) = takeN (a + b) l.
Proof.
  intros a b l. unfold takeN, dropN.
  replace (N.to_nat (a + b)) with (N.to_nat a + N.to_nat b)%nat by lia.
  rewrite firstn_add'. reflexivity.
Qed.

(** * Blocks *)

Lemma mul_pred_r : forall k blk, 1 <= k -> (k - 1) * blk = k * blk - blk.
Proof. intros. rewrite N.mul_sub_distr_r. lia. Qed.

Lemma nblk_pos : forall blk F, 1 <= nblk blk F.
Proof. intros. unfold nblk. generalize (lenN F / blk). intros; lia. Qed.

(** [k < nblk] iff block [k] ends inside the file. *)
Lemma lt_nblk_iff : forall blk F k, 0 < blk -> (k < nblk blk F <-> k * blk <= lenN F).
Proof.
  intros blk F k Hb. unfold nblk. split; intros H.
  - assert (k <= lenN F / blk) by lia.
    assert (k * blk <= lenN F / blk * blk) by (apply N.mul_le_mono_r; assumption).
    assert (blk * (lenN F / blk) <= lenN F) by (apply N.mul_div_le; lia).
    lia.
  - assert (k <= lenN F / blk); [|lia].
    apply N.div_le_lower_bound; lia.
Qed.

Theorem chunk_full : forall blk F k, 0 < blk -> 1 <= k -> k < nblk blk F -> lenN (chunk blk F k) = blk.
Proof.
  intros blk F k Hb Hk Hlt. unfold chunk. rewrite lenN_takeN, lenN_dropN.
  apply lt_nblk_iff in Hlt; [|assumption]. rewrite mul_pred_r by assumption.
  assert (blk <= k * blk) by (replace blk with (1 * blk) at 1 by lia; apply N.mul_le_mono_r; lia).
  lia.
Qed.

Lemma nblk_mul : forall blk F, 0 < blk -> (nblk blk F - 1) * blk = lenN F - lenN F mod blk.
Proof.
  intros blk F Hb. unfold nblk. rewrite N.add_sub.
  pose proof (N.div_mod' (lenN F) blk) as E.
  set (q := lenN F / blk) in *. set (r := lenN F mod blk) in *. clearbody q r.
  rewrite (N.mul_comm q blk). lia.
Qed.

Theorem chunk_last : forall blk F, 0 < blk -> lenN (chunk blk F (nblk blk F)) = lenN F mod blk.
Proof.
  intros blk F Hb. unfold chunk. rewrite lenN_takeN, lenN_dropN, nblk_mul by assumption.
  pose proof (N.mod_lt (lenN F) blk). pose proof (N.mod_le (lenN F) blk). lia.
Qed.

Theorem chunk_last_short : forall blk F, 0 < blk -> lenN (chunk blk F (nblk blk F)) < blk.
Proof. intros. rewrite chunk_last by assumption. apply N.mod_lt. lia. Qed.

Theorem chunk_beyond : forall blk F k, 0 < blk -> nblk blk F < k -> chunk blk F k = [].
Proof.
  intros blk F k Hb Hk. unfold chunk. rewrite dropN_all; [apply takeN_nil|].
  assert (Hn : ~ (k - 1 < nblk blk F)) by lia.
  rewrite lt_nblk_iff in Hn by assumption. lia.
Qed.

Lemma chunk_len_le : forall blk F k, lenN (chunk blk F k) <= blk.
Proof. intros. unfold chunk. rewrite lenN_takeN. lia. Qed.

(** A block shorter than [blk] is the last one (or lies beyond it). *)
Lemma chunk_short_last : forall blk F k, 0 < blk -> 1 <= k -> lenN (chunk blk F k) < blk -> nblk blk F <= k.
Proof.
  intros blk F k Hb Hk Hs. destruct (N.lt_ge_cases k (nblk blk F)) as [Hlt|Hge]; [|exact Hge].
  rewrite chunk_full in Hs by assumption. lia.
Qed.

(** The blocks [a, a+n), concatenated after the first [(a-1)*blk] bytes, are the first [(a-1+n)*blk] bytes. *)
Lemma chunks_prefix : forall blk F n a, 1 <= a ->
  takeN ((a - 1) * blk) F ++ concat (chunks_from blk F a n) = takeN ((a - 1 + N.of_nat n) * blk) F.
Proof.
  intros blk F n. induction n as [|n IH]; intros a Ha.
  - cbn [chunks_from concat]. rewrite app_nil_r. f_equal. lia.
  - cbn [chunks_from concat]. rewrite app_assoc. unfold chunk at 1.
    rewrite takeN_takeN_dropN.
    replace ((a - 1) * blk + blk) with ((a + 1 - 1) * blk)
      by (replace (a + 1 - 1) with (a - 1 + 1) by lia; rewrite N.mul_add_distr_r, N.mul_1_l; reflexivity).
    rewrite IH by lia. f_equal. f_equal. lia.
Qed.

(** The blocks 1..nblk, concatenated, are the file. *)
Theorem chunks_concat : forall blk F, 0 < blk ->
  concat (chunks_from blk F 1 (N.to_nat (nblk blk F))) = F.
Proof.
  intros blk F Hb. pose proof (chunks_prefix blk F (N.to_nat (nblk blk F)) 1 (N.le_refl 1)) as H.
  replace ((1 - 1) * blk) with 0 in H by lia. unfold takeN at 1 in H. cbn [N.to_nat firstn app] in H.
  rewrite H. apply takeN_all.
  assert (Hn : ~ (nblk blk F < nblk blk F)) by lia. rewrite lt_nblk_iff in Hn by assumption. lia.
Qed.

Lemma chunks_from_length : forall blk F a n, length (chunks_from blk F a n) = n.
Proof. intros blk F a n. revert a. induction n as [|n IH]; intros a; cbn [chunks_from length]; [reflexivity|]. rewrite IH. reflexivity. Qed.

Lemma chunks_from_app : forall blk F a n m,
  chunks_from blk F a (n + m) = chunks_from blk F a n ++ chunks_from blk F (a + N.of_nat n) m.
Proof.
  intros blk F a n m. revert a. induction n as [|n IH]; intros a.
  - cbn [chunks_from app Nat.add]. f_equal. lia.
  - cbn [chunks_from app Nat.add]. f_equal. rewrite IH. f_equal. f_equal. lia.
Qed.

Lemma chunks_from_skipn : forall blk F a n k, (k <= n)%nat ->
  skipn k (chunks_from blk F a n) = chunks_from blk F (a + N.of_nat k) (n - k).
Proof.
  intros blk F a n k Hk. replace n with (k + (n - k))%nat at 1 by lia.
  rewrite chunks_from_app. apply skipn_app_exact. rewrite chunks_from_length. reflexivity.
Qed.

Lemma chunks_from_In : forall blk F a n c, In c (chunks_from blk F a n) ->
  exists k, a <= k < a + N.of_nat n /\ c = chunk blk F k.
Proof.
  intros blk F a n. revert a. induction n as [|n IH]; intros a c H; cbn [chunks_from] in H; [contradiction|].
  destruct H as [<-|H].
  - exists a. split; [lia|reflexivity].
  - destruct (IH _ _ H) as [k [Hk ->]]. exists k. split; [lia|reflexivity].
Qed.
