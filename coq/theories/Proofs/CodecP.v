(** Proofs about the codec model (C10, C11). *)
From Coq Require Import Decimal DecimalN.
From Tftp Require Import Base.Prelude Base.Utf8 Base.Decimal Model.Types Model.Consts Model.Codec.
Local Open Scope N_scope.

(** ** Decimal *)

Theorem decimal_roundtrip : forall n, n < usize_limit -> parse_usize (to_dec n) = Some n.
Admitted.

Definition is_digit (b : N) : Prop := 48 <= b <= 57.

(** [to_dec] produces digits only, at least one, and no leading zero except for 0 itself. *)
Theorem to_dec_shape : forall n,
  Forall is_digit (to_dec n) /\ to_dec n <> [] /\ (forall r, to_dec n = 48 :: r -> r = [] /\ n = 0).
Admitted.

(** What [parse_usize] accepts: an optional single '+', then one or more digits, value below 2^64. *)
Theorem parse_usize_some : forall s v, parse_usize s = Some v ->
  exists ds, (s = ds \/ s = 43 :: ds) /\ ds <> [] /\ Forall is_digit ds /\ v < usize_limit.
Admitted.

Theorem parse_usize_nondigit : forall s, (exists b, In b s /\ ~ is_digit b /\ b <> 43) -> parse_usize s = None.
Admitted.

(** ** Tables (stated over all of N, hence over the whole 16-bit range) *)

Theorem opcode_inverse : forall v c, opcode_of_u16 v = Some c <-> u16_of_opcode c = v.
Admitted.

Theorem opcode_accepted_range : forall v, opcode_of_u16 v <> None <-> 1 <= v <= 6.
Admitted.

Theorem errcode_inverse : forall v c, errcode_of_u16 v = Some c <-> u16_of_errcode c = v.
Admitted.

Theorem errcode_accepted_range : forall v, errcode_of_u16 v <> None <-> v <= 7.
Admitted.

Theorem option_name_inverse : forall o, opt_of_name (opt_name o) = Some o.
Admitted.

Theorem option_name_recognised : forall o, recognise (opt_name o) = Some o.
Admitted.

(** ** RFC 1350 / 2347 layout, written with literal numbers and names (independent of the generated tables) *)

Definition rfc_opt_name (o : opt_type) : bytes :=
  match o with
  | OBlkSize => [98; 108; 107; 115; 105; 122; 101]               (* "blksize" *)
  | OTSize => [116; 115; 105; 122; 101]                          (* "tsize" *)
  | OTimeout => [116; 105; 109; 101; 111; 117; 116]              (* "timeout" *)
  | OWindowSize => [119; 105; 110; 100; 111; 119; 115; 105; 122; 101] (* "windowsize" *)
  end.

Definition rfc_errcode (c : errcode) : N :=
  match c with
  | ENotDefined => 0 | EFileNotFound => 1 | EAccessViolation => 2 | EDiskFull => 3
  | EIllegalOperation => 4 | EUnknownId => 5 | EFileExists => 6 | ENoSuchUser => 7
  end.

Fixpoint rfc_opts (os : list topt) : bytes :=
  match os with
  | [] => []
  | o :: r => rfc_opt_name (o_type o) ++ 0 :: to_dec (o_val o) ++ 0 :: rfc_opts r
  end.

Definition rfc_layout (p : packet) : bytes :=
  match p with
  | Rrq f m os => 0 :: 1 :: f ++ 0 :: m ++ 0 :: rfc_opts os
  | Wrq f m os => 0 :: 2 :: f ++ 0 :: m ++ 0 :: rfc_opts os
  | Data n d => 0 :: 3 :: n / 256 :: n mod 256 :: d
  | Ack n => [0; 4; n / 256; n mod 256]
  | Error c m => 0 :: 5 :: 0 :: rfc_errcode c :: m ++ [0]
  | Oack os => 0 :: 6 :: rfc_opts os
  end.

Theorem encode_layout : forall p, encode p = rfc_layout p.
Admitted.

(** ** Round trip *)

Theorem decode_encode : forall p, wf p -> decode (encode p) = Ok p.
Admitted.

(** ** Totality *)

Theorem decode_never_panics : forall buf,
  decode buf <> Panic /\ decode buf <> Abort /\ decode buf <> Err EFuel.
Admitted.

Theorem decode_total : forall buf, (exists p, decode buf = Ok p) \/ (exists e, decode buf = Err e /\ e <> EFuel).
Admitted.

(** ** Rejections *)

Theorem reject_short : forall buf, (length buf < 2)%nat -> decode buf = Err EShort.
Admitted.

Theorem reject_unknown_opcode : forall a b rest,
  opcode_of_u16 (a * 256 + b) = None -> decode (a :: b :: rest) = Err EOpcode.
Admitted.

Theorem reject_short_header : forall a b rest o,
  opcode_of_u16 (a * 256 + b) = Some o -> (o = OpData \/ o = OpAck \/ o = OpError) ->
  (length rest < 2)%nat -> decode (a :: b :: rest) = Err EU16.
Admitted.

Theorem reject_bad_errcode : forall a b c d rest,
  opcode_of_u16 (a * 256 + b) = Some OpError -> errcode_of_u16 (c * 256 + d) = None ->
  decode (a :: b :: c :: d :: rest) = Err EErrCode.
Admitted.

(** A request whose file name or mode lacks its terminator is rejected. *)
Theorem reject_request_without_nul : forall a b rest o,
  opcode_of_u16 (a * 256 + b) = Some o -> (o = OpRrq \/ o = OpWrq) ->
  (forall f m tail, rest <> f ++ 0 :: m ++ 0 :: tail) ->
  exists e, decode (a :: b :: rest) = Err e.
Admitted.

(** An accepted request (or non-empty OACK) ends with a NUL: no dangling, unterminated option text. *)
Theorem accepted_request_ends_with_nul : forall buf p,
  decode buf = Ok p ->
  match p with
  | Rrq _ _ _ | Wrq _ _ _ => exists pre, buf = pre ++ [0]
  | Oack _ => (length buf = 2)%nat \/ exists pre, buf = pre ++ [0]
  | _ => True
  end.
Admitted.

(** One turn of the option loop: a recognised name with a value that is not a number is an error. *)
Theorem reject_nonnumeric_option : forall f buf zi name z1 val z2 ty,
  (zi < length buf - 1)%nat ->
  to_string buf (zi + 1) = Ok (name, z1) -> to_string buf (z1 + 1) = Ok (val, z2) ->
  recognise name = Some ty -> parse_usize val = None ->
  parse_opts (S f) buf zi = Err ENum.
Admitted.

(** ** Stability of whatever is accepted *)

Theorem decode_ok_wf : forall buf p, all_bytes buf -> decode buf = Ok p -> wf p.
Admitted.

Theorem decode_stable : forall buf p, all_bytes buf -> decode buf = Ok p -> decode (encode p) = Ok p.
Admitted.

(** Unknown option names are dropped, recognised ones kept in order (decoder side of C09). *)
Theorem decode_drops_unknown_options : forall f m os name val,
  wf (Rrq f m os) -> wf_str name -> wf_str val -> recognise name = None ->
  decode (encode (Rrq f m os) ++ name ++ 0 :: val ++ [0]) = Ok (Rrq f m os).
Admitted.
