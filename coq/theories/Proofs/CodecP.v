(** Proofs about the codec model (C10, C11). *)
From Coq Require Import Decimal DecimalN DecimalFacts.
From Coq Require Import ZArith Lia ZifyBool ZifyNat ZifyN.
From Tftp Require Import Base.Prelude Base.Utf8 Base.Decimal Model.Types Model.Consts Model.Codec Model.Rfc.
From Tftp Require Import Proofs.ListAux.
Local Open Scope N_scope.

(** ** Decimal *)

Definition is_digit (b : N) : Prop := 48 <= b <= 57.

Lemma uint_of_bytes_of_uint : forall u, uint_of_bytes (bytes_of_uint u) = Some u.
Proof.
  induction u as [|u IHu|u IHu|u IHu|u IHu|u IHu|u IHu|u IHu|u IHu|u IHu|u IHu];
    cbn [bytes_of_uint uint_of_bytes]; try rewrite IHu; reflexivity.
Qed.

Lemma bytes_of_uint_digits : forall u, Forall is_digit (bytes_of_uint u).
Proof.
  induction u as [|u IHu|u IHu|u IHu|u IHu|u IHu|u IHu|u IHu|u IHu|u IHu|u IHu];
    cbn [bytes_of_uint]; constructor; try exact IHu; unfold is_digit; lia.
Qed.

Lemma digit_cons_inv : forall c u d, digit_cons c u = Some d -> is_digit c.
Proof.
  intros c u d. unfold digit_cons, is_digit.
  repeat match goal with
  | |- context [N.eqb c ?k] =>
      destruct (N.eqb_spec c k) as [->|_]; [intros _; lia|]
  end.
  intros H; discriminate H.
Qed.

Lemma uint_of_bytes_digits : forall s u, uint_of_bytes s = Some u -> Forall is_digit s.
Proof.
  induction s as [|c r IH]; intros u H.
  - constructor.
  - cbn [uint_of_bytes] in H.
    destruct (uint_of_bytes r) as [u'|] eqn:Er; [|discriminate H].
    constructor; [exact (digit_cons_inv _ _ _ H)|exact (IH u' eq_refl)].
Qed.

Lemma uint_of_bytes_nondigit : forall s b, In b s -> ~ is_digit b -> uint_of_bytes s = None.
Proof.
  intros s b Hin Hnd. destruct (uint_of_bytes s) as [u|] eqn:E; [|reflexivity].
  exfalso. apply Hnd. pose proof (uint_of_bytes_digits _ _ E) as HF.
  rewrite Forall_forall in HF. exact (HF b Hin).
Qed.

(** [parse_usize] on a string that does not start with '+'. *)
Lemma parse_usize_noplus : forall c r,
  c <> 43 ->
  parse_usize (c :: r) =
  match uint_of_bytes (c :: r) with
  | Some u => if N.of_uint u <? usize_limit then Some (N.of_uint u) else None
  | None => None
  end.
Proof.
  intros c r Hc. unfold parse_usize.
  destruct (N.eqb_spec c 43) as [E|_]; [contradiction|]. reflexivity.
Qed.

Lemma parse_usize_plus : forall r,
  parse_usize (43 :: r) =
  match r with
  | [] => None
  | _ => match uint_of_bytes r with
         | Some u => if N.of_uint u <? usize_limit then Some (N.of_uint u) else None
         | None => None
         end
  end.
Proof. intros r. reflexivity. Qed.

Lemma to_dec_digits : forall n, Forall is_digit (to_dec n).
Proof. intros n. apply bytes_of_uint_digits. Qed.

Lemma to_uint_unorm : forall n, N.to_uint n = unorm (N.to_uint n).
Proof.
  intros n. rewrite <- DecimalN.Unsigned.to_of, DecimalN.Unsigned.of_to. reflexivity.
Qed.

Lemma to_dec_nonnil : forall n, to_dec n <> [].
Proof.
  intros n H. unfold to_dec in H.
  destruct (N.to_uint n) eqn:E; cbn [bytes_of_uint] in H; try discriminate H.
  rewrite to_uint_unorm in E. exact (unorm_nonnil _ E).
Qed.

Theorem decimal_roundtrip : forall n, n < usize_limit -> parse_usize (to_dec n) = Some n.
Proof.
  intros n Hn.
  pose proof (to_dec_digits n) as Hd. pose proof (to_dec_nonnil n) as Hne.
  assert (Hu : uint_of_bytes (to_dec n) = Some (N.to_uint n))
    by apply uint_of_bytes_of_uint.
  destruct (to_dec n) as [|c r]; [congruence|].
  inversion Hd as [|? ? Hc _]; subst.
  rewrite parse_usize_noplus by (unfold is_digit in Hc; lia).
  rewrite Hu, DecimalN.Unsigned.of_to.
  destruct (N.ltb_spec n usize_limit); [reflexivity|lia].
Qed.

(** [to_dec] produces digits only, at least one, and no leading zero except for 0 itself. *)
Theorem to_dec_shape : forall n,
  Forall is_digit (to_dec n) /\ to_dec n <> [] /\ (forall r, to_dec n = 48 :: r -> r = [] /\ n = 0).
Proof.
  intros n. split; [apply to_dec_digits|]. split; [apply to_dec_nonnil|].
  intros r Hr. unfold to_dec in Hr.
  destruct (N.to_uint n) as [|u|u|u|u|u|u|u|u|u|u] eqn:E;
    cbn [bytes_of_uint] in Hr; try discriminate Hr.
  injection Hr as Hr.
  pose proof (to_uint_unorm n) as Hun. rewrite E in Hun.
  unfold unorm in Hun. cbn [nzhead] in Hun.
  destruct (nzhead u) as [|u'|u'|u'|u'|u'|u'|u'|u'|u'|u'] eqn:En; try discriminate Hun.
  - injection Hun as Hun. subst u. cbn [bytes_of_uint] in Hr. split; [symmetry; exact Hr|].
    rewrite <- (DecimalN.Unsigned.of_to n), E. reflexivity.
  - exfalso. exact (nzhead_nonzero _ _ En).
Qed.

(** What [parse_usize] accepts: an optional single '+', then one or more digits, value below 2^64. *)
Theorem parse_usize_some : forall s v, parse_usize s = Some v ->
  exists ds, (s = ds \/ s = 43 :: ds) /\ ds <> [] /\ Forall is_digit ds /\ v < usize_limit.
Proof.
  intros s v H. destruct s as [|c r]; [discriminate H|].
  destruct (N.eq_dec c 43) as [->|Hc].
  - rewrite parse_usize_plus in H. destruct r as [|c' r']; [discriminate H|].
    destruct (uint_of_bytes (c' :: r')) as [u|] eqn:Eu; [|discriminate H].
    destruct (N.ltb_spec (N.of_uint u) usize_limit) as [Hlt|_]; [|discriminate H].
    injection H as <-. exists (c' :: r').
    split; [right; reflexivity|]. split; [discriminate|].
    split; [exact (uint_of_bytes_digits _ _ Eu)|exact Hlt].
  - rewrite (parse_usize_noplus _ _ Hc) in H.
    destruct (uint_of_bytes (c :: r)) as [u|] eqn:Eu; [|discriminate H].
    destruct (N.ltb_spec (N.of_uint u) usize_limit) as [Hlt|_]; [|discriminate H].
    injection H as <-. exists (c :: r).
    split; [left; reflexivity|]. split; [discriminate|].
    split; [exact (uint_of_bytes_digits _ _ Eu)|exact Hlt].
Qed.

Theorem parse_usize_nondigit : forall s, (exists b, In b s /\ ~ is_digit b /\ b <> 43) -> parse_usize s = None.
Proof.
  intros s (b & Hin & Hnd & Hb). destruct s as [|c r]; [reflexivity|].
  destruct (N.eq_dec c 43) as [->|Hc].
  - rewrite parse_usize_plus. destruct r as [|c' r']; [reflexivity|].
    destruct Hin as [E|Hin]; [congruence|].
    rewrite (uint_of_bytes_nondigit _ _ Hin Hnd). reflexivity.
  - rewrite (parse_usize_noplus _ _ Hc).
    rewrite (uint_of_bytes_nondigit _ _ Hin Hnd). reflexivity.
Qed.

(** ** Tables (stated over all of N, hence over the whole 16-bit range) *)

Ltac split_keys v fin :=
  repeat match goal with
  | |- context [N.eqb v ?k] =>
      destruct (N.eqb_spec v k) as [->|?]; [cbv iota; fin|]
  end; cbv iota.

Theorem opcode_inverse : forall v c, opcode_of_u16 v = Some c <-> u16_of_opcode c = v.
Proof.
  intros v c. split.
  - unfold opcode_of_u16, opcode_from_u16. cbn [assoc].
    split_keys v ltac:(intros [= <-]; reflexivity).
    intros H; discriminate H.
  - intros <-. destruct c; reflexivity.
Qed.

Theorem opcode_accepted_range : forall v, opcode_of_u16 v <> None <-> 1 <= v <= 6.
Proof.
  intros v. split.
  - unfold opcode_of_u16, opcode_from_u16. cbn [assoc].
    split_keys v ltac:(intros _; lia).
    intros H. exfalso. apply H. reflexivity.
  - intros H.
    assert (Hv : v = 1 \/ v = 2 \/ v = 3 \/ v = 4 \/ v = 5 \/ v = 6) by lia.
    repeat destruct Hv as [->|Hv]; try subst v; vm_compute; discriminate.
Qed.

Theorem errcode_inverse : forall v c, errcode_of_u16 v = Some c <-> u16_of_errcode c = v.
Proof.
  intros v c. split.
  - unfold errcode_of_u16, errcode_from_u16. cbn [assoc].
    split_keys v ltac:(intros [= <-]; reflexivity).
    intros H; discriminate H.
  - intros <-. destruct c; reflexivity.
Qed.

Theorem errcode_accepted_range : forall v, errcode_of_u16 v <> None <-> v <= 7.
Proof.
  intros v. split.
  - unfold errcode_of_u16, errcode_from_u16. cbn [assoc].
    split_keys v ltac:(intros _; lia).
    intros H. exfalso. apply H. reflexivity.
  - intros H.
    assert (Hv : v = 0 \/ v = 1 \/ v = 2 \/ v = 3 \/ v = 4 \/ v = 5 \/ v = 6 \/ v = 7) by lia.
    repeat destruct Hv as [->|Hv]; try subst v; vm_compute; discriminate.
Qed.

Theorem option_name_inverse : forall o, opt_of_name (opt_name o) = Some o.
Proof. intros o. destruct o; reflexivity. Qed.

Theorem option_name_recognised : forall o, recognise (opt_name o) = Some o.
Proof. intros o. destruct o; reflexivity. Qed.

(** ** RFC 1350 / 2347 layout, written with literal numbers and names (independent of the generated tables) *)

Lemma enc_opts_cons : forall o os, enc_opts (o :: os) = enc_opt o ++ enc_opts os.
Proof. reflexivity. Qed.

Lemma opt_name_rfc : forall o, opt_name o = rfc_opt_name o.
Proof. intros o. destruct o; reflexivity. Qed.

Lemma enc_opts_rfc : forall os, enc_opts os = rfc_opts os.
Proof.
  induction os as [|o os IH]; [reflexivity|].
  unfold enc_opts in *. cbn [flat_map rfc_opts]. rewrite IH. unfold enc_opt.
  rewrite opt_name_rfc. rewrite <- !app_assoc. reflexivity.
Qed.

Theorem encode_layout : forall p, encode p = rfc_layout p.
Proof.
  intros p. destruct p as [f m os|f m os|n d|n|c m|os];
    cbn [encode rfc_layout]; rewrite ?enc_opts_rfc; try reflexivity.
  destruct c; reflexivity.
Qed.

(** ** Helper lemmas: [to_string] *)

Lemma to_string_app : forall pre s post start z,
  start = length pre -> z = (length s + start)%nat ->
  nonul s -> utf8_valid s = true ->
  to_string (pre ++ s ++ 0 :: post) start = Ok (s, z).
Proof.
  intros pre s post start z Hstart Hz Hn Hu. subst start z.
  unfold to_string, slice_from.
  destruct (Nat.ltb_spec (length (pre ++ s ++ 0 :: post)) (length pre)) as [Hlt|_].
  - rewrite app_length in Hlt. lia.
  - cbn [bind]. rewrite (skipn_app_exact pre _ _ eq_refl).
    rewrite (find_zero_app s post Hn). cbv zeta.
    rewrite (firstn_app_exact s _ _ eq_refl), Hu. reflexivity.
Qed.

Lemma to_string_ok : forall buf start s z, to_string buf start = Ok (s, z) ->
  (start <= length buf)%nat /\ z = (length s + start)%nat /\ (z < length buf)%nat /\
  utf8_valid s = true /\ nonul s /\ skipn start buf = s ++ 0 :: skipn (S z) buf.
Proof.
  intros buf start s z H. unfold to_string, slice_from in H.
  destruct (Nat.ltb_spec (length buf) start) as [Hlt|Hle]; cbn [bind] in H;
    [discriminate H|].
  cbv zeta in H.
  destruct (find_zero (skipn start buf)) as [idx|] eqn:Ef; [|discriminate H].
  destruct (utf8_valid (firstn idx (skipn start buf))) eqn:Eu; [|discriminate H].
  injection H as Hs Hz.
  destruct (find_zero_some _ _ Ef) as (Hi & Hn & Hsk).
  rewrite skipn_length in Hi.
  assert (Hlen : length s = idx).
  { rewrite <- Hs, firstn_length, skipn_length. lia. }
  split; [exact Hle|]. split; [lia|]. split; [lia|].
  split; [rewrite <- Hs; exact Eu|]. split; [rewrite <- Hs; exact Hn|].
  pose proof (firstn_skipn idx (skipn start buf)) as Hfs.
  rewrite Hs, Hsk, skipn_skipn' in Hfs.
  replace (S z) with (S idx + start)%nat by lia. symmetry. exact Hfs.
Qed.

Lemma to_string_cases : forall buf start, (start <= length buf)%nat ->
  (exists s z, to_string buf start = Ok (s, z)) \/
  (exists e, to_string buf start = Err e /\ e <> EFuel).
Proof.
  intros buf start Hle. unfold to_string, slice_from.
  destruct (Nat.ltb_spec (length buf) start) as [Hlt|_]; [lia|]. cbn [bind]. cbv zeta.
  destruct (find_zero (skipn start buf)) as [idx|].
  - destruct (utf8_valid (firstn idx (skipn start buf))).
    + left. eexists. eexists. reflexivity.
    + right. exists EUtf8. split; [reflexivity|discriminate].
  - right. exists ENoNul. split; [reflexivity|discriminate].
Qed.

(** A string whose terminator is the last byte of the buffer. *)
Lemma to_string_last : forall buf start s z,
  to_string buf start = Ok (s, z) -> (S z = length buf)%nat -> exists pre, buf = pre ++ [0].
Proof.
  intros buf start s z H Hz.
  destruct (to_string_ok _ _ _ _ H) as (_ & _ & _ & _ & _ & Hsk).
  assert (Hnil : skipn (S z) buf = []) by (apply skipn_all2; lia).
  rewrite Hnil in Hsk.
  exists (firstn start buf ++ s).
  rewrite <- app_assoc, <- Hsk, firstn_skipn. reflexivity.
Qed.

(** ** Helper lemmas: the option loop *)

Lemma parse_opts_done : forall f buf zi,
  (0 < length buf)%nat -> (length buf <= zi + 1)%nat -> parse_opts f buf zi = Ok [].
Proof.
  intros f buf zi H0 Hle.
  destruct f as [|f]; cbn [parse_opts];
    (destruct (length buf) as [|lm1]; [lia|];
     destruct (Nat.ltb_spec zi lm1) as [Hlt|_]; [lia|reflexivity]).
Qed.

Lemma parse_opts_zero_lt : forall buf zi,
  (zi + 1 < length buf)%nat -> parse_opts 0 buf zi = Err EFuel.
Proof.
  intros buf zi H. cbn [parse_opts]. destruct (length buf) as [|lm1]; [lia|].
  destruct (Nat.ltb_spec zi lm1) as [_|Hge]; [reflexivity|lia].
Qed.

Lemma parse_opts_more : forall f buf zi, (zi + 1 < length buf)%nat ->
  parse_opts (S f) buf zi =
  (do (name, zi1) <- to_string buf (zi + 1);
   do (val, zi2) <- to_string buf (zi1 + 1);
   match recognise name with
   | Some ty =>
     match parse_usize val with
     | Some v => do os <- parse_opts f buf zi2; Ok (mk_opt ty v :: os)
     | None => Err ENum
     end
   | None => parse_opts f buf zi2
   end).
Proof.
  intros f buf zi H. cbn [parse_opts]. destruct (length buf) as [|lm1]; [lia|].
  destruct (Nat.ltb_spec zi lm1) as [_|Hge]; [reflexivity|lia].
Qed.

Lemma parse_opts_turn_known : forall f buf zi name z1 val z2 ty,
  (zi + 1 < length buf)%nat ->
  to_string buf (zi + 1) = Ok (name, z1) -> to_string buf (z1 + 1) = Ok (val, z2) ->
  recognise name = Some ty ->
  parse_opts (S f) buf zi =
  match parse_usize val with
  | Some v => do os <- parse_opts f buf z2; Ok (mk_opt ty v :: os)
  | None => Err ENum
  end.
Proof.
  intros f buf zi name z1 val z2 ty Hlt H1 H2 Hr.
  rewrite (parse_opts_more _ _ _ Hlt), H1. cbn [bind]. rewrite H2. cbn [bind].
  rewrite Hr. reflexivity.
Qed.

Lemma parse_opts_turn_unknown : forall f buf zi name z1 val z2,
  (zi + 1 < length buf)%nat ->
  to_string buf (zi + 1) = Ok (name, z1) -> to_string buf (z1 + 1) = Ok (val, z2) ->
  recognise name = None ->
  parse_opts (S f) buf zi = parse_opts f buf z2.
Proof.
  intros f buf zi name z1 val z2 Hlt H1 H2 Hr.
  rewrite (parse_opts_more _ _ _ Hlt), H1. cbn [bind]. rewrite H2. cbn [bind].
  rewrite Hr. reflexivity.
Qed.

Lemma opt_name_wf : forall ty, nonul (opt_name ty) /\ utf8_valid (opt_name ty) = true.
Proof.
  intros ty. destruct ty; (split; [apply nonulb_sound; reflexivity|reflexivity]).
Qed.

Lemma digits_nonul : forall s, Forall is_digit s -> nonul s.
Proof.
  intros s. apply nonul_Forall. unfold is_digit. intros b Hb. lia.
Qed.

Lemma digits_utf8 : forall s, Forall is_digit s -> utf8_valid s = true.
Proof.
  intros s H. apply utf8_valid_ascii. eapply Forall_impl; [|exact H].
  unfold is_digit. intros b Hb. cbv beta. lia.
Qed.

Lemma enc_opt_length : forall o, (2 <= length (enc_opt o))%nat.
Proof. intros o. unfold enc_opt. len. lia. Qed.

Lemma enc_opts_length : forall os, (length os <= length (enc_opts os))%nat.
Proof.
  induction os as [|o os IH]; [cbn [length]; lia|].
  rewrite enc_opts_cons. len. pose proof (enc_opt_length o). lia.
Qed.

(** The loop run over an encoded option list consumes it exactly. *)
Lemma parse_opts_enc : forall os pre rest fuel res,
  (1 <= length pre)%nat -> Forall wf_opt os ->
  parse_opts fuel (pre ++ enc_opts os ++ rest) (length pre + length (enc_opts os) - 1) = Ok res ->
  parse_opts (length os + fuel) (pre ++ enc_opts os ++ rest) (length pre - 1) = Ok (os ++ res).
Proof.
  induction os as [|o os IH]; intros pre rest fuel res Hpre Hwf Hrest.
  - cbn [enc_opts flat_map length app Nat.add] in *.
    rewrite Nat.add_0_r in Hrest. exact Hrest.
  - inversion Hwf as [|o' os' Ho Hos]; subst o' os'.
    destruct o as [ty v]. unfold wf_opt in Ho. cbn [o_val] in Ho.
    destruct (opt_name_wf ty) as [Hnn Hnu].
    pose proof (to_dec_digits v) as Hdd.
    remember (pre ++ enc_opts (mk_opt ty v :: os) ++ rest) as buf eqn:Ebuf.
    assert (HA : buf = pre ++ opt_name ty ++ 0 :: (to_dec v ++ 0 :: enc_opts os ++ rest)).
    { rewrite Ebuf, enc_opts_cons. unfold enc_opt. cbn [o_type o_val].
      repeat rewrite <- app_assoc. reflexivity. }
    assert (HB : buf = (pre ++ opt_name ty ++ [0]) ++ to_dec v ++ 0 :: (enc_opts os ++ rest)).
    { rewrite HA. repeat rewrite <- app_assoc. reflexivity. }
    assert (Hlo : length (enc_opt (mk_opt ty v))
                  = (length (opt_name ty) + 1 + length (to_dec v) + 1)%nat).
    { unfold enc_opt. cbn [o_type o_val]. len. lia. }
    assert (HC : buf = (pre ++ enc_opt (mk_opt ty v)) ++ enc_opts os ++ rest).
    { rewrite Ebuf, enc_opts_cons. repeat rewrite <- app_assoc. reflexivity. }
    assert (Hlen : length buf = (length pre + length (enc_opt (mk_opt ty v))
                                 + length (enc_opts os ++ rest))%nat).
    { rewrite HC. len. lia. }
    assert (HI : parse_opts (length os + fuel) buf
                   (length pre + length (opt_name ty) + 1 + length (to_dec v))
                 = Ok (os ++ res)).
    { specialize (IH (pre ++ enc_opt (mk_opt ty v)) rest fuel res).
      rewrite <- HC in IH.
      replace (length pre + length (opt_name ty) + 1 + length (to_dec v))%nat
        with (length (pre ++ enc_opt (mk_opt ty v)) - 1)%nat
        by (rewrite app_length, Hlo; lia).
      apply IH; [rewrite app_length; lia|exact Hos|].
      rewrite <- Hrest. f_equal. rewrite enc_opts_cons. rewrite !app_length. lia. }
    cbn [length Nat.add].
    rewrite (parse_opts_turn_known (length os + fuel) buf (length pre - 1)
               (opt_name ty) (length pre + length (opt_name ty))%nat
               (to_dec v) (length pre + length (opt_name ty) + 1 + length (to_dec v))%nat ty).
    + rewrite (decimal_roundtrip v Ho), HI. reflexivity.
    + lia.
    + replace (length pre - 1 + 1)%nat with (length pre) by lia. rewrite HA.
      apply to_string_app; [reflexivity|lia|exact Hnn|exact Hnu].
    + rewrite HB.
      apply to_string_app;
        [len; lia|lia|exact (digits_nonul _ Hdd)|exact (digits_utf8 _ Hdd)].
    + apply option_name_recognised.
Qed.

(** ** Helper lemmas: [decode] unfolded on concrete prefixes (all by computation) *)

Lemma decode_nil : decode [] = Err EShort.
Proof. reflexivity. Qed.

Lemma decode_single : forall a, decode [a] = Err EShort.
Proof. reflexivity. Qed.

Lemma decode_cons2 : forall a b rest,
  decode (a :: b :: rest) =
  match opcode_of_u16 (a * 256 + b) with
  | None => Err EOpcode
  | Some OpRrq => parse_rq (a :: b :: rest) OpRrq
  | Some OpWrq => parse_rq (a :: b :: rest) OpWrq
  | Some OpData => parse_data (a :: b :: rest)
  | Some OpAck => parse_ack (a :: b :: rest)
  | Some OpOack => parse_oack (a :: b :: rest)
  | Some OpError => parse_error (a :: b :: rest)
  end.
Proof. reflexivity. Qed.

Lemma parse_data_2 : forall a b, parse_data [a; b] = Err EU16.
Proof. reflexivity. Qed.
Lemma parse_data_3 : forall a b c, parse_data [a; b; c] = Err EU16.
Proof. reflexivity. Qed.
Lemma parse_data_4 : forall a b c d r,
  parse_data (a :: b :: c :: d :: r) = Ok (Data (c * 256 + d) r).
Proof. reflexivity. Qed.

Lemma parse_ack_2 : forall a b, parse_ack [a; b] = Err EU16.
Proof. reflexivity. Qed.
Lemma parse_ack_3 : forall a b c, parse_ack [a; b; c] = Err EU16.
Proof. reflexivity. Qed.
Lemma parse_ack_4 : forall a b c d r,
  parse_ack (a :: b :: c :: d :: r) = Ok (Ack (c * 256 + d)).
Proof. reflexivity. Qed.

Lemma parse_error_2 : forall a b, parse_error [a; b] = Err EU16.
Proof. reflexivity. Qed.
Lemma parse_error_3 : forall a b c, parse_error [a; b; c] = Err EU16.
Proof. reflexivity. Qed.
Lemma parse_error_4 : forall a b c d r,
  parse_error (a :: b :: c :: d :: r) =
  match errcode_of_u16 (c * 256 + d) with
  | None => Err EErrCode
  | Some code =>
    match to_string (a :: b :: c :: d :: r) 4 with
    | Ok (m, _) => Ok (Error code m)
    | Err _ => Ok (Error code no_message)
    | Panic => Panic
    | Abort => Abort
    end
  end.
Proof. reflexivity. Qed.

Lemma u16_recompose : forall n, n / 256 * 256 + n mod 256 = n.
Proof. intros n. rewrite N.mul_comm. symmetry. apply N.div_mod'. Qed.

(** A request laid out as name, mode, encoded options and some remainder. *)
Lemma parse_rq_enc : forall a b f m os rest res op buf,
  buf = a :: b :: f ++ 0 :: m ++ 0 :: enc_opts os ++ rest ->
  wf_str f -> wf_str m -> Forall wf_opt os ->
  parse_opts (length buf - length os) buf
    (length f + length m + 3 + length (enc_opts os)) = Ok res ->
  parse_rq buf op =
  match op with
  | OpRrq => Ok (Rrq f m (os ++ res))
  | OpWrq => Ok (Wrq f m (os ++ res))
  | _ => Err EOpcode
  end.
Proof.
  intros a b f m os rest res op buf Ebuf [Hfu Hfn] [Hmu Hmn] Hos Hrest.
  assert (H1 : to_string buf 2 = Ok (f, (length f + 2)%nat)).
  { rewrite Ebuf.
    apply (to_string_app [a; b] f (m ++ 0 :: enc_opts os ++ rest));
      [reflexivity|reflexivity|exact Hfn|exact Hfu]. }
  assert (H2 : to_string buf (length f + 2 + 1)
               = Ok (m, (length m + (length f + 2 + 1))%nat)).
  { replace buf with ((a :: b :: f ++ [0]) ++ m ++ 0 :: (enc_opts os ++ rest)).
    - apply to_string_app; [len; lia|reflexivity|exact Hmn|exact Hmu].
    - rewrite Ebuf. cbn [app]. rewrite <- app_assoc. reflexivity. }
  assert (H3 : parse_opts (length buf) buf (length m + (length f + 2 + 1)) = Ok (os ++ res)).
  { pose proof (enc_opts_length os) as Hel.
    assert (HP : buf = (a :: b :: f ++ 0 :: m ++ [0]) ++ enc_opts os ++ rest).
    { rewrite Ebuf. cbn [app]. rewrite <- app_assoc. cbn [app].
      rewrite <- app_assoc. reflexivity. }
    assert (Hpl : length (a :: b :: f ++ 0 :: m ++ [0]) = (length f + length m + 4)%nat).
    { len. lia. }
    assert (Hlb : (length os <= length buf)%nat).
    { rewrite HP. rewrite !app_length. lia. }
    pose proof (parse_opts_enc os (a :: b :: f ++ 0 :: m ++ [0]) rest
                  (length buf - length os) res) as HE.
    rewrite <- HP, Hpl in HE.
    replace (length os + (length buf - length os))%nat with (length buf) in HE by lia.
    replace (length m + (length f + 2 + 1))%nat
      with (length f + length m + 4 - 1)%nat by lia.
    apply HE; [lia|exact Hos|].
    rewrite <- Hrest. f_equal. lia. }
  unfold parse_rq. rewrite H1. cbn [bind]. rewrite H2. cbn [bind]. rewrite H3. cbn [bind].
  destruct op; reflexivity.
Qed.

Lemma decode_rrq : forall rest, decode (0 :: 1 :: rest) = parse_rq (0 :: 1 :: rest) OpRrq.
Proof. reflexivity. Qed.
Lemma decode_wrq : forall rest, decode (0 :: 2 :: rest) = parse_rq (0 :: 2 :: rest) OpWrq.
Proof. reflexivity. Qed.
Lemma decode_data : forall rest, decode (0 :: 3 :: rest) = parse_data (0 :: 3 :: rest).
Proof. reflexivity. Qed.
Lemma decode_ack : forall rest, decode (0 :: 4 :: rest) = parse_ack (0 :: 4 :: rest).
Proof. reflexivity. Qed.
Lemma decode_error : forall rest, decode (0 :: 5 :: rest) = parse_error (0 :: 5 :: rest).
Proof. reflexivity. Qed.
Lemma decode_oack : forall rest, decode (0 :: 6 :: rest) = parse_oack (0 :: 6 :: rest).
Proof. reflexivity. Qed.

Lemma decode_rq_plain : forall b op f m os buf,
  buf = 0 :: b :: f ++ 0 :: m ++ 0 :: enc_opts os ->
  wf_str f -> wf_str m -> Forall wf_opt os ->
  parse_rq buf op =
  match op with
  | OpRrq => Ok (Rrq f m os)
  | OpWrq => Ok (Wrq f m os)
  | _ => Err EOpcode
  end.
Proof.
  intros b op f m os buf Ebuf Hf Hm Hos.
  pose proof (parse_rq_enc 0 b f m os [] [] op buf) as HR.
  rewrite !app_nil_r in HR. apply HR; [exact Ebuf|exact Hf|exact Hm|exact Hos|].
  apply parse_opts_done; rewrite Ebuf; len; lia.
Qed.

(** ** Round trip *)

Theorem decode_encode : forall p, wf p -> decode (encode p) = Ok p.
Proof.
  intros p Hwf. rewrite encode_layout.
  destruct p as [f m os|f m os|n d|n|c m|os]; cbn [rfc_layout wf] in *.
  - destruct Hwf as (Hf & Hm & Hos). rewrite <- enc_opts_rfc, decode_rrq.
    exact (decode_rq_plain 1 OpRrq f m os _ eq_refl Hf Hm Hos).
  - destruct Hwf as (Hf & Hm & Hos). rewrite <- enc_opts_rfc, decode_wrq.
    exact (decode_rq_plain 2 OpWrq f m os _ eq_refl Hf Hm Hos).
  - rewrite decode_data, parse_data_4, u16_recompose. reflexivity.
  - rewrite decode_ack, parse_ack_4, u16_recompose. reflexivity.
  - destruct Hwf as [Hmu Hmn]. rewrite decode_error, parse_error_4.
    replace (errcode_of_u16 (0 * 256 + rfc_errcode c)) with (Some c)
      by (destruct c; reflexivity).
    assert (HT : to_string (0 :: 5 :: 0 :: rfc_errcode c :: m ++ [0]) 4
                 = Ok (m, (length m + 4)%nat))
      by exact (to_string_app [0; 5; 0; rfc_errcode c] m [] 4 (length m + 4)%nat
                  eq_refl eq_refl Hmn Hmu).
    rewrite HT. reflexivity.
  - rewrite <- enc_opts_rfc, decode_oack. unfold parse_oack.
    pose proof (enc_opts_length os) as Hel.
    pose proof (parse_opts_enc os [0; 6] [] (length (0 :: 6 :: enc_opts os) - length os) [])
      as HE.
    rewrite !app_nil_r in HE. cbn [app length] in HE.
    replace (length os + (S (S (length (enc_opts os))) - length os))%nat
      with (S (S (length (enc_opts os)))) in HE by lia.
    cbn [length]. change (2 - 1)%nat with 1%nat in HE.
    rewrite HE; [reflexivity|lia|exact Hwf|].
    apply parse_opts_done; cbn [length]; lia.
Qed.

(** ** Totality *)

(** Outcome classification: a well-formed packet (given byte-sized input) or a
    genuine error. *)
Definition good (buf : bytes) (r : res packet) : Prop :=
  (exists p, r = Ok p /\ (all_bytes buf -> wf p)) \/ (exists e, r = Err e /\ e <> EFuel).

Lemma parse_opts_total : forall fuel buf zi,
  (zi < length buf)%nat -> (length buf <= fuel + zi)%nat ->
  (exists os, parse_opts fuel buf zi = Ok os /\ Forall wf_opt os) \/
  (exists e, parse_opts fuel buf zi = Err e /\ e <> EFuel).
Proof.
  induction fuel as [|f IH]; intros buf zi Hlt Hfuel; [lia|].
  destruct (Nat.lt_ge_cases (zi + 1) (length buf)) as [Hmore|Hdone].
  - rewrite (parse_opts_more _ _ _ Hmore).
    destruct (to_string_cases buf (zi + 1)) as [(name & z1 & H1)|(e & H1 & He)]; [lia| |].
    + rewrite H1. cbn [bind].
      destruct (to_string_ok _ _ _ _ H1) as (_ & Hz1 & Hlt1 & _).
      destruct (to_string_cases buf (z1 + 1)) as [(val & z2 & H2)|(e & H2 & He)]; [lia| |].
      * rewrite H2. cbn [bind].
        destruct (to_string_ok _ _ _ _ H2) as (_ & Hz2 & Hlt2 & _).
        assert (Hrec : (exists os, parse_opts f buf z2 = Ok os /\ Forall wf_opt os) \/
                       (exists e, parse_opts f buf z2 = Err e /\ e <> EFuel))
          by (apply IH; lia).
        destruct (recognise name) as [ty|]; [|exact Hrec].
        destruct (parse_usize val) as [v|] eqn:Ev.
        -- destruct Hrec as [(os & H3 & Hos)|(e & H3 & He)]; rewrite H3; cbn [bind].
           ++ left. eexists. split; [reflexivity|]. constructor; [|exact Hos].
              destruct (parse_usize_some _ _ Ev) as (ds & _ & _ & _ & Hv). exact Hv.
           ++ right. exists e. split; [reflexivity|exact He].
        -- right. exists ENum. split; [reflexivity|discriminate].
      * rewrite H2. cbn [bind]. right. exists e. split; [reflexivity|exact He].
    + rewrite H1. cbn [bind]. right. exists e. split; [reflexivity|exact He].
  - rewrite parse_opts_done by lia. left. exists []. split; [reflexivity|constructor].
Qed.

Lemma parse_rq_good : forall buf op, (2 <= length buf)%nat -> op = OpRrq \/ op = OpWrq ->
  good buf (parse_rq buf op).
Proof.
  intros buf op Hlen Hop. unfold good, parse_rq.
  destruct (to_string_cases buf 2 Hlen) as [(f & z1 & H1)|(e & H1 & He)].
  - rewrite H1. cbn [bind].
    destruct (to_string_ok _ _ _ _ H1) as (_ & Hz1 & Hlt1 & Hfu & Hfn & _).
    destruct (to_string_cases buf (z1 + 1)) as [(m & z2 & H2)|(e & H2 & He)]; [lia| |].
    + rewrite H2. cbn [bind].
      destruct (to_string_ok _ _ _ _ H2) as (_ & Hz2 & Hlt2 & Hmu & Hmn & _).
      destruct (parse_opts_total (length buf) buf z2) as [(os & H3 & Hos)|(e & H3 & He)];
        [lia|lia| |].
      * rewrite H3. cbn [bind]. left.
        destruct Hop as [Hop|Hop]; subst op; eexists; (split; [reflexivity|]);
          intros _; cbn [wf]; unfold wf_str; repeat split; assumption.
      * rewrite H3. cbn [bind]. right. exists e. split; [reflexivity|exact He].
    + rewrite H2. cbn [bind]. right. exists e. split; [reflexivity|exact He].
  - rewrite H1. cbn [bind]. right. exists e. split; [reflexivity|exact He].
Qed.

Lemma all_bytes_cons_inv : forall x l, all_bytes (x :: l) -> x < 256 /\ all_bytes l.
Proof.
  intros x l H. split; [exact (Forall_inv H)|exact (Forall_inv_tail H)].
Qed.

Lemma u16_bound : forall a b c d r, all_bytes (a :: b :: c :: d :: r) -> wf_u16 (c * 256 + d).
Proof.
  intros a b c d r H.
  apply all_bytes_cons_inv in H. destruct H as [_ H].
  apply all_bytes_cons_inv in H. destruct H as [_ H].
  apply all_bytes_cons_inv in H. destruct H as [Hc H].
  apply all_bytes_cons_inv in H. destruct H as [Hd _].
  unfold wf_u16. lia.
Qed.

Lemma no_message_wf : wf_str no_message.
Proof. split; [reflexivity|apply nonulb_sound; reflexivity]. Qed.

Lemma bad_u16_good : forall buf, good buf (Err EU16).
Proof. intros buf. right. exists EU16. split; [reflexivity|discriminate]. Qed.

Lemma decode_cases : forall buf, good buf (decode buf).
Proof.
  intros buf. destruct buf as [|a [|b rest]].
  - right. exists EShort. split; [reflexivity|discriminate].
  - right. exists EShort. split; [reflexivity|discriminate].
  - rewrite decode_cons2.
    destruct (opcode_of_u16 (a * 256 + b)) as [[]|].
    + apply parse_rq_good; [cbn [length]; lia|left; reflexivity].
    + apply parse_rq_good; [cbn [length]; lia|right; reflexivity].
    + destruct rest as [|c [|d r]].
      * rewrite parse_data_2. apply bad_u16_good.
      * rewrite parse_data_3. apply bad_u16_good.
      * rewrite parse_data_4. left. eexists. split; [reflexivity|].
        intros Hb. cbn [wf]. exact (u16_bound _ _ _ _ _ Hb).
    + destruct rest as [|c [|d r]].
      * rewrite parse_ack_2. apply bad_u16_good.
      * rewrite parse_ack_3. apply bad_u16_good.
      * rewrite parse_ack_4. left. eexists. split; [reflexivity|].
        intros Hb. cbn [wf]. exact (u16_bound _ _ _ _ _ Hb).
    + destruct rest as [|c [|d r]].
      * rewrite parse_error_2. apply bad_u16_good.
      * rewrite parse_error_3. apply bad_u16_good.
      * rewrite parse_error_4.
        destruct (errcode_of_u16 (c * 256 + d)) as [code|].
        -- destruct (to_string_cases (a :: b :: c :: d :: r) 4) as [(m & z & H)|(e & H & _)];
             [cbn [length]; lia| |].
           ++ rewrite H. left. eexists. split; [reflexivity|]. intros _. cbn [wf].
              destruct (to_string_ok _ _ _ _ H) as (_ & _ & _ & Hmu & Hmn & _).
              split; assumption.
           ++ rewrite H. left. eexists. split; [reflexivity|]. intros _. cbn [wf].
              exact no_message_wf.
        -- right. exists EErrCode. split; [reflexivity|discriminate].
    + unfold parse_oack.
      destruct (parse_opts_total (length (a :: b :: rest)) (a :: b :: rest) 1)
        as [(os & H3 & Hos)|(e & H3 & He)]; [cbn [length]; lia|lia| |].
      * rewrite H3. cbn [bind]. left. eexists. split; [reflexivity|]. intros _. exact Hos.
      * rewrite H3. cbn [bind]. right. exists e. split; [reflexivity|exact He].
    + right. exists EOpcode. split; [reflexivity|discriminate].
Qed.

Theorem decode_never_panics : forall buf,
  decode buf <> Panic /\ decode buf <> Abort /\ decode buf <> Err EFuel.
Proof.
  intros buf. destruct (decode_cases buf) as [(p & H & _)|(e & H & He)]; rewrite H.
  - repeat split; discriminate.
  - repeat split; try discriminate. intros E. injection E as E. exact (He E).
Qed.

Theorem decode_total : forall buf, (exists p, decode buf = Ok p) \/ (exists e, decode buf = Err e /\ e <> EFuel).
Proof.
  intros buf. destruct (decode_cases buf) as [(p & H & _)|(e & H & He)].
  - left. exists p. exact H.
  - right. exists e. split; [exact H|exact He].
Qed.

(** ** Rejections *)

Theorem reject_short : forall buf, (length buf < 2)%nat -> decode buf = Err EShort.
Proof.
  intros buf H. destruct buf as [|a [|b rest]]; [reflexivity|reflexivity|].
  cbn [length] in H. lia.
Qed.

Theorem reject_unknown_opcode : forall a b rest,
  opcode_of_u16 (a * 256 + b) = None -> decode (a :: b :: rest) = Err EOpcode.
Proof.
  intros a b rest H. rewrite decode_cons2, H. reflexivity.
Qed.

Theorem reject_short_header : forall a b rest o,
  opcode_of_u16 (a * 256 + b) = Some o -> (o = OpData \/ o = OpAck \/ o = OpError) ->
  (length rest < 2)%nat -> decode (a :: b :: rest) = Err EU16.
Proof.
  intros a b rest o Ho Hcase Hlen. rewrite decode_cons2, Ho.
  destruct rest as [|c [|d r]]; [| |cbn [length] in Hlen; lia];
    destruct Hcase as [Hc|[Hc|Hc]]; subst o; reflexivity.
Qed.

Theorem reject_bad_errcode : forall a b c d rest,
  opcode_of_u16 (a * 256 + b) = Some OpError -> errcode_of_u16 (c * 256 + d) = None ->
  decode (a :: b :: c :: d :: rest) = Err EErrCode.
Proof.
  intros a b c d rest Ho He. rewrite decode_cons2, Ho, parse_error_4, He. reflexivity.
Qed.

(** A request whose file name or mode lacks its terminator is rejected. *)
Theorem reject_request_without_nul : forall a b rest o,
  opcode_of_u16 (a * 256 + b) = Some o -> (o = OpRrq \/ o = OpWrq) ->
  (forall f m tail, rest <> f ++ 0 :: m ++ 0 :: tail) ->
  exists e, decode (a :: b :: rest) = Err e.
Proof.
  intros a b rest o Ho Hcase Hno. rewrite decode_cons2, Ho.
  assert (Hrq : exists e, parse_rq (a :: b :: rest) o = Err e).
  { unfold parse_rq. set (buf := a :: b :: rest).
    destruct (to_string_cases buf 2) as [(f & z1 & H1)|(e & H1 & _)];
      [unfold buf; cbn [length]; lia| |].
    - rewrite H1. cbn [bind].
      destruct (to_string_ok _ _ _ _ H1) as (_ & _ & Hlt1 & _ & _ & Hsk1).
      destruct (to_string_cases buf (z1 + 1)) as [(m & z2 & H2)|(e & H2 & _)]; [lia| |].
      + exfalso.
        destruct (to_string_ok _ _ _ _ H2) as (_ & _ & _ & _ & _ & Hsk2).
        replace (S z1) with (z1 + 1)%nat in Hsk1 by lia. rewrite Hsk2 in Hsk1.
        unfold buf in Hsk1 at 1. cbn [skipn] in Hsk1.
        exact (Hno f m _ Hsk1).
      + rewrite H2. cbn [bind]. exists e. reflexivity.
    - rewrite H1. cbn [bind]. exists e. reflexivity. }
  destruct Hcase as [Hc|Hc]; subst o; exact Hrq.
Qed.

(** If the loop accepts, it stopped on the last byte; when it made at least one
    turn that byte is the NUL closing the last value. *)
Lemma parse_opts_end : forall fuel buf zi os,
  parse_opts fuel buf zi = Ok os -> (zi < length buf)%nat ->
  (zi + 1 = length buf)%nat \/ exists pre, buf = pre ++ [0].
Proof.
  induction fuel as [|f IH]; intros buf zi os H Hlt.
  - destruct (Nat.lt_ge_cases (zi + 1) (length buf)) as [Hmore|Hdone]; [|left; lia].
    rewrite (parse_opts_zero_lt _ _ Hmore) in H. discriminate H.
  - destruct (Nat.lt_ge_cases (zi + 1) (length buf)) as [Hmore|Hdone]; [|left; lia].
    right. rewrite (parse_opts_more _ _ _ Hmore) in H.
    destruct (to_string buf (zi + 1)) as [[name z1]|e| |] eqn:E1;
      cbn [bind] in H; try discriminate H.
    destruct (to_string buf (z1 + 1)) as [[val z2]|e| |] eqn:E2;
      cbn [bind] in H; try discriminate H.
    destruct (to_string_ok _ _ _ _ E2) as (_ & _ & Hz2 & _).
    assert (HR : exists os', parse_opts f buf z2 = Ok os').
    { destruct (recognise name) as [ty|].
      - destruct (parse_usize val) as [v|]; [|discriminate H].
        destruct (parse_opts f buf z2) as [os'|e| |]; cbn [bind] in H; try discriminate H.
        exists os'. reflexivity.
      - exists os. exact H. }
    destruct HR as (os' & HR).
    destruct (IH buf z2 os' HR Hz2) as [Hend|Hex]; [|exact Hex].
    eapply to_string_last; [exact E2|lia].
Qed.

Lemma parse_rq_end : forall buf op p, parse_rq buf op = Ok p -> exists pre, buf = pre ++ [0].
Proof.
  intros buf op p H. unfold parse_rq in H.
  destruct (to_string buf 2) as [[f z1]|e| |] eqn:E1; cbn [bind] in H; try discriminate H.
  destruct (to_string buf (z1 + 1)) as [[m z2]|e| |] eqn:E2;
    cbn [bind] in H; try discriminate H.
  destruct (parse_opts (length buf) buf z2) as [os|e| |] eqn:E3;
    cbn [bind] in H; try discriminate H.
  destruct (to_string_ok _ _ _ _ E2) as (_ & _ & Hz2 & _).
  destruct (parse_opts_end _ _ _ _ E3 Hz2) as [Hend|Hex]; [|exact Hex].
  eapply to_string_last; [exact E2|lia].
Qed.

Lemma parse_data_shape : forall buf p, parse_data buf = Ok p -> exists n d, p = Data n d.
Proof.
  intros buf p. unfold parse_data.
  destruct (slice_from buf 2) as [t|e| |]; cbn [bind]; try discriminate.
  destruct (to_u16 t) as [n|e| |]; cbn [bind]; try discriminate.
  destruct (slice_from buf 4) as [d|e| |]; cbn [bind]; try discriminate.
  intros H. injection H as <-. exists n, d. reflexivity.
Qed.

Lemma parse_ack_shape : forall buf p, parse_ack buf = Ok p -> exists n, p = Ack n.
Proof.
  intros buf p. unfold parse_ack.
  destruct (slice_from buf 2) as [t|e| |]; cbn [bind]; try discriminate.
  destruct (to_u16 t) as [n|e| |]; cbn [bind]; try discriminate.
  intros H. injection H as <-. exists n. reflexivity.
Qed.

Lemma parse_error_shape : forall buf p, parse_error buf = Ok p -> exists c m, p = Error c m.
Proof.
  intros buf p. unfold parse_error.
  destruct (slice_from buf 2) as [t|e| |]; cbn [bind]; try discriminate.
  destruct (to_u16 t) as [n|e| |]; cbn [bind]; try discriminate.
  destruct (errcode_of_u16 n) as [c|]; try discriminate.
  destruct (to_string buf 4) as [[m z]|e| |]; try discriminate;
    intros H; injection H as <-; eexists; eexists; reflexivity.
Qed.

(** An accepted request (or non-empty OACK) ends with a NUL: no dangling, unterminated option text. *)
Theorem accepted_request_ends_with_nul : forall buf p,
  decode buf = Ok p ->
  match p with
  | Rrq _ _ _ | Wrq _ _ _ => exists pre, buf = pre ++ [0]
  | Oack _ => (length buf = 2)%nat \/ exists pre, buf = pre ++ [0]
  | _ => True
  end.
Proof.
  intros buf p H. destruct buf as [|a [|b rest]].
  - rewrite decode_nil in H. discriminate H.
  - rewrite decode_single in H. discriminate H.
  - rewrite decode_cons2 in H.
    destruct (opcode_of_u16 (a * 256 + b)) as [[]|]; [| | | | | |discriminate H].
    + destruct (parse_rq_end _ _ _ H) as [pre Hpre].
      destruct p; try exact I; [exists pre; exact Hpre|exists pre; exact Hpre|
                                 right; exists pre; exact Hpre].
    + destruct (parse_rq_end _ _ _ H) as [pre Hpre].
      destruct p; try exact I; [exists pre; exact Hpre|exists pre; exact Hpre|
                                 right; exists pre; exact Hpre].
    + destruct (parse_data_shape _ _ H) as (n & d & ->). exact I.
    + destruct (parse_ack_shape _ _ H) as (n & ->). exact I.
    + destruct (parse_error_shape _ _ H) as (c & m & ->). exact I.
    + unfold parse_oack in H.
      destruct (parse_opts (length (a :: b :: rest)) (a :: b :: rest) 1) as [os| | |] eqn:E3;
        cbn [bind] in H; try discriminate H.
      injection H as <-.
      destruct (parse_opts_end _ _ _ _ E3) as [Hend|Hex]; [cbn [length]; lia| |].
      * left. lia.
      * right. exact Hex.
Qed.

(** One turn of the option loop: a recognised name with a value that is not a number is an error. *)
Theorem reject_nonnumeric_option : forall f buf zi name z1 val z2 ty,
  (zi < length buf - 1)%nat ->
  to_string buf (zi + 1) = Ok (name, z1) -> to_string buf (z1 + 1) = Ok (val, z2) ->
  recognise name = Some ty -> parse_usize val = None ->
  parse_opts (S f) buf zi = Err ENum.
Proof.
  intros f buf zi name z1 val z2 ty Hlt H1 H2 Hr Hp.
  rewrite (parse_opts_turn_known f buf zi name z1 val z2 ty); [|lia|exact H1|exact H2|exact Hr].
  rewrite Hp. reflexivity.
Qed.

(** ** Stability of whatever is accepted *)

Theorem decode_ok_wf : forall buf p, all_bytes buf -> decode buf = Ok p -> wf p.
Proof.
  intros buf p Hb H. destruct (decode_cases buf) as [(p' & H' & Hwf)|(e & H' & _)].
  - rewrite H' in H. injection H as <-. exact (Hwf Hb).
  - rewrite H' in H. discriminate H.
Qed.

Theorem decode_stable : forall buf p, all_bytes buf -> decode buf = Ok p -> decode (encode p) = Ok p.
Proof.
  intros buf p Hb H. apply decode_encode. exact (decode_ok_wf buf p Hb H).
Qed.

(** Unknown option names are dropped, recognised ones kept in order (decoder side of C09). *)
Theorem decode_drops_unknown_options : forall f m os name val,
  wf (Rrq f m os) -> wf_str name -> wf_str val -> recognise name = None ->
  decode (encode (Rrq f m os) ++ name ++ 0 :: val ++ [0]) = Ok (Rrq f m os).
Proof.
  intros f m os name val Hwf [Hnu Hnn] [Hvu Hvn] Hrec.
  cbn [wf] in Hwf. destruct Hwf as (Hf & Hm & Hos).
  rewrite encode_layout. cbn [rfc_layout]. rewrite <- enc_opts_rfc.
  remember (name ++ 0 :: val ++ [0]) as rest eqn:Erest.
  remember (0 :: 1 :: f ++ 0 :: m ++ 0 :: enc_opts os ++ rest) as buf eqn:Ebuf.
  assert (HE : (0 :: 1 :: f ++ 0 :: m ++ 0 :: enc_opts os) ++ rest = buf).
  { rewrite Ebuf. cbn [app]. rewrite <- app_assoc. cbn [app]. rewrite <- app_assoc.
    reflexivity. }
  rewrite HE. rewrite Ebuf at 1. rewrite decode_rrq, <- Ebuf.
  pose proof (parse_rq_enc 0 1 f m os rest [] OpRrq buf Ebuf Hf Hm Hos) as HR.
  rewrite app_nil_r in HR. apply HR. clear HR.
  pose proof (enc_opts_length os) as Hel.
  set (pre := 0 :: 1 :: f ++ 0 :: m ++ 0 :: enc_opts os).
  assert (Hpl : length pre = (length f + length m + 4 + length (enc_opts os))%nat).
  { unfold pre. len. lia. }
  assert (Hbl : length buf = (length pre + length name + 1 + length val + 1)%nat).
  { rewrite <- HE, Erest. fold pre. len. lia. }
  destruct (length buf - length os)%nat as [|k] eqn:Ek; [lia|].
  rewrite (parse_opts_turn_unknown k buf (length f + length m + 3 + length (enc_opts os))
             name (length pre + length name)%nat
             val (length pre + length name + 1 + length val)%nat).
  - apply parse_opts_done; lia.
  - lia.
  - rewrite <- HE, Erest. fold pre. apply to_string_app; [lia|lia|exact Hnn|exact Hnu].
  - replace buf with ((pre ++ name ++ [0]) ++ val ++ 0 :: []).
    + apply to_string_app; [len; lia|lia|exact Hvn|exact Hvu].
    + rewrite <- HE, Erest. fold pre. repeat rewrite <- app_assoc. reflexivity.
  - exact Hrec.
Qed.
